#!/bin/bash
# Build the framework from files on disk only (offline): Coq development (full .vo), extraction, OCaml driver.
set -e
cd "$(dirname "$0")"
mkdir -p evidence replays
cd coq && coq_makefile -f _CoqProject -o Makefile > /dev/null && timeout 3000 make -j16 > ../coq_build.log 2>&1 || { tail -30 ../coq_build.log; exit 1; }
cd ../ocaml && coqc -Q ../coq PatchV ../coq/Extract.v > /dev/null && ocamlfind ocamlopt -w -a -O3 model.mli model.ml driver.ml -o model_driver
echo "setup ok"
