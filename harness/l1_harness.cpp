// l1_harness.cpp — L1 correspondence harness. Links libpatch.a built from /repo's working tree and
// calls the same functions the Gallina model defines, on the same case lines as ocaml/driver.ml,
// printing the same canonical result lines.
#include <patch/applier.h>
#include <patch/cmdline.h>
#include <patch/file.h>
#include <patch/formatter.h>
#include <patch/hunk.h>
#include <patch/locator.h>
#include <patch/options.h>
#include <patch/parser.h>
#include <patch/patch.h>
#include <patch/system.h>

#include <cstdio>
#include <cstdlib>
#include <cstring>
#include <iostream>
#include <sstream>
#include <string>
#include <vector>

using namespace Patch;

static int hexval(char c)
{
    if (c >= '0' && c <= '9')
        return c - '0';
    if (c >= 'a' && c <= 'f')
        return c - 'a' + 10;
    if (c >= 'A' && c <= 'F')
        return c - 'A' + 10;
    throw std::logic_error("bad hex");
}

static std::string unhex(const std::string& s)
{
    if (s == "-")
        return {};
    std::string out;
    for (size_t i = 0; i + 1 < s.size(); i += 2)
        out.push_back(static_cast<char>(hexval(s[i]) * 16 + hexval(s[i + 1])));
    return out;
}

static std::string hex(const std::string& s)
{
    if (s.empty())
        return "-";
    static const char* d = "0123456789abcdef";
    std::string out;
    for (unsigned char c : s) {
        out.push_back(d[c >> 4]);
        out.push_back(d[c & 15]);
    }
    return out;
}

static std::vector<std::string> split(const std::string& s, char c)
{
    std::vector<std::string> out;
    if (s == "-" || s.empty())
        return out;
    size_t start = 0;
    while (true) {
        size_t pos = s.find(c, start);
        if (pos == std::string::npos) {
            out.push_back(s.substr(start));
            break;
        }
        out.push_back(s.substr(start, pos - start));
        start = pos + 1;
    }
    return out;
}

static NewLine nl_of(char c)
{
    switch (c) {
    case 'L':
        return NewLine::LF;
    case 'C':
        return NewLine::CRLF;
    case 'N':
        return NewLine::None;
    }
    throw std::logic_error("bad nl");
}

static char char_of_nl(NewLine n)
{
    return n == NewLine::LF ? 'L' : n == NewLine::CRLF ? 'C' : 'N';
}

static Line line_of(const std::string& s)
{
    auto parts = split(s, ':');
    if (parts.size() != 2)
        throw std::logic_error("bad line " + s);
    return Line(unhex(parts[0]), nl_of(parts[1][0]));
}

static std::vector<Line> lines_of(const std::string& s)
{
    std::vector<Line> out;
    for (const auto& p : split(s, ','))
        out.push_back(line_of(p));
    return out;
}

static LineNumber num_of(const std::string& s)
{
    return static_cast<LineNumber>(std::strtoll(s.c_str(), nullptr, 10));
}

static Hunk hunk_of(const std::string& s)
{
    auto parts = split(s, '/');
    if (parts.size() == 4)
        parts.push_back("-");
    if (parts.size() != 5)
        throw std::logic_error("bad hunk " + s);
    Hunk h;
    h.old_file_range.start_line = num_of(parts[0]);
    h.old_file_range.number_of_lines = num_of(parts[1]);
    h.new_file_range.start_line = num_of(parts[2]);
    h.new_file_range.number_of_lines = num_of(parts[3]);
    for (const auto& p : split(parts[4], ',')) {
        char op = p[0] == '_' ? ' ' : p[0];
        h.lines.emplace_back(op, line_of(p.substr(1)));
    }
    return h;
}

static Format fmt_of(const std::string& s)
{
    if (s == "context")
        return Format::Context;
    if (s == "unified")
        return Format::Unified;
    if (s == "git")
        return Format::Git;
    if (s == "ed")
        return Format::Ed;
    if (s == "normal")
        return Format::Normal;
    return Format::Unknown;
}

static Operation oper_of(const std::string& s)
{
    if (s == "rename")
        return Operation::Rename;
    if (s == "copy")
        return Operation::Copy;
    if (s == "delete")
        return Operation::Delete;
    if (s == "add")
        return Operation::Add;
    if (s == "binary")
        return Operation::Binary;
    return Operation::Change;
}

static Options opts_of(const std::string& s)
{
    Options o;
    for (const auto& kv : split(s, ',')) {
        auto i = kv.find('=');
        if (i == std::string::npos)
            continue;
        auto k = kv.substr(0, i);
        auto v = kv.substr(i + 1);
        if (k == "R")
            o.reverse_patch = v == "1";
        else if (k == "l")
            o.ignore_whitespace = v == "1";
        else if (k == "F")
            o.max_fuzz = std::atoi(v.c_str());
        else if (k == "f")
            o.force = v == "1";
        else if (k == "t")
            o.batch = v == "1";
        else if (k == "N")
            o.ignore_reversed = v == "1";
        else if (k == "D")
            o.define_macro = unhex(v);
        else if (k == "v")
            o.verbose = v == "1";
        else if (k == "nl")
            o.newline_output = v == "lf" ? Options::NewlineOutput::LF : v == "crlf" ? Options::NewlineOutput::CRLF
                : v == "keep"                                                       ? Options::NewlineOutput::Keep
                                                                                    : Options::NewlineOutput::Native;
        else if (k == "rf")
            o.reject_format = v == "context" ? Options::RejectFormat::Context : v == "unified" ? Options::RejectFormat::Unified
                                                                                               : Options::RejectFormat::Default;
    }
    return o;
}

static const char* string_of(Format f)
{
    switch (f) {
    case Format::Context:
        return "context";
    case Format::Unified:
        return "unified";
    case Format::Git:
        return "git";
    case Format::Ed:
        return "ed";
    case Format::Normal:
        return "normal";
    case Format::Unknown:
        return "unknown";
    }
    return "?";
}

static const char* string_of(Operation o)
{
    switch (o) {
    case Operation::Change:
        return "change";
    case Operation::Rename:
        return "rename";
    case Operation::Copy:
        return "copy";
    case Operation::Delete:
        return "delete";
    case Operation::Add:
        return "add";
    case Operation::Binary:
        return "binary";
    }
    return "?";
}

static std::string enc_hunk(const Hunk& h)
{
    std::ostringstream r;
    r << h.old_file_range.start_line << '/' << h.old_file_range.number_of_lines << '/'
      << h.new_file_range.start_line << '/' << h.new_file_range.number_of_lines << '/';
    if (h.lines.empty())
        r << '-';
    bool first = true;
    for (const auto& l : h.lines) {
        if (!first)
            r << ',';
        first = false;
        r << (l.operation == ' ' ? '_' : l.operation) << hex(l.line.content) << ':' << char_of_nl(l.line.newline);
    }
    return r.str();
}

static std::string enc_patch(const ::Patch::Patch& p)
{
    std::ostringstream r;
    r << "PATCH fmt=" << string_of(p.format) << " op=" << string_of(p.operation) << " old=" << hex(p.old_file_path)
      << " new=" << hex(p.new_file_path) << " index=" << hex(p.index_file_path) << " prereq=" << hex(p.prerequisite)
      << " ot=" << hex(p.old_file_time) << " nt=" << hex(p.new_file_time) << " om=" << p.old_file_mode
      << " nm=" << p.new_file_mode << " hunks=";
    if (p.hunks.empty())
        r << '-';
    bool first = true;
    for (const auto& h : p.hunks) {
        if (!first)
            r << ';';
        first = false;
        r << enc_hunk(h);
    }
    return r.str();
}

static std::string run_case(const std::vector<std::string>& t)
{
    std::ostringstream r;
    const auto& cmd = t[0];
    if (cmd == "LOCATE" && t.size() == 7) {
        auto content = lines_of(t[5]);
        auto hunk = hunk_of(t[6]);
        auto loc = locate_hunk(content, hunk, t[1] == "1", num_of(t[2]), num_of(t[3]), num_of(t[4]));
        if (!loc.is_found())
            return "NOTFOUND";
        r << "FOUND " << loc.line_number << ' ' << loc.fuzz << ' ' << loc.offset;
        return r.str();
    }
    if (cmd == "PARSE1" && t.size() == 4) {
        File f = File::create_temporary_with_content(unhex(t[3]));
        auto patch = parse_patch(f, fmt_of(t[1]), std::atoi(t[2].c_str()));
        return enc_patch(patch);
    }
    if (cmd == "PARSEALL" && t.size() == 4) {
        // the section loop of process_patch, without the file system part
        File f = File::create_temporary_with_content(unhex(t[3]));
        Parser parser(f);
        bool first = true;
        std::string out;
        while (!parser.is_eof()) {
            ::Patch::Patch patch(fmt_of(t[1]));
            PatchHeaderInfo info;
            bool should_parse_body = parser.parse_patch_header(patch, info, std::atoi(t[2].c_str()));
            if (patch.format == Format::Unknown || (info.lines_till_first_hunk == 0 && should_parse_body)) {
                if (first)
                    throw std::invalid_argument("Only garbage was found in the patch input.");
                break;
            }
            first = false;
            if (patch.operation != Operation::Binary && should_parse_body)
                parser.parse_patch_body(patch);
            if (!out.empty())
                out += " | ";
            out += enc_patch(patch);
        }
        return out.empty() ? "NONE" : out;
    }
    if (cmd == "STRIP" && t.size() == 3)
        return "BYTES " + hex(strip_path(unhex(t[2]), std::atoi(t[1].c_str())));
    if (cmd == "UNQUOTE" && t.size() == 2) {
        std::string in = unhex(t[1]);
        // LineParser::parse_quoted_string leaves the cursor on the closing quote; observe the rest through parse_file_line's split
        LineParser lp(in);
        auto out = lp.parse_quoted_string();
        std::string rest;
        while (!lp.is_eof())
            rest.push_back(lp.consume());
        return "BYTES " + hex(out) + " " + hex(rest);
    }
    if (cmd == "FILELINE" && t.size() == 3) {
        std::string in = unhex(t[2]);
        LineParser lp(in);
        std::string path = "?";
        std::string ts = "\x01KEEP";
        lp.parse_file_line(std::atoi(t[1].c_str()), path, &ts);
        return "NAME " + hex(path) + " " + (ts == "\x01KEEP" ? std::string("KEEP") : "TS=" + hex(ts));
    }
    if ((cmd == "URANGE" || cmd == "NRANGE") && t.size() == 2) {
        Hunk h;
        bool ok = cmd == "URANGE" ? parse_unified_range(h, unhex(t[1])) : parse_normal_range(h, unhex(t[1]));
        return ok ? "RANGE " + enc_hunk(h) : "NORANGE";
    }
    if (cmd == "ARGV" && t.size() == 4) {
        std::vector<std::string> storage;
        storage.push_back("patch");
        for (const auto& a : split(t[3], ','))
            storage.push_back(a == "." ? std::string() : unhex(a));
        std::vector<const char*> argv;
        for (const auto& a : storage)
            argv.push_back(a.c_str());
        argv.push_back(nullptr);
        if (t[1] == "1")
            setenv("POSIXLY_CORRECT", "1", 1);
        else
            unsetenv("POSIXLY_CORRECT");
        if (t[2] == "none")
            unsetenv("QUOTING_STYLE");
        else
            setenv("QUOTING_STYLE", unhex(t[2]).c_str(), 1);
        OptionHandler handler;
        CmdLineParser parser(static_cast<int>(storage.size()), argv.data());
        parser.parse(handler);
        handler.apply_defaults();
        const auto& o = handler.options();
        auto ob = [](Options::OptionalBool b) { return b == Options::OptionalBool::Unset ? "unset" : b == Options::OptionalBool::Yes ? "yes" : "no"; };
        r << "OPTS b=" << o.save_backup << " c=" << o.interpret_as_context << " d=" << hex(o.patch_directory_path) << " D=" << hex(o.define_macro)
          << " e=" << o.interpret_as_ed << " i=" << hex(o.patch_file_path) << " l=" << o.ignore_whitespace << " n=" << o.interpret_as_normal
          << " N=" << o.ignore_reversed << " o=" << hex(o.out_file_path) << " p=" << o.strip_size << " F=" << o.max_fuzz
          << " R=" << o.reverse_patch << " file=" << hex(o.file_to_patch) << " r=" << hex(o.reject_file_path) << " f=" << o.force << " t=" << o.batch
          << " h=" << o.show_help << " v=" << o.show_version << " u=" << o.interpret_as_unified << " verbose=" << o.verbose << " dry=" << o.dry_run
          << " posix=" << o.posix << " bim=" << ob(o.backup_if_mismatch) << " E=" << ob(o.remove_empty_files) << " nl="
          << (o.newline_output == Options::NewlineOutput::Native ? "native" : o.newline_output == Options::NewlineOutput::LF ? "lf"
                     : o.newline_output == Options::NewlineOutput::CRLF                                                         ? "crlf"
                                                                                                                                : "keep")
          << " rf=" << (o.reject_format == Options::RejectFormat::Context ? "context" : o.reject_format == Options::RejectFormat::Unified ? "unified" : "default")
          << " ro=" << (o.read_only_handling == Options::ReadOnlyHandling::Warn ? "warn" : o.read_only_handling == Options::ReadOnlyHandling::Ignore ? "ignore" : "fail")
          << " q="
          << (o.quoting_style == Options::QuotingStyle::Unset ? "unset" : o.quoting_style == Options::QuotingStyle::Literal ? "literal"
                     : o.quoting_style == Options::QuotingStyle::Shell                                                      ? "shell"
                     : o.quoting_style == Options::QuotingStyle::ShellAlways                                                ? "shell-always"
                                                                                                                            : "c")
          << " z=" << hex(o.backup_suffix) << " B=" << hex(o.backup_prefix);
        return r.str();
    }
    if (cmd == "WSMATCH" && t.size() == 3)
        return matches_ignoring_whitespace(unhex(t[1]), unhex(t[2])) ? "1" : "0";
    if (cmd == "MATCH" && t.size() == 4)
        return matches(line_of(t[2]), line_of(t[3]), t[1] == "1") ? "1" : "0";
    if (cmd == "SPLIT" && t.size() == 2) {
        File f = File::create_temporary_with_content(unhex(t[1]));
        std::string line;
        NewLine nl;
        std::string out;
        while (f.get_line(line, &nl)) {
            if (!out.empty())
                out += ',';
            out += hex(line) + ":" + char_of_nl(nl);
        }
        return "LINES " + (out.empty() ? std::string("-") : out);
    }
    if (cmd == "FMTU" && t.size() == 2) {
        File f = File::create_temporary();
        write_hunk_as_unified(hunk_of(t[1]), f);
        return "BYTES " + hex(f.read_all_as_string());
    }
    if (cmd == "FMTC" && t.size() == 2) {
        File f = File::create_temporary();
        write_hunk_as_context(hunk_of(t[1]), f);
        return "BYTES " + hex(f.read_all_as_string());
    }
    if (cmd == "NUM" && t.size() == 2) {
        LineNumber n = 0;
        if (!string_to_line_number(unhex(t[1]), n))
            return "NONE";
        r << "NUM " << n;
        return r.str();
    }
    if ((cmd == "APPLY" && t.size() == 10) || (cmd == "JOIN" && t.size() == 3)) {
        ::Patch::Patch patch;
        Options o;
        std::vector<Line> lines;
        if (cmd == "JOIN") {
            // LineWriter is private to applier.cpp: drive it through apply_patch with an empty patch,
            // which copies every input line through the writer.
            o = opts_of("nl=" + t[1]);
            lines = lines_of(t[2]);
        } else {
            o = opts_of(t[1]);
            patch.format = fmt_of(t[2]);
            patch.operation = oper_of(t[3]);
            patch.old_file_path = unhex(t[4]);
            patch.new_file_path = unhex(t[5]);
            patch.old_file_time = unhex(t[6]);
            patch.new_file_time = unhex(t[7]);
            lines = lines_of(t[8]);
            for (const auto& h : split(t[9], ';'))
                patch.hunks.push_back(hunk_of(h));
        }
        File out_file = File::create_temporary();
        File rej_file = File::create_temporary();
        RejectWriter reject_writer(patch, rej_file, o.reject_format);
        std::ostringstream msgs;
        Result result = apply_patch(out_file, reject_writer, lines, patch, o, msgs);
        if (cmd == "JOIN")
            return "BYTES " + hex(out_file.read_all_as_string());
        r << "OK out=" << hex(out_file.read_all_as_string()) << " rej=" << hex(rej_file.read_all_as_string())
          << " failed=" << result.failed_hunks << " skipped=" << (result.was_skipped ? 1 : 0)
          << " perfect=" << (result.all_hunks_applied_perfectly ? 1 : 0) << " msgs=" << hex(msgs.str());
        return r.str();
    }
    return "UNKNOWN-COMMAND " + cmd;
}

int main()
{
    std::string line;
    while (std::getline(std::cin, line)) {
        std::vector<std::string> toks;
        std::istringstream ss(line);
        std::string tok;
        while (ss >> tok)
            toks.push_back(tok);
        if (toks.empty()) {
            std::cout << "EMPTY" << std::endl;
            continue;
        }
        std::string res;
        try {
            res = run_case(toks);
        } catch (const std::logic_error& e) {
            // std::invalid_argument / out_of_range derive from logic_error: they are library throws too.
            if (std::strncmp(e.what(), "bad ", 4) == 0)
                res = std::string("HARNESS-ERROR ") + e.what();
            else
                res = "THROW";
        } catch (const std::exception&) {
            res = "THROW";
        }
        std::cout << res << std::endl;
    }
    return 0;
}
