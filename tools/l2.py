#!/usr/bin/env python3
"""l2.py — whole-program (L2) scenario runner. A scenario is
   dict(tree={path: (kind, mode, bytes)}, opts={...model option keys...}, argv=[...], stdin=bytes, umask=0o022)
It is materialised in a throw-away directory owned by `nobody`, sb_patch runs there as nobody with a private empty
TMPDIR and no terminal (setsid), optionally under strace (operation trace, fault or KILL injection); the tree is
snapshotted afterwards. The same scenario is encoded for the extracted model (`RUN ...` line of ocaml/driver.ml)."""
import os, re, shutil, stat, subprocess, tempfile, json
from vlib import *

NOBODY = 65534
EVENT_RE = re.compile(r"^(Hunk #\d+ .*|\d+ out of \d+ hunks? (?:FAILED|ignored))", re.M)


def opts_to_argv(o):
    """model option keys -> command line (one fixed spelling; C19 checks that spellings are interchangeable)"""
    a = []
    def s(v):
        return v if isinstance(v, str) else v.decode("latin-1")
    for k, v in o.items():
        if k == "b" and v: a.append("-b")
        elif k == "c" and v: a.append("-c")
        elif k == "n" and v: a.append("-n")
        elif k == "u" and v: a.append("-u")
        elif k == "e" and v: a.append("-e")
        elif k == "i": a += ["-i", s(v)]
        elif k == "o": a += ["-o", s(v)]
        elif k == "r": a += ["-r", s(v)]
        elif k == "p": a.append("-p%d" % v)
        elif k == "F": a += ["-F", str(v)]
        elif k == "R" and v: a.append("-R")
        elif k == "l" and v: a.append("-l")
        elif k == "N" and v: a.append("-N")
        elif k == "f" and v: a.append("-f")
        elif k == "t" and v: a.append("-t")
        elif k == "D": a += ["-D", s(v)]
        elif k == "v" and v: a.append("--verbose")
        elif k == "dry" and v: a.append("--dry-run")
        elif k == "posix" and v: a.append("--posix")
        elif k == "bim": a.append("--backup-if-mismatch" if v else "--no-backup-if-mismatch")
        elif k == "E" and v: a.append("-E")
        elif k == "z": a += ["-z", s(v)]
        elif k == "B": a += ["-B", s(v)]
        elif k == "ro": a.append("--read-only=" + v)
        elif k == "nl": a.append("--newline-output=" + ("preserve" if v == "keep" else v))
        elif k == "rf": a.append("--reject-format=" + v)
        elif k == "file": a.append(s(v))
    return a


def model_opts(o):
    """option string for the model: defaults of OptionHandler::apply_defaults resolved here
    (posix => no backup-if-mismatch, no remove-empty-files; otherwise both on)"""
    d = dict(o)
    posix = bool(d.get("posix"))
    if "bim" not in d:
        d["bim"] = 0 if posix else 1
    if "E" not in d:
        d["E"] = 0 if posix else 1
    out = []
    for k, v in d.items():
        if k in ("i", "o", "r", "z", "B", "D", "file"):
            out.append("%s=%s" % (k, hx(v)))
        elif isinstance(v, bool):
            out.append("%s=%d" % (k, int(v)))
        else:
            out.append("%s=%s" % (k, v))
    return ",".join(out) or "-"


def enc_tree(tree):
    ents = []
    for p, (kind, mode, data) in tree.items():
        ents.append("%s:%s:%o:%s" % (hx(p), kind, mode, hx(data) if kind in "RS" else "-"))
    return ";".join(sorted(ents)) or "-"


def model_line(scn, fault=None):
    return "RUN %s %o %s %s %s" % (model_opts(scn["opts"]), scn.get("umask", 0o022), "-" if fault is None else str(fault),
                                   hx(scn.get("stdin") or b""), enc_tree(scn["tree"]))


def materialise(scn, root):
    """paths of the tree are byte strings (kept as latin-1 text in the scenario): the bytes go to the file system as they are"""
    work = os.path.join(root, "work"); tmp = os.path.join(root, "tmp")
    os.makedirs(work); os.makedirs(tmp)
    bwork = os.fsencode(work)
    def bp(p):
        return os.path.join(bwork, p.encode("latin-1"))
    # directories first (parents), files, then modes (deepest first so that read-only dirs do not block creation)
    items = sorted(scn["tree"].items(), key=lambda kv: kv[0].count("/"))
    for p, (kind, mode, data) in items:
        fp = bp(p)
        os.makedirs(os.path.dirname(fp), exist_ok=True)
        if kind == "D":
            os.makedirs(fp, exist_ok=True)
        elif kind == "R":
            with open(fp, "wb") as f:
                f.write(data)
        elif kind == "S":
            os.symlink(data, fp)
        else:
            os.mkfifo(fp)
    # ownership first: chown(2) clears the set-uid / set-gid bits of a regular file
    for d, ds, fs_ in os.walk(os.fsencode(root)):
        for n in ds + fs_:
            os.lchown(os.path.join(d, n), NOBODY, NOBODY)
    os.chown(root, NOBODY, NOBODY)
    for p, (kind, mode, data) in sorted(scn["tree"].items(), key=lambda kv: -kv[0].count("/")):
        if kind != "S":
            os.chmod(bp(p), mode)
    os.chmod(work, 0o755); os.chmod(tmp, 0o755)
    return work, tmp


def snapshot(work, with_mtime=False):
    tree = {}
    bwork = os.fsencode(work)
    for d, ds, fs_ in os.walk(bwork):
        for n in ds + fs_:
            fp = os.path.join(d, n)
            rel = os.path.relpath(fp, bwork).decode("latin-1")
            st = os.lstat(fp)
            if stat.S_ISLNK(st.st_mode):
                e = ("S", 0, os.readlink(fp))
            elif stat.S_ISDIR(st.st_mode):
                e = ("D", st.st_mode & 0o7777, b"")
            elif stat.S_ISREG(st.st_mode):
                try:
                    data = open(fp, "rb").read()
                except OSError:
                    os.chmod(fp, st.st_mode | 0o400); data = open(fp, "rb").read(); os.chmod(fp, st.st_mode & 0o7777)
                e = ("R", st.st_mode & 0o7777, data)
            else:
                e = ("O", st.st_mode & 0o7777, b"")
            tree[rel] = e + ((st.st_mtime_ns,) if with_mtime else ())
    return tree


def run_impl(binary, scn, strace=None, inject=None, timeout=20, with_mtime=False, as_root=False, keep=None):
    """returns dict(exit, stdout, stderr, tree, tmp_left, trace(lines) , timed_out)"""
    root = tempfile.mkdtemp(prefix="vl2-", dir="/tmp")
    os.chmod(root, 0o755)
    try:
        work, tmp = materialise(scn, root)
        before = snapshot(work, with_mtime) if with_mtime else None
        argv = scn.get("argv")
        if argv is None:
            argv = opts_to_argv(scn["opts"])
        # @CWD@ stands for the absolute path of the working directory (absolute names in argv and in patch texts)
        argv = [a.replace("@CWD@", work) for a in argv]
        if scn.get("abs_paths"):
            for dp, _, fns in os.walk(work):
                for fn in fns:
                    fp = os.path.join(dp, fn)
                    if not stat.S_ISREG(os.lstat(fp).st_mode):
                        continue
                    try:
                        b = open(fp, "rb").read()
                        if b"@CWD@" in b:
                            open(fp, "wb").write(b.replace(b"@CWD@", work.encode()))
                    except OSError:
                        pass
        env = {"PATH": "/usr/bin:/bin", "TMPDIR": tmp, "LC_ALL": "C"}
        env.update(scn.get("env", {}))
        cmd = []
        tracef = os.path.join(root, "trace")
        if strace or inject:
            cmd = ["strace", "-f", "-qq", "-y", "-o", tracef, "-s", "0", "-e", "trace=%s" % (strace or "all")]
            if inject:
                cmd += ["-e", "inject=" + inject]
            if not as_root:
                cmd += ["-u", "nobody"]
            cmd += [binary] + argv
        else:
            if not as_root:
                cmd = ["setpriv", "--reuid=%d" % NOBODY, "--regid=%d" % NOBODY, "--clear-groups"]
            cmd += [binary] + argv
        cmd = [c.encode("latin-1") if isinstance(c, str) else c for c in cmd]      # arguments are byte strings too
        um = scn.get("umask", 0o022)
        limit_as = "asan" not in binary
        def pre():
            import resource
            os.setsid(); os.umask(um)
            # a run that eats memory or fills the disk (an endless read of a device, an endless write) must not take the checker with it
            if limit_as:
                resource.setrlimit(resource.RLIMIT_AS, (3 << 30, 3 << 30))
            if scn.get("nofile"):
                # a small limit on open files: every open(2) beyond it fails with EMFILE
                resource.setrlimit(resource.RLIMIT_NOFILE, (scn["nofile"], scn["nofile"]))
            if scn.get("fsize0"):
                # nothing can be written anywhere (as on a full disk): every write(2) to a regular file fails with EFBIG
                import signal
                signal.signal(signal.SIGXFSZ, signal.SIG_IGN)
                resource.setrlimit(resource.RLIMIT_FSIZE, (0, 0))
            else:
                resource.setrlimit(resource.RLIMIT_FSIZE, (256 << 20, 256 << 20))
        sin = scn.get("stdin")
        timed_out = False
        try:
            if scn.get("stdin_is") == "dir":
                # standard input is a directory: every read(2) fails with EISDIR
                dfd = os.open(work, os.O_RDONLY)
                try:
                    p = subprocess.run(cmd, cwd=work, env=env, stdin=dfd, capture_output=True, timeout=timeout, preexec_fn=pre)
                finally:
                    os.close(dfd)
            else:
                p = subprocess.run(cmd, cwd=work, env=env, input=sin if sin is not None else b"", capture_output=True,
                                   timeout=timeout, preexec_fn=pre)
            rc, out, err = p.returncode, p.stdout, p.stderr
        except subprocess.TimeoutExpired as e:
            timed_out = True
            rc, out, err = 124, e.stdout or b"", e.stderr or b""
        res = dict(exit=rc, stdout=out, stderr=err, tree=snapshot(work, with_mtime), tmp_left=sorted(os.listdir(tmp)),
                   timed_out=timed_out, before=before)
        if strace or inject:
            try:
                res["trace"] = open(tracef, errors="replace").read().splitlines()
            except OSError:
                res["trace"] = []
        return res
    finally:
        # make everything removable again
        for d, ds, fs_ in os.walk(root):
            for n in ds:
                try:
                    os.chmod(os.path.join(d, n), 0o755)
                except OSError:
                    pass
        shutil.rmtree(root, ignore_errors=True)


def impl_line(res, tree_only=False):
    """canonical line comparable with the model's answer (without TRACE)"""
    # with -o - the patched file goes to standard output and the messages go to standard error
    ev = "".join(m.group(1) + "\n" for m in EVENT_RE.finditer(res["stdout"].decode("latin-1")))
    if not ev:
        ev = "".join(m.group(1) + "\n" for m in EVENT_RE.finditer(res["stderr"].decode("latin-1")))
    t = {p: (k, m, d) for p, (k, m, d, *_) in res["tree"].items()}
    if res["exit"] == 2:
        ev = ""     # the model does not keep the messages printed before an exception reached main
    return "EXIT %d TREE %s EVENTS %s" % (res["exit"], enc_tree(t), hx(ev))


def model_canon(line):
    """EXIT.. TREE.. EVENTS.. of the model's answer; events reduced to the same lines as the implementation's"""
    m = re.match(r"EXIT (\d+) TREE (\S+) EVENTS (\S+) STDOUT (\S+) TRACE (\S+)", line)
    if not m:
        return line, None, None
    ev = unhx(m.group(3)).decode("latin-1")
    ev2 = "".join(x.group(1) + "\n" for x in EVENT_RE.finditer(ev))
    return "EXIT %s TREE %s EVENTS %s" % (m.group(1), m.group(2), hx(ev2)), unhx(m.group(4)), m.group(5)


# ---------------------------------------------------------------- operation sequences
TRACE_CALLS = "openat,open,creat,rename,renameat,renameat2,unlink,unlinkat,rmdir,mkdir,mkdirat,chmod,fchmodat,symlink,symlinkat"
_CALL = re.compile(r"^(?:\d+\s+)?(\w+)\((.*)\)\s+= (-?\d+)")
_STR = re.compile(r'"((?:[^"\\]|\\.)*)"')


def _unq(x):
    return bytes(x, "latin-1").decode("unicode_escape").encode("latin-1")


def ops_of_trace(trace, with_calls=False):
    """the file-system operations of a run, in order, in the vocabulary of World.sysop; only operations on relative paths
    (the scenario directory is the working directory; the private TMPDIR and system files are absolute).
    with_calls: also (system call name, its occurrence number among the calls of that name) for strace's inject=...:when=N"""
    out = []
    calls = []
    occ = {}
    for l in trace:
        m = _CALL.match(l)
        if not m:
            continue
        name, args = m.group(1), m.group(2)
        occ[name] = occ.get(name, 0) + 1
        n_before = len(out)
        strs = [_unq(x) for x in _STR.findall(args)]
        if not strs or any(x.startswith(b"/") for x in strs[:2] if name in ("rename", "renameat", "renameat2", "symlink", "symlinkat")):
            if not strs or strs[0].startswith(b"/"):
                continue
        if strs[0].startswith(b"/") and name not in ("symlink", "symlinkat"):
            continue
        if name in ("openat", "open", "creat"):
            if "O_DIRECTORY" in args:
                continue
            if "O_WRONLY" in args or "O_RDWR" in args or name == "creat":
                out.append("write:" + hx(strs[0]))
            else:
                out.append("read:" + hx(strs[0]))
        elif name in ("rename", "renameat", "renameat2"):
            out.append("rename:%s:%s" % (hx(strs[0]), hx(strs[1])))
        elif name in ("unlink",) or (name == "unlinkat" and "AT_REMOVEDIR" not in args):
            out.append("unlink:" + hx(strs[0]))
        elif name == "rmdir" or name == "unlinkat":
            out.append("rmdir:" + hx(strs[0]))
        elif name in ("mkdir", "mkdirat"):
            out.append("mkdir:" + hx(strs[0]))
        elif name in ("chmod", "fchmodat"):
            mm = re.search(r", (0[0-7]*)\)?$", args) or re.search(r", (0[0-7]+)", args)
            out.append("chmod:%s:%s" % (hx(strs[0]), (mm.group(1).lstrip("0") or "0") if mm else "?"))
        elif name in ("symlink", "symlinkat"):
            if strs[-1].startswith(b"/"):
                continue
            out.append("symlink:%s:%s" % (hx(strs[0]), hx(strs[-1])))
        if len(out) > n_before:
            calls.append((name, occ[name]))
    return (out, calls) if with_calls else out


def model_ops(line):
    """the TRACE field of the model's answer, with the byte counts of writes dropped"""
    m = re.search(r" TRACE (\S+)", line)
    if not m or m.group(1) == "-":
        return []
    out = []
    for t in m.group(1).split(","):
        f = t.split(":")
        out.append(":".join(f[:2]) if f[0] == "write" else t)
    return out
