"""Whole-program checks: C04 (exit status / rejects), C05, C06, C15, C16, C17, C18."""
import os, random, re
from vlib import *
from l2common import *
import streams

THEOREMS = {"C04": ["apply_patch_replay", "apply_patch_verdicts", "verdicts_are_admissible", "section_failure_flag",
                    "write_hunk_as_context_iff", "counts_ok_writable", "apply_never_fatal", "never_asks_no_question",
                    "apply_patch_ok_iff", "question_throws", "apply_never_fatal_define", "apply_patch_throws_only_from",
                    "section_reject_iff", "section_refused_rejects", "section_dry_run_writes_nothing", "section_flag",
                    "loop_flag", "exit_status_truth", "run_exit_status", "run_throws_only_from", "skipped_is_failed",
                    "section_report", "parse_unified_counts", "header_full_hunks", "parsed_unified_never_fatal",
                    "unified_section_hunk_failure_never_fatal", "unified_run_hunk_failure_never_fatal",
                    "run_hunk_failure_never_fatal",
                    "parsed_hunks_ctx_writable", "parse_patch_ctx_writable", "parse_patch_counts_ok",
                    "parse_body_counts_ok", "parsed_never_fatal", "any_section_hunk_failure_never_fatal",
                    "any_run_hunk_failure_never_fatal"],
            "C05": ["reverse_hunk_involutive", "conforming_reverse", "apply_reverse", "section_forward_writes",
                    "section_reverse_restores", "section_roundtrip", "section_roundtrip_bytes", "section_creates",
                    "section_reverse_of_creation_removes", "section_deletes", "section_reverse_of_deletion_recreates",
                    "creation_roundtrip", "deletion_roundtrip", "section_reverse_of_creation_without_E", "rename_forward",
                    "rename_reverse", "rename_roundtrip", "pure_rename_reverse", "pure_rename_reverse_quoted", "context_epoch_deletion_reversed_refuted", "context_epoch_deletion_forward"],
            "C06": ["reapply_ignored", "reapply_reversed", "force_no_guess", "apply_ignored_total", "section_ignored_N",
                    "section_ignored_N_over", "section_ignored_N_frame",
                    "apply_reversed_total", "section_reapplied_t", "section_reapplied_t_frame",
                    "section_reapplied_t_bytes", "section_reapplied_t_backup", "conforming_looks_reversed",
                    "process_patch_reapplied_t", "process_patch_ignored_N", "process_patch_reapplied_N",
                    "run_patch_reapplied_t", "run_patch_file_reapplied_t", "run_patch_reapplied_N",
                    "run_patch_file_reapplied_N", "apply_patch_force", "process_section_with_apply",
                    "section_force_no_guess", "force_messages", "stats_only_head"], "C15": ["dry_run_pure", "dry_run_predicts", "dry_run_predicts_single", "dry_run_predicts_run_single", "dry_run_predicts_sections", "dry_run_predicts_run_sections", "dry_section_frame", "dry_run_series_same_file_refuted"], "C16": ["section_ops_allowed", "finalize_ops_allowed", "finalize_removals_allowed", "exec_op_frame", "steps_frame", "steps_frame_ok", "run_frame", "steps_frame_static", "run_frame_static", "run_frame_nolinks", "loop_run_allowed", "run_ops_allowed"],
            "C17": ["write_now_sets_mode", "refusal_writes_only_rejects", "git_section_mode", "section_git_next",
                    "git_series_mode", "section_refused_gen", "process_patch_refused", "read_only_refused_run", "no_write_bits_owner", "not_regular_refused_run", "run_patch_refused", "run_patch_file_refused"],
            "C18": ["backup_name_spec", "make_backup_for_shape", "ensure_extends", "backup_holds_original", "backup_only_once",
                    "series_backup_two_gen", "series_backup_two", "backup_before_first_write", "git_series_backup", "late_backup_plain_series_refuted"]}

K_CTX_EPOCH = ("K-C05-context-epoch-deletion-reversed", "-R of a whole-file deletion in context format written diff -cN style (new name real, epoch time stamp, '--- 0 ----'): 'can't find file to patch', exit 2 (the deletion is only recognised from the new range, which the header scan of a context diff does not see)")

K_DRY_SERIES = ("K-C15-dry-run-series-same-file", "several patches of one run for the same file, a later one fitting only what an earlier one leaves: --dry-run tries every patch on the file as it is on disk (it writes nothing, not even in memory) and reports failed hunks and exit status 1 (or cannot find a file that an earlier patch creates: exit 2 at the question) where the real run applies everything and exits 0")

K_LATE_BACKUP = ("K-C18-late-backup-plain-series", "several plain (non-git) patches for one file in one run, an earlier one applying exactly and a later one at an offset, with fuzz or with rejects (no -b, backup-if-mismatch in force): the backup is taken when the later patch is written and holds the result of the earlier ones, not the bytes from before the run")

HUNK_RE = re.compile(r"^Hunk #(\d+) (succeeded|FAILED|skipped) at (-?\d+)(?: with fuzz (\d+))?(?: \(offset (-?\d+) lines?\))?\.", re.M)
SUMMARY_RE = re.compile(r"^(\d+) out of (\d+) hunks? (FAILED|ignored)", re.M)


def count_reject_hunks(data):
    t = data.decode("latin-1")
    if t.startswith("*** "):
        return len(re.findall(r"^\*\*\* \d+(?:,\d+)? \*\*\*\*$", t, flags=re.M))
    return len(re.findall(r"^@@ -\d+(?:,\d+)? \+\d+(?:,\d+)? @@", t, flags=re.M))


# ---------------------------------------------------------------- scenario variety
def varied_scenario(rng, drift=None, opts=None, nsec=None, kinds=None, fmts=None):
    o = dict(opts or {})
    s = scen.gen_scenario(rng, nsec=nsec, kinds=kinds, fmts=fmts, drift=(rng.choice([0, 0, 0.5, 0.9]) if drift is None else drift), opts=o,
                          via_stdin=rng.random() < 0.15)
    return s


OPTION_MIX = [{}, {}, {"b": 1}, {"f": 1}, {"N": 1}, {"t": 1}, {"R": 1, "f": 1}, {"F": 0}, {"F": 3}, {"l": 1}, {"posix": 1}, {"bim": 0}, {"bim": 1, "posix": 1},
              {"b": 1, "z": ".bak"}, {"b": 1, "B": "pre."}, {"b": 1, "B": "pre.", "z": ".post"}, {"rf": "context"}, {"rf": "unified"}, {"nl": "keep"},
              {"ro": "ignore"}, {"ro": "fail"}, {"E": 1, "posix": 1}, {"v": 1}, {"D": "SYM"}]


# ---------------------------------------------------------------- C04
def judge_c04(s, r):
    out = r["stdout"].decode("latin-1") + r["stderr"].decode("latin-1")
    if r["exit"] not in (0, 1, 2):
        return "exit status %d" % r["exit"]
    if r["exit"] == 2:
        # well-formed patches, existing targets: nothing here is 'real trouble' except a question asked without a terminal
        if "tty" in out:
            return None
        return "exit status 2 (fatal) on a well-formed patch: " + out[-200:]
    hunks = HUNK_RE.findall(out)
    sums = SUMMARY_RE.findall(out)
    failed_reported = sum(int(a) for a, b, c in sums)
    trouble = failed_reported > 0 or "Skipping patch" in out or "refusing to patch" in out or "Not deleting" in out or "not supported" in out
    if (r["exit"] == 0) != (not trouble):
        return "exit status %d does not match what was reported (failed hunks reported: %d)" % (r["exit"], failed_reported)
    # a reject file exists afterwards iff some hunk of that target failed outside --dry-run, and holds that many hunks
    dry = bool(s["opts"].get("dry"))
    rejs = {p: d for p, (k, m, d, *_) in r["tree"].items() if p.endswith(".rej") or p == s["opts"].get("r")}
    before = {p for p in s["tree"]}
    new_rejs = {p: d for p, d in rejs.items() if p not in before or s["tree"][p][2] != d}
    if dry and new_rejs:
        return "--dry-run wrote a reject file: %s" % sorted(new_rejs)
    if not dry:
        total = sum(count_reject_hunks(d) for d in new_rejs.values())
        if s["opts"].get("r") is None and total != failed_reported:
            return "reject files hold %d hunks, %d were reported as failed/ignored" % (total, failed_reported)
        if failed_reported == 0 and new_rejs:
            return "reject file written although no hunk failed"
        # a hunk saved in context form holds its changed lines ('!') on both sides or on neither: one side alone is a hunk nobody reads
        for p_, d_ in new_rejs.items():
            if d_.startswith(b"*** "):
                for hk in re.split(rb"^\*{15}\n", d_, flags=re.M)[1:]:
                    halves = re.split(rb"^--- \d+(?:,\d+)? ----\n", hk, flags=re.M)
                    if len(halves) == 2:
                        o_bang = bool(re.search(rb"^! ", halves[0], flags=re.M)); n_bang = bool(re.search(rb"^! ", halves[1], flags=re.M))
                        if o_bang != n_bang:
                            return "reject file %s: a hunk in context form has changed ('!') lines on one side only: the failed change is not saved in a form that can be read" % p_
    return None


# ---------------------------------------------------------------- C15
def judge_dry(s, r):
    if tree_no_meta(r["tree"]) != tree_no_meta(r["before"]):
        return "--dry-run changed the tree: " + "; ".join(diff_trees(tree_no_meta(r["before"]), tree_no_meta(r["tree"]))[:4])
    for p, e in r["tree"].items():
        if r["before"][p][3] != e[3]:
            return "--dry-run changed the modification time of %s" % p
    if r["tmp_left"]:
        return "--dry-run left temporary files: %s" % r["tmp_left"]
    return None


def events_of(res):
    out = res["stdout"].decode("latin-1")
    return [m.group(0) for m in HUNK_RE.finditer(out)] + [m.group(0) for m in SUMMARY_RE.finditer(out)]


# ---------------------------------------------------------------- C16
def add_bystanders(rng, s):
    t = s["tree"]
    targets = [x["path"] for x in s["secs"]] + [x["newpath"] for x in s["secs"]]
    for p in list(targets):
        base = p.split("/")[-1]
        for q in ["other/" + base, p + "x", p + ".keep", "z/" + p, p + "~"]:
            if q not in t and rng.random() < 0.5:
                scen.add_parents(t, q)
                t[q] = ("R", rng.choice([0o644, 0o600, 0o444]), b"bystander " + q.encode("latin-1") + b"\n")
        if rng.random() < 0.3 and p + ".orig" not in t:
            scen.add_parents(t, p); t[p + ".orig"] = ("R", 0o644, b"old backup\n")
        if rng.random() < 0.3 and p + ".rej" not in t:
            scen.add_parents(t, p); t[p + ".rej"] = ("R", 0o644, b"old reject\n")
    return s


def allowed_paths(s):
    """(paths that may be created / changed / removed, directories that may appear or go as their parents).  Reject and backup
    names derive from the name that is written (the -o file, else the file named on the command line, else the new name of a
    rename / copy, else the target), never from a rename's source, which may only be removed"""
    o = s["opts"]
    al = set()
    outs = []
    if o.get("dry"):
        return set(), set()         # under --dry-run the intended set is empty
    for x in s["secs"]:
        moved = x["kind"] in ("rename", "copy")
        src, dst = (x["newpath"], x["path"]) if (moved and o.get("R")) else (x["path"], x["newpath"])
        out = dst
        if o.get("file"):
            # the file named on the command line is the selected target; the names in the headers are bystanders
            src = o["file"]
            out = dst if moved else o["file"]
        if o.get("o"):
            out = o["o"]
        outs.append(out)
        if x["kind"] == "rename" and not o.get("o"):
            al.add(src)
    for p in outs:
        al.add(p)
        al.add(o.get("r") or p + ".rej")
        if o.get("B") and o.get("z"):
            al.add(o["B"] + p + o["z"])
        elif o.get("B"):
            al.add(o["B"] + p)
        elif o.get("z"):
            al.add(p + o["z"])
        else:
            al.add(p + ".orig")
    # parents of anything allowed may be created / removed
    par = set()
    for p in al:
        while "/" in p:
            p = p.rsplit("/", 1)[0]
            par.add(p)
    return al, par


def judge_c16(s, r):
    before = s["tree"]
    after = tree_no_meta(r["tree"])
    al, par = allowed_paths(s)
    for p in sorted(set(before) | set(after)):
        b = before.get(p); a = after.get(p)
        if b is not None:
            b = (b[0], b[1], b[2] if b[0] in "RS" else b"")
        if a != b and p not in al:
            if p in par and (a is None or b is None) and (a or b)[0] == "D":
                # a missing parent directory of a file the run creates: some file has to stand in it afterwards
                if b is None and not any(q.startswith(p + "/") and after[q][0] != "D" for q in after):
                    return "the directory %s was created and nothing was written into it" % p
                continue
            return "path outside the intended set was touched: %s: %s -> %s" % (p, None if b is None else (b[0], oct(b[1])), None if a is None else (a[0], oct(a[1]), a[2][:40]))
    if s.get("exact") and r["exit"] == 0:
        bn = s["exact"] + ".orig"
        if after.get(bn) != (before[bn][0], before[bn][1], before[bn][2]):
            return "%s applies exactly and no -b was given: the file at its backup name %s was replaced" % (s["exact"], bn)
    if r["tmp_left"]:
        return "temporary files left in TMPDIR: %s" % r["tmp_left"]
    leftovers = [p for p in after if re.search(r"patch-[0-9A-Za-z]{6}$", p)]
    if leftovers:
        return "temporary files left in the working directory: %s" % leftovers
    return None


# ---------------------------------------------------------------- C17
MODES = [0o644, 0o600, 0o444, 0o400, 0o755, 0o555, 0o640, 0o664, 0o604, 0o750, 0o440, 0o711,
         0o4755, 0o2755, 0o1644, 0o4555, 0o6711]       # set-uid, set-gid, sticky: permission bits too


def judge_c17(s, r):
    after = tree_no_meta(r["tree"])
    out = r["stdout"].decode("latin-1")
    blocks = re.split(r"^(?:patching|checking) (?:file|symbolic link) |^File .* is read-only; refusing", out, flags=re.M)
    aborted = r["exit"] == 2
    for x in s["secs"]:
        p = x["path"]
        if x["kind"] in ("add", "delete") or s["opts"].get("o"):
            continue
        src = s["tree"].get(p)
        dst_path = x["newpath"] if x["kind"] in ("rename", "copy") else p
        if s["opts"].get("R") and x["kind"] in ("rename", "copy"):
            continue
        d = after.get(dst_path)
        if src is None or d is None:
            continue
        blk = next((b_ for b_ in blocks if b_.startswith(dst_path + "\n") or b_.startswith(dst_path + " ")), "")
        # (a patch turned round at run time - "Assuming -R" - is the reversed patch from there on, modes included)
        if bool(s["opts"].get("R")) != ("Assuming -R" in blk):
            want = int(x["mode_old"][-3:], 8) if x.get("mode_old") else src[1]
        else:
            want = int(x["mode_new"][-3:], 8) if x.get("mode_new") else src[1]
        refused = bool(re.search(r"^File %s is read-only; refusing to patch" % re.escape(p), out, flags=re.M))
        # a patch that was skipped as already applied is not applied: its new mode is not due either
        if "Skipping patch" in blk:
            want = src[1]
        if refused or aborted or s["opts"].get("dry"):
            if refused and after.get(p) and (after[p][1], after[p][2]) != (src[1], src[2]):
                return "the refused target %s changed (mode %o -> %o)" % (p, src[1], after[p][1])
            if aborted and after.get(p) and after[p][1] != src[1] and after[p][2] == src[2]:
                return "an aborted run left %s with mode %o instead of %o" % (p, after[p][1], src[1])
            continue
        if d[1] != want:
            return "mode of %s is %o after the run, expected %o" % (dst_path, d[1], want)
    return None


# ---------------------------------------------------------------- C18
def backup_name(o, p):
    if o.get("B") and o.get("z"):
        return o["B"] + p + o["z"]
    if o.get("B"):
        return o["B"] + p
    if o.get("z"):
        return p + o["z"]
    return p + ".orig"


def judge_c18(s, r):
    o = s["opts"]
    after = tree_no_meta(r["tree"])
    out = r["stdout"].decode("latin-1")
    if r["exit"] == 2 or o.get("dry"):
        return None
    # per section verdicts, in order of "patching file" lines
    blocks = re.split(r"^(?:patching|checking) (?:file|symbolic link) ", out, flags=re.M)[1:]
    seen = set()
    for x, blk in zip(s["secs"], blocks):
        p = o.get("o") or (x["newpath"] if x["kind"] in ("rename", "copy") else x["path"])
        bn = backup_name(o, p)
        mismatch = bool(re.search(r"^Hunk #\d+ (?:FAILED|succeeded at \d+ (?:with fuzz|\(offset))", blk, flags=re.M))
        skipped = "Skipping patch" in blk or "ignored" in blk
        posix = bool(o.get("posix"))
        bim = o["bim"] if "bim" in o else (0 if posix else 1)
        # a patch skipped as already applied writes nothing back: there is nothing to back up
        # (a skipped patch is written out only under -o; then -b still asks for a backup of what is overwritten, the
        # mismatch rule does not: the patch has not been applied)
        due = (bool(o.get("b")) and (not skipped or bool(o.get("o")))) or (bool(bim) and mismatch and not skipped)
        if "refusing to patch" in blk:
            due = False
        had_before = bn in s["tree"]
        orig = s["tree"].get(p)
        if p in seen:
            continue
        seen.add(p)
        if due:
            if bn not in after:
                return "a backup was due for %s but %s does not exist" % (p, bn)
            want = orig[2] if orig is not None and orig[0] == "R" else b""
            if after[bn][2] != want:
                return "backup %s does not hold the bytes %s had before the run" % (bn, p)
        else:
            if bn in after and not had_before:
                return "backup %s was created although none was due" % bn
            if had_before and after.get(bn) != (s["tree"][bn][0], s["tree"][bn][1], s["tree"][bn][2]):
                return "pre-existing file %s was changed although no backup was due" % bn
    return None


# ---------------------------------------------------------------- drivers
def scenarios_for(prop, rng, n):
    scns = []
    for _ in range(n):
        o = dict(rng.choice(OPTION_MIX))
        kinds = None
        if prop in ("C17",):
            kinds = ["change", "change", "mode", "rename", "copy"]
            o.update(rng.choice([{}, {"b": 1}, {"ro": "ignore"}, {"ro": "fail"}, {"ro": "warn"}]))
        if prop == "C18":
            o = dict(rng.choice([{}, {"b": 1}, {"b": 1, "z": ".bak"}, {"b": 1, "B": "pre."}, {"b": 1, "B": "pre.", "z": ".post"}, {"b": 1, "B": "old/"}, {"posix": 1}, {"bim": 0},
                                 {"bim": 1, "posix": 1}, {"b": 1, "posix": 1}, {"b": 1, "bim": 0}, {"N": 1}, {"N": 1, "b": 1}, {"f": 1}]))
            kinds = ["change", "change", "change", "add", "delete"]
        if prop == "C15":
            o["dry"] = 1
            kinds = ["change", "change", "add", "delete", "rename", "copy", "mode"]
            if rng.random() < 0.25:
                o.update(rng.choice([{"o": "outfile"}, {"o": "newdir/outfile"}, {"r": "rejects.txt"}, {"o": "outfile", "b": 1}]))
                kinds = ["change", "change", "delete"]
        s = varied_scenario(rng, opts=o, kinds=kinds)
        if prop in ("C17", "C15"):
            for x in s["secs"]:
                if x["path"] in s["tree"] and rng.random() < 0.7:
                    k, m, d = s["tree"][x["path"]]
                    s["tree"][x["path"]] = (k, rng.choice(MODES), d)
        if prop in ("C16", "C18"):
            add_bystanders(rng, s)
        if prop == "C16" and rng.random() < 0.2 and len(s["secs"]) == 1 and s["secs"][0]["kind"] == "change":
            s["opts"]["o"] = "outfile"
        scns.append(s)
    return scns


def refusal_scenarios(rng, n):
    """C17 refusals: read-only + fail, target not a regular file, Prereq missing under --batch"""
    scns = []
    for _ in range(n):
        sec = scen.section(rng, rng.choice(["f", "dir/g"]), kind="change", fmt="unified")
        s = scen.base_scenario(rng, [sec], opts={})
        kind = rng.choice(["rofail", "dir", "fifo", "prereq", "symlinkdir"])
        p = sec["path"]
        if kind == "rofail":
            k, m, d = s["tree"][p]; s["tree"][p] = (k, rng.choice([0o444, 0o400, 0o555]), d); s["opts"]["ro"] = "fail"
        elif kind == "dir":
            s["tree"][p] = ("D", 0o755, b"")
        elif kind == "fifo":
            s["tree"][p] = ("O", 0o644, b"")
        elif kind == "symlinkdir":
            s["tree"]["realdir"] = ("D", 0o755, b""); s["tree"][p] = ("S", 0, b"realdir")
        else:
            k, m, d = s["tree"][p]; s["tree"][p] = (k, rng.choice([0o444, 0o644, 0o400, 0o600]), d)
            s["tree"]["p.diff"] = ("R", 0o644, b"Prereq: no-such-version-string\n" + s["tree"]["p.diff"][2]); s["opts"]["t"] = 1
            if rng.random() < 0.5:
                s["opts"]["b"] = 1
            if rng.random() < 0.4:
                s["opts"]["f"] = 1          # --batch together with --force: --batch still decides
        s["refusal"] = kind
        scns.append(s)
    # the Prereq: word in front of a later patch of a series of git patches for one file (the earlier ones are applied but not yet
    # written): --batch still ends the run there, and nothing of the series reaches the file
    for _ in range(max(4, n // 6)):
        lines0 = [("%s %d" % (gen.rand_text(rng, True), i_), "L") for i_ in range(rng.randint(8, 12))]
        cur = list(lines0); text = b""; k = rng.choice([2, 3]); at = rng.randint(1, k - 1)
        for j_, i_ in enumerate(sorted(rng.sample(range(1, len(lines0) - 1), k))):
            ops = [(" ", l) for l in cur]; ops[i_] = ("-", cur[i_]); ops.insert(i_ + 1, ("+", (cur[i_][0] + "x", "L")))
            if j_ == at:
                text += b"Prereq: no-such-version-string\n"
            text += emit.emit_git("f", "f", gen.hunks_from_ops(ops, 1), kind="change")
            cur = [l for o_, l in ops if o_ != "-"]
        o = {"p": 1, "i": "p.diff", "t": 1}
        if rng.random() < 0.4:
            o["b"] = 1
        sec = dict(path="f", newpath="f", kind="change", fmt="git", hs=[], a=lines0, b=cur, text=text, ops=[], mode_old=None, mode_new=None, w=1)
        scns.append(dict(tree={"f": ("R", rng.choice([0o644, 0o600, 0o755]), emit.file_bytes(lines0)), "p.diff": ("R", 0o644, text)}, opts=o, umask=0o022, secs=[sec], refusal="prereq-series"))
    return scns


def judge_refusal(s, r):
    after = tree_no_meta(r["tree"])
    p = s["secs"][0]["path"]
    b = s["tree"][p]
    a = after.get(p)
    want = (b[0], b[1], b[2] if b[0] in "RS" else b"")
    if a != want:
        return "refused target %s changed: %s -> %s (%s)" % (p, (b[0], oct(b[1])), None if a is None else (a[0], oct(a[1])), s["refusal"])
    if r["exit"] == 0:
        return "exit status 0 although the target had to be refused (%s)" % s["refusal"]
    out = r["stdout"].decode("latin-1")
    if r["exit"] == 1 and "ignored" not in out:
        return "refusal (%s) without reporting the hunks as ignored" % s["refusal"]
    return None


# ---------------------------------------------------------------- C05 / C06: two-step histories
def step2(s, tree_after, extra):
    """the same patch against the tree the first run left, with extra options"""
    t = dict(s)
    t["tree"] = {p: (k, m, d) for p, (k, m, d, *_) in tree_after.items()}
    t["opts"] = dict(s["opts"]); t["opts"].update(extra)
    return t


def first_hunk_still_applies(sec, ws=False):
    """the inherently ambiguous case: the first hunk's old side is still exactly at its stated place in B (under -l: still
    there as far as a comparison that ignores blanks can tell)"""
    hs = sec["hs"]
    if not hs:
        return True
    h = hs[0]
    def nrm(l):
        t, nl = l
        return (re.sub(r"[ \t]+", " ", t).rstrip(" "), "L" if nl == "C" else nl) if ws else (t, nl)
    old = [nrm((t, nl)) for o, t, nl in h["body"] if o != "+"]
    b = [nrm(l) for l in sec["b"]]
    pos = h["os"] - 1 if h["oc"] else h["os"]
    if not old:
        return True            # a pure insertion always 'fits'
    return b[pos:pos + len(old)] == old


def history_runs(run_, exe, rng, n, prop):
    bad, mism = [], []
    base = []
    for _ in range(n):
        kinds = ["change", "change", "change", "add", "delete"] if prop == "C05" else ["change"]
        if prop == "C05" and rng.random() < 0.3:
            kinds = ["rename", "change", "add", "delete"]
        s = scen.gen_scenario(rng, kinds=kinds, opts=rng.choice([{}, {}, {"nl": "keep"}] + ([{"posix": 1}] if prop == "C06" else [])), drift=0)
        if prop == "C06" and rng.random() < 0.4:
            # the first application itself depends on a matching option (-l on a target whose blanks differ, -F 3 on a target
            # whose outer context drifted); the re-run carries the same option
            how = rng.choice(["l", "l", "F3"])
            secs_ = [scen.section(rng, p_, kind="change", fmt=rng.choice(["unified", "context", "git"]), width=3, nonl=False) for p_ in rng.sample(["w", "wd/w"], rng.choice([1, 2]))]
            s = scen.base_scenario(rng, secs_, opts=({"l": 1} if how == "l" else {"F": 3}))
            for x in secs_:
                k_, m_, d_ = s["tree"][x["path"]]
                if how == "l":
                    ls_ = d_.split(b"\n")
                    ls_ = [(l_.replace(b" ", b" \t").replace(b"\t\t", b"\t") + (b" " if l_ and rng.random() < 0.5 else b"")) for l_ in ls_[:-1]] + ls_[-1:]
                    d_ = b"\n".join(ls_)
                else:
                    h0 = x["hs"][0]
                    ls_ = d_.split(b"\n")
                    pos = h0["os"] - 1
                    if 0 <= pos < len(ls_) - 1 and h0["body"] and h0["body"][0][0] == " ":
                        ls_[pos] = b"drifted " + ls_[pos]
                    d_ = b"\n".join(ls_)
                s["tree"][x["path"]] = (k_, m_, d_)
            s["how"] = how
        if prop == "C06" and rng.random() < 0.25:
            # the first application lands at an offset: lines were added at the top of the target since the diff was made
            secs_ = [scen.section(rng, p_, kind="change", fmt=rng.choice(["unified", "context", "git"]), width=rng.choice([2, 3]), nonl=False) for p_ in rng.sample(["o", "od/o"], rng.choice([1, 2]))]
            s = scen.base_scenario(rng, secs_, opts={"F": 0})      # (-F 0: no second fit of the same hunk by fuzz)
            for x in secs_:
                k_, m_, d_ = s["tree"][x["path"]]
                extra = b"".join(b"top %d\n" % j_ for j_ in range(rng.randint(1, 3)))
                s["tree"][x["path"]] = (k_, m_, extra + d_)
                x["b"] = [(l_.decode("latin-1"), "L") for l_ in extra.split(b"\n")[:-1]] + list(x["b"])
                x["hs"] = [dict(h_, os=h_["os"] + extra.count(b"\n"), ns=h_["ns"] + extra.count(b"\n")) for h_ in x["hs"]]
            s["how"] = "offset"
        if prop == "C05" and rng.random() < 0.15:
            # diffs without context that add in front of line 1 or remove the first lines of a file that stays
            s = scen.base_scenario(rng, [scen.top_section(rng, p_, rng.choice(["git", "git", "unified"]), rng.choice(["add-top", "del-top"])) for p_ in rng.sample(["u0", "ud/u0"], rng.choice([1, 2]))], opts={})
        if prop == "C05" and rng.random() < 0.12 and "p.diff" in s["tree"] and s["opts"].get("p") == 1 and not s.get("how"):
            s = scen.dot_names(s) or s          # names written './path', -p0
        if prop == "C05" and rng.random() < 0.15:
            s = scen.dir_stream_scenario(rng)
        if prop == "C05" and rng.random() < 0.25:
            # sections that consist of a git header only
            secs = [scen.headeronly_section(rng, p_, k_) for p_, k_ in zip(rng.sample(["e1", "dir/e2", "e3"], 2), rng.sample(["add", "delete", "rename", "mode"], 2))]
            s = scen.base_scenario(rng, secs, opts={})
            for x in secs:
                if x["kind"] == "delete":
                    scen.add_parents(s["tree"], x["path"]); s["tree"][x["path"]] = ("R", 0o644, b"")
        base.append(s)
    r1, b1, m1 = l2_family(run_, exe, base, lambda s, r: None, cls=lambda s, r: "first run exit %d" % r["exit"], label=prop)
    mism += m1
    # (-N together with -t: -N decides, the patch is skipped)
    variants = [("R", {"R": 1})] if prop == "C05" else [("N", {"N": 1}), ("t", {"t": 1}), ("f", {"f": 1}), ("N", {"N": 1, "t": 1})]
    for name, extra in variants:
        second, idx = [], []
        for i, (s, r) in enumerate(zip(base, r1)):
            if r["exit"] != 0:
                continue
            second.append(step2(s, r["tree"], extra)); idx.append(i)

        def judge(t, r, name=name):
            i = idx[second.index(t)] if False else None
            return None
        r2, b2, m2 = l2_family(run_, exe, second, lambda s, r: None, cls=lambda s, r, name=name: "second run -%s exit %d" % (name, r["exit"]), label=prop)
        mism += m2
        for j, (t, r) in enumerate(zip(second, r2)):
            s = base[idx[j]]
            orig = {p: (k, m, d) for p, (k, m, d) in s["tree"].items()}
            after1 = tree_no_meta(r1[idx[j]]["tree"])
            after2 = tree_no_meta(r["tree"])
            rep = dict(scenario=describe(s), second_run=dict(argv=l2.opts_to_argv(t["opts"]), exit=r["exit"], stdout=r["stdout"].decode("latin-1")[-1200:],
                                                             stderr=r["stderr"].decode("latin-1")[-400:], tree=fmt_tree(r["tree"])))
            ambiguous = any(first_hunk_still_applies(x, ws=bool(s["opts"].get("l"))) for x in s["secs"]) or any(x["kind"] in ("add", "delete") for x in s["secs"])
            if s.get("how") == "offset":
                # the reversed hunk is found at an offset, not perfectly: a forward fit anywhere in the file is as good a reading
                def occurs(x):
                    h_ = x["hs"][0]; old_ = [(t_, n_) for o_, t_, n_ in h_["body"] if o_ != "+"]
                    return not old_ or any(x["b"][k_:k_ + len(old_)] == old_ for k_ in range(len(x["b"]) - len(old_) + 1))
                ambiguous = ambiguous or any(occurs(x) for x in s["secs"])
            # a first run that needed fuzz leaves a file in which the hunk may well fit again with fuzz: nothing is claimed
            # (the runs are still compared with the model)
            if s.get("how") == "F3" and name != "f":
                continue
            if s.get("how") == "l" and name == "t":
                def nws(t_):
                    import re as _re
                    return {p_: (k_, m_, b"\n".join(_re.sub(rb"[ \t]+", b" ", l_).rstrip(b" ") for l_ in d_.split(b"\n")) if k_ == "R" else d_) for p_, (k_, m_, d_) in t_.items()}
                orig = nws(orig); after2 = nws(after2)
            if name == "R":
                if r["exit"] != 0:
                    # (listed in known_findings.txt) a whole-file deletion in context format written diff -cN style -- the new
                    # name is a real name with the epoch as time stamp -- is not seen as a deletion before its body is read, so
                    # -R finds no file to create
                    rep["ctx_epoch_deletion"] = bool(r["exit"] == 2 and b"can't find file to patch" in r["stdout"] and
                                                     any(x["kind"] == "delete" and x["fmt"] == "context" and b"/dev/null" not in x["text"] for x in s["secs"]))
                    bad.append((idx[j], "apply then apply -R: the reverse run exits %d" % r["exit"], rep)); continue
                d = diff_trees(orig, after2)
                if d:
                    bad.append((idx[j], "apply then apply -R does not restore the original tree: " + "; ".join(d[:3]), rep))
            elif ambiguous:
                continue
            elif name == "N":
                extra_files = {p: v for p, v in after2.items() if p not in after1}
                changed = [p for p in after1 if after2.get(p) != after1[p]]
                if changed:
                    bad.append((idx[j], "re-applying with -N changed %s" % changed[:3], rep)); continue
                if r["exit"] != 1:
                    bad.append((idx[j], "re-applying with -N exits %d instead of 1" % r["exit"], rep)); continue
                out = r["stdout"].decode("latin-1")
                nh = sum(len(x["hs"]) for x in s["secs"])
                ign = sum(int(a) for a, b, c in SUMMARY_RE.findall(out) if c == "ignored")
                rej = sum(count_reject_hunks(v[2]) for p, v in extra_files.items() if p.endswith(".rej"))
                if ign != nh or rej != nh:
                    bad.append((idx[j], "re-applying with -N: %d hunks, %d reported ignored, %d saved as rejects" % (nh, ign, rej), rep))
            elif name == "t":
                d = diff_trees(orig, {p: v for p, v in after2.items() if not p.endswith(".orig")})
                if d or r["exit"] != 0:
                    bad.append((idx[j], "re-applying with -t does not restore the original (exit %d): %s" % (r["exit"], "; ".join(d[:3])), rep))
            elif name == "f":
                # no guess: the answer must not mention a reversed patch
                if "eversed" in r["stdout"].decode("latin-1"):
                    bad.append((idx[j], "-f still guessed that the patch is reversed", rep))
    if prop == "C06":
        # histories in which the file comes into being: a creating patch run twice, and (under -R) a deleting or changing
        # patch un-applied twice; the second run carries -N (or -t): recognised as applied, nothing changes / reverted
        cre = []
        for _ in range(max(30, n // 2)):
            how = rng.choice(["add", "R-delete", "R-change"])
            kind = {"add": "add", "R-delete": "delete", "R-change": "change"}[how]
            fmt = rng.choice(["unified", "git", "unified", "context"])
            if kind != "change" and fmt == "context":
                fmt = "unified"
            sec = scen.section(rng, rng.choice(["c", "cd/c"]), kind=kind, fmt=fmt, nonl=False)
            o = {"R": 1} if how != "add" else {}
            if how == "R-change" and rng.random() < 0.4:
                o["posix"] = 1          # (POSIX mode: the guess is made all the same, -R or not)
            s = scen.base_scenario(rng, [sec], opts=o)
            if how != "add":
                t_ = scen.expected_tree(s)
                s["tree"] = {p_: (k_, m_, d_) for p_, (k_, m_, d_) in t_.items()}
            s["how"] = how
            eff = dict(sec)
            if how != "add":
                eff = dict(sec, a=sec["b"], b=sec["a"], hs=applyc.reverse_hunks(sec["hs"]))
            s["eff"] = eff
            cre.append(s)
        rc1, bc1, mc1 = l2_family(run_, exe, cre, lambda s, r: None, cls=lambda s, r: "%s first run exit %d" % (s["how"], r["exit"]), label=prop)
        mism += mc1
        for name, extra in (("N", {"N": 1}), ("t", {"t": 1})):
            second = [step2(s, r["tree"], extra) for s, r in zip(cre, rc1) if r["exit"] == 0]
            firsts = [(s, r) for s, r in zip(cre, rc1) if r["exit"] == 0]
            rc2, _, mc2 = l2_family(run_, exe, second, lambda s, r: None, cls=lambda s, r, name=name: "%s second run -%s exit %d" % (s["how"], name, r["exit"]), label=prop)
            mism += mc2
            for j, ((s, r1_), t, r) in enumerate(zip(firsts, second, rc2)):
                eff = s["eff"]
                if eff["hs"] and eff["a"] and first_hunk_still_applies(eff):
                    continue
                # a creating patch in 'diff -N' style (real old name, epoch time stamp) states nothing this tool reads as "no file
                # yet": its -0,0 hunk is an insertion at the top, which always fits -- the premise of the property is not met
                if not eff["a"] and b"/dev/null" not in s["secs"][0]["text"]:
                    continue
                after1 = tree_no_meta(r1_["tree"]); after2 = tree_no_meta(r["tree"])
                out = r["stdout"].decode("latin-1")
                rep = dict(scenario=describe(s), second_run=dict(argv=l2.opts_to_argv(t["opts"]), exit=r["exit"], stdout=out[-1200:],
                                                                 stderr=r["stderr"].decode("latin-1")[-400:], tree=fmt_tree(r["tree"])))
                nh = len(eff["hs"])
                if name == "N":
                    changed = [p_ for p_ in after1 if after2.get(p_) != after1[p_]]
                    ign = sum(int(a_) for a_, b_, c_ in SUMMARY_RE.findall(out) if c_ == "ignored")
                    rej = sum(count_reject_hunks(v[2]) for p_, v in after2.items() if p_ not in after1 and p_.endswith(".rej"))
                    if changed:
                        bad.append((j, "%s, then the same call with -N: %s changed" % (s["how"], changed[:3]), rep))
                    elif r["exit"] != 1:
                        bad.append((j, "%s, then the same call with -N: exit %d instead of 1" % (s["how"], r["exit"]), rep))
                    elif ign != nh or rej != nh:
                        bad.append((j, "%s, then the same call with -N: %d hunks, %d reported ignored, %d saved as rejects" % (s["how"], nh, ign, rej), rep))
                else:
                    orig = {p_: v for p_, v in s["tree"].items()}
                    d = diff_trees(orig, {p_: v for p_, v in after2.items() if not p_.endswith(".orig")})
                    if d or r["exit"] != 0:
                        bad.append((j, "%s, then the same call with -t does not restore the state before the first run (exit %d): %s" % (s["how"], r["exit"], "; ".join(d[:3])), rep))
        # a patch that empties / deletes its file, run with -N on a tree where that file is already empty (the state an
        # earlier run under --posix, which keeps empty files, leaves behind): detected as applied, every file stays as it is
        emptied = []
        for _ in range(max(20, n // 4)):
            sec = scen.section(rng, rng.choice(["e", "d/e", "e.txt"]), kind="delete", fmt=rng.choice(["unified", "unified", "context", "git"]))
            s = scen.base_scenario(rng, [sec], opts={"N": 1})
            s["tree"][sec["path"]] = ("R", 0o644, b"")
            for bystander in ("keep", "d/keep"):
                scen.add_parents(s["tree"], bystander); s["tree"][bystander] = ("R", 0o644, b"k\n")
            emptied.append(s)

        def judge_emptied(s, r):
            sec = s["secs"][0]
            after = tree_no_meta(r["tree"])
            if "eversed" not in r["stdout"].decode("latin-1"):
                return None      # not recognised as applied (e.g. the hunk was judged on its own): nothing claimed here
            if after.get(sec["path"]) != ("R", 0o644, b""):
                return "-N on an already emptied file: the file did not stay as it was (%r)" % (after.get(sec["path"]),)
            for b_ in ("keep", "d/keep"):
                if after.get(b_) != ("R", 0o644, b"k\n"):
                    return "-N run changed the bystander %s" % b_
            if r["exit"] != 1:
                return "-N on an already applied patch exits %d instead of 1" % r["exit"]
            return None
        r3, b3, m3 = l2_family(run_, exe, emptied, judge_emptied, cls=lambda s, r: "-N on emptied file exit %d" % r["exit"], label=prop)
        bad += b3; mism += m3
    return bad, mism


def run(prop, tier, seed):
    run_ = Run(prop, tier, seed)
    if THEOREMS.get(prop):
        proofs_into_run(run_, prop, THEOREMS[prop])
    rng = random.Random(seed * 49979687 + int(prop[1:]))
    q = tier == "quick"
    n = 350 if q else 5000
    try:
        exe = os.path.join(build_impl(), "sb_patch")
        bad, mism = [], []
        if prop == "C04":
            import applyc
            cases, impl, model, mm, b1 = applyc.run_drifted(run_, prop, rng, 2500 if q else 30000, "C04")
            bad += [(i, d, dict(case=cases[i], impl=impl[i], model=model[i])) for i, d in b1[:20]]
            mism += [(i, "L1", dict(case=cases[i], impl=impl[i], model=model[i])) for i in mm[:3]]
            scns = scenarios_for(prop, rng, n)
            # reject files left behind by an earlier run (real hunks in them) at the names this run derives
            for s0 in scns:
                if rng.random() < 0.3:
                    for x in s0["secs"]:
                        rp = s0["opts"].get("r") or ((s0["opts"].get("o") or x["newpath"]) + ".rej")
                        if rp not in s0["tree"]:
                            scen.add_parents(s0["tree"], rp)
                            s0["tree"][rp] = ("R", 0o644, b"--- old\n+++ old\n@@ -1 +1 @@\n-left by\n+an earlier run\n@@ -7 +7 @@\n-second\n+hunk\n")
            # targets that have to be refused, with and without --dry-run, -r, -o
            rs = [s0 for s0 in refusal_scenarios(rng, n // 3) if not s0["refusal"].startswith("prereq")]      # (a missing Prereq under --batch aborts the run)
            for s0 in rs:
                s0["opts"].update(rng.choice([{}, {"dry": 1}, {"dry": 1}, {"r": "rejects.txt"}, {"dry": 1, "r": "rejects.txt"}, {"o": "outfile"}, {"dry": 1, "o": "outfile"}]))
                if rng.random() < 0.4:
                    rp = s0["opts"].get("r") or ((s0["opts"].get("o") or s0["secs"][0]["path"]) + ".rej")
                    s0["tree"][rp] = ("R", 0o644, b"--- old\n+++ old\n@@ -1 +1 @@\n-left by\n+an earlier run\n")
            scns += rs
            _, b2, m2 = l2_family(run_, exe, scns, judge_c04, cls=lambda s, r: "exit %d" % r["exit"])
            bad += b2; mism += m2
            # a partly applied patch (its first hunk is in the target already, later ones are not) run with -N: skipped as a whole,
            # EVERY hunk reported as ignored and saved as a reject, the target untouched
            part = []
            for _ in range(n // 5):
                while True:
                    sec = scen.section(rng, rng.choice(["pa", "pd/pa"]), kind="change", fmt=rng.choice(["unified", "context", "git"]), width=rng.choice([1, 2, 3]), nonl=False)
                    if len(sec["hs"]) >= 2:
                        break
                h0 = sec["hs"][0]; pos = h0["os"] - 1 if h0["oc"] else h0["os"]
                a_ = list(sec["a"])
                mid = a_[:pos] + [(t, nl) for o_, t, nl in h0["body"] if o_ != "-"] + a_[pos + h0["oc"]:]
                s0 = scen.base_scenario(rng, [sec], opts=dict(rng.choice([{"N": 1}, {"N": 1, "rf": "context"}, {"N": 1, "b": 1}])))
                s0["tree"][sec["path"]] = ("R", 0o644, emit.file_bytes(mid)); s0["mid"] = emit.file_bytes(mid)
                part.append(s0)

            def judge_part(s, r):
                out = r["stdout"].decode("latin-1"); sec = s["secs"][0]; after = tree_no_meta(r["tree"])
                if "Skipping patch" not in out:
                    return None
                nh = len(sec["hs"])
                ign = sum(int(a_) for a_, b_, c_ in SUMMARY_RE.findall(out) if c_ == "ignored")
                rej = after.get(sec["path"] + ".rej")
                nrej = count_reject_hunks(rej[2]) if rej else 0
                if after.get(sec["path"], (0, 0, None))[2] != s["mid"]:
                    return "a skipped patch changed its target"
                if ign != nh or nrej != nh:
                    return "a patch of %d hunks was skipped: %d reported as ignored, %d saved as rejects (every hunk has to be)" % (nh, ign, nrej)
                return judge_c04(s, r)
            _, b7, m7 = l2_family(run_, exe, part, judge_part, cls=lambda s, r: "partly applied -N exit %d" % r["exit"])
            bad += b7; mism += m7
            # a reject / output file on a device that takes no data (/dev/full): the failed write has to end the run with status 2
            full = []
            for _ in range(max(6, n // 30)):
                sec = scen.section(rng, "ff", kind="change", fmt=rng.choice(["unified", "context"]), nonl=False)
                how = rng.choice(["r", "r", "o"])
                s0 = scen.base_scenario(rng, [sec], opts=({"r": "/dev/full", "f": 1} if how == "r" else {"o": "/dev/full"}))
                if how == "r":
                    s0["tree"]["ff"] = ("R", 0o644, b"nothing of the patch matches here\n")
                full.append(s0)
            def judge_full(s, r):
                if s["opts"].get("r") and b"FAILED" not in r["stdout"]:
                    return None         # (every hunk found a place, with fuzz: nothing is written to the reject file)
                if r["exit"] != 2 or not r["stderr"].strip():
                    return "the write to /dev/full failed (ENOSPC) and the run ends with exit status %d%s" % (r["exit"], "" if r["stderr"].strip() else " without a diagnostic")
                return None
            _, b8, _ = l2_family(run_, exe, full, judge_full, cls=lambda s, r: "/dev/full exit %d" % r["exit"], compare=False)
            bad += b8
            # the reject file cannot be written (a directory stands at its name, -r names a path below a regular file) while some hunk
            # applies and another fails: no hunk may end up applied in the target while the failed one is saved nowhere
            blk = []
            for _ in range(max(8, n // 25)):
                while True:
                    sec = scen.section(rng, rng.choice(["bf", "bd/bf"]), kind="change", fmt=rng.choice(["unified", "context"]), width=rng.choice([1, 2]), nonl=False)
                    if len(sec["hs"]) >= 2:
                        break
                how = rng.choice(["dir-at-rej", "r-below-file"])
                s0 = scen.base_scenario(rng, [sec], opts=({"f": 1} if how == "dir-at-rej" else {"f": 1, "r": "plain/rejects"}))
                # spoil the place of the last hunk only
                k_, m_, d_ = s0["tree"][sec["path"]]
                ls_ = d_.split(b"\n"); h_ = sec["hs"][-1]
                for j_ in range(h_["os"] - 1, min(len(ls_) - 1, h_["os"] - 1 + max(1, h_["oc"]))):
                    ls_[j_] = b"spoiled " + ls_[j_]
                s0["tree"][sec["path"]] = (k_, m_, b"\n".join(ls_))
                if how == "dir-at-rej":
                    s0["tree"][sec["path"] + ".rej"] = ("D", 0o755, b""); s0["tree"][sec["path"] + ".rej/keep"] = ("R", 0o644, b"k\n")
                else:
                    s0["tree"]["plain"] = ("R", 0o644, b"a regular file\n")
                s0["how"] = how
                blk.append(s0)
            def judge_blk(s, r):
                p_ = s["secs"][0]["path"]; after = tree_no_meta(r["tree"])
                out = r["stdout"].decode("latin-1")
                if "FAILED" not in out:
                    return None
                saved = any(k_.endswith("rejects") or (k_.endswith(".rej") and v_[0] == "R") for k_, v_ in after.items() if k_ not in s["tree"] or after[k_] != tree_no_meta({k_: s["tree"][k_] + ()})[k_])
                if after.get(p_) != (s["tree"][p_][0], s["tree"][p_][1], s["tree"][p_][2]) and not saved:
                    return "the reject file cannot be written (%s), exit %d: the target was changed by the hunks that fit while the failed hunk is saved nowhere" % (s["how"], r["exit"])
                return None
            _, b9, m9 = l2_family(run_, exe, blk, judge_blk, cls=lambda s, r: "reject path blocked (%s) exit %d" % (s["how"], r["exit"]))
            bad += b9; mism += m9
            # a read of the target or of the patch file that fails part way (files larger than a stdio buffer, EIO on each read in
            # turn): the run either says so with status 2 or is the undisturbed run -- a short reading is not the end of the file,
            # its hunks are neither "applied" to a truncated target (status 0) nor "rejected" (status 1)
            import faults, concurrent.futures
            a_ = [("line %04d %s" % (i_, "x" * 20), "L") for i_ in range(420)]
            ops_ = [(" ", l_) for l_ in a_]
            for at_ in (380, 30):
                ops_[at_] = ("-", a_[at_]); ops_.insert(at_ + 1, ("+", ("changed line %d" % at_, "L")))
            hs_ = gen.hunks_from_ops(ops_, 3)
            bigs = dict(tree={"big": ("R", 0o644, emit.file_bytes(a_)), "p.diff": ("R", 0o644, emit.emit_unified("a/big", "b/big", hs_))},
                        opts={"p": 1, "i": "p.diff"}, umask=0o022, secs=[])
            base_b = run_many(exe, [bigs], strace="read,openat", timeout=30)[0]
            rjobs = [k_ for name_, k_, line_ in faults.relevant_calls(base_b.get("trace", []), ["read"])]
            if not q:
                rjobs = rjobs + rjobs
            with concurrent.futures.ThreadPoolExecutor(max_workers=12) as ex:
                rres = list(ex.map(lambda k_: l2.run_impl(exe, bigs, strace="read,openat", inject="read:error=EIO:when=%d" % k_, timeout=30), rjobs))
            for k_, r_ in zip(rjobs, rres):
                run_.count("C04 read fault %d" % k_, True, "read fault -> exit %d" % r_["exit"])
                same = r_["exit"] == base_b["exit"] and tree_no_meta(r_["tree"]) == tree_no_meta(base_b["tree"])
                if r_["exit"] != 2 and not same:
                    bad.append((0, "read #%d of the run fails with EIO: exit status %d (%s), the target has %d bytes (undisturbed run: exit %d, %d bytes)" %
                                (k_, r_["exit"], (r_["stdout"].decode("latin-1").strip().splitlines() or [""])[-1][:80], len(tree_no_meta(r_["tree"]).get("big", (0, 0, b""))[2]),
                                 base_b["exit"], len(tree_no_meta(base_b["tree"])["big"][2])),
                                dict(scenario=describe(bigs), inject="read:error=EIO:when=%d" % k_, impl=dict(exit=r_["exit"], stdout=r_["stdout"].decode("latin-1")[-600:], stderr=r_["stderr"].decode("latin-1")[-300:]))))
            run_.cov["read_fault_schedules"] = len(rjobs)
        elif prop == "C15":
            scns = scenarios_for(prop, rng, n)
            # a Prereq: word that the file does not hold (and one that it does), with and without -f / -t: the question the real
            # run would ask is part of the outcome the dry run predicts
            for _ in range(n // 8):
                sec = scen.section(rng, rng.choice(["pq", "pd/pq"]), kind="change", fmt=rng.choice(["unified", "context"]), nonl=False)
                s0 = scen.base_scenario(rng, [sec], opts=dict(rng.choice([{"dry": 1}, {"dry": 1}, {"dry": 1, "f": 1}, {"dry": 1, "t": 1}, {"dry": 1, "N": 1}])))
                word = rng.choice([b"no-such-version-string", b"no-such-version-string", (sec["a"][0][0].split() or ["zz"])[0].encode("latin-1")])
                k_, m_, d_ = s0["tree"]["p.diff"]; s0["tree"]["p.diff"] = (k_, m_, b"Prereq: " + word + b"\n" + d_)
                scns.append(s0)
            # several patches of one run for the same file: the later ones apply to what the earlier ones leave (see K_DRY_SERIES)
            for _ in range(n // 10):
                scns.append(scen.same_file_scenario(rng, opts={"dry": 1}, git=rng.random() < 0.3))
            res, b2, m2 = l2_family(run_, exe, scns, judge_dry, cls=lambda s, r: "dry exit %d" % r["exit"], with_mtime=True)
            bad += b2; mism += m2
            # the same invocation without --dry-run on the same initial state
            real = []
            for s in scns:
                t = dict(s); t["opts"] = {k: v for k, v in s["opts"].items() if k != "dry"}; real.append(t)
            res2 = run_many(exe, real)
            for i, (a, b) in enumerate(zip(res, res2)):
                if a["exit"] != b["exit"] or events_of(a) != events_of(b):
                    # (listed in known_findings.txt) a dry run writes nothing, not even in memory: a later patch for a file that an
                    # earlier patch of the same run changes is tried on the file as it is on disk
                    series_ = bool(scns[i].get("order")) and b["exit"] != 2 and (a["exit"] != 2 or "can't find file to patch" in a["stdout"].decode("latin-1"))
                    bad.append((i, "--dry-run predicts exit %d / %d verdict lines, the real run gives exit %d / %d verdict lines" %
                                (a["exit"], len(events_of(a)), b["exit"], len(events_of(b))),
                                dict(dry_series_same_file=series_, scenario=describe(scns[i]), dry=dict(exit=a["exit"], stdout=a["stdout"].decode("latin-1")[-800:], stderr=a["stderr"].decode("latin-1")[-300:]),
                                     real=dict(exit=b["exit"], stdout=b["stdout"].decode("latin-1")[-800:], stderr=b["stderr"].decode("latin-1")[-300:]))))
        elif prop in ("C05", "C06"):
            b2, m2 = history_runs(run_, exe, rng, 200 if q else 3000, prop)
            bad += b2; mism += m2
            scns = []
        elif prop == "C16":
            scns = scenarios_for(prop, rng, n)
            for _ in range(n // 6):
                sec = scen.section(rng, rng.choice(["f", "dir/f"]), kind=rng.choice(["delete", "change"]), fmt="unified")
                s0 = scen.base_scenario(rng, [sec], opts=dict(rng.choice([{"b": 1, "o": "outfile"}, {"o": "outfile"}, {"b": 1, "o": "sub/outfile"}])))
                if "sub/outfile" == s0["opts"]["o"]:
                    s0["tree"]["sub"] = ("D", 0o755, b"")
                scns.append(add_bystanders(rng, s0))
            for _ in range(n // 6):
                scns.append(add_bystanders(rng, scen.same_file_scenario(rng, opts=dict(rng.choice([{"b": 1}, {}])), git=rng.random() < 0.3)))
            for _ in range(n // 6):
                # --dry-run over sections that move, copy, create and delete files (alone in their directory, so that a removal
                # would take the directory with it): nothing at all may be touched
                kinds_ = rng.choice([["rename"], ["rename", "delete"], ["copy", "add"], ["delete"], ["rename", "change"]])
                scns.append(add_bystanders(rng, scen.gen_scenario(rng, nsec=len(kinds_), kinds=kinds_, opts=dict(rng.choice([{"dry": 1}, {"dry": 1, "b": 1}, {"dry": 1, "E": 1}])), drift=0)))
            for _ in range(n // 8):
                # -R of a git rename with several hunks on the tree that holds the new name, the place of its last hunk spoiled:
                # the rejects belong at the name that is written (the old name), nowhere else
                while True:
                    sec = scen.section(rng, rng.choice(["rr", "rrd/rr"]), kind="rename", fmt="git", width=rng.choice([1, 2]), nonl=False)
                    if len(sec["hs"]) >= 2:
                        break
                s0 = scen.base_scenario(rng, [sec], opts={"R": 1, "f": 1})
                tr = {p_: v_ for p_, v_ in s0["tree"].items() if p_ != sec["path"]}
                bl = [t_.encode("latin-1") for t_, nl_ in sec["b"]]
                h_ = sec["hs"][-1]
                for j_ in range(h_["ns"] - 1, min(len(bl), h_["ns"] - 1 + max(1, h_["nc"]))):
                    bl[j_] = b"spoiled " + bl[j_]
                scen.add_parents(tr, sec["newpath"]); tr[sec["newpath"]] = ("R", 0o644, b"".join(l_ + b"\n" for l_ in bl))
                s0["tree"] = tr
                scns.append(add_bystanders(rng, s0))
            for _ in range(n // 8):
                # a git stream over several files of which only one applies imperfectly (no -b): the files that apply exactly get
                # no backup, and a file that already stands at their backup name is left alone
                secs_ = [scen.section(rng, p_, kind="change", fmt="git", width=3, nonl=False) for p_ in rng.sample(["ga", "gd/gb", "gc"], 2)]
                s0 = scen.base_scenario(rng, secs_, opts={})
                k_, m_, d_ = s0["tree"][secs_[0]["path"]]
                s0["tree"][secs_[0]["path"]] = (k_, m_, b"drift 1\ndrift 2\n" + d_)
                s0["tree"][secs_[1]["path"] + ".orig"] = ("R", 0o644, b"kept from an earlier run\n")
                s0["exact"] = secs_[1]["path"]
                scns.append(s0)
            for _ in range(n // 5):
                # the file to patch is named on the command line; a file with the name the headers carry stands by
                kind = rng.choice(["change", "change", "rename", "delete", "copy"])
                sec = scen.section(rng, rng.choice(["h", "hd/h"]), kind=kind, fmt=("git" if kind in ("rename", "copy") else rng.choice(["unified", "context", "git", "normal"])))
                s0 = scen.base_scenario(rng, [sec], opts=dict(rng.choice([{}, {"b": 1}, {"f": 1}])))
                content = s0["tree"][sec["path"]]
                opnd = rng.choice(["tgt", "op/tgt"])
                scen.add_parents(s0["tree"], opnd); s0["tree"][opnd] = content
                if rng.random() < 0.5:
                    s0["tree"][sec["path"]] = (content[0], content[1], b"bystander with the header name\n")
                s0["opts"]["file"] = opnd
                scns.append(add_bystanders(rng, s0))
            for _ in range(n // 6):
                # a target that has to be refused (a directory, a FIFO, read-only under --read-only=fail) while the name to write
                # differs from the name that is read (-o, rename, copy): the rejects belong to the output name
                kind = rng.choice(["change", "rename", "copy", "change"])
                sec = scen.section(rng, rng.choice(["rf", "rdir/rf"]), kind=kind, fmt=("git" if kind != "change" else rng.choice(["unified", "context", "git"])))
                o = dict(rng.choice([{}, {"b": 1}, {"rf": "context"}]))
                if kind == "change":
                    o["o"] = rng.choice(["outfile", "osub/outfile"])
                s0 = scen.base_scenario(rng, [sec], opts=o)
                how = rng.choice(["dir", "fifo", "rofail"])
                k_, m_, d_ = s0["tree"][sec["path"]]
                if how == "dir":
                    s0["tree"][sec["path"]] = ("D", 0o755, b"")
                elif how == "fifo":
                    s0["tree"][sec["path"]] = ("O", 0o644, b"")
                else:
                    s0["tree"][sec["path"]] = (k_, 0o444, d_); s0["opts"]["ro"] = "fail"
                s0["tree"][sec["path"] + ".rej"] = ("R", 0o644, b"someone else's rejects\n")
                scns.append(add_bystanders(rng, s0))
            for _ in range(n // 6):
                # output and reject names in directories that do not exist yet, with failing hunks, with and without --dry-run
                sec = scen.section(rng, rng.choice(["q", "qd/q"]), kind="change", fmt=rng.choice(["unified", "context", "git"]))
                o = dict(rng.choice([{"o": "newdir/sub/out"}, {"r": "newdir/x.rej"}, {"o": "newdir/out", "r": "rdir/x.rej"}, {"b": 1, "o": "newdir/sub/out"}]))
                o.update(rng.choice([{"dry": 1}, {"dry": 1, "f": 1}, {"f": 1}, {}]))
                scns.append(add_bystanders(rng, scen.base_scenario(rng, [sec], opts=o, drift=rng.choice([0, 0.9, 0.9]))))
            for _ in range(n // 6):
                # the three names of a header (old, new, Index:) all differ: the file patched is the first that exists, the others
                # are bystanders
                sec = scen.section(rng, "t", kind="change", fmt=rng.choice(["unified", "context"]), nonl=False)
                names = dict(old="o/" + rng.choice(["one", "d/one"]), new="n/" + rng.choice(["two", "d/two"]), index="i/" + rng.choice(["three", "d/three"]))
                text = sec["text"].replace(b"a/t", ("x/" + names["old"]).encode(), 1).replace(b"b/t", ("x/" + names["new"]).encode(), 1)
                text = ("Index: x/%s\n" % names["index"]).encode() + text
                present = [k for k in ("old", "new", "index") if rng.random() < 0.65] or ["new"]
                tree = {}
                for k in present:
                    scen.add_parents(tree, names[k]); tree[names[k]] = ("R", 0o644, emit.file_bytes(sec["a"]))
                tree["p.diff"] = ("R", 0o644, text)
                chosen = names[present[0]]
                sec2 = dict(sec, path=chosen, newpath=chosen)
                scns.append(add_bystanders(rng, dict(tree=tree, opts=dict(rng.choice([{}, {"b": 1}]), p=1, i="p.diff"), umask=0o022, secs=[sec2])))
            for _ in range(n // 6):
                # git renames / copies (with and without hunks) of files whose names git writes in quotes, in sub-directories, under
                # -p1, with bystanders at the names that a wrong strip count would give; and copies under -o
                base = rng.choice(["f\xc3\xa4.txt", "a b.c", "t\xe9st"])
                src = "dir/sub/" + base
                kind = rng.choice(["rename", "copy", "rename"])
                dst = rng.choice(["dir/sub/g" + base, "dir/other/" + base])
                secx = scen.section(rng, "t", kind="change", fmt="git", nonl=False)
                hunkless = rng.random() < 0.5
                hs = [] if hunkless else secx["hs"]
                a = secx["a"]; b = a if hunkless else secx["b"]
                text = emit.emit_git(emit.cquote(src).decode("latin-1") if False else src, dst, hs, kind=kind)
                # git quotes such names itself: rewrite the header and the rename/copy lines in git's quoted form
                def gq(nm, pre=""):
                    return emit.cquote(pre + nm).decode("latin-1") if any(ord(ch) > 126 for ch in nm) else pre + nm
                text = text.replace(("diff --git a/%s b/%s" % (src, dst)).encode("latin-1"), ("diff --git %s %s" % (gq(src, "a/"), gq(dst, "b/"))).encode("latin-1"))
                for w_ in ("rename", "copy"):
                    text = text.replace(("%s from %s" % (w_, src)).encode("latin-1"), ("%s from %s" % (w_, gq(src))).encode("latin-1"))
                    text = text.replace(("%s to %s" % (w_, dst)).encode("latin-1"), ("%s to %s" % (w_, gq(dst))).encode("latin-1"))
                text = text.replace(("--- a/%s" % src).encode("latin-1"), ("--- %s" % gq(src, "a/")).encode("latin-1")).replace(("+++ b/%s" % dst).encode("latin-1"), ("+++ %s" % gq(dst, "b/")).encode("latin-1"))
                o = {"p": 1, "i": "p.diff"}
                if kind == "copy" and rng.random() < 0.5:
                    o["o"] = "outfile"
                tree = {"p.diff": ("R", 0o644, text)}
                scen.add_parents(tree, src); tree[src] = ("R", 0o644, emit.file_bytes(a))
                for by in ("sub/" + base, base, "sub/g" + base, "other/" + base):
                    scen.add_parents(tree, by); tree[by] = ("R", 0o644, b"bystander at a wrongly stripped name\n")
                sec2 = dict(path=src, newpath=dst, a=a, b=b, text=text, fmt="git", kind=kind, hs=hs, ops=[], mode_old=None, mode_new=None, w=0)
                scns.append(dict(tree=tree, opts=o, umask=0o022, secs=[sec2]))
            _, b2, m2 = l2_family(run_, exe, scns, judge_c16, cls=lambda s, r: "exit %d" % r["exit"])
            bad += b2; mism += m2
            # no temporary may stay behind even when setting one up fails half way (fdopen's fcntl) or the run is killed there
            fs_ = scns[:12 if q else 100]
            for inj in ["fcntl:error=ENOMEM:when=%d" % k for k in (1, 2, 3)] + ["fcntl:signal=KILL:when=%d" % k for k in (1, 2)]:
                rs = run_many(exe, fs_, strace="fcntl,openat,unlink", inject=inj, timeout=30)
                for i, (s0, r0) in enumerate(zip(fs_, rs)):
                    run_.count("fcntl %s %d" % (inj, i), True, "fdopen fault " + inj.split(":")[1])
                    if r0["tmp_left"]:
                        bad.append((i, "a temporary file is left in TMPDIR when %s hits the set-up of a temporary: %s" % (inj, r0["tmp_left"]),
                                    dict(scenario=describe(s0), inject=inj, tmp_left=r0["tmp_left"], stderr=r0["stderr"].decode("latin-1")[-300:])))
        elif prop == "C17":
            scns = scenarios_for(prop, rng, n)
            _, b2, m2 = l2_family(run_, exe, scns, judge_c17, cls=lambda s, r: "modes exit %d" % r["exit"])
            # -R of a git rename or copy without mode header, the file under its new name having a mode of its own: the file that
            # comes back under the old name has that mode
            rv = []
            for _ in range(n // 6):
                sec = scen.section(rng, rng.choice(["rm", "rd/rm"]), kind="rename", fmt="git", nonl=False)
                if rng.random() < 0.4:
                    sec = dict(sec, hs=[], b=sec["a"], text=emit.emit_git(sec["path"], sec["newpath"], [], kind="rename"))
                md = rng.choice([0o755, 0o600, 0o750, 0o444, 0o640, 0o711])
                s0 = scen.base_scenario(rng, [sec], opts={"R": 1})
                tr = {p_: v_ for p_, v_ in s0["tree"].items() if p_ != sec["path"]}
                scen.add_parents(tr, sec["newpath"]); tr[sec["newpath"]] = ("R", md, emit.file_bytes(sec["b"]))
                s0["tree"] = tr; s0["md"] = md
                rv.append(s0)
            def judge_rv(s, r):
                x = s["secs"][0]; a_ = tree_no_meta(r["tree"]).get(x["path"])
                if r["exit"] != 0:
                    return None
                if a_ is None or a_[2] != emit.file_bytes(x["a"]):
                    return None      # (what -R restores is C05's business)
                if a_[1] != s["md"]:
                    return "-R of a git rename: %s had mode %o, %s comes back with mode %o" % (x["newpath"], s["md"], x["path"], a_[1])
                return None
            _, b8, m8 = l2_family(run_, exe, rv, judge_rv, cls=lambda s, r: "-R rename exit %d" % r["exit"])
            bad += b8; mism += m8
            rs = refusal_scenarios(rng, n // 3)
            _, b3, m3 = l2_family(run_, exe, rs, judge_refusal, cls=lambda s, r: "refusal " + s["refusal"])
            bad += b2 + b3; mism += m2 + m3
            # a series of git patches in one stream (git format-patch output concatenated): several sections for one file, a
            # mode header on one of them; the file ends with the last mode a header gave it, else with the mode it had
            ser = []
            for _ in range(n // 5):
                lines0 = [(gen.rand_text(rng, True) + str(i_), "L") for i_ in range(rng.randint(3, 7))]
                cur = list(lines0); mode0 = rng.choice([0o644, 0o600, 0o444, 0o755, 0o640]); want = mode0
                text = b""; k = rng.choice([2, 2, 3])
                for j in range(k):
                    i_ = rng.randrange(len(cur))
                    ops = [(" ", l) for l in cur]; ops[i_] = ("-", cur[i_]); ops.insert(i_ + 1, ("+", (cur[i_][0] + "x", "L")))
                    hs = gen.hunks_from_ops(ops, 2)
                    mo = mn = None
                    if rng.random() < 0.5:
                        mo = "100%03o" % (want & 0o777); want = rng.choice([0o755, 0o644, 0o600, 0o750]); mn = "100%03o" % want
                    if rng.random() < 0.2 and mo:
                        hs = []
                    text += emit.emit_git("s/f", "s/f", hs, kind="change", old_mode=mo, new_mode=mn)
                    if hs:
                        cur = [l for o_, l in ops if o_ != "-"]
                tree = {"s": ("D", 0o755, b""), "s/f": ("R", mode0, emit.file_bytes(lines0)), "p.diff": ("R", 0o644, text)}
                o = dict(rng.choice([{}, {"b": 1}, {"ro": "ignore"}]))
                o.update(p=1, i="p.diff")
                ser.append(dict(tree=tree, opts=o, umask=0o022, secs=[], want_mode=want, want_bytes=emit.file_bytes(cur)))

            def judge_series(s, r):
                a = tree_no_meta(r["tree"]).get("s/f")
                if r["exit"] != 0 or a is None or a[2] != s["want_bytes"]:
                    return "a series of git patches for one file did not apply cleanly (exit %d)" % r["exit"]
                if a[1] != s["want_mode"]:
                    return "after a series of git patches for one file its mode is %o, the last mode header (or the original mode) says %o" % (a[1], s["want_mode"])
                return None
            _, b4, m4 = l2_family(run_, exe, ser, judge_series, cls=lambda s, r: "series exit %d" % r["exit"])
            bad += b4; mism += m4
            # the file to patch is reached through a symbolic link: the mode that counts (kept, or refused when read-only)
            # is the mode of the file behind the link
            lk = []
            for _ in range(n // 5):
                sec = scen.section(rng, rng.choice(["lf", "ld/lf"]), kind="change", fmt=rng.choice(["unified", "context", "git"]), nonl=False)
                o = dict(rng.choice([{}, {}, {"ro": "fail"}, {"ro": "warn"}, {"ro": "ignore"}]))
                s0 = scen.base_scenario(rng, [sec], opts=o)
                k_, m_, d_ = s0["tree"][sec["path"]]
                real = sec["path"] + ".real"
                mode = rng.choice([0o644, 0o640, 0o600, 0o444, 0o400, 0o755, 0o664])
                s0["tree"][real] = ("R", mode, d_)
                s0["tree"][sec["path"]] = ("S", 0, real.rsplit("/", 1)[-1].encode())
                s0["real"] = real; s0["mode"] = mode; s0["A"] = d_; s0["B"] = emit.file_bytes(sec["b"])
                lk.append(s0)

            def judge_link(s, r):
                a = tree_no_meta(r["tree"]).get(s["real"])
                if a is None:
                    return "the file behind the link is gone"
                ro = (s["mode"] & 0o222) == 0
                if ro and s["opts"].get("ro") == "fail":
                    if (a[1], a[2]) != (s["mode"], s["A"]) or r["exit"] == 0:
                        return "a read-only file behind a link had to be refused under --read-only=fail: mode %o -> %o, exit %d" % (s["mode"], a[1], r["exit"])
                    return None
                if a[1] != s["mode"]:
                    return "the mode of the file behind the link is %o after the run, it was %o" % (a[1], s["mode"])
                return None
            _, b5, m5 = l2_family(run_, exe, lk, judge_link, cls=lambda s, r: "through a link exit %d" % r["exit"])
            bad += b5; mism += m5
        elif prop == "C18":
            scns = scenarios_for(prop, rng, n)
            for _ in range(n // 4):
                o = dict(rng.choice([{"b": 1}, {"b": 1, "z": ".bak"}, {"b": 1, "B": "pre."}, {}, {"bim": 0}]))
                scns.append(scen.same_file_scenario(rng, opts=o, git=rng.random() < 0.3))
            for _ in range(n // 4):
                # several hunks of which only an early one is imperfect (lines inserted at the top of the target: the first hunk
                # lands at an offset, the later ones exactly at their place relative to it; or the first hunk cannot be placed)
                while True:
                    sec = scen.section(rng, rng.choice(["m", "md/m"]), kind="change", fmt=rng.choice(["unified", "context", "git"]), width=rng.choice([1, 2, 3]), nonl=False)
                    if len(sec["hs"]) >= 2:
                        break
                o = dict(rng.choice([{}, {}, {}, {"posix": 1}, {"bim": 0}, {"bim": 1, "posix": 1}, {"f": 1}, {"z": ".bak"}]))
                s0 = scen.base_scenario(rng, [sec], opts=o)
                k_, m_, d_ = s0["tree"][sec["path"]]
                how = rng.choice(["top-insert", "top-insert", "first-broken"])
                if how == "top-insert":
                    d_ = b"".join(b"inserted %d\n" % j for j in range(rng.randint(1, 3))) + d_
                else:
                    h0 = sec["hs"][0]; pos = h0["os"] - 1 if h0["oc"] else h0["os"]
                    ls_ = d_.split(b"\n")
                    for j in range(pos, min(pos + max(h0["oc"], 1), len(ls_))):
                        ls_[j] = b"broken " + ls_[j]
                    d_ = b"\n".join(ls_)
                s0["tree"][sec["path"]] = (k_, m_, d_)
                scns.append(add_bystanders(rng, s0))
            for _ in range(n // 5):
                # an already applied patch (skipped under -N, reversed under -t), with and without -o: no backup is due when it is skipped
                sec = scen.section(rng, rng.choice(["ap", "apd/ap"]), kind="change", fmt=rng.choice(["unified", "context", "git"]), nonl=False)
                o = dict(rng.choice([{"N": 1}, {"N": 1, "o": "outfile"}, {"N": 1, "o": "outfile"}, {"t": 1, "o": "outfile"}, {"N": 1, "bim": 1, "o": "outfile"}, {"N": 1, "b": 1, "o": "outfile"}]))
                s0 = scen.base_scenario(rng, [sec], opts=o)
                k_, m_, d_ = s0["tree"][sec["path"]]
                s0["tree"][sec["path"]] = (k_, m_, emit.file_bytes(sec["b"]))
                scns.append(add_bystanders(rng, s0))
            import wide
            for _ in range(n // 8):
                sec = wide.symlink_section(rng.choice(["ln", "lnd/ln"]), rng.choice(["tgt", "x"]))
                s0 = scen.base_scenario(rng, [sec], opts=dict(rng.choice([{"b": 1}, {"b": 1, "z": ".bak"}, {"b": 1, "B": "pre."}, {}])))
                scns.append(add_bystanders(rng, s0))
            # a series of git patches for one file (writes deferred to the end of the run): the one backup the run takes holds
            # the bytes from before the run, and it is due as soon as ANY of the patches applies imperfectly
            ser = []
            for _ in range(n // 5):
                lines0 = [("%s %d" % (gen.rand_text(rng, True), i_), "L") for i_ in range(rng.randint(12, 18))]
                cur = list(lines0); text = b""; k = rng.choice([2, 2, 3])
                spots = sorted(rng.sample(range(1, len(lines0) - 1), k))
                # (the same series written as plain unified or context diffs: every patch is written out as soon as it has been
                # applied, see K_LATE_BACKUP)
                sfmt = rng.choice(["git", "git", "unified", "context"])
                for i_ in spots:
                    ops = [(" ", l) for l in cur]; ops[i_] = ("-", cur[i_]); ops.insert(i_ + 1, ("+", (cur[i_][0] + "x", "L")))
                    hs_ = gen.hunks_from_ops(ops, 1)
                    text += (emit.emit_git("s/f", "s/f", hs_, kind="change") if sfmt == "git" else
                             emit.emit_unified("a/s/f", "b/s/f", hs_) if sfmt == "unified" else emit.emit_context("a/s/f", "b/s/f", hs_))
                    cur = [l for o_, l in ops if o_ != "-"]
                # the target drifts between the places the patches touch: the earlier ones apply exactly, a later one at an offset
                drift_at = rng.choice([None, spots[0] + 2, spots[-1] - 1, 0])
                t0 = list(lines0)
                if drift_at is not None and all(abs(drift_at - sp) > 1 for sp in spots):
                    t0.insert(drift_at, ("drifted in", "L"))
                o = dict(rng.choice([{}, {}, {"bim": 1}, {"posix": 1}, {"bim": 0}, {"b": 1}]))
                o.update(p=1, i="p.diff")
                states = []; t_ = list(t0)
                for i_ in spots:
                    j_ = t_.index(lines0[i_]); t_[j_] = (lines0[i_][0] + "x", "L"); states.append(emit.file_bytes(t_))
                ser.append(dict(tree={"s": ("D", 0o755, b""), "s/f": ("R", 0o644, emit.file_bytes(t0)), "p.diff": ("R", 0o644, text)}, opts=o, umask=0o022, secs=[],
                                orig=emit.file_bytes(t0), sfmt=sfmt, states=states))

            def judge_series18(s, r):
                o = s["opts"]; out = r["stdout"].decode("latin-1"); after = tree_no_meta(r["tree"])
                if r["exit"] == 2:
                    return None
                mismatch = bool(re.search(r"^Hunk #\d+ (?:FAILED|succeeded at \d+ (?:with fuzz|\(offset))", out, flags=re.M))
                bim = o["bim"] if "bim" in o else (0 if o.get("posix") else 1)
                due = bool(o.get("b")) or (bool(bim) and mismatch)
                bk = after.get("s/f.orig")
                if due and (bk is None or bk[2] != s["orig"]):
                    return "a backup was due for s/f (a patch of the series applied imperfectly%s): s/f.orig %s" % (" or -b" if o.get("b") else "", "does not exist" if bk is None else "does not hold the bytes from before the run")
                if not due and bk is not None:
                    return "backup s/f.orig was created although none was due"
                return None
            r6, b6, m6 = l2_family(run_, exe, ser, judge_series18, cls=lambda s, r: "%s series exit %d" % (s["sfmt"], r["exit"]))
            for i_, d_, rep_ in b6:
                bk_ = tree_no_meta(r6[i_]["tree"]).get("s/f.orig")
                # (listed in known_findings.txt) plain diffs are written out one by one: when the patch that makes the backup
                # due is not the first for its file, the backup holds what the earlier ones left
                rep_["late_backup_series"] = bool(ser[i_]["sfmt"] != "git" and not ser[i_]["opts"].get("b") and bk_ is not None and bk_[2] in ser[i_]["states"][:-1])
            bad += b6; mism += m6
            _, b2, m2 = l2_family(run_, exe, scns, judge_c18, cls=lambda s, r: "backup opts " + ",".join(sorted(k for k in s["opts"] if k in ("b", "B", "z", "posix", "bim", "N"))))
            bad += b2; mism += m2
            # -R on the new version (every hunk fits exactly): a backup only when -b asks for one, and then of the new version
            rev = []
            for _ in range(n // 4):
                sec = scen.section(rng, rng.choice(["r", "rd/r"]), kind="change", fmt=rng.choice(["unified", "context", "git"]), nonl=False)
                o = dict(rng.choice([{"R": 1}, {"R": 1}, {"R": 1, "posix": 1}, {"R": 1, "bim": 0}, {"R": 1, "b": 1}, {"R": 1, "N": 1}, {"R": 1, "b": 1, "z": ".bak"}]))
                s0 = scen.base_scenario(rng, [sec], opts=o)
                t_ = scen.expected_tree(dict(s0, opts={k_: v_ for k_, v_ in s0["opts"].items() if k_ != "R"}))
                s0["tree"] = {p_: (k_, m_, d_) for p_, (k_, m_, d_) in t_.items()}
                rev.append(s0)
            def judge_rev(s, r):
                after = tree_no_meta(r["tree"]); p_ = s["secs"][0]["path"]; bn = backup_name(s["opts"], p_)
                if r["exit"] != 0:
                    return None
                if s["opts"].get("b"):
                    if bn not in after or after[bn][2] != s["tree"][p_][2]:
                        return "-R -b: the backup %s does not hold what %s held before the run" % (bn, p_)
                elif bn in after:
                    return "-R without -b, every hunk fitting exactly: the backup %s was created although none was due" % bn
                return None
            _, b7, m7 = l2_family(run_, exe, rev, judge_rev, cls=lambda s, r: "-R exit %d" % r["exit"])
            bad += b7; mism += m7
        import wide
        wb, wm = wide.wide_family(run_, exe, rng, 300 if q else 4000, prop=prop)
        bad += wb; mism += wm
    except CheckError as e:
        run_.violation("no-input", "build failed: %s" % e, dict(broken="build", detail=str(e)))
        return run_.finish()
    if prop in ("C15", "C16", "C17", "C18") and scns:
        mism += ops_family(run_, exe, scns[:(120 if q else 1500)], label=prop + " ops")
    finish(run_, prop, bad, mism, known=(lambda d, rep: K_CTX_EPOCH if rep.get("ctx_epoch_deletion") else K_LATE_BACKUP if rep.get("late_backup_series") else K_DRY_SERIES if rep.get("dry_series_same_file") else None))
    run_.cov["rule"] = "whole-program scenarios (trees, modes, bystanders, option mixes, drifted targets) run as user nobody with a private TMPDIR; each judged by the property's oracle and compared with the extracted model's run"
    if 'scns' in dir() and scns:
        run_.sample(describe(scns[0]))
    return run_.finish()
