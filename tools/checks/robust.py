"""C07 (no crash / undefined behaviour: sanitizer build) and C08 (termination in time bounded by the input size)."""
import os, random, re, resource, time
from vlib import *
from l2common import *
import streams, applyc

THEOREMS = {"C07": ["exit_status_range", "sat64_in64", "string_to_line_number_range", "consume_line_number_range", "s2n_sites",
                    "parse_unified_range_ok", "normal_count_sites", "parse_normal_range_shape", "parse_normal_range_ok",
                    "parse_context_range_ok", "unified_counter_sites", "unified_loop_good", "parse_unified_patch_good",
                    "ctx_append_content_site", "parse_context_patch_good", "parse_normal_patch_ok", "normal_hunk_good",
                    "parse_normal_patch_good", "parse_patch_body_good", "normal_hunk_counts_le", "good_hunk_counts",
                    "parse_patch_good", "parse_all_good", "parse_patch_size", "parse_all_size", "split_lines_length",
                    "strip_loop_rem", "stated_pos_range", "locate_offset_ok", "locate_line_le", "locate_sites_in64",
                    "write_any_cursor", "apply_one_inv", "step_sites_in64", "apply_rest_inv", "apply_first_inv",
                    "apply_patch_sites_in64", "apply_patch_sites_but_o2n_in64", "parse_patch_starts", "parse_all_starts",
                    "parsed_patch_sites_but_o2n_in64", "parsed_patch_sites_in64", "parsed_patch_apply_first_inv",
                    "parsed_sections_sites_in64", "plain_arith_in_range"],
            "C08": ["sget_line_some", "parse_unified_fueled", "parse_normal_fueled", "parse_context_fueled",
                    "parse_context_hunk_spec", "parse_patch_body_fueled", "parse_quoted_string_fueled",
                    "parse_patch_header_fueled", "body_progress", "header_full_spec", "section_loop_fueled",
                    "process_patch_fueled", "locate_hunk_cost_same", "apply_patch_cost_same", "fuzz_levels_bound",
                    "locate_hunk_cost_bound", "locate_hunk_cost_bound_sharp", "locate_hunk_cost_bound_F",
                    "locate_hunk_cost_bound_anyF", "locate_hunk_cost_insertion", "position_test_cost", "apply_patch_cost_bound",
                    "apply_patch_cost_bound_sharp", "apply_patch_cost_bound_weight", "apply_patch_cost_bound_max",
                    "apply_patch_cost_bound_anyF", "matches_cost_same", "matches_cost_bound", "locate_hunk_chars_same",
                    "locate_hunk_chars_bound", "locate_hunk_chars_bound_anyF", "apply_patch_chars_same",
                    "apply_patch_chars_bound", "apply_patch_chars_bound_anyF", "split_lines_sizes",
                    "locate_hunk_chars_bound_bytes", "apply_patch_chars_bound_bytes"]}

EXTREMES = ["0", "1", "9223372036854775807", "9223372036854775806", "9223372036854775808", "18446744073709551615", "99999999999999999999", "2147483647", "2147483648", "4294967296"]


def malformed_texts(rng, n):
    out = []
    for i in range(n):
        st = streams.gen_stream(rng, nsec=rng.randint(1, 3))
        t = st["text"]
        for _ in range(rng.randint(1, 4)):
            t = streams.mutate(rng, t)
        r = rng.random()
        if r < 0.15:
            t = re.sub(rb"\d+", lambda m: rng.choice(EXTREMES).encode() if rng.random() < 0.5 else m.group(0), t)
        elif r < 0.2:
            t = bytes(rng.randrange(256) for _ in range(rng.randint(1, 300)))
        elif r < 0.25:
            t = (b"diff --git a/x b/x\n" * rng.randint(1, 5)) + t
        out.append(t[:4096])
    return out


VOCAB = [b"2a3", b"1d0", b"1c1", b"1,2c3,4", b"0a1", b"< x", b"> y", b"---", b"\\ No newline at end of file", b"--- f", b"+++ f", b"*** f",
         b"@@ -1 +1 @@", b"@@ -1,2 +1,0 @@", b"@@ -0,0 +1 @@", b" c", b"+p", b"-m", b"***************", b"*** 1 ****", b"*** 1,2 ****",
         b"--- 1 ----", b"--- 1,2 ----", b"! b", b"diff --git a/f b/f", b"",
         b"Index: f (revision 2)", b"Prereq: v1 v2",
         b"+ p", b"- m", b"  c"]


def small_scope_streams(rng, maxlen, sample=None):
    """every sequence of at most maxlen lines over VOCAB (the line forms of all three grammars), with and without a final
    newline: shapes no mutation of a well-formed patch is likely to hit, e.g. a command directly followed by a marker line"""
    import itertools
    out = []
    for k in range(1, maxlen + 1):
        seqs = itertools.product(VOCAB, repeat=k)
        if sample is not None and len(VOCAB) ** k > sample:
            seqs = (tuple(rng.choice(VOCAB) for _ in range(k)) for _ in range(sample))
        for sq in seqs:
            out.append(b"\n".join(sq) + b"\n")
    return out


def l1_cases(rng, n):
    cases = []
    for t in small_scope_streams(rng, 3 if n <= 2000 else 4, sample=None if n <= 2000 else 200000):
        cases.append("PARSEALL %s 0 %s" % (rng.choice(["unknown", "unified", "context", "normal"]), hx(t)))
    for t in malformed_texts(rng, n):
        cases.append("PARSEALL %s %d %s" % (rng.choice(["unknown", "unknown", "unified", "context", "normal"]), rng.choice([-1, 0, 1, 2, 2147483647, -2147483648]), hx(t)))
    for _ in range(n // 2):
        nm = bytes(rng.randrange(1, 256) for _ in range(rng.randint(0, 12))).replace(b"\n", b"/")
        cases.append("STRIP %d %s" % (rng.choice([-1, 0, 1, 2, 5, 2147483647]), hx(nm)))
        cases.append("UNQUOTE " + hx(b'"' + bytes(rng.choice([34, 92, 48, 55, 56, 110, 116, 120, 0, 255, 97]) for _ in range(rng.randint(0, 8)))))
        cases.append("FILELINE %d %s" % (rng.choice([-1, 0, 3]), hx(bytes(rng.choice([34, 92, 9, 32, 47, 97, 0, 200]) for _ in range(rng.randint(0, 10))))))
        cases.append("URANGE " + hx("@@ -%s,%s +%s,%s @@" % tuple(rng.choice(EXTREMES) for _ in range(4))))
        cases.append("NRANGE " + hx("%s,%s%s%s,%s" % (rng.choice(EXTREMES), rng.choice(EXTREMES), rng.choice("acd"), rng.choice(EXTREMES), rng.choice(EXTREMES))))
    # locate / apply with extreme stated lines
    fam = applyc.family_drifted(rng, n // 2)
    for c in fam:
        hs = [dict(h, os=int(rng.choice(EXTREMES[:4] + ["5"])), ns=int(rng.choice(EXTREMES[:4] + ["7"]))) for h in c["hs"]]
        c["opts"]["F"] = rng.choice([0, 2, 3, 1000])
        if rng.random() < 0.3:
            c["opts"]["rf"] = "context"
        if rng.random() < 0.2:
            c["opts"]["D"] = hx("S")
        cases.append(applyc.apply_case(applyc.opt_str(**c["opts"]), rng.choice(["unified", "context"]), c["f"], hs))
    return cases


def l2_scenarios(rng, n):
    scns = []
    for t in malformed_texts(rng, n):
        tree = {"f0": ("R", 0o644, b"a\nb\nc\n"), "f1": ("R", 0o644, bytes(rng.randrange(256) for _ in range(rng.randint(0, 40)))), "f": ("R", 0o644, b"a\nb\n"),
                "p.diff": ("R", 0o644, t)}
        o = dict(rng.choice([{}, {"f": 1}, {"t": 1}, {"N": 1}, {"R": 1, "f": 1}, {"b": 1, "f": 1}, {"D": "S", "f": 1}, {"l": 1, "F": 3}, {"rf": "context", "f": 1},
                             {"dry": 1}, {"o": "out", "f": 1}, {"nl": "crlf"}, {"u": 1}, {"c": 1}, {"n": 1}, {"e": 1}]))
        o["i"] = "p.diff"; o["p"] = rng.choice([0, 0, 1, -1])
        if rng.random() < 0.3:
            o["file"] = rng.choice(["f0", "f1"])
        scns.append(dict(tree=tree, opts=o, umask=0o022, env=SAN_ENV))
    return scns


def extreme_range_texts(rng, n):
    """hunks whose ranges are written with extreme numbers, forwards and backwards (end before start), in the three grammars,
    followed by exactly the lines their commands announce (none for a side whose count comes out negative): these get past
    the parser and into the arithmetic of the applier"""
    out = []
    E = [0, 1, 2, 3, 5, 7, 2**63 - 1, 2**63 - 2, 2**63 - 3, 2**62]
    def side(lo, hi, mark):
        c = hi - lo + 1
        return b"".join(mark + b" l%d\n" % i for i in range(c)) if 0 < c <= 6 else (b"" if c <= 0 else None)
    while len(out) < n:
        a, b = rng.choice(E), rng.choice(E)
        c = rng.choice([0, 1, 5, 2**63 - 1]); d = c + rng.randint(-2, 3) if rng.random() < 0.7 else rng.choice(E)
        d = max(0, min(d, 2**63 - 1))
        cmd = rng.choice("ccad")
        if cmd == "c":
            o_, n_ = side(a, b, b"<"), side(c, d, b">")
            if o_ is None or n_ is None:
                continue
            t = b"%d,%dc%d,%d\n" % (a, b, c, d) + o_ + (b"---\n" if o_ and n_ else b"") + n_
        elif cmd == "a":
            n_ = side(c, d, b">")
            if n_ is None:
                continue
            t = (b"%da%d,%d\n" % (a, c, d) if rng.random() < 0.7 else b"%d,%da%d,%d\n" % (a, b, c, d)) + n_
        else:
            o_ = side(a, b, b"<")
            if o_ is None:
                continue
            t = (b"%d,%dd%d\n" % (a, b, c) if rng.random() < 0.7 else b"%dd%d,%d\n" % (a, c, d)) + o_
        if rng.random() < 0.2:
            t = rng.choice([
                (b"--- f\n+++ f\n@@ -%d,%d +%d,%d @@\n" % (a, rng.choice([0, 1, 2]), c, rng.choice([0, 1, 2]))) + b"-a\n+b\n c\n",
                (b"*** f\n--- f\n***************\n*** %d,%d ****\n- a\n--- %d,%d ----\n+ b\n" % (a, b, c, d))])
        if rng.random() < 0.5:
            t = t + t       # a second hunk: the offsets accumulated by the first come into play
        out.append(t)
    return out


def judge_c07(s, r):
    err = r["stderr"].decode("latin-1")
    if "Sanitizer" in err or "runtime error" in err or r["exit"] == 99:
        return "sanitizer report: " + (re.search(r"(runtime error:.*|ERROR: AddressSanitizer.*)", err) or re.search(r".*", err)).group(0)[:200]
    if r["exit"] < 0 or r["exit"] > 128:
        return "terminated by a signal (status %d)" % r["exit"]
    if r["exit"] not in (0, 1, 2):
        return "exit status %d" % r["exit"]
    if r["exit"] == 2 and not err.strip():
        return "exit status 2 without a diagnostic"
    return None


def run_c07(run_, rng, tier):
    q = tier == "quick"
    d = build_impl("asan")
    exe = os.path.join(d, "sb_patch")
    cases = load_corpus("c07") + l1_cases(rng, 1500 if q else 40000)
    impl, model = run_both(cases, flavour="asan")
    bad, mism = [], []
    for i, c in enumerate(cases):
        run_.count(c, True, "L1 " + c.split()[0] + " " + impl[i].split()[0][:6])
        if impl[i].startswith("CRASH"):
            bad.append((i, "the sanitizer build of the library stopped on this call: " + impl[i][:300], dict(case=c, impl=impl[i])))
        elif impl[i].startswith("HANG"):
            bad.append((i, "the library never returned from this call (%s): patch would not exit" % impl[i], dict(case=c, impl=impl[i])))
        elif impl[i].startswith("SKIPPED"):
            continue
        elif impl[i] != model[i]:
            mism.append((i, "L1 (sanitizer flavour)", dict(case=c, impl=impl[i], model=model[i])))
    scns = l2_scenarios(rng, 400 if q else 8000)
    for t in extreme_range_texts(rng, 150 if q else 3000):
        o = dict(rng.choice([{"f": 1}, {"f": 1, "v": 1}, {"t": 1}, {"f": 1, "R": 1}, {"f": 1, "dry": 1, "v": 1}, {"N": 1, "v": 1}]))
        o["i"] = "p.diff"; o["file"] = "f"
        scns.append(dict(tree={"f": ("R", 0o644, rng.choice([b"x\n", b"a\nc\n", b"", b"l0\nl1\nl2\n"])), "p.diff": ("R", 0o644, t)}, opts=o, umask=0o022, env=SAN_ENV))
    # context diffs with the markers of some lines exchanged (a '+' become '-', a '!' on one side only, ...), the target present
    for _ in range(120 if q else 3000):
        a_ = [("l%d" % i_, "L") for i_ in range(rng.randint(2, 7))]
        ops_ = []
        for l_ in a_:
            r_ = rng.random()
            ops_ += [("-", l_), ("+", (l_[0] + "x", "L"))] if r_ < 0.3 else [("-", l_)] if r_ < 0.4 else [(" ", l_), ("+", ("n" + l_[0], "L"))] if r_ < 0.55 else [(" ", l_)]
        hs_ = gen.hunks_from_ops(ops_, rng.choice([0, 1, 3]))
        if not hs_:
            continue
        ls_ = emit.emit_context("a/f", "b/f", hs_).split(b"\n")
        body_ = [i_ for i_, l_ in enumerate(ls_) if l_[:2] in (b"  ", b"+ ", b"- ", b"! ")]
        for i_ in rng.sample(body_, min(len(body_), rng.choice([1, 1, 2]))):
            ls_[i_] = rng.choice([b"+", b"-", b"!", b" "]) + ls_[i_][1:]
        o = dict(rng.choice([{"f": 1}, {}, {"t": 1}, {"N": 1}, {"f": 1, "R": 1}]))
        o.update(i="p.diff", p=1)
        scns.append(dict(tree={"f": ("R", 0o644, emit.file_bytes([l_ for o_, l_ in ops_ if o_ != "+"])), "p.diff": ("R", 0o644, b"\n".join(ls_))}, opts=o, umask=0o022, env=SAN_ENV))
    # a patch file that cannot be read (a directory: the open succeeds, every read fails), named by -i or as the second operand
    for argv_ in (["-i", "pd"], ["f", "pd"], ["-i", "pd", "f"], ["--dry-run", "-i", "pd"], ["-f", "f", "pd"]):
        scns.append(dict(tree={"f": ("R", 0o644, b"a\nb\n"), "pd": ("D", 0o755, b"")}, opts={}, argv=argv_, umask=0o022, env=SAN_ENV, no_model=True))
    _, b2, m2 = l2_family(run_, exe, scns, judge_c07, cls=lambda s, r: "L2 exit %d" % r["exit"], timeout=30)
    m2 = [x for x in m2 if not scns[x[0]].get("no_model")]
    # an environment in which nothing can be written (file size limit 0, as on a full disk), and absolute names
    env_scns = []
    good = b"--- f\n+++ f\n@@ -1,2 +1,2 @@\n a\n-b\n+B\n"
    for o in ({}, {"dry": 1}, {"b": 1}, {"dry": 1, "f": 1}, {"o": "out"}, {"r": "rej", "f": 1}, {"N": 1}, {"dry": 1, "v": 1}):
        for t in (good, b"--- f\n+++ f\n@@ -1 +1 @@\n-nomatch\n+x\n", b"diff --git a/f b/f\n" + good):
            o2 = dict(o); o2.update(i="p.diff", file="f")
            env_scns.append(dict(tree={"f": ("R", 0o644, b"a\nb\n"), "p.diff": ("R", 0o644, t)}, opts=o2, umask=0o022, env=SAN_ENV, fsize0=True))
    for t, o in [(b"--- f\n+++ f\n@@ -1 +1 @@\n-nomatch\n+x\n", {"file": "@CWD@/f", "f": 1}),
                 (b"--- /dev/null\n+++ @CWD@/new/dir/file\n@@ -0,0 +1 @@\n+x\n", {"p": 0}),
                 (b"--- f\n+++ f\n@@ -1 +1 @@\n-a\n+A\n", {"o": "@CWD@/out/put", "file": "f"}),
                 (b"--- f\n+++ f\n@@ -1 +1 @@\n-nomatch\n+A\n", {"r": "@CWD@/rej/ects", "file": "f", "f": 1}),
                 (b"--- f\n+++ f\n@@ -1 +1 @@\n-a\n+A\n", {"b": 1, "B": "@CWD@/bak/", "file": "f"})]:
        o = dict(o); o["i"] = "p.diff"; o.setdefault("p", 1)
        env_scns.append(dict(tree={"f": ("R", 0o644, b"a\nb\nc\n"), "p.diff": ("R", 0o644, t)}, opts=o, umask=0o022, abs_paths=True, env=SAN_ENV))
    _, b3, _ = l2_family(run_, exe, env_scns, judge_c07, cls=lambda s, r: "L2 %s exit %d" % ("nothing writable" if s.get("fsize0") else "absolute names", r["exit"]), timeout=30, compare=False)
    return bad + b2 + b3, mism + m2


# ---------------------------------------------------------------- C08
def slow_texts(rng, n):
    out = []
    big = "9223372036854775807"
    fixed = [
        b"--- f\n+++ f\n@@ -%s,1 +%s,1 @@\n-zz\n+yy\n" % (big.encode(), big.encode()),
        b"--- f\n+++ f\n@@ -1,1 +1,2 @@\n a\n+x\n@@ -%s,1 +%s,1 @@\n-q\n+Q\n" % (big.encode(), big.encode()),
        b"diff --git a/f b/f\n" * 40,
        b"diff --git a/f b/f\ndiff --git a/f0 b/f0\n" * 20,
        b"--- f\n+++ f\n" * 100,
        b"*** f\n--- f\n***************\n*** %s,%s ****\n  a\n--- 1 ----\n" % (big.encode(), big.encode()),
        b"1,%sd0\n< a\n" % big.encode(),
        b"Index: f\n" * 200,
        b"--- f\n+++ f\n@@ -1,%s +1,%s @@\n a\n" % (big.encode(), big.encode()),
        b"@@ -1 +1 @@\n" * 300,
        # context hunks whose lines carry a marker that does not belong on that side
        b"*** f\n--- f\n***************\n*** 1,2 ****\n+ a\n  b\n--- 1,2 ----\n  b\n+ c\n",
        b"*** f\n--- f\n***************\n*** 1,2 ****\n- a\n  b\n--- 1,2 ----\n  b\n- c\n",
        b"*** f\n--- f\n***************\n*** 1,2 ****\n! a\n+ b\n--- 1,2 ----\n! b\n- c\n",
        b"*** f\n--- f\n***************\n*** 1 ****\n+ a\n--- 1 ----\n- a\n",
        b"*** f\n--- f\n***************\n*** 1,3 ****\n  a\n+ x\n  c\n--- 1,3 ----\n  a\n- y\n  c\n",
    ]
    out += fixed
    out += [t for t in malformed_texts(rng, n)]
    return out


def run_c08(run_, rng, tier):
    q = tier == "quick"
    exe = os.path.join(build_impl(), "sb_patch")
    texts = slow_texts(rng, 300 if q else 6000)
    scns = []
    for t in texts:
        tree = {"f": ("R", 0o644, b"a\nb\nc\n" * rng.choice([1, 1, 50])), "f0": ("R", 0o644, b"a\n"), "p.diff": ("R", 0o644, t)}
        o = dict(rng.choice([{"f": 1}, {"t": 1}, {"N": 1}, {"f": 1, "F": 1000}, {"f": 1, "l": 1}, {"f": 1, "R": 1}, {"f": 1, "dry": 1}]))
        o["i"] = "p.diff"; o["p"] = rng.choice([0, 1, -1])
        if rng.random() < 0.5:
            o["file"] = "f"
        scns.append(dict(tree=tree, opts=o, umask=0o022))
    # absolute names: the file operand (hence the reject file), files created by the patch, -o and -r
    for t, o in [
        (b"--- f\n+++ f\n@@ -1 +1 @@\n-nomatch\n+x\n", {"file": "@CWD@/f", "f": 1}),
        (b"--- /dev/null\n+++ @CWD@/new/dir/file\n@@ -0,0 +1 @@\n+x\n", {"p": 0}),
        (b"--- @CWD@/f\n+++ @CWD@/f\n@@ -1 +1 @@\n-a\n+A\n", {"p": 0}),
        (b"--- f\n+++ f\n@@ -1 +1 @@\n-a\n+A\n", {"o": "@CWD@/out/put", "file": "f"}),
        (b"--- f\n+++ f\n@@ -1 +1 @@\n-nomatch\n+A\n", {"r": "@CWD@/rej/ects", "file": "f", "f": 1}),
        (b"diff --git a/f b/g\nsimilarity index 100%\nrename from f\nrename to @CWD@/moved/g\n", {"p": 0}),
        (b"--- f\n+++ f\n@@ -1 +1 @@\n-a\n+A\n", {"b": 1, "B": "@CWD@/bak/", "file": "f"}),
    ]:
        o = dict(o); o["i"] = "p.diff"; o.setdefault("p", 1)
        scns.append(dict(tree={"f": ("R", 0o644, b"a\nb\nc\n"), "p.diff": ("R", 0o644, t)}, opts=o, umask=0o022, abs_paths=True))
    # targets that are not regular files: a FIFO nobody writes to, an endless device behind a symbolic link, a directory
    for kind in ("fifo", "zero", "dir", "fifo-o", "fifo-R"):
        for t in (b"--- a/f\n+++ b/f\n@@ -1 +1 @@\n-a\n+A\n", b"diff --git a/f b/f\n--- a/f\n+++ b/f\n@@ -1 +1 @@\n-a\n+A\n", b"Index: f\n1c1\n< a\n---\n> A\n",
                  b"*** a/f\n--- b/f\n***************\n*** 1 ****\n! a\n--- 1 ----\n! A\n"):
            tree = {"p.diff": ("R", 0o644, t), "f": {"fifo": ("O", 0o644, b""), "zero": ("S", 0, b"/dev/zero"), "dir": ("D", 0o755, b"")}[kind.split("-")[0]]}
            o = {"i": "p.diff", "p": 1}
            if kind == "fifo-o":
                o["o"] = "out"
            if kind == "fifo-R":
                o["R"] = 1
            if rng.random() < 0.5:
                o["file"] = "f"
            scns.append(dict(tree=tree, opts=o, umask=0o022, no_model=(kind == "zero")))
    # standard input that cannot be read (a directory), with and without a file operand
    for o in ({}, {"file": "f"}, {"f": 1}, {"dry": 1}):
        scns.append(dict(tree={"f": ("R", 0o644, b"a\nb\n")}, opts=dict(o, p=1), umask=0o022, stdin_is="dir", no_model=True))
    # targets that have to be refused, under --dry-run, with the file named on the command line: the refusal still has to
    # consume the hunks
    import l2props
    for s0 in l2props.refusal_scenarios(rng, 40 if q else 400):
        s0["opts"].update(rng.choice([{}, {"dry": 1}, {"dry": 1}]))
        if rng.random() < 0.6:
            s0["opts"]["file"] = s0["secs"][0]["path"]
        if rng.random() < 0.3:
            s0["opts"]["ro"] = "fail"
        scns.append(s0)
    # no temporary file can be made: TMPDIR names nothing / a file / a directory that takes no entry; the limit on open files
    # is reached while a long git stream is read (each section keeps its result open until the end of the run)
    for env_ in ({"TMPDIR": "/nonexistent-dir/tmp"}, {"TMPDIR": "p.diff"}, {"TMPDIR": "/proc/1"}, {"TMPDIR": ""}):
        for t in (b"--- f\n+++ f\n@@ -1 +1 @@\n-a\n+A\n", b"diff --git a/f b/f\n--- a/f\n+++ b/f\n@@ -1 +1 @@\n-a\n+A\n", b"--- f\n+++ f\n@@ -1 +1 @@\n-nomatch\n+A\n"):
            scns.append(dict(tree={"f": ("R", 0o644, b"a\nb\nc\n"), "p.diff": ("R", 0o644, t)}, opts={"i": "p.diff", "p": 1, "f": 1}, umask=0o022, env=env_, no_model=True))
    many = b"".join(b"diff --git a/n%d b/n%d\nnew file mode 100644\n--- /dev/null\n+++ b/n%d\n@@ -0,0 +1 @@\n+x\n" % (i_, i_, i_) for i_ in range(60))
    for lim in (16, 24, 40):
        scns.append(dict(tree={"p.diff": ("R", 0o644, many)}, opts={"i": "p.diff", "p": 1}, umask=0o022, nofile=lim, no_model=True))
    import wide
    scns += [wide.wide_scenario(rng) for _ in range(300 if q else 4000)]
    t0 = time.time()
    results = run_many(exe, scns, timeout=10)
    bad = []
    def psize(s):
        return len(s["tree"]["p.diff"][2]) if "p.diff" in s["tree"] else len(s.get("stdin") or b"")
    for i, (s, r) in enumerate(zip(scns, results)):
        run_.count(l2.model_line(s), True, "exit %d" % r["exit"] if not r.get("timed_out") else "timeout")
        if r.get("timed_out"):
            bad.append((i, "did not terminate within 10 s on a patch of %d bytes%s" % (psize(s), " (standard input is a directory: every read fails)" if s.get("stdin_is") else ""),
                        dict(scenario=describe(s), stdin_is=s.get("stdin_is"))))
        elif r["exit"] < 0 or b"out of memory" in r["stderr"] or b"bad_alloc" in r["stderr"]:
            bad.append((i, "a patch of %d bytes: the run %s" % (psize(s), "was ended by signal %d" % -r["exit"] if r["exit"] < 0 else "ran out of memory (limit 3 GiB): " + r["stderr"].decode("latin-1")[-100:].strip()),
                        dict(scenario=describe(s), stderr=r["stderr"].decode("latin-1")[-300:])))
        elif len(r["stdout"]) > 200000:
            bad.append((i, "produced %d bytes of output for a patch of %d bytes" % (len(r["stdout"]), psize(s)), dict(scenario=describe(s))))
    model = run_model([l2.model_line(s) for s in scns])
    mism = []
    for i, (s, r, ml) in enumerate(zip(scns, results, model)):
        mc, _, _ = l2.model_canon(ml)
        if not r.get("timed_out") and not s.get("abs_paths") and not s.get("no_model") and not nul_in_names(s) and mc != l2.impl_line(r):
            mism.append((i, "L2", dict(scenario=describe(s), model=mc[:1500], impl_line=l2.impl_line(r)[:1500], stdout=r["stdout"].decode("latin-1")[-500:], stderr=r["stderr"].decode("latin-1")[-300:])))
    return bad, mism


def run(prop, tier, seed):
    run_ = Run(prop, tier, seed)
    if THEOREMS.get(prop):
        proofs_into_run(run_, prop, THEOREMS[prop])
    rng = random.Random(seed * 982451653 + int(prop[1:]))
    try:
        bad, mism = (run_c07 if prop == "C07" else run_c08)(run_, rng, tier)
    except CheckError as e:
        run_.violation("no-input", "build failed: %s" % e, dict(broken="build", detail=str(e)))
        return run_.finish()
    finish(run_, prop, bad, mism)
    run_.cov["rule"] = "grammar-aware and blind mutations of valid diffs in every format, extreme numbers, truncated input, NUL bytes, long lines, repeated headers; option mixes"
    return run_.finish()
