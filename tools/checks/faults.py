"""C09 (aborts and crashes) and C10 (I/O failures) — whole-program runs under strace injection."""
import os, random, re
from vlib import *
from l2common import *

THEOREMS = {"C09": ["write_keeps_original", "bad_section_writes_nothing", "failed_write_stops_removals",
                    "pure_rename_never_lost_gen", "pure_rename_never_lost", "pure_rename_fault_at_any_operation",
                    "pure_rename_reverse_never_lost", "finish_unlink_after_writes", "finish_unlinks_sources_only",
                    "wrote_moment", "Steps_trace", "rename_source_outlives_destination",
                    "section_tail_unlink_after_write", "section_unlink_after_write", "source_kept_until_all_written",
                    "rename_source_or_destination", "backup_section_keeps_original",
                    "backup_section_then_finish_keeps_original", "backup_run_keeps_original",
                    "text_abort_keeps_whole_states", "text_abort_run", "text_abort_after_first_section",
                    "no_patch_text_abort"], "C10": ["fault_is_fatal", "no_fault_no_fault", "unreached_fault_is_invisible_gen", "unreached_fault_is_invisible", "success_means_no_failure_hit", "success_is_the_fault_free_run", "success_tree_is_fault_free_tree", "reached_fault_trace_is_prefix"]}

FAULT_CALLS = ["read", "write", "openat", "rename", "unlink", "chmod", "mkdir", "symlink", "rmdir"]
KILL_CALLS = FAULT_CALLS + ["close", "newfstatat", "lseek", "fstat"]
CALL_RE = re.compile(r"^(?:\d+\s+)?(\w+)\((.*)")


def relevant_calls(trace, names):
    """[(syscall, occurrence number (1-based, as strace's when=), line)] for calls that touch the scenario directory,
    the private TMPDIR or the standard streams"""
    occ = {}
    out = []
    for l in trace:
        m = CALL_RE.match(l)
        if not m:
            continue
        name = m.group(1)
        if name not in names:
            continue
        occ[name] = occ.get(name, 0) + 1
        args = m.group(2)
        if "/tmp/vl2-" in args or re.match(r"[012]<", args) or re.search(r'^(AT_FDCWD[^,]*, )?"(?!/)', args):
            if "/lib/" in args or ".so" in args:
                continue
            out.append((name, occ[name], l[:160]))
    return out


def fault_scenarios(rng, n):
    scns = []
    kinds_list = [["change"], ["change", "add"], ["change", "delete"], ["rename", "change"], ["change", "copy"], ["mode", "change"]]
    for i in range(n):
        o = dict(rng.choice([{}, {"b": 1}, {"f": 1}, {"o": "outfile"}, {"b": 1, "f": 1}, {}]))
        kinds = kinds_list[i % len(kinds_list)]
        if o.get("o"):
            kinds = ["change"]
        s = scen.gen_scenario(rng, nsec=1 if o.get("o") else rng.choice([1, 2]), kinds=kinds, opts=o, drift=rng.choice([0, 0, 0.7]),
                              via_stdin=(i % 5 == 4))
        # contents above the stdio buffer size now and then, so that buffer-full writes happen as well as final flushes
        if rng.random() < 0.3:
            for x in s["secs"]:
                if x["path"] in s["tree"] and x["kind"] == "change":
                    pass
        if i % 7 == 3:
            for x in s["secs"]:
                if x["path"] in s["tree"]:
                    k, m, d = s["tree"][x["path"]]; s["tree"][x["path"]] = (k, 0o444, d)
        scns.append(s)
    return scns


def big_scenario(rng):
    """one target larger than the 4096-byte stdio buffer"""
    a = [("line %04d %s" % (i, "x" * 20), "L") for i in range(400)]
    ops = [(" ", l) for l in a]
    ops[200] = ("-", a[200]); ops.insert(201, ("+", ("changed line", "L")))
    hs = gen.hunks_from_ops(ops, 3)
    text = emit.emit_unified("a/big", "b/big", hs)
    tree = {"big": ("R", 0o644, emit.file_bytes(a)), "p.diff": ("R", 0o644, text)}
    sec = dict(path="big", newpath="big", a=a, b=[l for o, l in ops if o != "-"], kind="change", fmt="unified", hs=hs, ops=ops)
    return dict(tree=tree, opts={"p": 1, "i": "p.diff", "b": 1}, umask=0o022, secs=[sec])


def create_over_existing(rng):
    """a patch which creates a file that is already there (with other content): the hunk fails, exit 1"""
    sec = scen.section(rng, "notes.txt", kind="add", fmt=rng.choice(["unified", "git"]))
    s = scen.base_scenario(rng, [sec], opts={"f": 1})
    s["tree"]["notes.txt"] = ("R", 0o644, b"already here\nwith content\n")
    return s


FAILED_RE = re.compile(r"^(?:\d+\s+)?(\w+)\((.*)\)\s+= -1 (E\w+)")


def failed_mutations(trace):
    """[(call, first path, errno, line)] for failed calls that were meant to change the scenario directory (relative paths),
    leaving out the probes whose failure is an answer and not a fault: mkdir of an existing directory, removal of a directory
    that is not empty"""
    out = []
    for l in trace:
        m = FAILED_RE.match(l)
        if not m:
            continue
        name, args, err = m.groups()
        strs = l2._STR.findall(args)
        if not strs or strs[0].startswith("/"):
            if not (name.startswith("symlink") and len(strs) > 1 and not strs[-1].startswith("/")):
                continue
        if name in ("openat", "open", "creat"):
            if not ("O_WRONLY" in args or "O_RDWR" in args or "O_CREAT" in args or name == "creat"):
                continue
        elif name in ("mkdir", "mkdirat"):
            if err == "EEXIST":
                continue
        elif name == "rmdir" or (name == "unlinkat" and "AT_REMOVEDIR" in args):
            # (EACCES / EPERM: the directory above does not let entries go, empty or not - the emptied directory stays)
            if err in ("ENOTEMPTY", "EEXIST", "EACCES", "EPERM"):
                continue
        elif name not in ("rename", "renameat", "renameat2", "unlink", "unlinkat", "chmod", "fchmodat", "symlink", "symlinkat"):
            continue
        out.append((name, strs[0], err, l[:200]))
    return out


def symlink_section(path, target):
    hs = [dict(os=0, oc=0, ns=1, nc=1, body=[("+", target, "N")])]
    text = emit.emit_git(path, path, hs, kind="add", new_mode="120000")
    return dict(path=path, newpath=path, a=[], b=[(target, "N")], text=text, fmt="git", kind="add", hs=hs, ops=[("+", (target, "N"))], mode_old=None, mode_new="120000", w=0)


def natural_failures(rng, n):
    scns = []
    hows = ["link-name-dangling", "link-name-empty-file", "link-in-readonly-dir", "link-free", "readonly-dir-backup", "readonly-dir-delete", "readonly-dir-add",
            "dir-at-output", "rename-dest-dir", "reject-name-dir", "readonly-dir-rename", "copy-dest-readonly-dir",
            "readonly-top-delete", "readonly-top-rename"]
    for i in range(n):
        how = hows[i % len(hows)]
        o = {}
        if how.startswith("link-"):
            p = rng.choice(["active", "ld/active"])
            sec = symlink_section(p, rng.choice(["new", "../x", "t"]))
            s = scen.base_scenario(rng, [sec], opts=o)
            scen.add_parents(s["tree"], p)
            if how == "link-name-dangling":
                s["tree"][p] = ("S", 0, b"gone")
            elif how == "link-name-empty-file":
                s["tree"][p] = ("R", 0o644, b"")
            elif how == "link-in-readonly-dir":
                s["tree"]["ld"] = ("D", 0o555, b"")
        elif how.startswith("readonly-top"):
            # a file goes away from a directory that keeps another file, and the directory ABOVE lets nothing be removed: the
            # clean-up of emptied directories asks for the directory, is told no (EACCES, not ENOTEMPTY), and that is all
            kind = "delete" if how.endswith("delete") else "rename"
            sec = scen.section(rng, "top/d/f", kind=kind, fmt=("git" if kind == "rename" else rng.choice(["unified", "git"])), nonl=False)
            if kind == "rename":
                sec = dict(sec, newpath="top/d/g", text=emit.emit_git("top/d/f", "top/d/g", sec["hs"], kind="rename"))
            s = scen.base_scenario(rng, [sec], opts=o)
            s["tree"]["top"] = ("D", 0o555, b""); s["tree"]["top/d"] = ("D", 0o755, b""); s["tree"]["top/d/keep"] = ("R", 0o644, b"k\n")
        else:
            kind = {"readonly-dir-delete": "delete", "readonly-dir-add": "add", "rename-dest-dir": "rename", "readonly-dir-rename": "rename",
                    "copy-dest-readonly-dir": "copy"}.get(how, "change")
            sec = scen.section(rng, "rd/f", kind=kind, fmt=("git" if kind in ("rename", "copy") else rng.choice(["unified", "git", "context"])), nonl=False)
            if how in ("readonly-dir-backup",):
                o["b"] = 1
            if how == "dir-at-output":
                o["o"] = "outd"
            if how == "reject-name-dir":
                o["f"] = 1
            s = scen.base_scenario(rng, [sec], opts=o)
            scen.add_parents(s["tree"], "rd/f")
            if how.startswith("readonly-dir"):
                s["tree"]["rd"] = ("D", 0o555, b"")
            if how == "dir-at-output":
                s["tree"]["outd"] = ("D", 0o755, b"")
            if how == "rename-dest-dir":
                scen.add_parents(s["tree"], sec["newpath"]); s["tree"][sec["newpath"]] = ("D", 0o755, b"")
            if how == "copy-dest-readonly-dir":
                sec2 = dict(sec)
                scen.add_parents(s["tree"], sec["newpath"])
                par = sec["newpath"].rsplit("/", 1)[0] if "/" in sec["newpath"] else None
                if par:
                    s["tree"][par] = ("D", 0o555, b"")
            if how == "reject-name-dir":
                s["tree"]["rd/f"] = ("R", 0o644, b"nothing here matches\n"); s["tree"]["rd/f.rej"] = ("D", 0o755, b"")
        s["how"] = how
        scns.append(s)
    return scns


def run_c10(run_, rng, tier, exe):
    q = tier == "quick"
    scns = fault_scenarios(rng, 16 if q else 120) + [big_scenario(rng), create_over_existing(rng), create_over_existing(rng)]
    # a patch that deletes its file applied to a file that has more in it than the patch removes: the decision between removing
    # the target and writing what is left depends on the size of the result
    for fmt_ in ["unified", "git"] + ([] if q else ["unified", "git", "unified"]):
        dsec_ = scen.section(rng, "lo/left", kind="delete", fmt=fmt_, nonl=False)
        ds_ = scen.base_scenario(rng, [dsec_], opts=dict(rng.choice([{}, {"f": 1}])))
        k_, m_, d_ = ds_["tree"]["lo/left"]; ds_["tree"]["lo/left"] = (k_, m_, d_ + b"one more line\nand another\n")
        scns.append(ds_)
    base = run_many(exe, scns, strace=",".join(FAULT_CALLS), timeout=30)
    bad, mism = [], []
    jobs = []
    for i, (s, r0) in enumerate(zip(scns, base)):
        calls = relevant_calls(r0.get("trace", []), FAULT_CALLS)
        for name, k, line in calls:
            for e in ("EIO", "ENOSPC", "EACCES"):
                jobs.append((i, name, k, e, line))
    if len(jobs) > (1500 if q else 40000):
        rng2 = random.Random(rng.random())
        jobs = rng2.sample(jobs, 1500 if q else 40000)
    import concurrent.futures
    def one(j):
        i, name, k, e, line = j
        return l2.run_impl(exe, scns[i], strace=",".join(FAULT_CALLS), inject="%s:error=%s:when=%d" % (name, e, k), timeout=30)
    with concurrent.futures.ThreadPoolExecutor(max_workers=12) as ex:
        results = list(ex.map(one, jobs))
    for (i, name, k, e, line), r in zip(jobs, results):
        r0 = base[i]
        run_.count("%d %s %d %s" % (i, name, k, e), True, "fault %s %s -> exit %d" % (name, e, r["exit"]))
        same = r["exit"] == r0["exit"] and tree_no_meta(r["tree"]) == tree_no_meta(r0["tree"])
        ok = (r["exit"] == 2 and r["stderr"].strip() != b"") or same
        if name == "rmdir" and e == "EACCES" and r["exit"] == r0["exit"]:
            # "not allowed to remove this directory" ends the walk over emptied directories like "not empty" does: the directory
            # stays, everything else is as in the fault-free run
            t0_, t1_ = tree_no_meta(r0["tree"]), tree_no_meta(r["tree"])
            ok = ok or all(t1_.get(p_) == v_ for p_, v_ in t0_.items()) and all(v_[0] == "D" for p_, v_ in t1_.items() if p_ not in t0_)
        if r.get("timed_out"):
            ok = False
        if not ok:
            d = diff_trees(tree_no_meta(r0["tree"]), tree_no_meta(r["tree"]))
            bad.append((i, "%s failing with %s (call #%d: %s) gives exit %d%s; files differ from the fault-free run: %s" %
                        (name, e, k, line[:80], r["exit"], "" if r["stderr"].strip() else " without a diagnostic", "; ".join(d[:3]) or "(no)"),
                        dict(scenario=describe(scns[i]), inject="%s:error=%s:when=%d" % (name, e, k), call=line,
                             fault_free=dict(exit=r0["exit"], tree=fmt_tree(r0["tree"])),
                             faulty=dict(exit=r["exit"], stderr=r["stderr"].decode("latin-1")[-400:], stdout=r["stdout"].decode("latin-1")[-400:], tree=fmt_tree(r["tree"])))))
    # aligned injection: the j-th operation of the model's trace is the j-th file-system call of the real run on the scenario
    # directory (checked by the operation-sequence correspondence); failing exactly that call must give what the model gives
    # with fault = j: the same exit status and the same tree (theorem fault_is_fatal speaks about this schedule)
    al_scns = scns[:(19 if q else 120)]
    al_base = run_many(exe, al_scns, strace=l2.TRACE_CALLS, timeout=30)
    al_jobs = []
    for i, (s, r0) in enumerate(zip(al_scns, al_base)):
        ops, calls = l2.ops_of_trace(r0.get("trace", []), with_calls=True)
        mops = l2.model_ops(run_model([l2.model_line(s)])[0])
        if ops != mops:
            mism.append((i, "operation sequences differ", dict(scenario=describe(s), impl_ops=ops, model_ops=mops)))
            continue
        for j, (name, k) in enumerate(calls):
            al_jobs.append((i, j, name, k))
    def al_one(jb):
        i, j, name, k = jb
        return l2.run_impl(exe, al_scns[i], strace=l2.TRACE_CALLS, inject="%s:error=EIO:when=%d" % (name, k), timeout=30)
    with concurrent.futures.ThreadPoolExecutor(max_workers=12) as ex:
        al_res = list(ex.map(al_one, al_jobs))
    al_model = run_model([l2.model_line(al_scns[i], fault=j) for i, j, name, k in al_jobs])
    for (i, j, name, k), r, ml in zip(al_jobs, al_res, al_model):
        run_.count("aligned %d %d" % (i, j), True, "aligned fault at operation %d (%s)" % (min(j, 9), name))
        mc, _, _ = l2.model_canon(ml)
        me = re.match(r"EXIT (\d+) TREE (\S+)", mc)
        ie = re.match(r"EXIT (\d+) TREE (\S+)", l2.impl_line(r))
        if not me or not ie or me.groups() != ie.groups():
            mism.append((i, "a failure injected into operation %d (%s #%d): the model and the implementation end differently" % (j, name, k),
                         dict(scenario=describe(al_scns[i]), inject="%s:error=EIO:when=%d" % (name, k), model=mc[:1500], impl_line=l2.impl_line(r)[:1500],
                              stderr=r["stderr"].decode("latin-1")[-300:])))
    run_.cov["aligned_fault_schedules"] = len(al_jobs)
    # failures nobody injects: the tree itself makes a call fail (the name of a link to create is taken, a directory is
    # read-only or stands where a file has to go, a target is not writable).  A failed mutating call must end in exit status 2
    # unless it is one of the probes whose failure is the expected answer (mkdir of a directory that exists, rmdir of a
    # directory that is not empty); the runs are compared with the model as well.
    nat = natural_failures(rng, 60 if q else 800)
    nres = run_many(exe, nat, strace=l2.TRACE_CALLS, timeout=30)
    nmodel = run_model([l2.model_line(s) for s in nat])
    for i, (s, r, ml) in enumerate(zip(nat, nres, nmodel)):
        failed = failed_mutations(r.get("trace", []))
        run_.count("natural " + l2.model_line(s), True, "natural failure %s: %s -> exit %d" % (s["how"], failed[0][0] + " " + failed[0][2] if failed else "none", r["exit"]))
        rep = dict(scenario=describe(s), failed_calls=[f[3] for f in failed], impl=dict(exit=r["exit"], stdout=r["stdout"].decode("latin-1")[-600:],
                   stderr=r["stderr"].decode("latin-1")[-400:], tree=fmt_tree(r["tree"])))
        if s["how"].startswith("readonly-top") and r["exit"] != 0:
            bad.append((i, "%s: the file went where the patch says and the run ends with exit status %d (%s)" % (s["how"], r["exit"], r["stderr"].decode("latin-1").strip()[-120:]), rep))
        if failed and (r["exit"] != 2 or not r["stderr"].strip()):
            bad.append((i, "%s failed with %s (%s) and the run ends with exit status %d%s" % (failed[0][0], failed[0][2], s["how"], r["exit"],
                        "" if r["stderr"].strip() else " without a diagnostic"), rep))
        mc, _, _ = l2.model_canon(ml)
        if mc != l2.impl_line(r):
            mism.append((i, "L2 (natural failure %s)" % s["how"], dict(rep, model=mc[:2000], impl_line=l2.impl_line(r)[:2000])))
    run_.cov["natural_failure_scenarios"] = len(nat)
    # the fault-free runs are also compared with the model
    model = run_model([l2.model_line(s) for s in scns])
    for i, (s, r0, ml) in enumerate(zip(scns, base, model)):
        mc, _, _ = l2.model_canon(ml)
        if mc != l2.impl_line(r0):
            mism.append((i, "L2", dict(scenario=describe(s), model=mc[:2000], impl_line=l2.impl_line(r0)[:2000])))
    run_.cov["fault_schedules"] = len(jobs)
    return bad, mism


# ---------------------------------------------------------------- C09
def partial_states(x):
    """bytes of the file after the first k hunks of its section, k = 0..n: where a damaged line cuts a section short, the hunks
    before it are a complete (shorter) patch of their own — diff formats carry no length for a section"""
    a = list(x["a"])
    states = [emit.file_bytes(a)]
    shift = 0
    cur = list(a)
    for h in x["hs"]:
        pos = (h["os"] - 1 if h["oc"] else h["os"]) + shift
        new = [(t, nl) for o, t, nl in h["body"] if o != "-"]
        cur = cur[:pos] + new + cur[pos + h["oc"]:]
        shift += h["nc"] - h["oc"]
        states.append(emit.file_bytes(cur))
    return states


def reread_states(s, x):
    """a damaged line that is empty is a line of context to the unified reader: the hunk it stands in is then a different, still
    well-formed hunk (as far as the counts of its header reach) and the section is processed to its end with it.  The states
    that hunk can leave, from any state after a whole number of earlier hunks, placed wherever its old side is found with up
    to two lines of context dropped at either end."""
    dmg = s.get("damaged")
    if not dmg or dmg[1] != b"":
        return []
    k = dmg[0]
    lines = s["tree"]["p.diff"][2].split(b"\n")
    hdr = max([i for i in range(k) if lines[i].startswith(b"@@ -")], default=None)
    if hdr is None:
        return []
    m = re.match(rb"@@ -(\d+)(?:,(\d+))? \+(\d+)(?:,(\d+))? @@", lines[hdr])
    if not m:
        return []
    oc = int(m.group(2)) if m.group(2) is not None else 1
    nc = int(m.group(4)) if m.group(4) is not None else 1
    body, o, n = [], 0, 0
    for l in lines[hdr + 1:]:
        if o >= oc and n >= nc:
            break
        c = l[:1] if l else b" "
        if c not in b" +-" or (c == b"\\"):
            return []
        body.append((c, l[1:]))
        o += c in b" -"; n += c in b" +"
    if o != oc or n != nc or k > hdr + len(body):
        return []
    out = []
    for st in partial_states(x):
        if st.endswith(b"\n") or not st:
            cur = st.split(b"\n")[:-1] if st else []
        else:
            continue
        for fl in range(3):
            for ft in range(3):
                b2 = list(body)
                lead = 0
                while lead < fl and b2 and b2[0][0] == b" ":
                    b2.pop(0); lead += 1
                tr = 0
                while tr < ft and b2 and b2[-1][0] == b" ":
                    b2.pop(); tr += 1
                old = [t for c, t in b2 if c in b" -"]; new = [t for c, t in b2 if c in b" +"]
                for pos in range(len(cur) - len(old) + 1):
                    if cur[pos:pos + len(old)] == old:
                        res = cur[:pos] + new + cur[pos + len(old):]
                        out.append(b"".join(t + b"\n" for t in res))
    return out


def state_ok_after_abort(s, tree):
    """every file byte-for-byte in its original state or in the complete patched state of its section; for a rename, the source
    intact or the destination complete"""
    t = tree_no_meta(tree)
    for x in s["secs"]:
        p, np_ = x["path"], x["newpath"]
        A = emit.file_bytes(x["a"]); B = emit.file_bytes(x["b"])
        orig = s["tree"].get(p)
        cur = t.get(p)
        if x["kind"] == "add":
            if cur is not None and cur[2] not in (B,):
                return "%s (to be created) holds neither nothing nor the complete new content" % p
        elif x["kind"] == "delete":
            if cur is not None and cur[2] != orig[2]:
                return "%s (to be deleted) is neither intact nor gone" % p
        elif x["kind"] in ("rename", "copy"):
            dst = t.get(np_)
            src_ok = cur is not None and cur[2] == orig[2]
            dst_ok = dst is not None and dst[2] == B
            if not src_ok and not dst_ok:
                return "%s of %s: the source is not intact and the destination %s is not complete" % (x["kind"], p, np_)
            if dst is not None and dst[2] != B and not src_ok:
                return "destination %s half written while the source is gone" % np_
        else:
            if cur is None:
                # (a backup taken is no excuse: after an abort caused by the patch text the file itself has to be there, in its
                # original state or in the patched state of a section that was processed to its end)
                return "%s is missing from its path%s" % (p, " (its content is only in the backup %s.orig)" % p if t.get(p + ".orig") else "")
            elif cur[2] not in (orig[2], B) and cur[2] not in partial_states(x) and cur[2] not in reread_states(s, x):
                return "%s is neither in its original state nor in the state after a whole number of its hunks (%d bytes)" % (p, len(cur[2]))
    return None


def backup_ok(s, tree):
    """with --backup the original content of every touched file exists in full at its path or at its backup path"""
    t = tree_no_meta(tree)
    for x in s["secs"]:
        if x["kind"] in ("add", "rename", "copy"):
            continue
        p = x["path"]; orig = s["tree"][p][2]
        if not ((t.get(p) and t[p][2] == orig) or (t.get(p + ".orig") and t[p + ".orig"][2] == orig)):
            return "with -b, the original content of %s exists neither at %s nor at %s.orig" % (p, p, p)
    return None


def run_c09(run_, rng, tier, exe):
    q = tier == "quick"
    bad, mism = [], []
    # (a) a syntax error at every line of multi-file streams
    scns, meta = [], []
    nbase = 25 if q else 200
    for i in range(nbase):
        kinds = rng.choice([["change"], ["change", "add", "delete"], ["rename", "change"], ["change", "copy", "delete"]])
        s = scen.gen_scenario(rng, nsec=rng.choice([2, 3]), kinds=kinds, opts=rng.choice([{}, {"b": 1}]), drift=0)
        text = s["tree"]["p.diff"][2] if "p.diff" in s["tree"] else None
        if text is None:
            continue
        lines = text.split(b"\n")
        for k in range(len(lines)):
            if not q or rng.random() < 0.5:
                bad_line = rng.choice([b"?? garbage ??", b"@@ -x +y @@", b"", b"*** oops ****", b"~~~"])
                t = dict(s); t["tree"] = dict(s["tree"])
                t["tree"]["p.diff"] = ("R", 0o644, b"\n".join(lines[:k] + [bad_line] + lines[k + 1:]))
                t["damaged"] = (k, bad_line)
                scns.append(t); meta.append(k)
    res, b0, m0 = l2_family(run_, exe, scns, lambda s, r: (state_ok_after_abort(s, r["tree"]) if r["exit"] == 2 else None),
                            cls=lambda s, r: "syntax error -> exit %d" % r["exit"], label="C09a")
    bad += b0; mism += m0
    # (a') with --backup, also after a complete run: several sections hitting the same file
    sf = [scen.same_file_scenario(rng, opts={"b": 1}, git=rng.random() < 0.3) for _ in range(60 if q else 800)]
    def judge_sf(s, r):
        t = tree_no_meta(r["tree"])
        for p in ("f", "g"):
            if p in s["tree"]:
                orig = s["tree"][p][2]
                if not ((t.get(p) and t[p][2] == orig) or (t.get(p + ".orig") and t[p + ".orig"][2] == orig)):
                    return "with -b, after the run the original content of %s is neither at %s nor at %s.orig (%s)" % (p, p, p, s["order"])
        return None
    _, b1, m1 = l2_family(run_, exe, sf, judge_sf, cls=lambda s, r: "same file " + s["order"], label="C09a'")
    bad += b1; mism += m1
    # (a'') a backup is due but cannot be taken (the backup name is a non-empty directory; the -B prefix names a directory
    # that does not exist; the directory is not writable): the original must still be at its path
    blocked = []
    for _ in range(30 if q else 300):
        sec = scen.section(rng, rng.choice(["f", "d/g"]), kind="change", fmt=rng.choice(["unified", "context", "git"]), nonl=False)
        how = rng.choice(["dir-at-backup-name", "missing-prefix-dir", "readonly-dir"])
        s = scen.base_scenario(rng, [sec], opts={"b": 1})
        tp = sec["path"]
        if how == "dir-at-backup-name":
            s["tree"][tp + ".orig"] = ("D", 0o755, b""); s["tree"][tp + ".orig/x"] = ("R", 0o644, b"x\n")
        elif how == "missing-prefix-dir":
            s["opts"]["B"] = "nodir/"
        else:
            if "/" not in tp:
                continue
            d_ = tp.rsplit("/", 1)[0]
            s["tree"][d_] = ("D", 0o555, b"")
        s["how"] = how; s["target"] = tp
        blocked.append(s)

    def judge_blocked(s, r):
        t = tree_no_meta(r["tree"]); tp = s["target"]; orig = s["tree"][tp][2]
        names = [tp, tp + ".orig", "nodir/" + tp]
        if not any(t.get(n_) and t[n_][0] == "R" and t[n_][2] == orig for n_ in names):
            return "backup due but impossible (%s): afterwards the original content of %s is at none of %s (exit %d)" % (s["how"], tp, names, r["exit"])
        return None
    _, b2_, m2_ = l2_family(run_, exe, blocked, judge_blocked, cls=lambda s, r: "backup blocked %s exit %d" % (s["how"], r["exit"]), label="C09a''")
    bad += b2_; mism += m2_
    # (a3) runs that end on their own, under option mixes that decide whether anything is written at all (--dry-run, -N,
    # drifted targets with rejects): afterwards a rename source is only gone when its destination is there, and with -b the
    # original content of every touched file is at its path or its backup path
    whole = []
    for _ in range(120 if q else 1500):
        o = dict(rng.choice([{"dry": 1}, {"dry": 1, "b": 1}, {}, {"b": 1}, {"N": 1}, {"f": 1}, {"dry": 1, "f": 1}, {"b": 1, "f": 1}, {"t": 1}, {"dry": 1, "v": 1}]))
        whole.append(scen.gen_scenario(rng, nsec=rng.choice([1, 2, 3]), kinds=rng.choice([["rename"], ["rename", "change"], ["rename", "copy", "delete"], ["change", "delete"]]),
                                       opts=o, drift=rng.choice([0, 0, 0.5])))

    def judge_whole(s, r):
        t = tree_no_meta(r["tree"])
        for x in s["secs"]:
            if x["kind"] == "rename":
                src = t.get(x["path"]); dst = t.get(x["newpath"])
                if not (src and src[2] == s["tree"][x["path"]][2]) and dst is None:
                    return "after the run (exit %d) the rename source %s is gone and the destination %s does not exist" % (r["exit"], x["path"], x["newpath"])
        if s["opts"].get("b"):
            return backup_ok(s, r["tree"])
        return None
    _, b3_, m3_ = l2_family(run_, exe, whole, judge_whole, cls=lambda s, r: "whole run %s exit %d" % ("dry" if s["opts"].get("dry") else "real", r["exit"]), label="C09a3")
    bad += b3_; mism += m3_
    # (a4) a fatal error that is not in the patch text: the flush of the deferred writes of a git stream fails on one file (its
    # destination is a directory) while backups are due for others: every other file is at its path, original or patched
    flush = []
    for _ in range(40 if q else 500):
        # the victim is created in a directory that takes no new entry (mode 0555): its deferred write fails at the flush
        victim = scen.section(rng, "ro/v1", kind="add", fmt="git", nonl=False)
        others = [scen.section(rng, p_, kind="change", fmt="git", nonl=False) for p_ in rng.sample(["h1", "hd/h2", "h3"], rng.choice([1, 2]))]
        order = rng.choice([[victim] + others, others + [victim], others[:1] + [victim] + others[1:]])
        s0 = scen.base_scenario(rng, order, opts=dict(rng.choice([{"b": 1}, {"b": 1}, {}, {"bim": 1}])), drift=rng.choice([0, 0.4]))
        s0["tree"]["ro"] = ("D", 0o555, b""); s0["tree"]["ro/keep"] = ("R", 0o644, b"k\n")
        s0["victim"] = victim["path"]; s0["others"] = [x["path"] for x in others]
        flush.append(s0)

    def judge_flush(s, r):
        t = tree_no_meta(r["tree"])
        for x in s["secs"]:
            if x["path"] not in s["others"]:
                continue
            cur = t.get(x["path"]); orig = s["tree"][x["path"]][2]
            if cur is None:
                return "after the failed flush (exit %d) %s is missing from its path%s" % (r["exit"], x["path"], " (its content is only in %s.orig)" % x["path"] if t.get(x["path"] + ".orig") else "")
            if r["exit"] == 2 and cur[2] != orig and x["path"] + ".orig" not in t and s["opts"].get("b"):
                return "after the failed flush %s was rewritten without the backup -b asks for" % x["path"]
        return None
    _, b4_, m4_ = l2_family(run_, exe, flush, judge_flush, cls=lambda s, r: "flush failure exit %d" % r["exit"], label="C09a4")
    bad += b4_; mism += m4_
    # (a5) a read of the target that fails part way (EIO on every read call in turn, target larger than a stdio buffer): the
    # target is never rewritten from a truncated reading
    bigs = [big_scenario(rng)]
    bigs[0]["opts"].pop("b", None)
    base_b = run_many(exe, bigs, strace="read,openat", timeout=30)
    rjobs = [(0, k) for name, k, line in relevant_calls(base_b[0].get("trace", []), ["read"])]
    import concurrent.futures
    with concurrent.futures.ThreadPoolExecutor(max_workers=12) as ex:
        rres = list(ex.map(lambda jb: l2.run_impl(exe, bigs[jb[0]], strace="read,openat", inject="read:error=EIO:when=%d" % jb[1], timeout=30), rjobs))
    origb = bigs[0]["tree"]["big"][2]; wantb = emit.file_bytes(bigs[0]["secs"][0]["b"])
    for (i_, k), r in zip(rjobs, rres):
        run_.count("read fault %d" % k, True, "read fault -> exit %d" % r["exit"])
        cur = tree_no_meta(r["tree"]).get("big")
        # (a run that ends with status 2 has said that it failed; the copy of the finished result over the target is not atomic)
        if r["exit"] != 2 and (cur is None or cur[2] not in (origb, wantb)):
            bad.append((0, "a read failing with EIO (read #%d): the run reports no fatal error and the target is neither in its original nor in its patched state (%s bytes, exit %d)" %
                        (k, "no" if cur is None else len(cur[2]), r["exit"]), dict(scenario=describe(bigs[0]), inject="read:error=EIO:when=%d" % k, exit=r["exit"])))
    # (a6) a write that fails (ENOSPC, EIO on every write call of the run in turn): whatever the run says afterwards, the source
    # of a rename is only gone when the destination holds the complete new content, and with -b the original content of
    # every touched file is at its path or at its backup path
    ws = []
    for _ in range(8 if q else 60):
        ws.append(scen.gen_scenario(rng, nsec=rng.choice([1, 2]), kinds=rng.choice([["rename"], ["rename", "change"], ["change"]]), opts=rng.choice([{}, {"b": 1}, {"b": 1}]), drift=0))
    # a rename with a change, of a file of several stdio blocks whose boundaries fall inside lines: the blocks of the result go
    # through the temporary file one write at a time
    bl_ = [("row %04d %s" % (i_, "y" * 29), "L") for i_ in range(330)]
    bops_ = [(" ", l_) for l_ in bl_]; bops_[300] = ("-", bl_[300]); bops_.insert(301, ("+", ("changed row", "L")))
    bhs_ = gen.hunks_from_ops(bops_, 3)
    bsec_ = dict(path="bigsrc/data", newpath="bigdst/data", a=bl_, b=[l_ for o_, l_ in bops_ if o_ != "-"], kind="rename", fmt="git", hs=bhs_, ops=bops_, mode_old=None, mode_new=None, w=3,
                 text=emit.emit_git("bigsrc/data", "bigdst/data", bhs_, kind="rename"))
    ws.append(dict(tree={"bigsrc": ("D", 0o755, b""), "bigsrc/data": ("R", 0o644, emit.file_bytes(bl_)), "p.diff": ("R", 0o644, bsec_["text"])}, opts={"p": 1, "i": "p.diff"}, umask=0o022, secs=[bsec_]))
    wbase = run_many(exe, ws, strace="write,openat", timeout=30)
    wjobs = [(i_, k_, e_) for i_, r0_ in enumerate(wbase) for name_, k_, line_ in relevant_calls(r0_.get("trace", []), ["write"]) for e_ in ("ENOSPC", "EIO")]
    import concurrent.futures
    with concurrent.futures.ThreadPoolExecutor(max_workers=12) as ex:
        wres = list(ex.map(lambda jb: l2.run_impl(exe, ws[jb[0]], strace="write,openat", inject="write:error=%s:when=%d" % (jb[2], jb[1]), timeout=30), wjobs))
    for (i_, k_, e_), r_ in zip(wjobs, wres):
        s_ = ws[i_]; t_ = tree_no_meta(r_["tree"])
        run_.count("write fault %d %d %s" % (i_, k_, e_), True, "write fault -> exit %d" % r_["exit"])
        d_ = None
        for x in s_["secs"]:
            if x["kind"] == "rename":
                src = t_.get(x["path"]); dst = t_.get(x["newpath"])
                if not (src and src[2] == s_["tree"][x["path"]][2]) and not (dst and dst[2] == emit.file_bytes(x["b"])):
                    d_ = "write #%d failing with %s (exit %d): the rename source %s is gone and the destination %s %s" % (k_, e_, r_["exit"], x["path"], x["newpath"],
                          "does not exist" if dst is None else "holds %d of %d bytes" % (len(dst[2]), len(emit.file_bytes(x["b"]))))
        if d_ is None and s_["opts"].get("b"):
            d_ = backup_ok(s_, r_["tree"])
            if d_:
                d_ = "write #%d failing with %s (exit %d): %s" % (k_, e_, r_["exit"], d_)
        if d_:
            bad.append((i_, d_, dict(scenario=describe(s_), inject="write:error=%s:when=%d" % (e_, k_), exit=r_["exit"], stderr=r_["stderr"].decode("latin-1")[-300:], tree=fmt_tree(r_["tree"]))))
    run_.cov["write_fault_schedules"] = len(wjobs)
    # (a7) a file that a section is to create is already there, with content, and cannot be read (mode 0200 / 0000): the run may
    # not take "cannot open" for "not there yet" and write over it
    ov = []
    for _ in range(12 if q else 150):
        sec = scen.section(rng, rng.choice(["nf", "nd/nf"]), kind="add", fmt=rng.choice(["unified", "git", "context"]), nonl=False)
        s0 = scen.base_scenario(rng, [sec], opts=dict(rng.choice([{}, {}, {"f": 1}, {"N": 1}])))
        scen.add_parents(s0["tree"], sec["path"]); s0["tree"][sec["path"]] = ("R", rng.choice([0o200, 0o000, 0o220]), b"precious\ncontent\n")
        ov.append(s0)
    def judge_ov(s, r):
        p_ = s["secs"][0]["path"]; cur = tree_no_meta(r["tree"]).get(p_)
        if cur is None or cur[2] != b"precious\ncontent\n":
            return "%s existed with content (unreadable, mode %o) and was to be created by the patch: afterwards it %s (exit %d)" % (p_, s["tree"][p_][1], "is gone" if cur is None else "holds other content", r["exit"])
        return None
    _, b7_, m7_ = l2_family(run_, exe, ov, judge_ov, cls=lambda s, r: "create over unreadable exit %d" % r["exit"], label="C09a7")
    bad += b7_; mism += m7_
    # (b) SIGKILL before every system call that touches the scenario
    ks = fault_scenarios(rng, 6 if q else 50)
    for _ in range(4 if q else 30):
        # renames of files larger than a stdio buffer, alone in their directory
        a = [("line %03d %s" % (i, "y" * 30), "L") for i in range(rng.choice([3, 150]))]
        ops = [(" ", l) for l in a]; ops[1] = ("-", a[1]); ops.insert(2, ("+", ("changed", "L")))
        hs = gen.hunks_from_ops(ops, 3)
        text = emit.emit_git("src/old", "src/new" if rng.random() < 0.5 else "dst/new", hs, kind="rename")
        np_ = text.split(b" b/")[1].split(b"\n")[0].decode()
        sec = dict(path="src/old", newpath=np_, a=a, b=[l for o, l in ops if o != "-"], kind="rename", fmt="git", hs=hs, ops=ops)
        ks.append(dict(tree={"src": ("D", 0o755, b""), "src/old": ("R", 0o644, emit.file_bytes(a)), "p.diff": ("R", 0o644, text)},
                       opts={"p": 1, "i": "p.diff"}, umask=0o022, secs=[sec]))
    ks = [s for s in ks if not s["opts"].get("o")]
    for s in ks:
        if rng.random() < 0.5:
            s["opts"]["b"] = 1
    base = run_many(exe, ks, strace=",".join(KILL_CALLS), timeout=30)
    jobs = []
    for i, (s, r0) in enumerate(zip(ks, base)):
        for name, k, line in relevant_calls(r0.get("trace", []), KILL_CALLS):
            jobs.append((i, name, k, line))
    if len(jobs) > (1200 if q else 30000):
        jobs = random.Random(rng.random()).sample(jobs, 1200 if q else 30000)
    import concurrent.futures
    def one(j):
        i, name, k, line = j
        return l2.run_impl(exe, ks[i], strace=",".join(KILL_CALLS), inject="%s:signal=KILL:when=%d" % (name, k), timeout=30)
    with concurrent.futures.ThreadPoolExecutor(max_workers=12) as ex:
        results = list(ex.map(one, jobs))
    for (i, name, k, line), r in zip(jobs, results):
        s = ks[i]
        run_.count("kill %d %s %d" % (i, name, k), True, "kill before %s" % name)
        d = None
        for x in s["secs"]:
            if x["kind"] == "rename":
                t = tree_no_meta(r["tree"])
                src = t.get(x["path"]); dst = t.get(x["newpath"])
                final = tree_no_meta(base[i]["tree"]).get(x["newpath"])      # what the undisturbed run writes there
                if not ((src and src[2] == s["tree"][x["path"]][2]) or (dst and final and dst[2] == final[2])):
                    d = "killed before %s #%d: the rename source %s is gone and the destination is not complete" % (name, k, x["path"])
        if d is None and s["opts"].get("b"):
            d = backup_ok(s, r["tree"])
            if d:
                d = "killed before %s #%d: %s" % (name, k, d)
        if d:
            bad.append((i, d, dict(scenario=describe(s), inject="%s:signal=KILL:when=%d" % (name, k), call=line, tree=fmt_tree(r["tree"]))))
    run_.cov["kill_points"] = len(jobs)
    # the order of operations (backup before the write, removal of a rename source after it, deferred writes before
    # deferred removals) is the model's trace order: compared call by call on the scenarios above
    mism += ops_family(run_, exe, (scns[:40] if q else scns[:400]) + sf[:(30 if q else 300)] + blocked, label="C09 ops")
    return bad, mism


def run(prop, tier, seed):
    run_ = Run(prop, tier, seed)
    if THEOREMS.get(prop):
        proofs_into_run(run_, prop, THEOREMS[prop])
    rng = random.Random(seed * 67867967 + int(prop[1:]))
    try:
        exe = os.path.join(build_impl(), "sb_patch")
        bad, mism = (run_c09 if prop == "C09" else run_c10)(run_, rng, tier, exe)
        import wide
        wb, wm = wide.wide_family(run_, exe, rng, 300 if tier == "quick" else 4000, prop=prop)
        bad += wb; mism += wm
    except CheckError as e:
        run_.violation("no-input", "build failed: %s" % e, dict(broken="build", detail=str(e)))
        return run_.finish()
    finish(run_, prop, bad, mism)
    run_.cov["rule"] = ("scenarios run under strace; every system call of the fault-free run that touches the scenario directory, the private TMPDIR or the "
                        "standard streams is failed once with EIO/ENOSPC/EACCES (C10) or preceded by SIGKILL (C09); C09 also corrupts every line of multi-file streams")
    return run_.finish()
