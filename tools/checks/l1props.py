"""Library-level checks: C12 (names), C13 (rejects round trip), C14 (line endings), C20 (-D)."""
import itertools, os, random, re, subprocess, tempfile, shutil
from vlib import *
from l2common import *
import applyc, streams, gen, emit, scen

THEOREMS = {"C12": ["strip_path_spec", "strip_path_basename", "unquote_quote", "file_line_plain", "file_line_quoted",
                    "guess_order", "guess_never_devnull",
                    "unified_header_scan_quoted", "unified_header_scan_blanks", "stripped_dir", "git_header_scan_names",
                    "git_header_scan_pN", "stripped_ab_zero", "stripped_ab_default", "git_header_scan_quoted",
                    "ext_name_spec", "git_rename_plain", "git_rename_quoted", "git_rename_scan_next",
                    "right_file_patched", "right_file_patched_p1", "right_file_patched_blanks", "right_file_patched_git",
                    "rewritten_keep", "rewritten_no_crlf", "section_pure_rename", "git_rename_scan_trailing",
                    "pure_rename_program", "rename_prog_runs", "moved_tree", "permitted_same_dir",
                    "pure_rename_end_to_end_gen", "pure_rename_end_to_end", "pure_rename_end_to_end_quoted",
                    "pure_rename_same_dir", "pure_rename_never_lost_gen", "pure_rename_never_lost",
                    "pure_rename_fault_at_any_operation", "pure_rename_reverse", "pure_rename_reverse_quoted",
                    "pure_rename_reverse_never_lost", "pure_rename_then_next", "rename_prog_safe", "rename_prog_dot"],
            "C13": ["consume_printed", "parse_unified_header", "unified_roundtrip", "rejects_loop", "rejects_skipped",
                    "context_roundtrip", "context_roundtrip_list", "normalise_sides", "normalise_idem", "context_roundtrip_normal",
                    "reject_context_file", "wf_hunk_c_unified", "roundtrip_both_forms", "wf_hunk_cb_ok", "tail_ok_cb_ok",
                    "reject_unified_file", "unified_header_scan_names", "unified_reject_file_reparses",
                    "context_header_scan", "context_reject_file_reparses", "rejects_loop_gen",
                    "apply_patch_reject_stream", "rejected_by_incl", "rejected_by_force",
                    "apply_patch_unified_reject_reparses", "apply_patch_context_reject_reparses",
                    "apply_patch_unified_reject_reparses_checked", "apply_patch_context_reject_reparses_checked",
                    "hdr_ok_simple", "wf_hunk_shift", "wf_hunk_c_shift", "read_back_names", "ex_unified_reject",
                    "ex_context_reject", "ex_runs", "blank_name_not_read_back", "negative_start_stops_at_zero",
                    "rejects_wf_unified", "rejects_wf_context", "wf_hunk_shift_any", "rejects_always_wf",
                    "rejects_always_wf_starts", "wf_hunk_c_shift_upper", "rejects_wf_context_upper",
                    "shift_start_exact_iff", "shift_hunk_exact_iff", "rejects_exact", "exact_shift_room",
                    "old_room_of_disjoint", "diff_ordered_disjoint", "old_room_of_touching", "new_room_no_shrink",
                    "diff_style_room", "diff_style_c_rooms", "wf_hunk_reverse", "wf_hunk_two_both",
                    "rejected_wf_unified", "rejected_wf_context", "apply_patch_unified_reject_always_reparses",
                    "rejected_always_wf", "apply_patch_context_reject_always_reparses",
                    "apply_patch_context_reject_reparses_ordered", "apply_patch_reject_always_reparses",
                    "rejected_exact", "apply_patch_unified_reject_reparses_room",
                    "apply_patch_context_reject_reparses_room", "apply_patch_unified_reject_reparses_diff_input",
                    "genuine_diff_rooms", "new_room_of_consistent", "apply_patch_unified_reject_reparses_genuine_diff",
                    "apply_patch_unified_reject_reparses_diff_input_force",
                    "apply_patch_context_reject_reparses_diff_input",
                    "apply_patch_context_reject_reparses_diff_input_force", "apply_patch_reject_reparses_diff_input"],
            "C14": ["split_lines_roundtrip", "split_lines_wf", "terminator_keep", "terminator_lf", "terminator_crlf",
                    "final_newline_iff", "apply_output_lines", "split_lines_of_written", "written_lf", "written_crlf", "split_lines_nocr"],
            "C20": ["define_eval", "apply_conforming_define", "section_define", "cpp_eval_outside", "outside_lines_common", "outside_lines_common_conforming", "cpp_eval_both", "define_texts_bound", "common_lines_unguarded"]}


# ---------------------------------------------------------------- C12
def strip_spec(path, n):
    """drop the shortest prefix containing n maximal runs of '/'; '' when there are fewer or nothing is left; basename for n < 0"""
    if n < 0:
        return path.rsplit("/", 1)[-1]
    i = 0
    for _ in range(n):
        j = path.find("/", i)
        if j < 0:
            return ""
        while j < len(path) and path[j] == "/":
            j += 1
        i = j
    return path[i:] if i < len(path) else ""


NAME_BYTES = [ord(c) for c in "ab/ .-_"] + [9, 34, 92, 0xe9, 0x80, 1, 127, 255]


def rand_name(rng):
    return bytes(rng.choice(NAME_BYTES) for _ in range(rng.randint(1, 10)))


def run_c12(run_, rng, tier, exe):
    q = tier == "quick"
    cases, exp = [], []
    # STRIP: exhaustive over {a,/} up to length 6 (7 thorough) x n in -1..4
    L = 6 if q else 8
    for k in range(0, L + 1):
        for p in itertools.product("a/", repeat=k):
            s = "".join(p)
            for n in range(-1, 5):
                cases.append("STRIP %d %s" % (n, hx(s))); exp.append("BYTES " + hx(strip_spec(s, n)))
    for _ in range(3000 if q else 50000):
        nm = rand_name(rng).replace(b"\n", b"n").replace(b"\0", b"0")
        n = rng.randint(-1, 5)
        cases.append("STRIP %d %s" % (n, hx(nm))); exp.append("BYTES " + hx(strip_spec(nm.decode("latin-1"), n)))
    ns = len(cases)
    # UNQUOTE: C-style quoting as diff tools emit it, with a tail after the closing quote
    for _ in range(3000 if q else 50000):
        nm = bytes(rng.choice(NAME_BYTES + [10, 48, 55, 56]) for _ in range(rng.randint(0, 8))).replace(b"\0", b"0")
        tail = rng.choice([b"", b"\t2024-01-01", b" x"])
        cases.append("UNQUOTE " + hx(emit.cquote(nm) + tail)); exp.append("BYTES %s %s" % (hx(nm), hx(b'"' + tail)))
    nq = len(cases)
    # FILELINE: plain name ended by a tab, or quoted; /dev/null is never stripped
    for _ in range(3000 if q else 50000):
        nm = rand_name(rng).replace(b"\n", b"n").replace(b"\0", b"0").replace(b"\t", b"t").replace(b'"', b"q")
        if nm.startswith(b" ") or not nm.strip():
            nm = b"a" + nm
        n = rng.randint(-1, 3)
        if rng.random() < 0.1:
            nm = b"/dev/null"
        quoted = rng.random() < 0.4
        line = (emit.cquote(nm) if quoted else nm) + b"\t2024-01-01 00:00:00"
        want = nm if nm == b"/dev/null" else strip_spec(nm.decode("latin-1"), n).encode("latin-1")
        cases.append("FILELINE %d %s" % (n, hx(line))); exp.append("NAME %s TS=%s" % (hx(want), hx(b"\t2024-01-01 00:00:00" if quoted else b"2024-01-01 00:00:00")))
    impl, model = run_both(cases)
    bad, mism = [], []
    for i, c in enumerate(cases):
        kind = c.split()[0]
        run_.count(c, True, kind)
        if impl[i] != model[i]:
            mism.append((i, "L1", dict(case=c, impl=impl[i], model=model[i])))
        if impl[i] != exp[i]:
            bad.append((i, "%s: the library answers %s, the specification says %s" % (kind, impl[i][:80], exp[i][:80]),
                        dict(case=c, impl=impl[i], expected=exp[i], decoded=unhx(c.split()[-1]).decode("latin-1"))))
    # L2: which file is chosen among old / new / Index
    scns = []
    for _ in range(200 if q else 3000):
        sec = scen.section(rng, "t", kind="change", fmt=rng.choice(["unified", "context"]), nonl=False)
        if rng.random() < 0.2:
            # a diff without context whose first hunk puts lines in front of line 1 (old range 0,0 although the old file is there)
            sec = scen.top_section(rng, "t", "unified", "add-top")
        names = dict(old="o/" + rng.choice(["one", "d/one"]), new="n/" + rng.choice(["two", "d/two"]), index="i/" + rng.choice(["three", "d/three"]))
        # only the two header names (their first occurrences), never the same bytes inside hunk lines
        text = sec["text"].replace(b"a/t", ("x/" + names["old"]).encode(), 1).replace(b"b/t", ("x/" + names["new"]).encode(), 1)
        if rng.random() < 0.3:
            # '---' and '+++' carry one and the same name (cvs diff, rcsdiff): when it does not exist the Index name is next
            names["new"] = names["old"]
            text = sec["text"].replace(b"a/t", ("x/" + names["old"]).encode(), 1).replace(b"b/t", ("x/" + names["old"]).encode(), 1)
        text = ("Index: x/%s\n" % names["index"]).encode() + text
        if rng.random() < 0.2 and b"\r" not in text and b"\\ No newline" not in text:
            # the patch went through a mailer or a checkout that writes CRLF; the names carry no time stamp (diff --label, git style)
            text = re.sub(rb"\t2024-01-0[12] 00:00:00\.000000000 \+0000", b"", text).replace(b"\n", b"\r\n")
            sec = dict(sec, a=[(t_, "C" if nl_ == "L" else nl_) for t_, nl_ in sec["a"]])      # (and so did the file)
        tree = {}
        present = [k for k in ("old", "new", "index") if rng.random() < 0.6]
        if names["new"] == names["old"]:
            present = [k for k in present if k != "new"] + (["new"] if "old" in present else [])
            present = [k for k in ("old", "new", "index") if k in present]
        strip = rng.choice([1, 1, 2, 4])
        for k in present:
            scen.add_parents(tree, names[k]); tree[names[k]] = ("R", 0o644, emit.file_bytes(sec["a"]))
        tree["p.diff"] = ("R", 0o644, text)
        # a candidate that cannot exist because a leading component of its name is a regular file (stat fails, but not with ENOENT)
        if rng.random() < 0.25 and strip == 1:
            k = rng.choice(["old", "new"])
            if k not in present:
                top = names[k].split("/")[0]
                if not any(q == top or q.startswith(top + "/") for q in tree):
                    tree[top] = ("R", 0o644, b"a file where the name wants a directory\n")
        s = dict(tree=tree, opts={"p": strip, "i": "p.diff", "f": 1}, umask=0o022, secs=[sec], names=names, present=present, strip=strip)
        scns.append(s)

    def judge(s, r):
        after = tree_no_meta(r["tree"])
        changed = sorted(set(s["names"][k] for k in ("old", "new", "index") if s["names"][k] in s["tree"] and after.get(s["names"][k]) != s["tree"][s["names"][k]]))
        if s["strip"] == 1:
            want = [s["names"][k] for k in ("old", "new", "index") if k in s["present"]][:1]
        else:
            want = []     # after stripping more, the names no longer point at the files (or have too few components)
        if changed != want:
            return "candidates present %s, -p%d: changed %s, expected %s" % (s["present"], s["strip"], changed, want)
        if "/dev/null" in "".join(r.get("trace", [])):
            return "/dev/null was opened"
        return None
    _, b2, m2 = l2_family(run_, exe, scns, judge, cls=lambda s, r: "candidates " + "+".join(s["present"]) + " p%d" % s["strip"])
    # whether a name exists is asked when it is needed, not remembered: a file that an earlier patch of the run has created (its
    # name was looked up while it was missing) is found by a later patch that names it ("diff -Nru v0 v1; diff -Nru v1 v2")
    sf = [scen.same_file_scenario(rng, opts=dict(rng.choice([{}, {}, {"b": 1}])), git=False) for _ in range(40 if q else 600)]
    def judge_sf(s, r):
        if r["exit"] != 0:
            return "a stream whose later patches name files its earlier patches created or changed (%s): exit %d" % (s["order"], r["exit"])
        after = tree_no_meta(r["tree"]); want = {}
        for x in s["secs"]:
            want[x["path"]] = None if x["kind"] == "delete" else emit.file_bytes(x["b"])
        for p_, w_ in want.items():
            got_ = after.get(p_)
            if (got_ is None) != (w_ is None) or (got_ is not None and got_[2] != w_):
                return "%s: after the run %s does not hold what the last patch for it leaves" % (s["order"], p_)
        return None
    _, b2s, m2s = l2_family(run_, exe, sf, judge_sf, cls=lambda s, r: "same file " + s["order"])
    b2 += b2s; m2 += m2s
    # a file that comes into being takes the name of the side that exists afterwards: the new name for a creating patch, the old
    # name for a deleting patch applied with -R (old and new names differ, as between two trees)
    cr = []
    for _ in range(120 if q else 2000):
        lines = [(gen.rand_text(rng, True), "L") for _ in range(rng.randint(1, 4))]
        hs_add = [dict(os=0, oc=0, ns=1, nc=len(lines), body=[("+", t, nl) for t, nl in lines])]
        hs_del = [dict(os=1, oc=len(lines), ns=0, nc=0, body=[("-", t, nl) for t, nl in lines])]
        oldn, newn = rng.choice([("old/gone.txt", "new/gone.txt"), ("t.orig", "t"), ("a/x/f", "b/y/f")])
        rev = rng.random() < 0.5
        style = rng.choice(["epoch", "devnull"])
        epoch = "1970-01-01 00:00:00.000000000 +0000"; now = "2024-01-01 00:00:00.000000000 +0000"
        fmt = rng.choice(["unified", "unified", "context"])
        em = emit.emit_unified if fmt == "unified" else emit.emit_context
        if rev:
            text = em(oldn, newn if style == "epoch" else "/dev/null", hs_del, now, epoch)
            want = oldn
        else:
            text = em(oldn if style == "epoch" else "/dev/null", newn, hs_add, epoch, now)
            want = newn
        o = {"p": 0, "i": "p.diff"}
        if rev:
            o["R"] = 1
        cr.append(dict(tree={"p.diff": ("R", 0o644, text)}, opts=o, umask=0o022, secs=[], want=want, other=(newn if rev else oldn), content=emit.file_bytes(lines),
                       style=style, rev=rev, fmt=fmt))

    def judge_cr(s, r):
        after = tree_no_meta(r["tree"])
        if s["rev"] and s["fmt"] == "context" and s["style"] == "epoch":
            return None      # (known finding of C05: not recognised as a deletion before the body is read)
        if s["other"] in after:
            return "the file came into being under the %s name %s instead of %s" % ("new" if s["rev"] else "old", s["other"], s["want"])
        if r["exit"] != 0 or after.get(s["want"], (0, 0, None))[2] != s["content"]:
            return "a patch that brings %s into being (%s, %s) did not create it (exit %d)" % (s["want"], "-R of a deletion" if s["rev"] else "creation", s["style"], r["exit"])
        return None
    _, b2c, m2c = l2_family(run_, exe, cr, judge_cr, cls=lambda s, r: "file comes into being %s %s exit %d" % ("-R" if s["rev"] else "fwd", s["style"], r["exit"]))
    b2 += b2c; m2 += m2c
    # hunk lines that read like file headers: the first line of the file is a comment naming another file that exists
    # ("-- d.txt helpers" removed gives "--- d.txt helpers"; "++ d.txt" added gives "+++ d.txt"); the file the headers
    # name is the one that is patched, the other one is left alone
    hl = []
    for _ in range(60 if q else 800):
        decoy = rng.choice(["d.txt", "sub/d.txt", "util"])
        first = rng.choice(["-- %s helpers" % decoy, "-- %s" % decoy, "-- a/%s\t2024-01-01" % decoy, "++ %s" % decoy])
        rest_ = [(t.replace("\r", "r"), "L") for t, nl in gen.rand_file(rng, maxlen=8, small=True)]
        a = [(first, "L")] + rest_ + [("tail", "L")]
        ops = [("-", a[0]), ("+", (rng.choice(["-- changed", "++ %s" % decoy, "x"]), "L"))] + [(" ", l) for l in a[1:-1]] + [("-", a[-1]), ("+", ("TAIL", "L"))]
        if first.startswith("++"):
            ops = [("+", (first, "L"))] + [(" ", l) for l in a[1:-1]] + [("-", a[-1]), ("+", ("TAIL", "L"))]
            a = a[1:]
        b = [l for o, l in ops if o != "-"]
        hs = gen.hunks_from_ops(ops, rng.choice([0, 0, 1, 3]))
        fmt = rng.choice(["unified", "unified", "git"])
        text = (emit.emit_git("t", "t", hs) if fmt == "git" else
                emit.emit_unified("a/t", "b/t", hs, "2024-01-01 00:00:00.000000000 +0000", "2024-01-02 00:00:00.000000000 +0000"))
        tree = {"t": ("R", 0o644, emit.file_bytes(a)), "p.diff": ("R", 0o644, text)}
        scen.add_parents(tree, decoy); tree[decoy] = ("R", 0o644, emit.file_bytes(a))
        o = {"p": 1, "i": "p.diff"}
        if rng.random() < 0.3:
            o["u"] = 1
        hl.append(dict(tree=tree, opts=o, umask=0o022, decoy=decoy, want=emit.file_bytes(b), secs=[]))

    def judge_hl(s, r):
        after = tree_no_meta(r["tree"])
        if after.get(s["decoy"]) != s["tree"][s["decoy"]]:
            return "a hunk line that reads like a header made %s the file that was patched" % s["decoy"]
        if after.get("t", (None, None, None))[2] != s["want"] or r["exit"] != 0:
            return "the file the headers name (t) was not patched to the new version (exit %d)" % r["exit"]
        return None
    _, b3, m3 = l2_family(run_, exe, hl, judge_hl, cls=lambda s, r: "header-like hunk line exit %d" % r["exit"])
    # git sections under every -p count: the names of the "diff --git", ---/+++ and "rename/copy from/to" lines (the latter
    # carry no a/ b/ prefix) all have to land on the same file: N components removed, or the base name without -p
    gs = []
    for _ in range(150 if q else 2500):
        kind = rng.choice(["rename", "copy", "change", "add", "delete", "rename", "copy"])
        X = rng.choice(["x/y/f", "x/y/z/f.c", "p/q/r s"]); Y = X
        if kind in ("rename", "copy"):
            Y = rng.choice([X.rsplit("/", 1)[0] + "/g", "x/w/g", X + ".new"])
        hunkless = kind in ("rename", "copy") and rng.random() < 0.5
        sec = scen.section(rng, "t", kind=kind, fmt="git", nonl=False)
        hs = [] if hunkless else sec["hs"]
        a = sec["a"]; b = a if hunkless else sec["b"]
        text = emit.emit_git(X, Y, hs, kind=kind)
        N = rng.choice([None, 0, 1, 1, 2, 3])
        def cut(nm, N=N, side="a"):
            if N is None:
                return nm.rsplit("/", 1)[-1]
            if N == 0:
                return side + "/" + nm      # nothing removed: the a/ and b/ of the header lines stay
            return "/".join(nm.split("/")[N - 1:])
        if N is not None and N - 1 >= len(X.split("/")):
            continue
        tree = {}
        if kind != "add":
            scen.add_parents(tree, cut(X)); tree[cut(X)] = ("R", 0o644, emit.file_bytes(a))
        tree["p.diff"] = ("R", 0o644, text)
        o = {"i": "p.diff"}
        if N is not None:
            o["p"] = N
        dst = cut(Y, side="b") if kind in ("rename", "copy", "add") else cut(Y)
        gs.append(dict(tree=tree, opts=o, umask=0o022, secs=[], kind=kind, src=cut(X), dst=dst, A=emit.file_bytes(a), B=emit.file_bytes(b)))

    def judge_gs(s, r):
        after = tree_no_meta(r["tree"])
        if r["exit"] != 0:
            return "git %s under %s: exit %d" % (s["kind"], "-p%d" % s["opts"]["p"] if "p" in s["opts"] else "no -p", r["exit"])
        if s["kind"] == "delete":
            return None if s["src"] not in after else "git delete: %s is still there" % s["src"]
        d = after.get(s["dst"])
        if d is None or d[2] != s["B"]:
            return "git %s under %s: %s does not hold the new version" % (s["kind"], "-p%d" % s["opts"]["p"] if "p" in s["opts"] else "no -p", s["dst"])
        if s["kind"] == "rename" and s["src"] in after:
            return "git rename: the source %s is still there" % s["src"]
        if s["kind"] == "copy" and (after.get(s["src"]) or (0, 0, None))[2] != s["A"]:
            return "git copy: the source %s changed" % s["src"]
        extra = [p for p in after if p not in s["tree"] and p != s["dst"] and not s["dst"].startswith(p + "/")]
        if extra:
            return "git %s: unexpected paths appeared: %s" % (s["kind"], extra[:3])
        return None
    _, b4, m4 = l2_family(run_, exe, gs, judge_gs, cls=lambda s, r: "git %s %s" % (s["kind"], "p%d" % s["opts"]["p"] if "p" in s["opts"] else "nop"))
    return bad + b2 + b3 + b4, mism + m2 + m3 + m4


# ---------------------------------------------------------------- C13
def sides(h):
    """old-side and new-side line sequences: text and whether the final newline is missing (a reject file is written with LF
    line endings whatever the patch file used)"""
    return ([(t, nl == "N") for o, t, nl in h["body"] if o != "+"], [(t, nl == "N") for o, t, nl in h["body"] if o != "-"])


def parse_hunks_field(line):
    """hunks=... of a PATCH line -> list of dict(os, oc, ns, nc, body)"""
    m = re.search(r"hunks=(\S+)", line)
    if not m or m.group(1) == "-":
        return []
    out = []
    for h in m.group(1).split(";"):
        a, b, c, d, body = h.split("/")
        bl = []
        if body != "-":
            for pl in body.split(","):
                o = " " if pl[0] == "_" else pl[0]
                t, nl = pl[1:].split(":")
                bl.append((o, unhx(t).decode("latin-1"), nl))
        out.append(dict(os=int(a), oc=int(b), ns=int(c), nc=int(d), body=bl))
    return out


def rand_wf_hunk(rng):
    n = rng.randint(1, 7)
    body = []
    for i in range(n):
        body.append((rng.choice(" -+ -+  "), gen.rand_text(rng, rng.random() < 0.6).replace("\r", "r"), "L"))
    # no-newline markers only on the last line of a side
    oi = [i for i, b in enumerate(body) if b[0] != "+"]
    ni = [i for i, b in enumerate(body) if b[0] != "-"]
    if oi and rng.random() < 0.2:
        i = oi[-1]
        if body[i][0] == "-" or (ni and ni[-1] == i):
            body[i] = (body[i][0], body[i][1] or "z", "N")
    if ni and rng.random() < 0.2:
        i = ni[-1]
        if body[i][0] == "+" or (oi and oi[-1] == i):
            body[i] = (body[i][0], body[i][1] or "z", "N")
    if rng.random() < 0.15:
        # a hunk read from a patch file with CRLF line endings: every terminated line is of class CRLF
        body = [(o, t, "C" if nl == "L" else nl) for o, t, nl in body]
    h = gen.hunk_of_body(body, rng.randint(1, 50), rng.randint(1, 50))
    if h["oc"] == 0:
        h["os"] -= 1
    if h["nc"] == 0:
        h["ns"] -= 1
    return h


def run_c13(run_, rng, tier, exe):
    q = tier == "quick"
    n = 4000 if q else 60000
    hs = [rand_wf_hunk(rng) for _ in range(n)]
    c1 = ["FMTU " + enc_hunk(h) for h in hs] + ["FMTC " + enc_hunk(h) for h in hs]
    impl1, model1 = run_both(c1)
    bad, mism = [], []
    c2, back = [], []
    for i, (c, r) in enumerate(zip(c1, impl1)):
        if impl1[i] != model1[i]:
            mism.append((i, "L1 FMT", dict(case=c, impl=impl1[i], model=model1[i])))
        if not r.startswith("BYTES"):
            bad.append((i, "writing a well-formed hunk as a reject failed: " + r, dict(case=c, impl=r)))
            continue
        text = unhx(r.split()[1])
        uni = i < n
        hdr = b"--- a\n+++ b\n" if uni else b"*** a\n--- b\n***************\n"
        c2.append("PARSE1 unknown 0 " + hx(hdr + text)); back.append(i)
    impl2, model2 = run_both(c2)
    for j, i in enumerate(back):
        h = hs[i % n]
        uni = i < n
        run_.count(c1[i], True, "reject round trip " + ("unified" if uni else "context"))
        if impl2[j] != model2[j]:
            mism.append((i, "L1 PARSE", dict(case=c2[j], impl=impl2[j], model=model2[j])))
        got = parse_hunks_field(impl2[j]) if impl2[j].startswith("PATCH") else None
        ok = got is not None and len(got) == 1 and (got[0]["os"], got[0]["oc"], got[0]["ns"], got[0]["nc"]) == (h["os"], h["oc"], h["ns"], h["nc"]) \
            and sides(got[0]) == sides(h) and (not uni or got[0]["body"] == [(o_, t_, "L" if n_ == "C" else n_) for o_, t_, n_ in h["body"]])
        if not ok:
            bad.append((i, "a hunk written in %s form and read back denotes a different change" % ("unified" if uni else "context"),
                        dict(hunk=enc_hunk(h), written=unhx(impl1[i].split()[1]).decode("latin-1") if impl1[i].startswith("BYTES") else impl1[i],
                             read_back=impl2[j][:600])))
    # L2: reject files of real runs: parsed back by this tool, accepted by GNU patch, hold the failed hunks shifted
    scns = []
    for _ in range(150 if q else 2500):
        o = dict(rng.choice([{"f": 1}, {"f": 1, "rf": "context"}, {"f": 1, "rf": "unified"}, {"f": 1, "R": 1}, {"f": 1, "R": 1, "rf": "context"}]))
        s = scen.gen_scenario(rng, nsec=1, kinds=["change"], fmts=["unified", "context", "normal"], drift=0.9, opts=o)
        if rng.random() < 0.15:
            sec_ = scen.section(rng, "gr", kind="change", fmt="git", nonl=False)
            s = scen.base_scenario(rng, [sec_], opts=o, drift=0.9)
        if s["secs"][0]["fmt"] == "normal":
            s["opts"]["file"] = s["secs"][0]["path"]
        # patch files with CRLF line endings (mailed or checked out on Windows), target in CRLF or LF form
        if rng.random() < 0.3 and "p.diff" in s["tree"] and b"\\ No newline" not in s["tree"]["p.diff"][2] and b"\r" not in s["tree"]["p.diff"][2]:
            k_, m_, d_ = s["tree"]["p.diff"]; s["tree"]["p.diff"] = (k_, m_, d_.replace(b"\n", b"\r\n"))
            tp = s["secs"][0]["path"]
            if rng.random() < 0.7 and not s["tree"][tp][2].endswith(b"\r") and b"\r" not in s["tree"][tp][2]:
                k_, m_, d_ = s["tree"][tp]; s["tree"][tp] = (k_, m_, d_.replace(b"\n", b"\r\n"))
            s["crlf_patch"] = True
        scns.append(s)
    # a patch of which only the first hunk is already in the file, run with -N: skipped, every hunk rejected, nothing shifted
    for _ in range(100 if q else 1500):
        while True:
            sec = scen.section(rng, "f", kind="change", fmt=rng.choice(["unified", "context"]), width=rng.choice([1, 2, 3]), nonl=False)
            if len(sec["hs"]) >= 3 and any(h["nc"] != h["oc"] for h in sec["hs"][:-1]):
                break
        h0 = sec["hs"][0]
        pos = h0["os"] - 1 if h0["oc"] else h0["os"]
        a = list(sec["a"])
        part = a[:pos] + [(t, nl) for o, t, nl in h0["body"] if o != "-"] + a[pos + h0["oc"]:]
        s0 = scen.base_scenario(rng, [sec], opts=dict(rng.choice([{"N": 1}, {"N": 1, "rf": "context"}, {"N": 1, "rf": "unified"}])))
        s0["tree"]["f"] = ("R", 0o644, emit.file_bytes(part))
        scns.append(s0)
    # several files of one run with rejects of their own
    for _ in range(60 if q else 1000):
        o = dict(rng.choice([{"f": 1}, {"f": 1, "rf": "context"}, {"f": 1, "rf": "unified"}]))
        scns.append(scen.gen_scenario(rng, nsec=rng.choice([2, 3]), kinds=["change"], fmts=["unified", "context"], drift=0.95, opts=o))
    # an already applied patch turned round at run time (-t): the tree holds the new version, drifted further down
    for _ in range(80 if q else 1200):
        while True:
            sec = scen.section(rng, "t", kind="change", fmt=rng.choice(["unified", "context"]), width=rng.choice([1, 2, 3]), nonl=False)
            if len(sec["hs"]) >= 2 and sec["hs"][0]["nc"] != sec["hs"][0]["oc"]:
                break
        s0 = scen.base_scenario(rng, [sec], opts=dict(rng.choice([{"t": 1}, {"t": 1, "rf": "context"}, {"t": 1, "rf": "unified"}])))
        b_ = list(sec["b"])
        h1 = sec["hs"][0]
        keep = (h1["ns"] - 1 if h1["nc"] else h1["ns"]) + h1["nc"]
        s0["tree"]["t"] = ("R", 0o644, emit.file_bytes(b_[:keep] + gen.drift(rng, b_[keep:], strength=0.9)))
        scns.append(s0)
    # diffs without context that remove many lines at the top and then change a line close below: the new start of the later
    # hunk is smaller than the number of lines removed before it
    for _ in range(40 if q else 600):
        k = rng.randint(2, 6)
        a = [("%s%d" % (gen.rand_text(rng, True), i_), "L") for i_ in range(k + rng.randint(2, 5))]
        ops = [("-", l) for l in a[:k]] + [(" ", l) for l in a[k:]]
        j = k + rng.randint(0, min(1, len(a) - k - 1))
        ops[j] = ("-", a[j]); ops.insert(j + 1, ("+", (a[j][0] + "x", "L")))
        hs = gen.hunks_from_ops(ops, 0)
        fmt = rng.choice(["unified", "context", "git"])
        text = emit.emit_unified("a/f", "b/f", hs) if fmt == "unified" else emit.emit_context("a/f", "b/f", hs) if fmt == "context" else emit.emit_git("f", "f", hs, kind="change")
        tgt = list(a); tgt[j] = ("drifted", "L")
        sec = dict(path="f", newpath="f", a=a, b=[l for o, l in ops if o != "-"], text=text, fmt=fmt, kind="change", hs=hs, ops=ops, mode_old=None, mode_new=None, w=0)
        s0 = dict(tree={"f": ("R", 0o644, emit.file_bytes(tgt)), "p.diff": ("R", 0o644, text)}, opts=dict({"p": 1, "i": "p.diff", "f": 1}, **rng.choice([{}, {"rf": "context"}, {"rf": "unified"}])), umask=0o022, secs=[sec])
        scns.append(s0)
    # targets that are refused as a whole (read-only under --read-only=fail, not a regular file): every hunk goes to the reject
    # file, in the form asked for
    import l2props
    refs = [s0 for s0 in l2props.refusal_scenarios(rng, 60 if q else 800) if s0["refusal"] in ("rofail", "dir", "fifo")]
    for s0 in refs:
        s0["opts"].update(rng.choice([{}, {"rf": "context"}, {"rf": "unified"}, {"rf": "context"}]))
    def judge_ref(s, r):
        sec = s["secs"][0]
        rej = r["tree"].get(sec["path"] + ".rej")
        if rej is None:
            return None
        want_fmt = s["opts"].get("rf") or ("unified" if sec["fmt"] == "unified" else "context")
        is_ctx = rej[2].startswith(b"*** ")
        if (want_fmt == "context") != is_ctx:
            return "refused target (%s): the reject file is written in %s form, %s form was %s" % (s["refusal"], "context" if is_ctx else "unified", want_fmt,
                   "asked for with --reject-format" if s["opts"].get("rf") else "due")
        n_ = rej[2].count(b"\n***************\n") if is_ctx else len(re.findall(rb"^@@ ", rej[2], flags=re.M))
        if n_ != len(sec["hs"]):
            return "refused target (%s): %d hunks in the reject file, the patch has %d" % (s["refusal"], n_, len(sec["hs"]))
        return None
    _, b9, m9 = l2_family(run_, exe, refs, judge_ref, cls=lambda s, r: "refusal %s rejects exit %d" % (s["refusal"], r["exit"]))
    res, b2, m2 = l2_family(run_, exe, scns, lambda s, r: None, cls=lambda s, r: "rejects exit %d" % r["exit"])
    b2 = b2 + b9; m2 = m2 + m9
    parse_cases, who = [], []
    for i, (s, r) in enumerate(zip(scns, res)):
        for k_, x_ in enumerate(s["secs"]):
            rej = r["tree"].get(x_["path"] + ".rej")
            if rej is None:
                continue
            parse_cases.append("PARSE1 unknown 0 " + hx(rej[2])); who.append((i, k_))
    pi, pm = run_both(parse_cases) if parse_cases else ([], [])
    for j, (i, k_) in enumerate(who):
        s, r = scns[i], res[i]
        sec = s["secs"][k_]
        blocks_ = re.split(r"^(?:patching|checking) file ", r["stdout"].decode("latin-1"), flags=re.M)[1:]
        if len(blocks_) != len(s["secs"]):
            continue
        out = blocks_[k_]
        turned = bool(s["opts"].get("R")) != ("Assuming -R" in out)
        hs0 = sec["hs"] if not turned else applyc.reverse_hunks(sec["hs"])
        if sec["fmt"] in ("context", "normal"):
            hs0 = [dict(h, body=streams.normalise_groups(h["body"])) for h in hs0]
        verdicts = {int(m.group(1)): m for m in applyc.MSG_RE.finditer(out)}
        exp, shift = [], 0
        skipped = "Skipping patch" in out
        for k, h in enumerate(hs0, 1):
            m = verdicts.get(k)
            if skipped:
                exp.append(h)                       # nothing was applied: every hunk is a reject, none is shifted
            elif m is not None and m.group(2) == "FAILED":
                exp.append(dict(h, os=max(0, h["os"] + shift), ns=max(0, h["ns"] + shift)))     # (never below zero: nobody reads a negative number back)
            else:
                shift += h["nc"] - h["oc"]
        got = parse_hunks_field(pi[j]) if pi[j].startswith("PATCH") else None
        rep = dict(scenario=describe(s), reject=r["tree"][sec["path"] + ".rej"][2].decode("latin-1"), parsed=pi[j][:800], stdout=out[-600:])
        if pi[j] != pm[j]:
            mism.append((i, "L1 PARSE of a reject file", dict(case=parse_cases[j], impl=pi[j], model=pm[j])))
        rtxt = r["tree"][sec["path"] + ".rej"][2]
        want_fmt = s["opts"].get("rf") or ("unified" if sec["fmt"] == "unified" else "context")    # (a git section counts as "otherwise")
        is_ctx = rtxt.startswith(b"*** ")
        if (want_fmt == "context") != is_ctx:
            bad.append((i, "the reject file is written in %s form, %s form was %s" % ("context" if is_ctx else "unified", want_fmt,
                        "asked for with --reject-format" if s["opts"].get("rf") else "due (unified for unified input, context otherwise)"), rep)); continue
        if got is None:
            bad.append((i, "this tool cannot parse its own reject file", rep)); continue
        if [(g["os"], g["oc"], g["ns"], g["nc"]) + sides(g) for g in got] != [(e["os"], e["oc"], e["ns"], e["nc"]) + sides(e) for e in exp]:
            bad.append((i, "the reject file does not hold exactly the failed hunks (order, sides, start lines shifted by the growth of the applied ones)", rep)); continue
        # GNU patch must be able to read it (syntax): exit status 2 means it could not
        d = tempfile.mkdtemp(prefix="vrej")
        try:
            open(os.path.join(d, "t"), "wb").write(b"x\n")
            open(os.path.join(d, "r"), "wb").write(r["tree"][sec["path"] + ".rej"][2])
            g = subprocess.run(["patch", "--dry-run", "-f", "-s", "t", "r"], cwd=d, capture_output=True)
            if g.returncode == 2 and b"malformed" in g.stderr + g.stdout:
                bad.append((i, "GNU patch rejects the reject file as malformed: " + (g.stderr + g.stdout).decode("latin-1")[:200], rep))
        finally:
            shutil.rmtree(d, ignore_errors=True)
    return bad + b2, mism + m2


# ---------------------------------------------------------------- C14
def classify(b):
    """File::get_line classification, independently: list of (text, nl)"""
    out = []
    i = 0
    while i < len(b):
        j = b.find(b"\n", i)
        if j < 0:
            out.append((b[i:], "N")); break
        line = b[i:j]
        if line.endswith(b"\r"):
            out.append((line[:-1], "C"))
        else:
            out.append((line, "L"))
        i = j + 1
    return out


def run_c14(run_, rng, tier, exe):
    q = tier == "quick"
    cases, exp = [], []
    L = 5 if q else 7
    for k in range(0, L + 1):
        for p in itertools.product([b"x", b"\r", b"\n"], repeat=k):
            b = b"".join(p)
            want = classify(b)
            cases.append("SPLIT " + hx(b))
            exp.append("LINES " + (",".join("%s:%s" % (hx(t), n) for t, n in want) or "-"))
    for mode in ("native", "lf", "crlf", "keep"):
        for nls in itertools.product("LCN", repeat=3):
            ls = [("x%d" % i, n) for i, n in enumerate(nls)]
            cases.append("JOIN %s %s" % (mode, enc_lines(ls)))
            exp.append("BYTES " + hx(applyc.lines_bytes(mode, ls)))
    impl, model = run_both(cases)
    bad, mism = [], []
    for i, c in enumerate(cases):
        run_.count(c, True, c.split()[0])
        if impl[i] != model[i]:
            mism.append((i, "L1", dict(case=c, impl=impl[i], model=model[i])))
        if impl[i] != exp[i]:
            bad.append((i, "%s answers %s, expected %s" % (c.split()[0], impl[i][:80], exp[i][:80]), dict(case=c, impl=impl[i], expected=exp[i])))
    # conforming patches over files with LF / CRLF / mixed terminators, under the four modes
    fam = []
    for _ in range(2000 if q else 30000):
        a = gen.rand_file(rng, maxlen=10, small=True, crlf=0.35, nonl=0.3)
        ops = gen.edit_script(rng, a, density=rng.choice([0.2, 0.5]))
        ops = [(o, (t, (rng.choice("LC") if o == "+" and rng.random() < 0.4 else nl))) for o, (t, nl) in ops]
        if ops and rng.random() < 0.3:
            idx = [i for i, (o, _) in enumerate(ops) if o != "-"]
            if idx and ops[idx[-1]][0] == "+":
                o, (t, nl) = ops[idx[-1]]; ops[idx[-1]] = (o, (t or "z", "N"))
        ops = applyc.fix_nonl(ops)
        a = [l for o, l in ops if o != "+"]; b = [l for o, l in ops if o != "-"]
        hs = gen.hunks_from_ops(ops, rng.choice([0, 1, 3]))
        if not hs:
            continue
        mode = rng.choice(["native", "lf", "crlf", "keep"])
        fam.append(dict(a=a, b=b, hs=hs, mode=mode))
    c2 = [applyc.apply_case(applyc.opt_str(nl=c["mode"], F=0), "unified", c["a"], c["hs"]) for c in fam]
    i2, m2 = run_both(c2)
    for i, c in enumerate(fam):
        res = applyc.parse_result(i2[i])
        want = applyc.lines_bytes(c["mode"], c["b"])
        run_.count(c2[i], True, "mode " + c["mode"])
        if i2[i] != m2[i]:
            mism.append((i, "L1 APPLY", dict(case=c2[i], impl=i2[i], model=m2[i])))
        if res is None or res["out"] != want:
            bad.append((i, "output bytes under --newline-output=%s are not what the mode promises" % c["mode"],
                        dict(case=c2[i], impl=i2[i], expected=want.decode("latin-1"))))
        else:
            ends_nl = res["out"].endswith(b"\n")
            last_n = bool(c["b"]) and c["b"][-1][1] == "N"
            if c["b"] and ends_nl == last_n:
                bad.append((i, "final newline: output ends %s a newline, last line %s one" % ("with" if ends_nl else "without", "lacks" if last_n else "has"),
                            dict(case=c2[i], impl=i2[i])))
    # through the parser: diffs in every format whose changed last line has no newline, CRLF files and patches, all four modes
    scns = []
    for _ in range(200 if q else 3000):
        a = gen.rand_file(rng, maxlen=8, small=True, crlf=rng.choice([0, 0.6]), nonl=0.4)
        if not a:
            a = [("x", "L")]
        ops = [(" ", l) for l in a]
        # change the last line (and maybe another one)
        for i in ([len(ops) - 1] + ([rng.randrange(len(ops))] if rng.random() < 0.5 else [])):
            if ops[i][0] == " ":
                t, nl = ops[i][1]
                ops[i] = ("-", (t, nl))
                ops.insert(i + 1, ("+", (t + "2", rng.choice([nl, nl, "N" if i == len(ops) - 1 else nl]))))
        ops = applyc.fix_nonl(ops)
        a2 = [l for o, l in ops if o != "+"]; b2_ = [l for o, l in ops if o != "-"]
        fmt = rng.choice(["unified", "context", "context", "normal"])
        hs = gen.hunks_from_ops(ops, rng.choice([0, 1, 3]) if fmt != "normal" else 0)
        if fmt == "unified":
            text = emit.emit_unified("a/f", "b/f", hs)
        elif fmt == "context":
            text = emit.emit_context("a/f", "b/f", hs)
        else:
            text = b"Index: b/f\n" + emit.emit_normal(ops)
        mode = rng.choice(["native", "lf", "crlf", "keep"])
        if rng.random() < 0.3:
            # the marker as a diff run under another locale words it: what counts is the backslash
            text = text.replace(b"\\ No newline at end of file", rng.choice([b"\\ Kein Zeilenumbruch am Dateiende.", b"\\ Pas de fin de ligne a la fin du fichier", b"\\"]))
        scns.append(dict(tree={"f": ("R", 0o644, emit.file_bytes(a2)), "p.diff": ("R", 0o644, text)}, opts={"p": 1, "i": "p.diff", "nl": mode, "F": 0},
                         umask=0o022, want=applyc.lines_bytes(mode, b2_), fmt=fmt, mode=mode))
    # git streams in which an entry without hunks (a pure rename, a copy, a change of mode) stands in front of another entry: the
    # file it names is written through the same conversion as every other
    for _ in range(60 if q else 900):
        mode = rng.choice(["lf", "crlf", "native", "keep"])
        g = [(gen.rand_text(rng, True) + str(i_), rng.choice("LC")) for i_ in range(rng.randint(1, 6))]
        if rng.random() < 0.3:
            g[-1] = (g[-1][0], "N")
        kind = rng.choice(["rename", "copy", "mode"])
        first = (emit.emit_git("g", "g2", [], kind=kind) if kind != "mode" else emit.emit_git("g", "g", [], kind="change", old_mode="100644", new_mode="100755"))
        fl = [("k%d" % i_, "L") for i_ in range(4)]
        ops = [(" ", l) for l in fl]; ops[1] = ("-", fl[1]); ops.insert(2, ("+", ("k1x", "L")))
        second = emit.emit_git("h", "h", gen.hunks_from_ops(ops, 1), kind="change")
        order = rng.choice(["first", "first", "last"])
        text = first + second if order == "first" else second + first
        scns.append(dict(tree={"g": ("R", 0o644, emit.file_bytes(g)), "h": ("R", 0o644, emit.file_bytes(fl)), "p.diff": ("R", 0o644, text)}, opts={"p": 1, "i": "p.diff", "nl": mode, "F": 0},
                         umask=0o022, want=applyc.lines_bytes(mode, g), fmt="git %s without hunks (%s)" % (kind, order), mode=mode, at="g" if kind == "mode" else "g2"))

    def judge(s, r):
        got = r["tree"].get(s.get("at", "f"))
        if r["exit"] != 0:
            return "exit %d applying a %s diff under --newline-output=%s" % (r["exit"], s["fmt"], s["mode"])
        if got is None or got[2] != s["want"]:
            return "%s diff under --newline-output=%s: bytes written are not what the mode promises" % (s["fmt"], s["mode"])
        return None
    for _ in range(100 if q else 1500):
        a = [(gen.rand_text(rng, True) + str(i_), rng.choice("LC")) for i_ in range(rng.randint(1, 6))]
        ops = []
        for i_, l in enumerate(a):
            if i_ == 0 or rng.random() < 0.4:
                ops.append(("-", l)); ops.append(("+", (l[0] if rng.random() < 0.6 else l[0] + "x", "L" if l[1] == "C" else "C")))
            else:
                ops.append((" ", l))
        a2 = [l for o_, l in ops if o_ != "+"]; b2_ = [l for o_, l in ops if o_ != "-"]
        fmt = rng.choice(["context", "context", "unified"])
        hs = gen.hunks_from_ops(ops, rng.choice([0, 0, 1, 3]))
        text = emit.emit_context("a/f", "b/f", hs) if fmt == "context" else emit.emit_unified("a/f", "b/f", hs)
        mode = rng.choice(["keep", "keep", "keep", "lf", "crlf"])
        scns.append(dict(tree={"f": ("R", 0o644, emit.file_bytes(a2)), "p.diff": ("R", 0o644, text)}, opts={"p": 1, "i": "p.diff", "nl": mode, "F": 0},
                         umask=0o022, want=applyc.lines_bytes(mode, b2_), fmt=fmt + " terminators", mode=mode))
    # a series of git patches for one file in one stream: every later patch starts from the not yet written result of the
    # one before; terminators (CRLF lines, a last line without newline that no later patch touches) stay what they are
    for _ in range(80 if q else 1200):
        mode = rng.choice(["keep", "keep", "lf", "crlf", "native"])
        # (under a converting mode each patch of the series is written against what the one before it leaves: LF / CRLF only)
        cls_ = "LLLC" if mode == "keep" else ("C" if mode == "crlf" else "L")
        cur = [(gen.rand_text(rng, True) + str(i_), rng.choice(cls_)) for i_ in range(rng.randint(4, 8))]
        if rng.random() < 0.6:
            cur[-1] = (cur[-1][0], "N")
        a0 = list(cur); text = b""
        for j in range(rng.choice([2, 2, 3])):
            i_ = rng.randrange(len(cur) - 2)           # never the last lines
            ops = [(" ", l) for l in cur]; ops[i_] = ("-", cur[i_]); ops.insert(i_ + 1, ("+", (cur[i_][0] + "x", cur[i_][1])))
            text += emit.emit_git("f", "f", gen.hunks_from_ops(ops, 1), kind="change")
            cur = [l for o_, l in ops if o_ != "-"]
        scns.append(dict(tree={"f": ("R", 0o644, emit.file_bytes(a0)), "p.diff": ("R", 0o644, text)}, opts={"p": 1, "i": "p.diff", "nl": mode, "F": 0},
                         umask=0o022, want=applyc.lines_bytes(mode, cur), fmt="git series", mode=mode))
    _, b3, m3 = l2_family(run_, exe, scns, judge, cls=lambda s, r: "L2 %s %s" % (s["fmt"], s["mode"]))
    for i, d, rep in b3:
        rep["expected"] = scns[i]["want"].decode("latin-1")
    # -D under a converting mode: whatever the merge puts out (directives, the line break it has to add after an unterminated last
    # line) goes through the same conversion as every other line
    dsc = []
    for _ in range(80 if q else 1200):
        a = [(gen.rand_text(rng, True).replace("#", "h") + str(i_), rng.choice("LLC")) for i_ in range(rng.randint(1, 6))]
        ops = [(" ", l) for l in a]
        i_ = len(ops) - 1 if rng.random() < 0.7 else rng.randrange(len(ops))
        t_, nl_ = ops[i_][1]
        na, nb = rng.random() < 0.5, rng.random() < 0.5
        ops[i_] = ("-", (t_, "N" if (na and i_ == len(ops) - 1) else nl_)); ops.insert(i_ + 1, ("+", (t_ + "2", "N" if (nb and i_ == len(ops) - 1) else nl_)))
        ops = applyc.fix_nonl(ops)
        a2 = [l for o_, l in ops if o_ != "+"]
        fmt = rng.choice(["unified", "context", "normal"])
        hs = gen.hunks_from_ops(ops, rng.choice([0, 1, 3]) if fmt != "normal" else 0)
        text = emit.emit_unified("a/f", "b/f", hs) if fmt == "unified" else emit.emit_context("a/f", "b/f", hs) if fmt == "context" else b"Index: b/f\n" + emit.emit_normal(ops)
        mode = rng.choice(["crlf", "crlf", "lf", "native"])
        dsc.append(dict(tree={"f": ("R", 0o644, emit.file_bytes(a2)), "p.diff": ("R", 0o644, text)}, opts={"p": 1, "i": "p.diff", "nl": mode, "F": 0, "D": "SYM"}, umask=0o022, fmt=fmt, mode=mode))
    def judge_dsc(s, r):
        got = r["tree"].get("f")
        if r["exit"] != 0 or got is None:
            return "exit %d applying a %s diff with -D under --newline-output=%s" % (r["exit"], s["fmt"], s["mode"])
        d_ = got[2]
        if s["mode"] == "crlf" and re.search(rb"(?<!\r)\n", d_):
            return "-D under --newline-output=crlf: a line of the output ends in a bare LF"
        if s["mode"] in ("lf", "native") and b"\r\n" in d_:
            return "-D under --newline-output=%s: a line of the output ends in CRLF" % s["mode"]
        return None
    _, b4, m4 = l2_family(run_, exe, dsc, judge_dsc, cls=lambda s, r: "L2 -D %s %s" % (s["fmt"], s["mode"]))
    b3 += b4; m3 += m4
    return bad + b3, mism + m3


# ---------------------------------------------------------------- C20
def cpp_eval(lines, defined, sym):
    """tiny independent evaluator of #ifdef/#ifndef SYM, #else, #endif; None when unbalanced"""
    out, stack = [], []
    for l in lines:
        if l.startswith("#ifdef " + sym) and l[len("#ifdef " + sym):] == "":
            stack.append(defined)
        elif l.startswith("#ifndef " + sym) and l[len("#ifndef " + sym):] == "":
            stack.append(not defined)
        elif l == "#else":
            if not stack:
                return None
            stack[-1] = not stack[-1]
        elif l == "#endif":
            if not stack:
                return None
            stack.pop()
        elif all(stack):
            out.append(l)
    return out if not stack else None


def define_drifted(run_, rng, n):
    """-D on targets that have drifted (hunks placed with fuzz, with offsets, under -l): judged as define_eval states it --
    evaluated with SYM defined the output is what the same call writes without -D, with SYM undefined it is the target (every
    original line, context lines of placed hunks included, once, in order, with its own bytes)"""
    bad, mism = [], []
    dr = [c for c in applyc.family_drifted(rng, n)]
    for c in dr:
        c["f"] = [(t.replace("#", "h"), "L") for t, nl in c["f"]]
        c["hs"] = [dict(h, body=[(o_, t.replace("#", "h"), "L") for o_, t, nl in h["body"]]) for h in c["hs"]]
        c["opts"]["nl"] = "native"; c["opts"].pop("v", None)
    with_d = [applyc.apply_case(applyc.opt_str(D=hx("SYM"), **c["opts"]), "unified", c["f"], c["hs"]) for c in dr]
    without = [applyc.apply_case(applyc.opt_str(**c["opts"]), "unified", c["f"], c["hs"]) for c in dr]
    impl2, model2 = run_both(with_d + without)
    nd_ = len(dr)
    for i, c in enumerate(dr):
        run_.count(with_d[i], True, "-D drifted")
        if impl2[i] != model2[i]:
            mism.append((i, "L1 APPLY -D (drifted)", dict(case=with_d[i], impl=impl2[i], model=model2[i])))
        rd, rn = applyc.parse_result(impl2[i]), applyc.parse_result(impl2[nd_ + i])
        if rd is None and rn is not None:
            bad.append((i, "the same call that succeeds without -D fails with -D: " + impl2[i][:80], dict(case=with_d[i], impl=impl2[i], without_D=impl2[nd_ + i][:300])))
            continue
        if rd is None or rn is None:
            continue
        def tl(b_):
            ls_ = b_.decode("latin-1").split("\n")
            if ls_ and ls_[-1] == "":
                ls_.pop()
            return ls_
        lines = tl(rd["out"])
        new = cpp_eval(lines, True, "SYM"); old = cpp_eval(lines, False, "SYM")
        rep = dict(case=with_d[i], output=rd["out"].decode("latin-1"), without_D=rn["out"].decode("latin-1"))
        if new is None or old is None:
            bad.append((i, "-D output (target drifted) has unbalanced conditionals", rep))
        elif new != tl(rn["out"]):
            bad.append((i, "-D output evaluated with SYM defined differs from what the same call writes without -D", rep))
        elif old != [t for t, nl in c["f"]]:
            bad.append((i, "-D output evaluated with SYM undefined is not the original target", rep))
        elif rd["failed"] != rn["failed"]:
            bad.append((i, "-D changes the number of rejected hunks (%d vs %d)" % (rd["failed"], rn["failed"]), rep))
    return bad, mism


def run_c20(run_, rng, tier, exe):
    q = tier == "quick"
    fam = []
    for _ in range(3000 if q else 50000):
        a = [(t.replace("#", "h"), nl) for t, nl in gen.rand_file(rng, maxlen=10, small=rng.random() < 0.7, crlf=0, nonl=0.25)]
        ops = [(o, (t.replace("#", "h"), nl)) for o, (t, nl) in gen.edit_script(rng, a, density=rng.choice([0.2, 0.5, 0.9]))]
        if ops and rng.random() < 0.25:
            idx = [i for i, (o, _) in enumerate(ops) if o != "-"]
            if idx and ops[idx[-1]][0] == "+":
                o, (t, nl) = ops[idx[-1]]; ops[idx[-1]] = (o, (t or "z", "N"))
        ops = applyc.fix_nonl(ops)
        a = [l for o, l in ops if o != "+"]; b = [l for o, l in ops if o != "-"]
        hs = gen.hunks_from_ops(ops, rng.choice([0, 1, 2, 3]))
        if not hs:
            continue
        fam.append(dict(a=a, b=b, hs=hs))
    # without context: lines put in front of line 1, lines taken off the top, of a file that stays
    for _ in range(200 if q else 3000):
        sec = scen.top_section(rng, "t", "unified", rng.choice(["add-top", "del-top"]))
        if any("#" in t for t, nl in sec["a"] + sec["b"]):
            continue
        fam.append(dict(a=sec["a"], b=sec["b"], hs=sec["hs"]))
    cases = [applyc.apply_case(applyc.opt_str(D=hx("SYM"), F=0), "unified", c["a"], c["hs"]) for c in fam]
    impl, model = run_both(cases)
    bad, mism = [], []
    geval = []
    for i, c in enumerate(fam):
        res = applyc.parse_result(impl[i])
        cls = "empty A" if not c["a"] else ("empty B" if not c["b"] else "change")
        run_.count(cases[i], True, "-D " + cls)
        if impl[i] != model[i]:
            mism.append((i, "L1 APPLY -D", dict(case=cases[i], impl=impl[i], model=model[i])))
        if res is None:
            bad.append((i, "-D run failed: " + impl[i][:80], dict(case=cases[i], impl=impl[i]))); continue
        out = res["out"].decode("latin-1")
        lines = out.split("\n")
        if lines and lines[-1] == "":
            lines.pop()
        new = cpp_eval(lines, True, "SYM"); old = cpp_eval(lines, False, "SYM")
        want_new = [t for t, nl in c["b"]]; want_old = [t for t, nl in c["a"]]
        rep = dict(case=cases[i], output=out, A=want_old, B=want_new)
        # the evaluator the theorem define_eval speaks about (Spec_Define.cpp_eval, extracted), on the same output
        gl = enc_lines([(t, "L") for t in lines])
        geval.append((i, "CPPEVAL %s 1 %s" % (hx("SYM"), gl), new)); geval.append((i, "CPPEVAL %s 0 %s" % (hx("SYM"), gl), old))
        if new is None or old is None:
            bad.append((i, "-D output has unbalanced conditionals", rep))
        elif new != want_new:
            bad.append((i, "-D output evaluated with SYM defined is not the new content", rep))
        elif old != want_old:
            bad.append((i, "-D output evaluated with SYM undefined is not the original content", rep))
        else:
            # lines common to both versions appear once, outside any conditional: the output has no more lines than A + B + directives
            nd = sum(1 for l in lines if l.startswith("#if") or l in ("#else", "#endif"))
            common = sum(1 for o, _, _ in sum((h["body"] for h in c["hs"]), []) if o == " ")
            # total = |A| + |B| - (lines outside hunks or context inside them, which must not be duplicated)
            dels = sum(1 for o, _, _ in sum((h["body"] for h in c["hs"]), []) if o == "-")
            adds = sum(1 for o, _, _ in sum((h["body"] for h in c["hs"]), []) if o == "+")
            if len(lines) - nd != len(c["a"]) + adds:
                bad.append((i, "-D output duplicates or drops common lines", rep))
            else:
                # the count of common_lines_unguarded / outside_lines_common, as an equality on a conforming patch:
                # exactly the |A| - dels lines the patch leaves alone stand at nesting depth 0
                depth = 0; unguarded = 0
                for l in lines:
                    if l.startswith("#if"):
                        depth += 1
                    elif l == "#endif":
                        depth -= 1
                    elif l != "#else" and depth == 0:
                        unguarded += 1
                if unguarded != len(c["a"]) - dels:
                    bad.append((i, "-D output: %d lines outside every conditional, the patch leaves %d lines alone" % (unguarded, len(c["a"]) - dels), rep))
    b9, m9 = define_drifted(run_, rng, 1500 if q else 25000)
    bad += b9; mism += m9
    # whole program: -D with a patch that removes every line of its file (by /dev/null, by an empty new side, git 'deleted file'):
    # the merged output still has to be written - evaluated with SYM undefined it is the original, defined it is empty
    dscn = []
    for _ in range(60 if q else 800):
        fmt = rng.choice(["unified", "unified", "context", "git"])
        sec = scen.section(rng, rng.choice(["dd", "ddir/dd"]), kind="delete", fmt=fmt, nonl=False)
        if b"#" in sec["text"] or not sec["a"]:
            continue
        s0 = scen.base_scenario(rng, [sec], opts={"D": "SYM"})
        s0["A"] = [t for t, nl in sec["a"]]
        if b"#" in s0["tree"][sec["path"]][2]:
            continue
        dscn.append(s0)

    def judge_ddel(s, r):
        cur = tree_no_meta(r["tree"]).get(s["secs"][0]["path"])
        if r["exit"] == 2:
            return "-D with a patch that removes every line: exit status 2"
        if cur is None:
            return "-D with a patch that removes every line: the file is gone, the conditional merge was never written"
        ls_ = cur[2].decode("latin-1").split("\n")
        if ls_ and ls_[-1] == "":
            ls_.pop()
        new = cpp_eval(ls_, True, "SYM"); old = cpp_eval(ls_, False, "SYM")
        if new is None or old is None:
            return "-D output has unbalanced conditionals"
        if new != [] or old != s["A"]:
            return "-D with a patch that removes every line: SYM defined gives %d lines (0 wanted), undefined gives %s the original" % (len(new), "" if old == s["A"] else "not")
        return None
    _, bdd, mdd = l2_family(run_, exe, dscn, judge_ddel, cls=lambda s, r: "-D deleting patch exit %d" % r["exit"])
    bad += bdd; mism += mdd
    # whole program, through the option parser: symbols as projects write them (digits, underscores, one letter), plain changes;
    # with -l on a target whose blanks are not the patch's: the old half of the merge is the file's lines, not the patch's
    wsc = []
    for _ in range(120 if q else 2000):
        sym = rng.choice(["SYM", "HAVE_UTF8_V2", "WIN32", "_x1", "A", "__GNUC__", "a0b1"])
        sec = scen.section(rng, rng.choice(["dc", "dcd/dc"]), kind="change", fmt=rng.choice(["unified", "context", "unified", "git"]), width=rng.choice([1, 2, 3]), nonl=False)
        if b"#" in sec["text"]:
            continue
        o = {"D": sym}
        s0 = scen.base_scenario(rng, [sec], opts=o)
        tgt = list(sec["a"])
        if rng.random() < 0.4:
            o["l"] = 1
            tgt = [((t.replace(" ", "\t ") if rng.random() < 0.6 else t) + (" " if t and rng.random() < 0.3 else ""), nl) for t, nl in tgt]
            k_, m_, d_ = s0["tree"][sec["path"]]; s0["tree"][sec["path"]] = (k_, m_, emit.file_bytes(tgt))
            s0["opts"]["l"] = 1
        s0["A"] = [t for t, nl in tgt]; s0["B"] = [t for t, nl in sec["b"]]; s0["sym"] = sym
        wsc.append(s0)

    def judge_wsc(s, r):
        cur = tree_no_meta(r["tree"]).get(s.get("at") or s["secs"][0]["path"])
        if r["exit"] != 0:
            return "-D %s with a patch that fits: exit status %d" % (s["sym"], r["exit"])
        if cur is None:
            return "-D %s: the file the patch writes (%s) is not there" % (s["sym"], s.get("at") or s["secs"][0]["path"])
        ls_ = cur[2].decode("latin-1").split("\n")
        if ls_ and ls_[-1] == "":
            ls_.pop()
        new = cpp_eval(ls_, True, s["sym"]); old = cpp_eval(ls_, False, s["sym"])
        if new is None or old is None:
            return "-D %s output has unbalanced conditionals" % s["sym"]
        if old != s["A"]:
            return "-D %s%s: evaluated with the symbol undefined the output is not the original file, byte for byte" % (s["sym"], " -l" if s["opts"].get("l") else "")
        norm = (lambda x: [re.sub(r"[ \t]+", " ", l_).rstrip() for l_ in x]) if s["opts"].get("l") else (lambda x: x)
        if norm(new) != norm(s["B"]):
            return "-D %s%s: evaluated with the symbol defined the output is not the new version" % (s["sym"], " -l" if s["opts"].get("l") else "")
        return None
    for _ in range(40 if q else 600):
        sym = rng.choice(["SYM", "V2"])
        sec = scen.section(rng, rng.choice(["dr", "drd/dr"]), kind=rng.choice(["rename", "copy"]), fmt="git", nonl=False)
        if b"#" in sec["text"] or not sec["hs"]:
            continue
        s0 = scen.base_scenario(rng, [sec], opts={"D": sym})
        s0["A"] = [t for t, nl in sec["a"]]; s0["B"] = [t for t, nl in sec["b"]]; s0["sym"] = sym; s0["at"] = sec["newpath"]
        wsc.append(s0)
    _, bws, mws = l2_family(run_, exe, wsc, judge_wsc, cls=lambda s, r: "-D %s%s exit %d" % ("sym with digits" if any(ch.isdigit() for ch in s["sym"]) else "sym", " -l" if s["opts"].get("l") else "", r["exit"]))
    bad += bws; mism += mws
    # the Gallina evaluator and the Python one must agree on every output seen (the oracle of this check is the specification
    # of the theorem, not a second opinion)
    gres = run_model([g[1] for g in geval])
    for (i, line, py), g in zip(geval, gres):
        if g == "NONE":
            got = None
        else:
            body = g.split(" ", 1)[1] if " " in g else "-"
            got = [] if body == "-" else [unhx(x.split(":")[0]).decode("latin-1") for x in body.split(",")]
        if got != py:
            bad.append((i, "Spec_Define.cpp_eval and the check's evaluator disagree (%r vs %r)" % (got, py), dict(case=line)))
            break
    return bad, mism


def run(prop, tier, seed):
    run_ = Run(prop, tier, seed)
    if THEOREMS.get(prop):
        proofs_into_run(run_, prop, THEOREMS[prop])
    rng = random.Random(seed * 86028121 + int(prop[1:]))
    try:
        exe = os.path.join(build_impl(), "sb_patch")
        bad, mism = {"C12": run_c12, "C13": run_c13, "C14": run_c14, "C20": run_c20}[prop](run_, rng, tier, exe)
        if prop in ("C12", "C13", "C14"):
            import wide
            wb, wm = wide.wide_family(run_, exe, rng, 300 if tier == "quick" else 4000, prop=prop)
            bad += wb; mism += wm
    except CheckError as e:
        run_.violation("no-input", "build failed: %s" % e, dict(broken="build", detail=str(e)))
        return run_.finish()
    finish(run_, prop, bad, mism, corr_name="L1 library calls")
    run_.cov["rule"] = "library-level cases (exhaustive small scopes + seeded random) judged by an independent specification of the property, and compared with the extracted model"
    return run_.finish()
