"""C04 — every hunk is applied or saved as a reject; exit status tells the truth (library part at L1)."""
import random
from vlib import *
import applyc

THEOREMS = []


def run(prop, tier, seed):
    run_ = Run(prop, tier, seed)
    rng = random.Random(seed * 104729 + 4)
    n = 3000 if tier == "quick" else 40000
    try:
        cases, impl, model, mism, bad = applyc.run_drifted(run_, prop, rng, n, "C04")
    except CheckError as e:
        run_.violation("no-input", "build failed: %s" % e, dict(broken="build", detail=str(e)))
        return run_.finish()
    for i, d in bad[:20]:
        run_.violation("concrete", d, dict(case=cases[i], impl=impl[i], model=model[i]))
    if mism and not bad:
        i = mism[0]
        run_.violation("no-input", "correspondence L1 APPLY broken on %d of %d cases" % (len(mism), len(cases)),
                       dict(broken="correspondence L1 apply_patch", case=cases[i], impl=impl[i], model=model[i]))
    run_.cov["correspondence_mismatches"] = len(mism)
    for c in cases[:3]:
        run_.sample(c)
    return run_.finish()
