"""C02 / C03 — locate_hunk, matches, matches_ignoring_whitespace at L1 (library level)."""
import itertools, random
from vlib import *
import gen

THEOREMS = {
    "C02": ["matches_spec", "matches_ws_spec", "locate_sound", "locate_insertion_sound",
            "ignored_lines_are_context", "admissibleb_spec", "model_meets_spec_C02"],
    "C03": ["locate_complete", "locate_min_fuzz", "locate_exact_at_stated", "insertion_at_stated",
            "model_meets_spec_C03"],
}

WS_ALPHA = [" ", "\t", "x", "y"]


def locate_case(ws, off, mf, lo, f, h):
    return "LOCATE %d %d %d %d %s %s" % (ws, off, mf, lo, enc_lines(f), enc_hunk(h))


def gen_locate_cases(rng, n):
    cases = []
    for i in range(n):
        kind = rng.random()
        a = gen.rand_file(rng, maxlen=14, small=rng.random() < 0.8)
        if kind < 0.55 and a:
            # hunk cut out of a real edit script, target drifted
            ops = gen.edit_script(rng, a, density=rng.choice([0.15, 0.3, 0.6]))
            hs = gen.hunks_from_ops(ops, rng.choice([0, 1, 1, 2, 3, 3]))
            if not hs:
                continue
            h = rng.choice(hs)
            f = gen.drift(rng, a, strength=rng.choice([0, 0.3, 0.6]))
        elif kind < 0.8:
            # random body placed against a random small file (repeats frequent)
            f = gen.rand_file(rng, maxlen=8, small=True, crlf=0.05, nonl=0.05)
            body = gen.rand_body(rng, maxlen=5)
            h = gen.hunk_of_body(body, rng.randint(0, len(f) + 2))
        else:
            # body built from the file itself with asymmetric context, so fuzz boundaries are hit
            f = gen.rand_file(rng, maxlen=10, small=True, crlf=0.0, nonl=0.0)
            if len(f) < 2:
                continue
            s = rng.randrange(len(f))
            e = rng.randint(s + 1, min(len(f), s + 6))
            win = f[s:e]
            pc = rng.randint(0, min(3, len(win)))
            sc = rng.randint(0, min(3, len(win) - pc))
            body = []
            for k, (t, nl) in enumerate(win):
                if k < pc or k >= len(win) - sc:
                    body.append((" ", t, nl))
                else:
                    body.append((rng.choice("-- "), t, nl))
                    if rng.random() < 0.3:
                        body.append(("+", gen.rand_text(rng, True), "L"))
            # spoil up to two outer context lines
            for _ in range(rng.randint(0, 2)):
                k = rng.choice([0, len(body) - 1, 1, len(body) - 2])
                if 0 <= k < len(body) and body[k][0] == " ":
                    body[k] = (" ", body[k][1] + "!", body[k][2])
            h = gen.hunk_of_body(body, s + 1 + rng.choice([0, 0, 0, 1, -1, 3, -3]))
            if rng.random() < 0.3:
                f = f[:rng.randint(max(0, e - 2), len(f))]   # truncated target: context past EOF
        ws = 1 if rng.random() < 0.25 else 0
        off = rng.choice([0, 0, 0, 1, -1, 2, -2, 5, -5])
        mf = rng.choice([0, 1, 2, 2, 2, 3, 4, -1, 10])
        lo = rng.choice([0, 0, 0, 1, 2, 3, len(f), max(0, len(f) - 1)])
        r = rng.random()
        if r < 0.03:
            h = dict(h, os=2 ** 63 - 1 - (1 if h["oc"] == 0 else 0))
        elif r < 0.05:
            h = dict(h, os=0)
        cases.append(locate_case(ws, off, mf, lo, f, h))
    return cases


def exhaustive_locate(limit_files=3, limit_body=2):
    """Deterministic small scope: all files <= limit_files lines over {a,b} x all hunk bodies <= limit_body + 1 lines."""
    cases = []
    alpha = ["a", "b"]
    files = [list(p) for n in range(0, limit_files + 1) for p in itertools.product(alpha, repeat=n)]
    bodies = []
    for n in range(1, limit_body + 2):
        for ops in itertools.product(" -+", repeat=n):
            for ts in itertools.product(alpha, repeat=n):
                bodies.append([(o, t, "L") for o, t in zip(ops, ts)])
    for f in files:
        fl = [(t, "L") for t in f]
        for body in bodies:
            for os_ in range(0, len(f) + 2):
                for mf in (0, 2):
                    for lo in (0, 1):
                        cases.append(locate_case(0, 0, mf, lo, fl, gen.hunk_of_body(body, os_)))
    return cases


def gen_ws_cases(rng, n, exhaustive_len=0):
    cases = []
    if exhaustive_len:
        strs = ["".join(p) for k in range(exhaustive_len + 1) for p in itertools.product(WS_ALPHA, repeat=k)]
        for a in strs:
            for b in strs:
                cases.append((a, b))
    for i in range(n):
        a = "".join(rng.choice(WS_ALPHA + ["x"]) for _ in range(rng.randint(0, 7)))
        if rng.random() < 0.6:
            # b = a with blanks perturbed (so that many pairs are equal modulo blanks)
            b = ""
            for ch in a:
                if ch in " \t":
                    b += rng.choice([" ", "\t", "  ", " \t", ch, ch, ""]) if rng.random() < 0.5 else ch
                else:
                    b += ch
            if rng.random() < 0.3:
                b += rng.choice([" ", "\t", "  "])
        else:
            b = "".join(rng.choice(WS_ALPHA) for _ in range(rng.randint(0, 7)))
        cases.append((a, b))
    return cases


BYTE_ALPHA = [chr(c) for c in (0xff, 0xff, 0xfe, 0x80, 0xe9, 0xc3, 0xa9, 0x01, 0x7f, 0x0d, 0x09, 0x20)] + list("abcxyz{}") 


def bytes_family(rng, n):
    import emit, gen
    out = []
    for _ in range(n):
        def rl(nul=False):
            t = "".join(rng.choice(BYTE_ALPHA + (["\0"] if nul else [])) for _ in range(rng.randint(1, 6)))
            return t[:-1] + "z" if t.endswith("\r") else t
        base = [(rl(), "L") for _ in range(rng.randint(6, 16))]
        ops = []
        for l in base:
            r = rng.random()
            if r < 0.12:
                ops.append(("-", l))
            elif r < 0.24:
                ops.append(("-", l)); ops.append(("+", (rl(), "L")))
            elif r < 0.32:
                ops.append((" ", l)); ops.append(("+", (rl(), "L")))
            else:
                ops.append((" ", l))
        hs = gen.hunks_from_ops(ops, rng.choice([1, 2, 3]))
        if not hs:
            continue
        a = [l for o, l in ops if o != "+"]
        # the target: the base, or the base with lines (NUL bytes too) put in between, some altered
        t = list(a)
        for _k in range(rng.choice([0, 0, 1, 2, 3])):
            pos = rng.randint(0, len(t))
            if rng.random() < 0.7:
                t.insert(pos, (rl(nul=True), "L"))
            elif t:
                t[min(pos, len(t) - 1)] = (rl(nul=True), "L")
        o = {"p": 1, "i": "p.diff", "F": rng.choice([0, 1, 2, 2, 3])}
        if rng.random() < 0.2:
            o["l"] = 1
        text = emit.emit_unified("a/f", "b/f", hs)
        out.append(dict(tree={"f": ("R", 0o644, emit.file_bytes(t)), "p.diff": ("R", 0o644, text)}, opts=o, umask=0o022, secs=[], hs=hs, target=t))
    return out


def judge_bytes(s, r):
    import re as _re
    if r["exit"] == 2:
        return None
    out = r["stdout"].decode("latin-1")
    if "Reversed" in out or "Unreversed" in out:
        return None
    failed = set(int(x) for x in _re.findall(r"^Hunk #(\d+) (?:FAILED|skipped)", out, flags=_re.M))
    after = r["tree"].get("f")
    if after is None:
        return "the target is gone"
    got = after[2]
    lines = [t.encode("latin-1") + b"\n" for t, _nl in s["target"]]
    F = s["opts"].get("F", 2); ws = bool(s["opts"].get("l"))
    def eq(a, b):
        if a == b:
            return True
        if ws:
            na = _re.sub(rb"[ \t]+", b" ", a.rstrip(b" \t\n")); nb = _re.sub(rb"[ \t]+", b" ", b.rstrip(b" \t\n"))
            return na == nb
        return False
    hs = [h for k, h in enumerate(s["hs"], 1) if k not in failed]
    def place(k, cursor, acc):
        if k == len(hs):
            return b"".join(acc) + b"".join(lines[cursor:]) == got
        body = [(o, t.encode("latin-1") + b"\n") for o, t, _nl in hs[k]["body"]]
        old = [(o, t) for o, t in body if o != "+"]
        lead = 0
        while lead < len(body) and body[lead][0] == " ":
            lead += 1
        trail = 0
        while trail < len(body) - lead and body[-1 - trail][0] == " ":
            trail += 1
        for pos in range(cursor, len(lines) - len(old) + 1):
            ok = True
            for idx, (o, t) in enumerate(old):
                if eq(lines[pos + idx], t):
                    continue
                if o == " " and (idx < min(F, lead) or idx >= len(old) - min(F, trail)):
                    continue
                ok = False; break
            if not ok:
                continue
            res = []; q = pos
            for o, t in body:
                if o == " ":
                    res.append(lines[q]); q += 1
                elif o == "-":
                    q += 1
                else:
                    res.append(t)
            if place(k + 1, q, acc + lines[cursor:pos] + res):
                return True
        return False
    if place(0, 0, []):
        return None
    return "the output (%d bytes) is not the target with the %d hunk(s) reported as applied put in at admissible places: an original line was lost, duplicated, moved or rewritten" % (len(got), len(hs))


def run(prop, tier, seed):
    run_ = Run(prop, tier, seed)
    pr = proofs_into_run(run_, prop, THEOREMS[prop])
    rng = random.Random(seed * 7919 + 17)
    nloc = 6000 if tier == "quick" else 60000
    nws = 3000 if tier == "quick" else 30000
    corpus = load_corpus("locate")
    cases = corpus + gen_locate_cases(rng, nloc)
    exh = exhaustive_locate(2, 1) if tier == "quick" else exhaustive_locate(3, 2)
    cases += exh
    ws_pairs = gen_ws_cases(rng, nws, exhaustive_len=3 if tier == "quick" else 5) if prop == "C02" else []
    ws_cases = ["WSMATCH %s %s" % (hx(a), hx(b)) for a, b in ws_pairs]
    try:
        impl, model = run_both(cases + ws_cases)
    except CheckError as e:
        run_.violation("no-input", "build failed: %s" % e, dict(broken="build", detail=str(e)))
        return run_.finish()
    nl = len(cases)
    # ---- correspondence
    mism = [i for i in range(len(impl)) if impl[i] != model[i]]
    # ---- oracle on the implementation's answers
    spec_lines = []
    for i in range(nl):
        spec_lines.append("SPEC_" + cases[i] + " " + impl[i] if impl[i].startswith(("FOUND", "NOTFOUND")) else "EMPTY")
    verdicts = run_model(spec_lines)
    norm = run_model(["NORMWS %s" % hx(s) for s in sorted(set(x for p in ws_pairs for x in p))]) if ws_pairs else []
    normmap = dict(zip(sorted(set(x for p in ws_pairs for x in p)), norm))
    key = prop + "=0"
    bad = []
    for i in range(nl):
        r = impl[i]
        cls = r.split()[0]
        nontrivial = cls in ("FOUND", "NOTFOUND")
        if cls == "FOUND":
            p = r.split()
            cls = "FOUND exact" if p[2] == "0" and p[3] == "0" else ("FOUND fuzz" if p[2] != "0" else "FOUND offset")
        run_.count(cases[i], nontrivial, cls)
        if not nontrivial:
            bad.append((i, "implementation did not answer: " + r))
        elif key in verdicts[i]:
            bad.append((i, "placement violates %s: %s" % (prop, r)))
    for j, (a, b) in enumerate(ws_pairs):
        r = impl[nl + j]
        exp = "1" if normmap[a] == normmap[b] else "0"
        run_.count("ws" + a + "|" + b, True, "ws equal" if exp == "1" else "ws different")
        if r != exp:
            bad.append((nl + j, "-l comparison of %r and %r answers %s, normalised forms are %s" % (a, b, r, "equal" if exp == "1" else "different")))
    allc = cases + ws_cases
    for i, d in bad[:20]:
        run_.violation("concrete", d, dict(case=allc[i], impl=impl[i], model=model[i], replay_cmd="./check %s --replay <this file>" % prop))
    extra_mism = 0
    # ---- apply_patch level: drifted targets, many hunks with accumulated offsets, re-applied patches (-t / -N)
    import applyc
    na = 1500 if tier == "quick" else 20000
    for fam in (applyc.family_drifted(rng, na), applyc.family_multi(rng, na)):
        ac, ai, am, amism, abad = applyc.run_drifted(run_, prop, rng, 0, prop, fam=fam)
        for i, d in abad[:10]:
            run_.violation("concrete", d, dict(case=ac[i], impl=ai[i], model=am[i]))
        extra_mism += len(amism)
        if amism and not abad and not bad:
            i = amism[0]
            run_.violation("no-input", "correspondence L1 APPLY broken on %d cases" % len(amism), dict(broken="correspondence L1 apply_patch", case=ac[i], impl=ai[i], model=am[i]))
    if prop == "C02":
        # under -D as well every original line (context lines inside placed hunks included) comes out once, with its own bytes
        import l1props
        db, dm = l1props.define_drifted(run_, rng, na)
        for i, d, rep in db[:10]:
            run_.violation("concrete", d + " (an original line was lost, duplicated or rewritten from the patch text)", rep)
        extra_mism += len(dm)
        if dm and not db and not bad:
            run_.violation("no-input", "correspondence L1 APPLY -D broken on %d cases" % len(dm), dict(dm[0][2], broken="correspondence L1 apply_patch -D"))
    if prop == "C02":
        # whole program, files of arbitrary bytes (0xff, NUL, CR inside a line, other 8-bit bytes) that drifted from the diff's
        # base: the output has to be the target with every hunk the run reports as applied put in at increasing, non-overlapping
        # places where its '-' lines and inner context are in the file -- every other line once, in order, with its own bytes
        try:
            import l2common
            bf = bytes_family(rng, 200 if tier == "quick" else 3000)
            _, bb, bm = l2common.l2_family(run_, build_impl("plain") + "/sb_patch", bf, judge_bytes, cls=lambda s, r: "bytes exit %d" % r["exit"], label="C02 bytes")
            for i, d, rep in bb[:10]:
                run_.violation("concrete", d, rep)
            extra_mism += len(bm)
            if bm and not bb and not bad:
                run_.violation("no-input", "correspondence L2 whole-program runs (files of arbitrary bytes) broken on %d scenario(s)" % len(bm), dict(bm[0][2], broken="correspondence L2"))
            # a read of the target that fails part way (a file larger than a stdio buffer, EIO on every read of the run in turn): the
            # run stops (status 2) or its output passes the same replay - what was read is not "the file" when the reading failed
            import l2, faults, concurrent.futures, emit as _emit, gen as _gen
            a_ = [("line %04d %s" % (i_, "\xff" * 3 + "x" * 17), "L") for i_ in range(420)]
            ops_ = [(" ", l_) for l_ in a_]
            for at_ in (400, 20):
                ops_[at_] = ("-", a_[at_]); ops_.insert(at_ + 1, ("+", ("changed %d" % at_, "L")))
            hs_ = _gen.hunks_from_ops(ops_, 2)
            big_ = dict(tree={"f": ("R", 0o644, _emit.file_bytes(a_)), "p.diff": ("R", 0o644, _emit.emit_unified("a/f", "b/f", hs_))}, opts={"p": 1, "i": "p.diff"}, umask=0o022, secs=[], hs=hs_, target=a_)
            exe_ = build_impl("plain") + "/sb_patch"
            base_ = l2.run_impl(exe_, big_, strace="read,openat", timeout=30)
            rj_ = [k_ for n_, k_, l_ in faults.relevant_calls(base_.get("trace", []), ["read"])]
            with concurrent.futures.ThreadPoolExecutor(max_workers=12) as ex_:
                rr_ = list(ex_.map(lambda k_: l2.run_impl(exe_, big_, strace="read,openat", inject="read:error=EIO:when=%d" % k_, timeout=30), rj_))
            for k_, r_ in zip(rj_, rr_):
                run_.count("C02 read fault %d" % k_, True, "read fault -> exit %d" % r_["exit"])
                d_ = judge_bytes(big_, r_) if r_["exit"] != 2 else None
                if d_:
                    run_.violation("concrete", "read #%d of the run fails with EIO, exit status %d: %s" % (k_, r_["exit"], d_),
                                   dict(scenario=l2common.describe(big_), inject="read:error=EIO:when=%d" % k_, exit=r_["exit"], stdout=r_["stdout"].decode("latin-1")[-300:]))
        except CheckError as e:
            run_.violation("no-input", "build failed: %s" % e, dict(broken="build", detail=str(e)))
    rc, ri, rm, rmism, rbad = applyc.run_family_plain(run_, applyc.family_reapply(rng, na), "reapply")
    for i, d in rbad[:10]:
        run_.violation("concrete", d, dict(case=rc[i], impl=ri[i], model=rm[i]))
    for i in rmism[:1]:
        # the model is proved to place hunks admissibly (also after a reversal): a disagreement here is judged by re-running the
        # placement oracle on the hunks the implementation says it applied
        run_.violation("no-input" if not run_.violations else "concrete", "correspondence L1 APPLY (reversed-patch handling, -t/-N) broken on %d cases" % len(rmism),
                       dict(broken="correspondence L1 apply_patch with reversed-patch detection", case=rc[i], impl=ri[i], model=rm[i]))
    if mism and not bad:
        i = mism[0]
        run_.violation("no-input", "correspondence L1 (LOCATE/WSMATCH) broken: model and implementation differ on %d of %d cases" % (len(mism), len(impl)),
                       dict(broken="correspondence L1 locate_hunk / matches_ignoring_whitespace", case=allc[i], impl=impl[i], model=model[i],
                            theorems=THEOREMS[prop]))
    run_.cov["rule"] = ("LOCATE cases: corpus + seeded random (hunks cut from edit scripts against drifted targets, random bodies against small files with repeats, "
                        "asymmetric/spoiled context, truncated targets, extreme line numbers) + exhaustive small scope (all files<=%d lines over {a,b} x all bodies); "
                        "WSMATCH: exhaustive pairs over {space,tab,x,y} up to length %d + random. Non-trivial = the implementation answered FOUND/NOTFOUND; distinct by hash of the case line."
                        % ((2, 3) if tier == "quick" else (3, 5)))
    run_.cov["exhaustive_small_scope_cases"] = len(exh)
    run_.cov["correspondence_mismatches"] = len(mism) + extra_mism + len(rmism)
    for c in (cases[len(corpus):len(corpus) + 3] + ws_cases[-2:]):
        run_.sample(c)
    run_.assumptions += ["locate_hunk is called with a non-negative cursor (apply_patch's line_number)",
                         "lines compared are those produced by File::get_line (no embedded newline)"]
    return run_.finish()
