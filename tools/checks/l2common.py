"""Common driver for the whole-program (L2) checks: run scenarios through the implementation (in parallel) and the
extracted model, compare, and let a property-specific judge look at the implementation's observations."""
import concurrent.futures, os, random, re, subprocess, tempfile, shutil
from vlib import *
import l2, scen, emit, gen, applyc


def run_many(exe, scns, workers=12, **kw):
    with concurrent.futures.ThreadPoolExecutor(max_workers=workers) as ex:
        return list(ex.map(lambda s: l2.run_impl(exe, s, **kw), scns))


def describe(scn):
    d = dict(opts=scn["opts"], argv=scn.get("argv") or l2.opts_to_argv(scn["opts"]),
             tree={p: (k, oct(m), (data.decode("latin-1") if len(data) < 600 else data[:600].decode("latin-1") + "...")) for p, (k, m, data) in scn["tree"].items()})
    if scn.get("stdin") is not None:
        d["stdin"] = scn["stdin"].decode("latin-1")[:2000]
    return d


def fmt_tree(t):
    return {p: (k, oct(m), d.decode("latin-1")[:300]) for p, (k, m, d, *_) in t.items()}


NAME_LINE = re.compile(rb"^(?:--- |\+\+\+ |\*\*\* |Index: |diff |rename |copy |Prereq: )[^\n]*\x00", re.M)


def nul_in_names(s):
    """a NUL byte in a line that names a file: the program hands the name to the system as a C string (cut at the NUL), the
    model keeps the byte - outside the model's domain (and outside what C12 quantifies over)"""
    t = s["tree"]["p.diff"][2] if "p.diff" in s.get("tree", {}) else (s.get("stdin") or b"")
    # (the content of a section becomes a name when a later section of the stream makes a symbolic link out of it)
    return bool(NAME_LINE.search(t)) or (b"\x00" in t and b" 120000" in t)


def l2_family(run_, exe, scns, judge, cls=None, compare=True, label="L2", **kw):
    """Runs every scenario; judge(scn, res) -> None | description of the property violation.
    Returns (bad, mism) lists of (scenario index, description, replay dict)."""
    results = run_many(exe, scns, **kw)
    model = run_model([l2.model_line(s) for s in scns]) if compare else [None] * len(scns)
    bad, mism = [], []
    for i, (s, r, ml) in enumerate(zip(scns, results, model)):
        il = l2.impl_line(r)
        c = cls(s, r) if cls else ("exit %d" % r["exit"])
        run_.count(l2.model_line(s), True, label + " " + c)
        rep = dict(scenario=describe(s), impl=dict(exit=r["exit"], stdout=r["stdout"].decode("latin-1")[-1500:],
                                                   stderr=r["stderr"].decode("latin-1")[-800:], tree=fmt_tree(r["tree"]), tmp_left=r["tmp_left"]),
                   model_line=l2.model_line(s))
        if r.get("timed_out"):
            bad.append((i, "run did not terminate within the time limit", rep))
            continue
        d = judge(s, r)
        if d:
            bad.append((i, d, rep))
        if compare and not s.get("no_model") and not nul_in_names(s):
            mc, _, _ = l2.model_canon(ml)
            if mc != il:
                rep2 = dict(rep, model=mc[:3000], impl_line=il[:3000])
                mism.append((i, "model and implementation differ", rep2))
    return results, bad, mism


def finish(run_, prop, bad, mism, known=None, corr_name="L2 whole-program runs (Driver.v / World.v)"):
    """bad entries may be (i, desc, rep) ; known(desc, rep) -> key or None"""
    listed = {k_["key"] for k_ in load_known()[0] if k_["prop"] == prop}
    for i, d, rep in bad:
        k = known(d, rep) if known else None
        # only what known_findings.txt lists (a 'known:' line with this key) is reported as a known finding; the file is never
        # written at run time
        if k and k[0] in listed:
            run_.known(k[0], k[1])
        else:
            run_.violation("concrete", d, rep)
    if mism and not run_.violations:
        i, d, rep = mism[0]
        run_.violation("no-input", "correspondence %s broken on %d scenario(s)" % (corr_name, len(mism)), dict(rep, broken="correspondence " + corr_name))
    run_.cov["correspondence_mismatches"] = len(mism)


def tree_no_meta(t):
    return {p: (k, m, d) for p, (k, m, d, *_) in t.items()}


def diff_trees(a, b):
    out = []
    for p in sorted(set(a) | set(b)):
        if a.get(p) != b.get(p):
            x, y = a.get(p), b.get(p)
            out.append("%s: %s -> %s" % (p, None if x is None else (x[0], oct(x[1]), x[2][:60]), None if y is None else (y[0], oct(y[1]), y[2][:60])))
    return out


def ops_family(run_, exe, scns, label="ops"):
    """operation-sequence correspondence: the real run's file-system system calls on the scenario directory, in order, against
    the operation trace of the model (World.sysop): the theorems about which operations happen, on which paths and in which
    order (C09, C10, C15-C18) speak about exactly this trace.  Returns a mismatch list for finish()."""
    res = run_many(exe, scns, strace=l2.TRACE_CALLS, timeout=40)
    model = run_model([l2.model_line(s) for s in scns])
    mism = []
    for i, (s, r, ml) in enumerate(zip(scns, res, model)):
        a = l2.ops_of_trace(r.get("trace", [])); b = l2.model_ops(ml)
        run_.count("ops " + l2.model_line(s), True, label + " %d operations" % min(len(a), 9))
        if r.get("timed_out"):
            continue
        if a != b:
            k = next((j for j in range(min(len(a), len(b))) if a[j] != b[j]), min(len(a), len(b)))
            mism.append((i, "operation sequences differ at position %d" % k,
                         dict(scenario=describe(s), impl_ops=a, model_ops=b, first_difference=dict(position=k, impl=a[k:k + 2], model=b[k:k + 2]))))
    return mism
