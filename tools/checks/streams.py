"""Patch text generators (sections in every format, streams with filler, malformed variants) shared by the
parser-level checks (C01 byte level, C07, C08, C11, C12, C13)."""
import random, subprocess, os, tempfile
from vlib import *
import gen, emit
import applyc

FILLER = ["", "From: someone@example.org", "Subject: [PATCH] fix things", "Date: Mon, 1 Jan 2024", "commit 1234abcd",
          "    indented commit message line", "-- ", "2.39.2", "Signed-off-by: A <a@b>", "Only in dir: file", "diff -ruN a/x b/x",
          "some text with a tab\tin it", "> quoted reply", "--", "***", "+ not a diff", "0 files changed",
          "@alice: looks good to me", "@", "@@ see above", "- a bullet in a note", "-\tdash and tab"]

NAMES = ["f", "dir/f", "a b", "x.c", "d1/d2/g.txt", "f-1", "weird\\name", "caf\xe9", "tab\tname", 'q"uote']


def normalise_groups(body):
    """order every change group deletions first (context / normal formats cannot express another order)"""
    out, i = [], 0
    while i < len(body):
        if body[i][0] == " ":
            out.append(body[i]); i += 1
            continue
        j = i
        while j < len(body) and body[j][0] != " ":
            j += 1
        run = body[i:j]
        out += [x for x in run if x[0] == "-"] + [x for x in run if x[0] == "+"]
        i = j
    return out


def gen_section(rng, fmt=None, name=None, simple_names=True):
    """One section: dict(fmt, text(bytes), old, new (names), a, b (line lists), hs (hunks as the parser should see them), ops)"""
    fmt = fmt or rng.choice(["unified", "unified", "context", "normal", "git"])
    while True:
        a, ops, b = applyc.gen_pair(rng, maxlen=10)
        ops = [(o, (t if "\r" not in t else "cr", nl)) for o, (t, nl) in ops]   # a bare CR inside a line is a separate topic (C14)
        ops = applyc.fix_nonl(ops)
        # diff formats cannot carry CRLF-vs-LF per line reliably through every producer: keep L / N here
        ops = [(o, (t, "L" if nl == "C" else nl)) for o, (t, nl) in ops]
        a = [l for o, l in ops if o != "+"]
        b = [l for o, l in ops if o != "-"]
        if any(o != " " for o, _ in ops):
            break
    name = name or (rng.choice(["f", "g", "dir/f", "x.c"]) if simple_names else rng.choice(NAMES))
    w = rng.choice([0, 1, 2, 3, 3])
    if fmt == "normal":
        hs = gen.hunks_from_ops(ops, 0)
        text = emit.emit_normal(ops)
        # a normal diff has no header of its own: without the "diff a b" line that diff -r prints, two of them in a row are one patch
        text = ("diff %s %s\n" % (name + ".orig", name)).encode("latin-1") + text
        exp = [dict(h, body=normalise_groups(h["body"])) for h in hs]
    elif fmt == "context":
        hs = gen.hunks_from_ops(ops, w)
        text = emit.emit_context(name + ".orig", name, hs, "2024-01-01 00:00:00.000000000 +0000", "2024-01-02 00:00:00.000000000 +0000")
        exp = [dict(h, body=normalise_groups(h["body"])) for h in hs]
    elif fmt == "git":
        hs = gen.hunks_from_ops(ops, w)
        text = emit.emit_git(name, name, hs)
        exp = hs
    else:
        hs = gen.hunks_from_ops(ops, w)
        ts = rng.random() < 0.7
        text = emit.emit_unified(name + ".orig", name, hs, "2024-01-01 00:00:00.000000000 +0000" if ts else None,
                                 "2024-01-02 00:00:00.000000000 +0000" if ts else None)
        exp = hs
    if rng.random() < 0.2 and fmt in ("unified", "context"):
        text = ("Index: %s\n" % name).encode("latin-1") + b"=" * 67 + b"\n" + text
    return dict(fmt=fmt, text=text, name=name, a=a, b=b, hs=exp, ops=ops, w=w)


def gnu_diff_section(rng, flag):
    """A section produced by GNU diff itself (flag: ['-u'], ['-U','0'], ['-c'], ['-C','1'], [] ...)."""
    a, ops, b = applyc.gen_pair(rng, maxlen=10)
    ops = applyc.fix_nonl([(o, (t.replace("\r", "r"), "L" if nl == "C" else nl)) for o, (t, nl) in ops])
    a = [l for o, l in ops if o != "+"]
    b = [l for o, l in ops if o != "-"]
    d = tempfile.mkdtemp(prefix="vgd")
    try:
        open(os.path.join(d, "f.orig"), "wb").write(emit.file_bytes(a))
        open(os.path.join(d, "f"), "wb").write(emit.file_bytes(b))
        p = subprocess.run(["diff", "-a"] + flag + ["f.orig", "f"], cwd=d, capture_output=True)
        return dict(fmt="gnu" + "".join(flag), text=p.stdout, name="f", a=a, b=b, hs=None, ops=ops)
    finally:
        shutil.rmtree(d, ignore_errors=True)


def filler(rng, n=None):
    n = rng.randint(0, 3) if n is None else n
    return "".join(rng.choice(FILLER) + "\n" for _ in range(n)).encode("latin-1")


def filler_after(rng, sec, n=None):
    """filler that does not itself look like diff syntax *in the position where it stands*: a line starting
    with ' ', '+' or '!' and a blank directly after a context diff reads as a line of its last hunk."""
    f = filler(rng, n)
    if sec["fmt"] == "context":
        ls = f.split(b"\n")
        if ls and len(ls[0]) >= 2 and ls[0][:1] in (b" ", b"+", b"!") and ls[0][1:2] in (b" ", b"\t"):
            f = b"--\n" + f
    return f


def gen_stream(rng, nsec=None, formats=None):
    nsec = nsec or rng.randint(1, 4)
    secs = []
    used = set()
    for i in range(nsec):
        s = gen_section(rng, fmt=rng.choice(formats) if formats else None, name="f%d" % i)
        secs.append(s)
    text = filler(rng)
    for s in secs:
        text += s["text"] + filler_after(rng, s)
    return dict(secs=secs, text=text)


def mutate(rng, text):
    """grammar-aware and blind mutations of a patch text"""
    lines = text.split(b"\n")
    r = rng.random()
    if r < 0.15 and lines:
        i = rng.randrange(len(lines)); del lines[i]
    elif r < 0.3 and lines:
        i = rng.randrange(len(lines)); lines.insert(i, lines[i])
    elif r < 0.45:
        i = rng.randint(0, len(lines)); lines.insert(i, rng.choice([b"garbage", b"", b"\\ No newline at end of file", b"@@ -1 +1 @@", b"*** 1,2 ****",
                                                                    b"--- 1 ----", b"***************", b"1c1", b"diff --git a/x b/x", b"--- x", b"+++ y",
                                                                    b"rename from q", b"GIT binary patch", b"Prereq: zz", b"Index: q/",
                                                                    b"Index: q (revision 3)", b"Prereq: zz and more", b"Index: \"q\" tail", b"Prereq: \"z\"\tx",
                                                                    b"Index: ", b"Prereq: ", b"Index: \t", b"--- q\t", b"+++ \"q\\", b"*** q "]))
    elif r < 0.6:
        # numbers to extremes
        import re
        nums = list(re.finditer(rb"\d+", text))
        if nums:
            m = rng.choice(nums)
            new = rng.choice([b"0", b"1", b"9223372036854775807", b"9223372036854775808", b"99999999999999999999", b"2147483648", b"18446744073709551615"])
            return text[:m.start()] + new + text[m.end():]
    elif r < 0.75:
        k = rng.randint(0, len(text))
        return text[:k]
    elif r < 0.82 and lines:
        # the marker of a hunk line replaced by another one (a '+' in the old part of a context hunk, a '<' for a '>' ...)
        idx = [i for i, l in enumerate(lines) if l[:1] in (b"+", b"-", b"!", b" ", b"<", b">")]
        if idx:
            i = rng.choice(idx); lines[i] = rng.choice([b"+", b"-", b"!", b" ", b"<", b">"]) + lines[i][1:]
    elif r < 0.9 and text:
        k = rng.randrange(len(text))
        return text[:k] + bytes([rng.choice([0, 9, 10, 13, 32, 34, 43, 45, 47, 92, 255, rng.randrange(256)])]) + text[k + 1:]
    else:
        i = rng.randint(0, len(lines)); lines.insert(i, b"x" * rng.choice([1000, 5000]))
    return b"\n".join(lines)


def enc_patch_expected(sec, strip):
    """the canonical PATCH line the parser should print for a python-emitted unified / context / normal section — only hunks are compared"""
    return enc_hunks(sec["hs"])
