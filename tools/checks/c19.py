"""C19 — option spellings are interchangeable; bad command lines are rejected."""
import os, random, re, itertools
from vlib import *
from l2common import *

THEOREMS = ["short_attached_eq_separate", "short_bundle", "long_eq_eq_separate", "long_prefix_args", "short_eq_long_flag",
            "short_eq_long_arg", "dashdash_ends_options", "third_operand_rejected", "unknown_short_rejected",
            "unknown_or_ambiguous_long_rejected", "missing_argument_rejected", "non_numeric_rejected", "table_wf",
            "real_table_short_eq_long_flag"]


def read_table():
    """(id, long name, has_arg) from the generated OptionsTable.v (itself regenerated from options.cpp by this run)"""
    t = open(os.path.join(COQ, "OptionsTable.v")).read()
    sw = re.findall(r'\((\d+)%Z, bs "(--[^"]*)", (true|false)\)', t.split("Definition setters")[0])
    return [(int(i), n, a == "true") for i, n, a in sw]


VALUES = {"--strip": ["1", "0", "12"], "--fuzz": ["0", "3"], "--newline-output": ["lf", "crlf", "native", "preserve"], "--read-only": ["warn", "ignore", "fail"],
          "--reject-format": ["context", "unified"], "--quoting-style": ["literal", "shell", "shell-always", "c"]}


def dec_argv(c):
    """the argument vector of an ARGV case line ('.' stands for an empty argument)"""
    f = c.split()[3]
    return [] if f == "-" else [("" if a == "." else unhx(a).decode("latin-1")) for a in f.split(",")]


def A(args, px=0, q="none"):
    return "ARGV %d %s %s" % (px, q if q == "none" else hx(q), ",".join((hx(a) if a else ".") for a in args) or "-")


def run(prop, tier, seed):
    run_ = Run(prop, tier, seed)
    rc, out, err = sh(["python3", os.path.join(VERIF, "tools", "gen_options_table.py")])
    if rc != 0:
        run_.violation("no-input", "the option table of src/options.cpp could not be translated: " + (out + err).decode()[-300:],
                       dict(broken="translator tools/gen_options_table.py", detail=(out + err).decode()[-1000:]))
        return run_.finish()
    if THEOREMS:
        proofs_into_run(run_, prop, THEOREMS)
    rng = random.Random(seed * 2750159 + 19)
    table = read_table()
    longs = [n for _, n, _ in table]
    groups = []      # lists of argv that must all give the same result
    bad_lines = []   # argv that must be rejected
    for i, name, has_arg in table:
        short = chr(i) if i < 128 else None
        prefixes = [name[:k] for k in range(3, len(name) + 1) if sum(1 for n in longs if n.startswith(name[:k])) == 1 or name[:k] == name]
        ambiguous = [name[:k] for k in range(3, len(name)) if sum(1 for n in longs if n.startswith(name[:k])) > 1 and name[:k] not in longs]
        if has_arg:
            for v in VALUES.get(name, ["val", "a=b", "-x", "with space", "--fix.diff", "--old", "-", "--x=y"]):
                g = [[p + "=" + v] for p in prefixes] + [[p, v] for p in prefixes]
                if short:
                    g += [["-" + short + v], ["-" + short, v], ["-N" + short + v], ["-N" + short, v]]
                    g = [x if not x[0].startswith("-N") else x for x in g]
                base = [x for x in g if not x[0].startswith("-N")]
                groups.append(base)
                if short:
                    groups.append([["-N" + short + v], ["-N", "-" + short, v], ["--forward", name + "=" + v], ["-N" + short, v]])
                    groups.append([["-lN" + short, v], ["-l", "-N", "-" + short + v]])
                # operands before / after
                groups.append([["f"] + base[0], base[0] + ["f"], ["f"] + base[-1]])
                # both operands, the option in front of them, between them and behind them
                # (the second operand and -i name the same thing, the later one wins: not for --input)
                if name != "--input":
                    groups.append([base[0] + ["f", "p"], ["f", "p"] + base[0], ["f"] + base[0] + ["p"], base[-1] + ["f", "p"]])
                else:
                    groups.append([base[0] + ["f", "p"], base[-1] + ["f", "p"], base[0] + ["--", "f", "p"]])
            bad_lines.append([name])                 # missing argument
            if short:
                bad_lines.append(["-" + short])
        else:
            g = [[p] for p in prefixes]
            if short:
                g += [["-" + short]]
            groups.append(g)
            if short:
                groups.append([["-" + short + "N"], ["-N" + short], ["-" + short, "-N"], ["--forward", name]])
            bad_lines.append([name + "=x"])          # flag with an argument
        for a in ambiguous:
            bad_lines.append([a] + (["v"] if has_arg else []))
    bad_lines += [["-p", ""], ["--strip="], ["--strip", ""], ["-F", ""], ["--fuzz="], ["--fuzz", ""], ["-p", "-"], ["-F", "+"], ["-p", "1.5"], ["-F", "0x"],
                  ["--no-such-option"], ["-y"], ["-p", "x"], ["-F", "1x"], ["-p"], ["a", "b", "c"], ["--strip=one"], ["-pq"], ["--", "a", "b", "c"], ["-\x83"], ["-N\x85"],
                  # an operand is an operand whatever it is spelled like: the empty string, "--" after the terminator
                  ["", "a", "b"], ["a", "", "b"], ["a", "b", ""], ["--", "", "a", "b"], ["", "", ""], ["--", "--", "a", "b"], ["--", "a", "--", "b"], ["a", "--", "b", "--"],
                  ["-i", "x", "a", "b", "c"], ["a", "b", "c", "-i", "x"]]
    groups.append([["--", "-x", "-y"], ["--", "-x", "-y"]])
    groups.append([["--", "--", "x"], ["-N", "--", "--", "x"][1:], ["--", "--", "x"]])
    groups.append([["a", "--", "--"], ["--", "a", "--"]])
    groups.append([["", "b"], ["--", "", "b"]])
    groups.append([["--input=fix=1.patch"], ["-i", "fix=1.patch"], ["-ifix=1.patch"], ["--input", "fix=1.patch"], ["--inp=fix=1.patch"]])
    # environment
    groups.append([["--posix"], ["--posix"]])
    cases, gid = [], []
    for k, g in enumerate(groups):
        for argv in g:
            cases.append(A(argv)); gid.append(k)
    nb = len(cases)
    for argv in bad_lines:
        cases.append(A(argv)); gid.append(-1)
    for v in (" 1", "+1", "-1", "01", "1 ", "1e3", "0x10", "2147483647", "2147483648", "-2147483648", "-2147483649", "99999999999999999999", "\t2", "1\n",
              "08", "09", "010", "0x1", "0X1", "00", "007", "0b1", "0o7"):
        for argv in (["-p", v], ["--strip=" + v], ["-F", v], ["-p" + v]):
            cases.append(A(argv)); gid.append(-3)
    nenv = len(cases)
    for px in (0, 1):
        for q in ("none", "c", "literal", "shell", "shell-always", "bogus"):
            cases.append(A([], px=px, q=q)); gid.append(-2)
            cases.append(A(["--quoting-style=c"], px=px, q=q)); gid.append(-2)
            cases.append(A(["--backup-if-mismatch", "-E"], px=px, q=q)); gid.append(-2)
    # random bundles and orders
    flags = [chr(i) for i, n, a in table if i < 128 and not a and chr(i) not in "hv"]
    for _ in range(1500 if tier == "quick" else 30000):
        fl = rng.sample(flags, rng.randint(1, 4))
        v = str(rng.randint(0, 9))
        ops = rng.sample(["f", "p"], rng.randint(0, 2))
        a1 = ["-" + "".join(fl) + "p" + v] + ops
        a2 = ["-" + x for x in fl] + ["--strip", v] + ops
        rng.shuffle(a2)
        # keep operand order
        a2 = [x for x in a2 if x not in ops]
        # --strip and its value must stay adjacent
        a2 = [x for x in a2 if x not in ("--strip", v)]
        pos = rng.randint(0, len(a2)); a2[pos:pos] = ["--strip", v]
        for o_ in ops:
            a2.insert(rng.randint(0, len(a2)), o_) if False else None
        a2 = a2 + ops if rng.random() < 0.5 else ops + a2
        groups.append([a1, a2])
        cases.append(A(a1)); gid.append(len(groups) - 1)
        cases.append(A(a2)); gid.append(len(groups) - 1)
    try:
        impl, model = run_both(cases)
        exe = os.path.join(build_impl(), "sb_patch")
    except CheckError as e:
        run_.violation("no-input", "build failed: %s" % e, dict(broken="build", detail=str(e)))
        return run_.finish()
    bad, mism = [], []
    first = {}
    for i, c in enumerate(cases):
        run_.count(c, True, "spelling group" if gid[i] >= 0 else ("bad command line" if gid[i] == -1 else ("numeric spelling" if gid[i] == -3 else "environment")))
        if impl[i] != model[i]:
            mism.append((i, "L1 ARGV", dict(case=c, impl=impl[i], model=model[i], argv=dec_argv(c))))
        if gid[i] >= 0:
            if impl[i] == "THROW":
                bad.append((i, "a valid spelling is rejected", dict(case=c, argv=dec_argv(c))))
            elif gid[i] in first and impl[first[gid[i]]] != impl[i]:
                j = first[gid[i]]
                bad.append((i, "two spellings of the same command line give different options",
                            dict(a=dec_argv(cases[j]), b=dec_argv(c),
                                 opts_a=impl[j], opts_b=impl[i])))
            first.setdefault(gid[i], i)
        elif gid[i] == -1 and impl[i] != "THROW":
            bad.append((i, "a bad command line is accepted", dict(case=c, argv=dec_argv(c), impl=impl[i])))
        elif gid[i] == -3:
            # numbers are decimal numerals (blanks and a sign in front, nothing behind): 0x1 is no number, 08 and 010 are 8 and 10
            argv_ = dec_argv(c)
            v_ = argv_[1] if len(argv_) == 2 else (argv_[0].split("=", 1)[1] if "=" in argv_[0] else argv_[0][2:])
            m_ = re.fullmatch(r"[ \t\n\v\f\r]*[+-]?[0-9]+", v_)
            val_ = int(m_.group(0)) if m_ else None
            if val_ is not None and not (-2 ** 31 <= val_ < 2 ** 31):
                val_ = None
            key_ = "F=" if argv_[0].startswith("-F") else "p="
            if val_ is None and impl[i] != "THROW":
                bad.append((i, "%r is not a decimal number and is accepted as one" % v_, dict(case=c, argv=argv_, impl=impl[i])))
            elif val_ is not None and val_ >= 0:
                got_ = re.search(r"\b%s(-?\d+)" % key_, impl[i])
                if impl[i] == "THROW" or not got_ or int(got_.group(1)) != val_:
                    bad.append((i, "the decimal number %r (= %d) is %s" % (v_, val_, "rejected" if impl[i] == "THROW" else "read as " + (got_.group(1) if got_ else "?")), dict(case=c, argv=argv_, impl=impl[i])))
    # whole program: exit status 2 and no file touched
    scns = []
    for argv in bad_lines:
        tree = {"f": ("R", 0o644, b"a\nb\n"), "p.diff": ("R", 0o644, b"--- f\n+++ f\n@@ -1,2 +1,2 @@\n a\n-b\n+B\n")}
        scns.append(dict(tree=tree, opts={}, argv=["-i", "p.diff"] + argv if argv[0] != "a" else argv, umask=0o022))

    def judge(s, r):
        if r["exit"] != 2:
            return "exit status %d for the bad command line %s" % (r["exit"], s["argv"])
        if tree_no_meta(r["tree"]) != s["tree"]:
            return "a file was touched although the command line is bad: %s" % s["argv"]
        return None
    _, b2, _ = l2_family(run_, exe, scns, judge, cls=lambda s, r: "program exit %d" % r["exit"], compare=False)
    finish(run_, prop, bad + b2, mism, corr_name="L1 ARGV (CmdLineParser / OptionHandler)")
    run_.cov["rule"] = ("every option of the table translated from options.cpp x {short attached, short separate, long=, long separate, every unambiguous prefix, "
                        "bundled after a flag, operands before/after}; ambiguous prefixes, missing / non-numeric arguments, unknown options, a third operand; environment defaults; random bundles")
    run_.cov["table_entries"] = len(table)
    return run_.finish()
