"""APPLY-level (library apply_patch) case families and oracles shared by C01, C02, C03, C04, C05, C06, C14, C20."""
import random, re
from vlib import *
import gen

MSG_RE = re.compile(r"Hunk #(\d+) (succeeded|FAILED|skipped) at (-?\d+)(?: with fuzz (\d+))?(?: \(offset (-?\d+) lines?\))?\.")


def opt_str(**kw):
    return ",".join("%s=%s" % (k, v) for k, v in kw.items()) or "-"


def apply_case(opts, fmt, f, hs, oldp="a", newp="b"):
    return "APPLY %s %s change %s %s - - %s %s" % (opts, fmt, hx(oldp), hx(newp), enc_lines(f), enc_hunks(hs))


def parse_result(r):
    if not r.startswith("OK "):
        return None
    d = {}
    for tok in r.split()[1:]:
        k, v = tok.split("=", 1)
        d[k] = v
    d["out"] = unhx(d["out"]); d["rej"] = unhx(d["rej"]); d["msgs"] = unhx(d["msgs"]).decode("latin-1")
    d["failed"] = int(d["failed"])
    return d


def lines_bytes(mode, ls):
    out = b""
    for t, nl in ls:
        out += t.encode("latin-1")
        if nl == "N":
            continue
        if mode in ("native", "lf"):
            out += b"\n"
        elif mode == "crlf":
            out += b"\r\n"
        else:
            out += b"\r\n" if nl == "C" else b"\n"
    return out


def k20_trigger(f, hs):
    """known finding K20: a hunk with an empty old side stating line 0 against a non-empty file
    (context-free insertion at the top: diff -U0 '@@ -0,0 +1 @@', normal '0a1', diff -C0)."""
    return bool(f) and any(h["oc"] == 0 and h["os"] == 0 for h in hs)


def reverse_hunks(hs):
    out = []
    for h in hs:
        out.append(dict(os=h["ns"], oc=h["nc"], ns=h["os"], nc=h["oc"],
                        body=[({"+": "-", "-": "+"}.get(o, o), t, nl) for o, t, nl in h["body"]]))
    return out


def gen_pair(rng, maxlen=12):
    a = gen.rand_file(rng, maxlen=maxlen, small=rng.random() < 0.75)
    ops = gen.edit_script(rng, a, density=rng.choice([0.1, 0.25, 0.5, 0.9]))
    # B's last line may lose / gain its newline
    b = gen.apply_ops(ops)
    return a, ops, b


def fix_nonl(ops):
    """Make 'no newline' consistent: only the last line of A and the last line of B may carry N."""
    old_idx = [i for i, (o, _) in enumerate(ops) if o != "+"]
    new_idx = [i for i, (o, _) in enumerate(ops) if o != "-"]
    res = []
    for i, (o, (t, nl)) in enumerate(ops):
        if nl == "N":
            last_old = old_idx and i == old_idx[-1]
            last_new = new_idx and i == new_idx[-1]
            if o == " " and not (last_old and last_new):
                # a context line without newline must be last on both sides; otherwise split into -/+
                nl = "L"
            elif o == "-" and not last_old:
                nl = "L"
            elif o == "+" and not last_new:
                nl = "L"
        res.append((o, (t, nl)))
    return res


def family_conforming(rng, n, modes=("native",), extra=None):
    out = []
    for _ in range(n):
        a, ops, b = gen_pair(rng)
        if rng.random() < 0.2 and ops:
            # new file's last line without newline
            idx = [i for i, (o, _) in enumerate(ops) if o != "-"]
            if idx:
                i = idx[-1]
                o, (t, nl) = ops[i]
                if o == "+":
                    ops[i] = (o, (t if t else "z", "N"))
        ops = fix_nonl(ops)
        a = [l for o, l in ops if o != "+"]
        b = [l for o, l in ops if o != "-"]
        w = rng.choice([0, 1, 2, 3, 3, 5])
        hs = gen.hunks_from_ops(ops, w)
        if not hs:
            continue
        mode = rng.choice(modes)
        o = dict(F=rng.choice([0, 1, 2, 2, 3]), l=rng.choice([0, 0, 1]), nl=mode)
        if extra:
            o.update(extra)
        out.append(dict(a=a, b=b, hs=hs, w=w, mode=mode, opts=o))
    return out


def family_drifted(rng, n):
    out = []
    for _ in range(n):
        a, ops, b = gen_pair(rng, maxlen=14)
        ops = fix_nonl(ops)
        a = [l for o, l in ops if o != "+"]
        hs = gen.hunks_from_ops(ops, rng.choice([0, 1, 2, 3, 3]))
        if not hs:
            continue
        f = gen.drift(rng, a, strength=rng.choice([0.3, 0.6, 0.9]))
        r = rng.random()
        if r < 0.15:
            f = f[:rng.randint(0, len(f))]            # truncated / empty target
        elif r < 0.25:
            f = f + f                                 # every hunk text occurs twice
        if rng.random() < 0.2:
            # absurd stated lines
            hs = [dict(h, os=rng.choice([0, 1, h["os"] + 7, max(0, h["os"] - 7), 10 ** 6, 2 ** 63 - 2])) for h in hs]
        if rng.random() < 0.1:
            rng.shuffle(hs)
        o = dict(F=rng.choice([0, 1, 2, 2, 3, 5]), l=rng.choice([0, 0, 0, 1]), nl=rng.choice(["native", "keep"]), f=1, v=1)
        out.append(dict(f=f, hs=hs, opts=o))
    return out


def overdicts(msgs, nh):
    """Parse the per-hunk report lines of a --verbose run into oracle tokens; None if they are not one per hunk."""
    toks = [None] * nh
    for m in MSG_RE.finditer(msgs):
        k = int(m.group(1)) - 1
        if k < 0 or k >= nh or toks[k] is not None:
            return None
        if m.group(2) == "succeeded":
            toks[k] = "A%s:%s:%s" % (m.group(3), m.group(4) or "0", m.group(5) or "0")
        elif m.group(2) == "FAILED":
            toks[k] = "R"
        else:
            return None
    if any(t is None for t in toks):
        return None
    return toks


def spec_apply_line(c, res):
    ov = overdicts(res["msgs"], len(c["hs"]))
    if ov is None:
        return None
    return "SPEC_APPLY %d %s %s %s %s %s %d %s" % (1 if c.get("oldp") == "/dev/null" else 0, opt_str(**c["opts"]), enc_lines(c["f"]), enc_hunks(c["hs"]),
                                               ",".join(ov) or "-", hx(res["out"]), res["failed"], hx(res["rej"]))


def run_drifted(run_, prop, rng, n, key, fam=None):
    """Family 'drifted' through implementation, model and the extracted oracle spec_apply; key = 'C02'|'C03'|'C04'."""
    fam = family_drifted(rng, n) if fam is None else fam
    for c in fam:
        if rng.random() < 0.1:
            c["oldp"] = "/dev/null"
    cases = [apply_case(opt_str(**c["opts"]), "unified", c["f"], c["hs"], oldp=c.get("oldp", "a")) for c in fam]
    impl, model = run_both(cases)
    mism = [i for i in range(len(cases)) if impl[i] != model[i]]
    spec_lines, idx = [], []
    bad = []
    for i, c in enumerate(fam):
        res = parse_result(impl[i])
        if res is None:
            bad.append((i, "apply_patch did not return normally on a well-formed patch with -f: " + impl[i][:80]))
            run_.count(cases[i], True, "APPLY throw/crash")
            continue
        sl = spec_apply_line(c, res)
        if sl is None:
            bad.append((i, "per-hunk report lines are not one per hunk: %r" % res["msgs"][:200]))
            continue
        spec_lines.append(sl); idx.append(i)
        nrej = res["failed"]
        cls = "APPLY all applied" if nrej == 0 else ("APPLY all rejected" if nrej == len(c["hs"]) else "APPLY mixed")
        run_.count(cases[i], True, cls)
    verdicts = run_model(spec_lines)
    for i, v in zip(idx, verdicts):
        if (key + "=0") in v or not v.startswith("SPEC"):
            bad.append((i, "apply_patch result violates %s (oracle: %s)" % (key, v)))
    return cases, impl, model, mism, bad


def family_multi(rng, n):
    """longer files with several hunks (3+), uniform and non-uniform drift, frequent duplicate blocks: what accumulated offsets are about"""
    out = []
    for _ in range(n):
        blocks = [[(gen.rand_text(rng, True), "L") for _ in range(rng.randint(2, 4))] for _ in range(rng.randint(2, 4))]
        a = []
        for _ in range(rng.randint(4, 8)):
            a += rng.choice(blocks)
            if rng.random() < 0.3:
                a.append((gen.rand_text(rng), "L"))
        ops = [(" ", l) for l in a]
        for _ in range(rng.randint(3, 5)):
            i = rng.randrange(len(ops))
            if ops[i][0] == " ":
                ops[i] = ("-", ops[i][1])
                ops.insert(i + 1, ("+", (gen.rand_text(rng, True) + "!", "L")))
        hs = gen.hunks_from_ops(ops, rng.choice([1, 1, 2, 3]))
        if len(hs) < 2:
            continue
        f = list(a)
        k = rng.choice([0, 1, 2, 3, 4, 5])
        r = rng.random()
        if r < 0.5:
            f = [("top%d" % i, "L") for i in range(k)] + f            # every hunk drifts by the same amount
        elif r < 0.8:
            f = gen.drift(rng, f, strength=0.9)
        else:
            cut = rng.randrange(len(f)); f = f[:cut] + [("mid", "L")] * k + f[cut:]
        o = dict(F=rng.choice([0, 1, 2, 2, 3]), l=0, nl="native", f=1, v=1)
        out.append(dict(f=f, hs=hs, opts=o))
    return out


def family_reapply(rng, n):
    """the patch is already applied (or applied with drift) and is run again without -f: -t reverses, -N skips"""
    out = []
    for _ in range(n):
        a, ops, b = gen_pair(rng, maxlen=12)
        ops = fix_nonl(ops)
        a = [l for o, l in ops if o != "+"]
        b = [l for o, l in ops if o != "-"]
        hs = gen.hunks_from_ops(ops, rng.choice([1, 2, 3, 3]))
        if not hs:
            continue
        f = b if rng.random() < 0.4 else gen.drift(rng, b, strength=0.9)
        o = dict(F=rng.choice([0, 0, 1, 1, 2, 3]), l=rng.choice([0, 0, 1]), nl="native", v=1)
        o[rng.choice(["t", "t", "N"])] = 1
        if rng.random() < 0.3:
            o["R"] = 1
            f = a if rng.random() < 0.4 else gen.drift(rng, a, strength=0.9)
        out.append(dict(f=f, hs=hs, opts=o))
    return out


def run_family_plain(run_, fam, label):
    """correspondence only (no forward-replay oracle: the reversed-patch decision changes which hunks are applied)"""
    cases = [apply_case(opt_str(**c["opts"]), "unified", c["f"], c["hs"]) for c in fam]
    impl, model = run_both(cases)
    mism = [i for i in range(len(cases)) if impl[i] != model[i]]
    spec_lines, idx = [], []
    for i, c in enumerate(cases):
        r = impl[i]
        res = parse_result(r)
        cls = "THROW" if res is None else ("reversed" if "Assuming -R" in res["msgs"] else ("skipped" if r.find("skipped=1") >= 0 else "plain"))
        run_.count(c, True, label + " " + cls)
        if cls == "reversed":
            # the run went on with the reversed patch: its verdicts must be admissible placements of the reversed hunks within -F
            fc = dict(fam[i]); fc["opts"] = dict(fam[i]["opts"]); fc["opts"]["R"] = 0 if fam[i]["opts"].get("R") else 1
            sl = spec_apply_line(fc, res)
            if sl:
                spec_lines.append(sl); idx.append(i)
    bad = []
    for i, v in zip(idx, run_model(spec_lines) if spec_lines else []):
        if "C02=0" in v or "C03=0" in v or "C04=0" in v:
            bad.append((i, "after 'Assuming -R' the reported placements are not admissible for the reversed hunks (oracle: %s)" % v))
    # when is the patch taken for reversed at all?  Only when its first hunk does not sit exactly at its stated place AND the
    # reversed first hunk does (or the first hunk is found nowhere while the reversed one is): a first hunk that the locator
    # finds, at an offset or with fuzz, while its reverse is not exactly in place, has to be applied (C03), not turned round
    from locate import locate_case
    lc, li = [], []
    for i, c in enumerate(fam):
        if parse_result(impl[i]) is None:
            continue
        h0 = c["hs"][0]
        if c["opts"].get("R"):
            h0 = reverse_hunks([h0])[0]
        r0 = reverse_hunks([h0])[0]
        lc.append(locate_case(c["opts"].get("l", 0), 0, c["opts"].get("F", 2), 0, c["f"], h0))
        lc.append(locate_case(c["opts"].get("l", 0), 0, c["opts"].get("F", 2), 0, c["f"], r0)); li.append(i)
    la = run_lines(os.path.join(build_impl("plain"), "l1_harness"), lc) if lc else []
    for j, i in enumerate(li):
        fw, rv = la[2 * j].split(), la[2 * j + 1].split()
        if not fw or not rv or fw[0] not in ("FOUND", "NOTFOUND") or rv[0] not in ("FOUND", "NOTFOUND"):
            continue
        res = parse_result(impl[i])
        guessed = "Assuming -R" in res["msgs"] or impl[i].find("skipped=1") >= 0
        fw_found = fw[0] == "FOUND"; fw_perfect = fw_found and fw[2] == "0" and fw[3] == "0"
        rv_perfect = rv[0] == "FOUND" and rv[2] == "0" and rv[3] == "0"
        may_guess = (not fw_perfect) and (rv_perfect or (not fw_found and rv[0] == "FOUND"))
        if guessed and not may_guess and fw_found:
            bad.append((i, "the first hunk fits (locate_hunk: %s) and its reverse does not sit exactly at the stated place (%s), yet the patch is taken for reversed: the hunk is %s instead of applied"
                        % (" ".join(fw), " ".join(rv), "reversed" if "Assuming -R" in res["msgs"] else "skipped")))
    return cases, impl, model, mism, bad
