"""Whole-program scenario generators (trees + patch + options) shared by the L2 checks."""
import random
from vlib import *
import gen, emit, applyc, streams

PATHS = ["f", "g.txt", "dir/f", "dir/sub/h.c", "a b", "x-y_z", "d1/e"]


def section(rng, path, kind="change", fmt=None, width=None, nonl=True):
    """kind: change | add | delete | rename | copy | mode ; returns dict(path, newpath, a, b, text, fmt, kind, hs, ops, mode_old, mode_new)"""
    fmt = fmt or rng.choice(["unified", "unified", "context", "normal", "git"])
    if kind in ("rename", "copy", "mode"):
        fmt = "git"
    while True:
        a, ops, b = applyc.gen_pair(rng, maxlen=10)
        ops = [(o, (t.replace("\r", "r"), "L" if nl == "C" else nl)) for o, (t, nl) in ops]
        if not nonl:
            ops = [(o, (t, "L")) for o, (t, nl) in ops]
        ops = applyc.fix_nonl(ops)
        if kind == "add":
            ops = [("+", l) for o, l in ops if o != "-"] or [("+", ("new", "L"))]
        elif kind == "delete":
            ops = [("-", l) for o, l in ops if o != "+"] or [("-", ("old", "L"))]
        ops = applyc.fix_nonl(ops)
        a = [l for o, l in ops if o != "+"]
        b = [l for o, l in ops if o != "-"]
        # a change that leaves an empty (but existing) file is indistinguishable from a deletion in a diff: not generated
        if kind == "change" and (not a or not b):
            continue
        if kind in ("rename", "copy", "mode") and not b:
            continue
        if kind in ("rename", "copy", "mode") or (any(o != " " for o, _ in ops) and a != b):
            break
    w = rng.choice([0, 1, 2, 3, 3]) if width is None else width
    newpath = path
    if kind in ("rename", "copy"):
        newpath = rng.choice(["moved/" + path.split("/")[-1], path + ".new", "n_" + path.replace("/", "_")])
    hs = gen.hunks_from_ops(ops, w) if any(o != " " for o, _ in ops) else []
    if rng.random() < 0.12:
        # diff -p / -F re: function headings on the hunk separators
        for h in hs:
            if rng.random() < 0.8:
                h["heading"] = rng.choice(["int main(void)", "def f(x):", "static void g (int a)", "section 2", "sub x {"])
    mo = mn = None
    if fmt == "normal":
        hs = gen.hunks_from_ops(ops, 0)
        # a normal diff names no file: the name comes from an Index: line (or from the command line)
        text = ("Index: b/%s\n" % path).encode("latin-1") + ("diff a/%s b/%s\n" % (path, path)).encode("latin-1") + emit.emit_normal(ops)
    elif fmt == "context":
        # creation / deletion either names /dev/null or (diff -N style) keeps the real name with the epoch as time stamp
        urn = rng.random() < 0.4
        epoch = "1970-01-01 00:00:00.000000000 +0000"
        oldn = "a/" + path if (kind != "add" or urn) else "/dev/null"
        newn = "b/" + path if (kind != "delete" or urn or rng.random() < 0.5) else "/dev/null"
        text = emit.emit_context(oldn, newn, hs, epoch if kind == "add" else "2024-01-01 00:00:00.000000000 +0000",
                                 epoch if kind == "delete" else "2024-01-02 00:00:00.000000000 +0000")
    elif fmt == "git":
        if kind == "mode":
            mo, mn = "100644", rng.choice(["100755", "100600", "100664"])
        elif kind == "add" and rng.random() < 0.3:
            mn = "100755"
        text = emit.emit_git(path, newpath, hs, kind=("change" if kind == "mode" else kind), old_mode=mo, new_mode=mn)
    else:
        urn = rng.random() < 0.4
        epoch = "1970-01-01 00:00:00.000000000 +0000"
        oldn = "a/" + path if (kind != "add" or urn) else "/dev/null"
        newn = "b/" + path if (kind != "delete" or urn) else "/dev/null"
        text = emit.emit_unified(oldn, newn, hs, epoch if kind == "add" else "2024-01-01 00:00:00.000000000 +0000",
                                 epoch if kind == "delete" else "2024-01-02 00:00:00.000000000 +0000")
    return dict(path=path, newpath=newpath, a=a, b=b, text=text, fmt=fmt, kind=kind, hs=hs, ops=ops, mode_old=mo, mode_new=mn, w=w)


def headerlike_section(rng, path, fmt="unified"):
    """a change whose first hunk starts by removing a comment line '-- word ...' (which reads '--- word ...' in the hunk)
    and which has a second hunk further down"""
    first = rng.choice(["-- x helpers", "-- %s" % path, "-- a/%s\t2024" % path, "-- q"])
    mid = [(t.replace("\r", "r"), "L") for t, nl in gen.rand_file(rng, maxlen=6, small=True)] + [("m%d" % i, "L") for i in range(7)]
    a = [(first, "L")] + mid + [("tail", "L")]
    ops = [("-", a[0]), ("+", ("-- changed", "L"))] + [(" ", l) for l in a[1:-1]] + [("-", a[-1]), ("+", ("TAIL", "L"))]
    b = [l for o, l in ops if o != "-"]
    w = rng.choice([0, 1, 3])
    hs = gen.hunks_from_ops(ops, w)
    if fmt == "git":
        text = emit.emit_git(path, path, hs)
    else:
        text = emit.emit_unified("a/" + path, "b/" + path, hs, "2024-01-01 00:00:00.000000000 +0000", "2024-01-02 00:00:00.000000000 +0000")
    return dict(path=path, newpath=path, a=a, b=b, text=text, fmt=fmt, kind="change", hs=hs, ops=ops, mode_old=None, mode_new=None, w=w)


def add_parents(tree, path):
    parts = path.split("/")[:-1]
    for i in range(1, len(parts) + 1):
        d = "/".join(parts[:i])
        if d not in tree:
            tree[d] = ("D", 0o755, b"")


def base_scenario(rng, secs, opts=None, via_stdin=False, drift=0.0, modes=None, strip=None):
    """tree holding the 'old' side of every section (drifted with probability drift), the patch as p.diff (or stdin)"""
    tree = {}
    text = b""
    for s in secs:
        text += s["text"]
        if s["kind"] != "add":
            a = s["a"]
            if drift and rng.random() < drift:
                a = gen.drift(rng, a, strength=0.6)
            mode = (modes or {}).get(s["path"], 0o644)
            add_parents(tree, s["path"])
            tree[s["path"]] = ("R", mode, emit.file_bytes(a))
    o = dict(opts or {})
    # git sections carry a/ b/ prefixes: -p1; the others carry plain relative names: -p0
    if strip is None:
        strip = 1      # every emitted section names its files a/<path> and b/<path>
    if "p" not in o:
        o["p"] = strip
    scn = dict(tree=tree, opts=o, umask=0o022)
    if via_stdin:
        scn["stdin"] = text
    else:
        tree["p.diff"] = ("R", 0o644, text)
        o["i"] = "p.diff"
    scn["secs"] = secs
    return scn


def expected_tree(scn):
    """tree after a correct application of every section (C01): B where A was, adds created, deletes gone."""
    t = dict(scn["tree"])
    for s in scn["secs"]:
        nb = emit.file_bytes(s["b"])
        mode = t[s["path"]][1] if s["path"] in t else 0o644
        if s["kind"] == "delete":
            t.pop(s["path"], None)
            # now-empty parent directories go too
            d = s["path"]
            while "/" in d:
                d = d.rsplit("/", 1)[0]
                if any(k.startswith(d + "/") for k in t):
                    break
                t.pop(d, None)
        elif s["kind"] == "rename":
            t.pop(s["path"], None)
            d = s["path"]
            while "/" in d:
                d = d.rsplit("/", 1)[0]
                if any(k.startswith(d + "/") for k in t):
                    break
                t.pop(d, None)
            add_parents(t, s["newpath"])
            t[s["newpath"]] = ("R", mode, nb)
        elif s["kind"] == "copy":
            add_parents(t, s["newpath"])
            t[s["newpath"]] = ("R", mode, nb)
        elif s["kind"] == "add":
            add_parents(t, s["path"])
            m = int(s["mode_new"][-3:], 8) if s.get("mode_new") else 0o644
            t[s["path"]] = ("R", m, nb)
        else:
            m = int(s["mode_new"][-3:], 8) if s.get("mode_new") else mode
            t[s["path"]] = ("R", m, nb)
    return t


def gen_scenario(rng, nsec=None, kinds=None, fmts=None, **kw):
    nsec = nsec or rng.choice([1, 1, 1, 2, 3])
    paths = rng.sample(PATHS, nsec)
    secs = []
    kindlist = [rng.choice(kinds or ["change", "change", "change", "add", "delete"]) for _ in paths]
    same_fmt_git = rng.random() < 0.3 or any(k in ("rename", "copy", "mode") for k in kindlist)
    for p, kind in zip(paths, kindlist):
        fmt = "git" if same_fmt_git else rng.choice(fmts or ["unified", "unified", "context", "normal"])
        if fmt == "normal" and " " in p:
            fmt = "unified"     # an Index: line cannot carry a name with a blank
        if kind in ("add", "delete") and fmt == "normal":
            fmt = rng.choice(["unified", "context"])     # (a normal diff cannot say that a file comes into being or goes away)
        sec_ = section(rng, p, kind=kind, fmt=fmt, width=(rng.choice([1, 2, 3]) if kind in ("add", "delete") or fmt == "normal" else None))
        # two sections of one stream never write the same new name (two files renamed / copied to one name is not a diff of
        # a tree to a tree)
        tries = 0
        while sec_["newpath"] != sec_["path"] and any(sec_["newpath"] in (y["newpath"], y["path"]) for y in secs) and tries < 20:
            sec_ = section(rng, p, kind=kind, fmt=fmt); tries += 1
        if sec_["newpath"] != sec_["path"] and any(sec_["newpath"] in (y["newpath"], y["path"]) for y in secs):
            continue
        secs.append(sec_)
    return base_scenario(rng, secs, **kw)


def top_section(rng, path, fmt, how):
    """a diff without context (-U0) whose first hunk adds lines in front of line 1 ('-0,0 +1,n') or removes the first lines
    ('-1,n +0,0'): the ranges alone look like a creation / a deletion, the file exists before and after"""
    a = [(gen.rand_text(rng, True) + str(i_), "L") for i_ in range(rng.randint(2, 6))]
    k = rng.randint(1, 2)
    if how == "add-top":
        ops = [("+", ("top%d" % i_, "L")) for i_ in range(k)] + [(" ", l) for l in a]
    else:
        k = min(k, len(a) - 1)
        ops = [("-", l) for l in a[:k]] + [(" ", l) for l in a[k:]]
    if rng.random() < 0.5 and len(a) > 3:
        j = len(ops) - 1
        ops[j] = ("-", ops[j][1]); ops.append(("+", ("tail", "L")))
    hs = gen.hunks_from_ops(ops, 0)
    text = emit.emit_git(path, path, hs, kind="change") if fmt == "git" else emit.emit_unified("a/" + path, "b/" + path, hs)
    return dict(path=path, newpath=path, a=[l for o, l in ops if o != "+"], b=[l for o, l in ops if o != "-"], text=text, fmt=fmt, kind="change", hs=hs, ops=ops,
                mode_old=None, mode_new=None, w=0)


def dot_names(scn):
    """the same scenario with its names written './path' (diff -u ./f.orig ./f) and -p0; plain formats only"""
    text = scn["tree"]["p.diff"][2]
    for x in scn["secs"]:
        if x["fmt"] == "git":
            return None
        for pre in (b"--- a/", b"+++ b/", b"*** a/", b"--- b/", b"Index: b/", b"diff a/"):
            text = text.replace(pre + x["path"].encode("latin-1"), pre[:-2] + b"./" + x["path"].encode("latin-1"))
        text = text.replace(b" b/" + x["path"].encode("latin-1") + b"\n", b" ./" + x["path"].encode("latin-1") + b"\n")
    t = dict(scn); t["tree"] = dict(scn["tree"]); t["tree"]["p.diff"] = ("R", 0o644, text)
    t["opts"] = dict(scn["opts"], p=0)
    t["no_model"] = True        # (the model's tree is keyed by the literal path: './f' and 'f' are different names there)
    return t


def same_file_scenario(rng, opts=None, git=False):
    """several sections hit the same file in one run: delete f / change g / create f / change g again (or create-then-modify)"""
    fmt = "git" if git else "unified"
    a_f = [(gen.rand_text(rng, True), "L") for _ in range(rng.randint(1, 5))]
    b_f = [(gen.rand_text(rng, True) + "2", "L") for _ in range(rng.randint(1, 5))]
    g0 = [(gen.rand_text(rng, True), "L") for _ in range(rng.randint(3, 8))]
    def change(lines):
        ops = [(" ", l) for l in lines]
        i = rng.randrange(len(ops)); ops[i] = ("-", lines[i]); ops.insert(i + 1, ("+", (lines[i][0] + "x", "L")))
        return ops
    def sec(path, ops, kind):
        a = [l for o, l in ops if o != "+"]; b = [l for o, l in ops if o != "-"]
        hs = gen.hunks_from_ops(ops, 2)
        if fmt == "git":
            text = emit.emit_git(path, path, hs, kind=kind)
        elif kind == "add":
            text = emit.emit_unified("/dev/null", "b/" + path, hs)
        elif kind == "delete":
            text = emit.emit_unified("a/" + path, "/dev/null", hs)
        else:
            text = emit.emit_unified("a/" + path, "b/" + path, hs)
        return dict(path=path, newpath=path, a=a, b=b, text=text, fmt=fmt, kind=kind, hs=hs, ops=ops, mode_old=None, mode_new=None, w=2)
    order = rng.choice(["delete-create", "create-modify", "modify-modify"])
    secs = []
    tree = {}
    if order == "delete-create":
        tree["f"] = ("R", 0o644, emit.file_bytes(a_f))
        secs.append(sec("f", [("-", l) for l in a_f], "delete"))
        g1ops = change(g0); secs.append(sec("g", g1ops, "change"))
        secs.append(sec("f", [("+", l) for l in b_f], "add"))
        g1 = [l for o, l in g1ops if o != "-"]; secs.append(sec("g", change(g1), "change"))
    elif order == "create-modify":
        secs.append(sec("f", [("+", l) for l in b_f], "add"))
        g1ops = change(g0); secs.append(sec("g", g1ops, "change"))
        secs.append(sec("f", change(b_f), "change"))
    else:
        tree["f"] = ("R", 0o644, emit.file_bytes(a_f))
        f1ops = change(a_f); secs.append(sec("f", f1ops, "change"))
        g1ops = change(g0); secs.append(sec("g", g1ops, "change"))
        f1 = [l for o, l in f1ops if o != "-"]; secs.append(sec("f", change(f1), "change"))
    tree["g"] = ("R", 0o644, emit.file_bytes(g0))
    text = b"".join(x["text"] for x in secs)
    tree["p.diff"] = ("R", 0o644, text)
    o = dict(opts or {}); o["p"] = 1; o["i"] = "p.diff"
    return dict(tree=tree, opts=o, umask=0o022, secs=secs, order=order)


def headeronly_section(rng, path, kind):
    """git sections without any hunk: creation / deletion of an empty file, pure rename, pure mode change"""
    newpath = path
    a = [] if kind in ("add", "delete") else [(gen.rand_text(rng, True), "L") for _ in range(rng.randint(1, 4))]
    mo = mn = None
    if kind == "rename":
        newpath = "renamed_" + path.replace("/", "_")
    if kind == "mode":
        mo, mn = "100644", "100755"
    text = emit.emit_git(path, newpath, [], kind=("change" if kind == "mode" else kind), old_mode=mo, new_mode=mn)
    return dict(path=path, newpath=newpath, a=a, b=a, text=text, fmt="git", kind=kind, hs=[], ops=[(" ", l) for l in a], mode_old=mo, mode_new=mn, w=0)


def dir_stream_scenario(rng, opts=None):
    """one git stream that fills a directory and empties it: a file added to / renamed into a directory, and the removal (or the
    renaming away) of the only file that directory holds so far, in either order"""
    d_ = rng.choice(["nd", "nd/deep"])
    how = rng.choice(["add+delete", "add+delete", "add+rename-out", "rename-in+delete"])
    sx = section(rng, "other", kind="change", fmt="git", nonl=False)
    if how == "add+delete":
        sa = section(rng, d_ + "/new.txt", kind="add", fmt="git")
        sb = section(rng, d_ + "/old.txt", kind="delete", fmt="git")
    elif how == "add+rename-out":
        sa = section(rng, d_ + "/new.txt", kind="add", fmt="git")
        sb = section(rng, d_ + "/old.txt", kind="rename", fmt="git")
        sb["text"] = sb["text"].replace(sb["newpath"].encode(), b"elsewhere/old.txt"); sb["newpath"] = "elsewhere/old.txt"
    else:
        sa = section(rng, "outside.txt", kind="rename", fmt="git")
        sa["text"] = sa["text"].replace(sa["newpath"].encode(), (d_ + "/moved.txt").encode()); sa["newpath"] = d_ + "/moved.txt"
        sb = section(rng, d_ + "/old.txt", kind="delete", fmt="git")
    order = rng.choice([[sa, sb], [sb, sa], [sa, sx, sb], [sx, sb, sa]])
    s = base_scenario(rng, order, opts=dict(opts or {}))
    s["how"] = how
    return s
