"""C11 — a patch stream is the sum of its sections; surrounding text is ignored (parser part at L1)."""
import random
from vlib import *
import streams

THEOREMS = []


def hunks_of(line):
    """split a PARSEALL/PARSE1 answer into per-section canonical strings without file names/times (strip differs per run)"""
    if line in ("NONE", "THROW") or not line.startswith("PATCH"):
        return [line]
    return [p.strip() for p in line.split(" | ")]


def run(prop, tier, seed):
    run_ = Run(prop, tier, seed)
    if THEOREMS:
        proofs_into_run(run_, prop, THEOREMS)
    rng = random.Random(seed * 15485863 + 11)
    n = 1200 if tier == "quick" else 15000
    cases, meta = [], []
    for i in range(n):
        st = streams.gen_stream(rng)
        strip = rng.choice([-1, 0])
        k = len(cases)
        cases.append("PARSEALL unknown %d %s" % (strip, hx(st["text"])))
        for s in st["secs"]:
            cases.append("PARSE1 unknown %d %s" % (strip, hx(s["text"])))
        # the same sections with different filler
        alt = streams.filler(rng, 2)
        for s in st["secs"]:
            alt += s["text"] + streams.filler_after(rng, s, rng.randint(1, 3))
        cases.append("PARSEALL unknown %d %s" % (strip, hx(alt)))
        meta.append((k, len(st["secs"]), st))
    # malformed stream for the correspondence only
    nm = n // 2
    mal = []
    for i in range(nm):
        st = streams.gen_stream(rng, nsec=rng.randint(1, 2))
        t = st["text"]
        for _ in range(rng.randint(1, 3)):
            t = streams.mutate(rng, t)
        mal.append("PARSEALL %s %d %s" % (rng.choice(["unknown", "unknown", "unified", "context", "normal"]), rng.choice([-1, 0, 1]), hx(t)))
    try:
        impl, model = run_both(cases + mal)
    except CheckError as e:
        run_.violation("no-input", "build failed: %s" % e, dict(broken="build", detail=str(e)))
        return run_.finish()
    allc = cases + mal
    mism = [i for i in range(len(allc)) if impl[i] != model[i]]
    bad = []
    for k, ns, st in meta:
        whole = hunks_of(impl[k])
        parts = []
        for j in range(ns):
            parts += hunks_of(impl[k + 1 + j])
        alt = hunks_of(impl[k + 1 + ns])
        fm = "+".join(s["fmt"] for s in st["secs"])
        run_.count(allc[k], True, "stream " + fm if ns <= 2 else "stream 3+ sections")
        if whole != parts:
            bad.append((k, "parsing the concatenation differs from parsing the sections one by one (%s)" % fm))
        elif alt != whole:
            bad.append((k + 1 + ns, "different filler text between the same sections changes what is parsed (%s)" % fm))
    for i in range(len(cases), len(allc)):
        run_.count(allc[i], True, "malformed " + impl[i].split()[0][:5])
    for i, d in bad[:20]:
        run_.violation("concrete", d, dict(case=allc[i], impl=impl[i], model=model[i]))
    if mism and not bad:
        i = mism[0]
        run_.violation("no-input", "correspondence L1 PARSE broken on %d of %d cases" % (len(mism), len(allc)),
                       dict(broken="correspondence L1 Parser (parse_patch_header / body parsers)", case=allc[i], impl=impl[i], model=model[i]))
    run_.cov["correspondence_mismatches"] = len(mism)
    run_.cov["rule"] = "streams of 1-4 python-emitted sections (unified/context/normal/git, context widths 0-3) with mail/commit filler; each stream parsed whole, section by section, and with different filler; plus mutated streams for the model/implementation correspondence"
    for c in cases[:2]:
        run_.sample(c[:400])
    return run_.finish()
