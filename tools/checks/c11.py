"""C11 — a patch stream is the sum of its sections; surrounding text is ignored (parser part at L1)."""
import random
from vlib import *
import streams

THEOREMS = ["header_step_shift", "filler_prefix", "unified_section_stops",
            "section_state_independent", "loop_state_independent", "loop_state_independent_nobackup", "loop_fuel_irrelevant",
            "loop_sum", "run_sum", "unified_two_runs", "concatenation_is_sequence", "text_in_front", "text_after",
            "context_header_scan", "context_sections_sum", "context_run_sum", "context_section_text_after",
            "context_section_throws", "normal_header_scan", "normal_header_scan_index", "normal_sections_sum",
            "normal_run_sum_index", "normal_run_sum_operand", "normal_section_text_after", "normal_section_throws",
            "mixed_concatenation_is_sequence"]


def hunks_of(line):
    """split a PARSEALL/PARSE1 answer into per-section canonical strings without file names/times (strip differs per run)"""
    if line in ("NONE", "THROW") or not line.startswith("PATCH"):
        return [line]
    return [p.strip() for p in line.split(" | ")]


def run(prop, tier, seed):
    run_ = Run(prop, tier, seed)
    if THEOREMS:
        proofs_into_run(run_, prop, THEOREMS)
    rng = random.Random(seed * 15485863 + 11)
    n = 1200 if tier == "quick" else 15000
    cases, meta = [], []
    for i in range(n):
        st = streams.gen_stream(rng)
        strip = rng.choice([-1, 0])
        k = len(cases)
        cases.append("PARSEALL unknown %d %s" % (strip, hx(st["text"])))
        for s in st["secs"]:
            cases.append("PARSE1 unknown %d %s" % (strip, hx(s["text"])))
        # the same sections with different filler
        alt = streams.filler(rng, 2)
        for s in st["secs"]:
            alt += s["text"] + streams.filler_after(rng, s, rng.randint(1, 3))
        cases.append("PARSEALL unknown %d %s" % (strip, hx(alt)))
        meta.append((k, len(st["secs"]), st))
    # malformed stream for the correspondence only
    nm = n // 2
    mal = []
    for i in range(nm):
        st = streams.gen_stream(rng, nsec=rng.randint(1, 2))
        t = st["text"]
        for _ in range(rng.randint(1, 3)):
            t = streams.mutate(rng, t)
        mal.append("PARSEALL %s %d %s" % (rng.choice(["unknown", "unknown", "unified", "context", "normal"]), rng.choice([-1, 0, 1]), hx(t)))
    try:
        impl, model = run_both(cases + mal)
    except CheckError as e:
        run_.violation("no-input", "build failed: %s" % e, dict(broken="build", detail=str(e)))
        return run_.finish()
    allc = cases + mal
    mism = [i for i in range(len(allc)) if impl[i] != model[i]]
    bad = []
    for k, ns, st in meta:
        whole = hunks_of(impl[k])
        parts = []
        for j in range(ns):
            parts += hunks_of(impl[k + 1 + j])
        alt = hunks_of(impl[k + 1 + ns])
        fm = "+".join(s["fmt"] for s in st["secs"])
        run_.count(allc[k], True, "stream " + fm if ns <= 2 else "stream 3+ sections")
        if whole != parts:
            bad.append((k, "parsing the concatenation differs from parsing the sections one by one (%s)" % fm))
        elif alt != whole:
            bad.append((k + 1 + ns, "different filler text between the same sections changes what is parsed (%s)" % fm))
    for i in range(len(cases), len(allc)):
        run_.count(allc[i], True, "malformed " + impl[i].split()[0][:5])
    for i, d in bad[:20]:
        run_.violation("concrete", d, dict(case=allc[i], impl=impl[i], model=model[i]))
    # ---- whole program: combined run = sequence of separate runs; stdin = -i; auto-detected format = -u / -c / -n
    from l2common import run_many, l2_family, describe, tree_no_meta, diff_trees, fmt_tree
    import scen, l2, os
    exe = os.path.join(build_impl(), "sb_patch")
    nl2 = 120 if tier == "quick" else 2000
    combined, parts = [], []
    for _ in range(nl2):
        fmts = rng.choice([None, ["unified"], ["context"], ["normal"]])
        sc = scen.gen_scenario(rng, nsec=rng.choice([2, 3, 3]), kinds=["change", "change", "add", "delete"], fmts=fmts,
                               drift=rng.choice([0, 0.5]), opts=rng.choice([{}, {"f": 1}, {"b": 1}]))
        if "p.diff" not in sc["tree"]:
            continue
        # filler between the sections
        text = streams.filler(rng)
        for x in sc["secs"]:
            text += x["text"] + streams.filler_after(rng, x)
        sc["tree"]["p.diff"] = ("R", 0o644, text)
        sc["single_fmt"] = fmts[0] if fmts and all(x["fmt"] == fmts[0] for x in sc["secs"]) else None
        combined.append(sc)
    for _ in range(nl2 // 4):
        # a section whose first hunk line reads like a file header, followed by another section
        fm = rng.choice(["unified", "unified", "git"])
        sa = scen.headerlike_section(rng, rng.choice(["h1", "hd/h1"]), fmt=fm)
        sb = scen.section(rng, "h2", kind="change", fmt=fm, nonl=False)
        sc = scen.base_scenario(rng, [sa, sb] if rng.random() < 0.7 else [sb, sa], opts={})
        text = streams.filler(rng)
        for x in sc["secs"]:
            text += x["text"] + streams.filler_after(rng, x)
        sc["tree"]["p.diff"] = ("R", 0o644, text)
        sc["single_fmt"] = "unified" if fm == "unified" else None
        combined.append(sc)
    for _ in range(nl2 // 4):
        # git sections and sections in the other formats in one stream, in any order
        paths_ = rng.sample(scen.PATHS, 3)
        secs_ = []
        for p_ in paths_:
            fm = rng.choice(["git", "context", "normal", "unified", "git"])
            if fm == "normal" and " " in p_:
                fm = "context"
            secs_.append(scen.section(rng, p_, kind="change", fmt=fm, nonl=False))
        sc = scen.base_scenario(rng, secs_, opts={})
        text = b""
        for x in secs_:
            text += x["text"] + (streams.filler_after(rng, x) if x["fmt"] != "normal" else b"")
        sc["tree"]["p.diff"] = ("R", 0o644, text)
        sc["single_fmt"] = None
        combined.append(sc)
    for _ in range(nl2 // 5):
        sc = scen.dir_stream_scenario(rng)
        sc["single_fmt"] = None
        combined.append(sc)
    # bytes above 0x7f in the text around the sections (names in mail headers and signatures)
    for sc in combined:
        if rng.random() < 0.15 and "p.diff" in sc["tree"]:
            t_ = b"From: J\xfcrgen M\xffller <j@example.org>\n" + sc["secs"][0]["text"]
            for x in sc["secs"][1:]:
                t_ += b"-- \nSent by \xff\xfe mailer\n" + (b"--\n" if x["fmt"] == "context" else b"") + x["text"]
            if not any(x["fmt"] == "context" for x in sc["secs"][:-1]):
                sc["tree"]["p.diff"] = ("R", 0o644, t_)
    res, b2, m2 = l2_family(run_, exe, combined, lambda s, r: None, cls=lambda s, r: "combined exit %d" % r["exit"], label="C11")
    import wide
    wb, wm = wide.wide_family(run_, exe, rng, 300 if tier == "quick" else 4000, prop="C11")
    m2 = m2 + wm
    l2bad = list(b2)
    for sc, r in zip(combined, res):
        tree = {p: v for p, v in sc["tree"].items()}
        worst = 0
        ok = True
        for x in sc["secs"]:
            one = dict(sc); one["tree"] = dict(tree); one["tree"]["p.diff"] = ("R", 0o644, x["text"])
            r1 = l2.run_impl(exe, one)
            if r1["exit"] == 2:
                ok = False
                break
            worst = max(worst, r1["exit"])
            tree = {p: (k, m, d) for p, (k, m, d, *_) in r1["tree"].items()}
        if not ok:
            continue
        final = tree_no_meta(r["tree"]); final.pop("p.diff", None); tree.pop("p.diff", None)
        rep = dict(scenario=describe(sc), combined=dict(exit=r["exit"], stdout=r["stdout"].decode("latin-1")[-800:], tree=fmt_tree(r["tree"])), separate=dict(exit=worst))
        if r["exit"] != worst:
            l2bad.append((0, "the concatenated stream exits %d, the sections applied one after another exit %d at worst" % (r["exit"], worst), rep))
        elif final != tree:
            l2bad.append((0, "the concatenated stream leaves a different tree than the sections applied one after another: " + "; ".join(diff_trees(tree, final)[:3]), rep))
        # stdin = -i
        sin = dict(sc); sin["tree"] = {p: v for p, v in sc["tree"].items() if p != "p.diff"}; sin["stdin"] = sc["tree"]["p.diff"][2]
        sin["opts"] = {k: v for k, v in sc["opts"].items() if k != "i"}
        r2 = l2.run_impl(exe, sin)
        t2 = tree_no_meta(r2["tree"])
        if r2["exit"] != r["exit"] or t2 != final:
            l2bad.append((0, "reading the patch from standard input (exit %d) differs from -i (exit %d)" % (r2["exit"], r["exit"]), rep))
        # auto-detection = the matching option
        if sc["single_fmt"] in ("unified", "context", "normal"):
            fo = dict(sc); fo["opts"] = dict(sc["opts"]); fo["opts"][{"unified": "u", "context": "c", "normal": "n"}[sc["single_fmt"]]] = 1
            r3 = l2.run_impl(exe, fo)
            t3 = tree_no_meta(r3["tree"]); t3.pop("p.diff", None)
            if r3["exit"] != r["exit"] or t3 != final:
                l2bad.append((0, "forcing the format with -%s (exit %d) differs from auto-detection (exit %d)" % (sc["single_fmt"][0], r3["exit"], r["exit"]),
                              dict(rep, forced=dict(exit=r3["exit"], stdout=r3["stdout"].decode("latin-1")[-600:], stderr=r3["stderr"].decode("latin-1")[-300:]))))
    for i, d, rep in l2bad[:10]:
        run_.violation("concrete", d, rep)
    if m2 and not l2bad and not bad:
        run_.violation("no-input", "correspondence L2 broken on %d scenarios" % len(m2), dict(m2[0][2], broken="correspondence L2 (Driver.v)"))
    if mism and not bad:
        i = mism[0]
        run_.violation("no-input", "correspondence L1 PARSE broken on %d of %d cases" % (len(mism), len(allc)),
                       dict(broken="correspondence L1 Parser (parse_patch_header / body parsers)", case=allc[i], impl=impl[i], model=model[i]))
    run_.cov["correspondence_mismatches"] = len(mism)
    run_.cov["rule"] = "streams of 1-4 python-emitted sections (unified/context/normal/git, context widths 0-3) with mail/commit filler; each stream parsed whole, section by section, and with different filler; plus mutated streams for the model/implementation correspondence"
    for c in cases[:2]:
        run_.sample(c[:400])
    return run_.finish()
