"""C01 — applying a diff reproduces the new file exactly (L1 hunk level, L2 trees, three producers)."""
import os, random, shutil, subprocess, tempfile
from vlib import *
from l2common import *
import streams

THEOREMS = ["apply_conforming", "stated_place_wins", "section_writes_new_version", "parse_normal_header",
            "normal_roundtrip", "normal_roundtrip_sides", "normal_body_roundtrip", "normal_roundtrip_conforming",
            "script_conf", "script_wf", "normal_diff_applies", "normal_diff_reverses", "unified_header_scan",
            "unified_header_scan_index", "unified_header_scan_blank", "patch_applies_end_to_end",
            "patch_applies_end_to_end_index", "patch_p1_applies", "run_patch_end_to_end", "run_patch_file_end_to_end",
            "sections_apply", "git_patch_applies",
            "conforming_norm", "context_patch_applies_end_to_end", "context_patch_applies_end_to_end_index",
            "context_patch_reverses_end_to_end", "run_patch_context_end_to_end", "normal_patch_applies_end_to_end",
            "normal_patch_applies_operand", "normal_patch_reverses_end_to_end", "normal_patch_reverses_operand",
            "run_patch_normal_end_to_end", "run_patch_normal_operand"]

K20 = ("K20-top-insertion", "context-free insertion at the top of a non-empty file (diff -U0 '@@ -0,0 +1 @@', normal '0a1', -C0 '*** 0 ****') is rejected")
K21 = ("K21-zero-context-operation", "zero-context diff whose first hunk removes line 1 ('@@ -1 +0,0 @@', normal '1d0') is taken for a file deletion: 'Not deleting file' + exit 1 although the content is right")
K2 = ("K2-context-normal-create-delete", "creation / deletion of a file by a context-format or normal-format diff (operation is only inferred for unified ranges and git headers)")
K22 = ("K22-bare-cr-at-eof", "last line ending in a bare CR without LF: the patch line is read back without the CR")


def k20_hunks(hs, a):
    return bool(a) and any(h["oc"] == 0 and h["os"] == 0 for h in hs)


def k21_hunks(hs, b):
    """first hunk states new start 0 (or old start 0) although the file is not deleted (created)"""
    if not hs:
        return False
    h = hs[0]
    return (h["ns"] == 0 and bool(b)) or False


def l1_part(run_, rng, n):
    fam = applyc.family_conforming(rng, n, modes=("native", "keep", "lf", "crlf"))
    cases = [applyc.apply_case(applyc.opt_str(**c["opts"]), "unified", c["a"], c["hs"]) for c in fam]
    impl, model = run_both(cases)
    bad, mism = [], []
    for i, c in enumerate(fam):
        res = applyc.parse_result(impl[i])
        exp = applyc.lines_bytes(c["mode"], c["b"])
        known = applyc.k20_trigger(c["a"], c["hs"])
        run_.count(cases[i], True, "L1 conforming w=%d%s" % (c["w"], " K20" if known else ""))
        if impl[i] != model[i]:
            mism.append((i, "L1 APPLY", dict(case=cases[i], impl=impl[i], model=model[i])))
        ok = res is not None and res["out"] == exp and res["failed"] == 0 and res["perfect"] == "1" and res["msgs"] == "" and res["rej"] == b""
        if not ok:
            bad.append((i, "conforming hunks applied to A do not give B exactly (library apply_patch): %s" % impl[i][:120],
                        dict(case=cases[i], impl=impl[i], expected_out=exp.decode("latin-1"), k20=known)))
    return bad, mism


def c01_scenarios(rng, n):
    scns = []
    for _ in range(n):
        kinds = rng.choice([["change"], ["change", "add", "delete"], ["change", "rename", "copy", "mode", "add", "delete"]])
        s = scen.gen_scenario(rng, kinds=kinds, opts=rng.choice([{}, {}, {"F": rng.choice([0, 1, 3])}, {"l": 1}, {"nl": "keep"}, {"nl": "lf"}]),
                              via_stdin=rng.random() < 0.2)
        # deeper directories and strip levels
        if rng.random() < 0.3 and all(x["fmt"] in ("unified", "context") for x in s["secs"]):
            depth = rng.randint(1, 3)
            pre = "/".join("x%d" % k for k in range(depth)) + "/"
            text = b""
            for x in s["secs"]:
                text += x["text"].replace(("a/" + x["path"]).encode("latin-1"), (pre + x["path"]).encode("latin-1")) \
                                 .replace(("b/" + x["path"]).encode("latin-1"), (pre + x["path"]).encode("latin-1"))
            if "stdin" in s:
                s["stdin"] = text
            else:
                s["tree"]["p.diff"] = ("R", 0o644, text)
            s["opts"]["p"] = depth
        elif rng.random() < 0.15 and "p.diff" in s["tree"] and s["opts"].get("p") == 1:
            # names written './path' (diff -u ./f.orig ./f), applied with -p0
            s = scen.dot_names(s) or s
        scns.append(s)
    # one git diff over many files (a commit that touches a whole tree), the last entries copying / renaming files that earlier
    # entries of the same diff change: every entry is relative to the tree before the diff
    for _ in range(max(1, n // 150)):
        secs = []
        k = rng.choice([66, 70, 130])
        for i_ in range(k):
            a = [("f%d line %d" % (i_, j_), "L") for j_ in range(4)]
            ops = [(" ", l) for l in a]; ops[1] = ("-", a[1]); ops.insert(2, ("+", ("f%d changed" % i_, "L")))
            hs = gen.hunks_from_ops(ops, 1)
            secs.append(dict(path="m/f%03d" % i_, newpath="m/f%03d" % i_, a=a, b=[l for o, l in ops if o != "-"], kind="change", fmt="git", hs=hs, ops=ops, mode_old=None, mode_new=None, w=1,
                             text=emit.emit_git("m/f%03d" % i_, "m/f%03d" % i_, hs, kind="change")))
        for kind_, src_ in (("copy", 0), ("copy", 1)):
            a = secs[src_]["a"]
            ops = [(" ", l) for l in a]; ops[3] = ("-", a[3]); ops.insert(4, ("+", ("tail of the %s" % kind_, "L")))
            hs = gen.hunks_from_ops(ops, 1)
            np_ = "m/z_%s%d" % (kind_, src_)
            secs.append(dict(path=secs[src_]["path"], newpath=np_, a=a, b=[l for o, l in ops if o != "-"], kind=kind_, fmt="git", hs=hs, ops=ops, mode_old=None, mode_new=None, w=1,
                             text=emit.emit_git(secs[src_]["path"], np_, hs, kind=kind_)))
        secs = secs[:-1] if rng.random() < 0.5 else secs           # (one copy or two)
        s0 = scen.base_scenario(rng, [x for x in secs if x["kind"] == "change"], opts={})
        s0["tree"]["p.diff"] = ("R", 0o644, b"".join(x["text"] for x in secs))
        s0["secs"] = secs; s0["many"] = True
        scns.append(s0)
    # the last line changed, added to or removed, with every combination of "final newline missing" on the two sides, in all formats
    for _ in range(n // 6):
        a = [(gen.rand_text(rng, True) + str(i_), "L") for i_ in range(rng.randint(1, 6))]
        how = rng.choice(["change-last", "change-last", "append", "drop-last", "newline-only"])
        na, nb = rng.random() < 0.5, rng.random() < 0.5
        ops = [(" ", l) for l in a]
        last = a[-1]
        if how == "change-last":
            ops[-1] = ("-", (last[0], "N" if na else "L")); ops.append(("+", (last[0] + " new", "N" if nb else "L")))
        elif how == "append":
            ops[-1] = ("-", (last[0], "N")) if na else (" ", last)
            if na:
                ops.append(("+", (last[0], "L")))
            ops.append(("+", ("appended", "N" if nb else "L")))
        elif how == "drop-last":
            if len(a) < 2:
                continue
            ops[-1] = ("-", (last[0], "N" if na else "L"))
            if nb:
                prev = ops[-2][1]; ops[-2] = ("-", prev); ops.insert(len(ops) - 1, ("+", (prev[0], "N")))
        else:
            if na == nb:
                na, nb = True, False
            ops[-1] = ("-", (last[0], "N" if na else "L")); ops.append(("+", (last[0], "N" if nb else "L")))
        ops = applyc.fix_nonl(ops)
        a2 = [l for o_, l in ops if o_ != "+"]; b2 = [l for o_, l in ops if o_ != "-"]
        if not a2 or not b2 or a2 == b2:
            continue
        fmt = rng.choice(["unified", "context", "context", "normal", "git"])
        path = rng.choice(["e", "ed/e"])
        hs = gen.hunks_from_ops(ops, 0 if fmt == "normal" else rng.choice([0, 1, 3]))
        if fmt == "context":
            text = emit.emit_context("a/" + path, "b/" + path, hs, "2024-01-01 00:00:00.000000000 +0000", "2024-01-02 00:00:00.000000000 +0000")
        elif fmt == "normal":
            text = ("Index: b/%s\n" % path).encode() + emit.emit_normal(ops)
        elif fmt == "git":
            text = emit.emit_git(path, path, hs)
        else:
            text = emit.emit_unified("a/" + path, "b/" + path, hs, "2024-01-01 00:00:00.000000000 +0000", "2024-01-02 00:00:00.000000000 +0000")
        sec = dict(path=path, newpath=path, a=a2, b=b2, text=text, fmt=fmt, kind="change", hs=hs, ops=ops, mode_old=None, mode_new=None, w=1)
        scns.append(scen.base_scenario(rng, [sec], opts={}))
    # git sections that consist of a header only: an empty file created or deleted, a pure rename, a pure mode change
    for _ in range(n // 10):
        secs = [scen.headeronly_section(rng, p_, k_) for p_, k_ in zip(rng.sample(["e1", "hd/e2", "e3"], 2), rng.sample(["add", "delete", "rename", "mode"], 2))]
        s0 = scen.base_scenario(rng, secs, opts={})
        for x in secs:
            if x["kind"] == "delete":
                scen.add_parents(s0["tree"], x["path"]); s0["tree"][x["path"]] = ("R", 0o644, b"")
        scns.append(s0)
    # one old file both renamed and copied (and perhaps changed under a third name), the entries in either order: every entry
    # of a git patch is relative to the old tree
    for _ in range(n // 10):
        src = rng.choice(["lib/src.txt", "s.c"])
        r_ = scen.section(rng, src, kind="rename", fmt="git", nonl=False)
        while True:
            c_ = scen.section(rng, src, kind="copy", fmt="git", nonl=False)
            if c_["newpath"] != r_["newpath"]:
                break
        # both sections have to speak about the same old content: rebuild the copy from the rename's old side
        a = r_["a"]
        ops = [(" ", l) for l in a]
        if a:
            i_ = rng.randrange(len(a)); ops[i_] = ("-", a[i_]); ops.insert(i_ + 1, ("+", (a[i_][0] + " copy", "L")))
        hs = gen.hunks_from_ops(ops, 2)
        c_ = dict(c_, a=a, b=[l for o_, l in ops if o_ != "-"], hs=hs, ops=ops, text=emit.emit_git(src, c_["newpath"], hs, kind="copy"))
        other = scen.section(rng, "other.txt", kind="change", fmt="git", nonl=False)
        order = rng.choice([[r_, c_], [c_, r_], [r_, other, c_], [r_, c_, other]])
        s0 = scen.base_scenario(rng, order, opts={})
        scns.append(s0)
    # longer files, many hunks, function headings on every hunk separator (diff -p / -F), all three formats with a separator
    for _ in range(n // 8):
        a = [("%s line %d" % (rng.choice(["int f", "x", "  y", "def g", "z"]), i), "L") for i in range(rng.randint(18, 30))]
        ops = [(" ", l) for l in a]
        for i in sorted(rng.sample(range(len(a)), rng.randint(2, 4)), reverse=True):
            ops[i] = ("-", a[i]); ops.insert(i + 1, ("+", (a[i][0] + " changed", "L")))
        fmt = rng.choice(["context", "context", "unified", "git"])
        hs = gen.hunks_from_ops(ops, rng.choice([0, 1, 1, 2]))
        for h in hs:
            h["heading"] = rng.choice(["int f(void)", "def g(x):", "static int h (a, b)", "sub s {"])
        path = rng.choice(["big.c", "src/big.c"])
        if fmt == "context":
            text = emit.emit_context("a/" + path, "b/" + path, hs, "2024-01-01 00:00:00.000000000 +0000", "2024-01-02 00:00:00.000000000 +0000")
        elif fmt == "git":
            text = emit.emit_git(path, path, hs)
        else:
            text = emit.emit_unified("a/" + path, "b/" + path, hs, "2024-01-01 00:00:00.000000000 +0000", "2024-01-02 00:00:00.000000000 +0000")
        sec = dict(path=path, newpath=path, a=a, b=[l for o_, l in ops if o_ != "-"], text=text, fmt=fmt, kind="change", hs=hs, ops=ops, mode_old=None, mode_new=None, w=1)
        scns.append(scen.base_scenario(rng, [sec], opts={}))
    return scns


def emitter_meta(s):
    m = dict(k20=False, k21=False, k2=False, k22=False)
    for x in s["secs"]:
        hs = x["hs"]
        if hs and x["kind"] in ("change", "mode", "rename", "copy"):
            if hs[0]["oc"] == 0 and hs[0]["os"] == 0 and x["a"]:
                m["k20"] = True
            if hs[0]["nc"] == 0 and hs[0]["ns"] == 0 and x["b"]:
                m["k21"] = True
            if any(h["oc"] == 0 and h["os"] == 0 for h in hs) and x["a"]:
                m["k20"] = True
    return m


def judge_c01(s, r):
    exp = scen.expected_tree(s)
    if s.get("many"):
        # the source of the copy keeps its own new version; a renamed source is gone, its own change notwithstanding
        exp = {p_: v_ for p_, v_ in s["tree"].items()}
        for x in s["secs"]:
            if x["kind"] == "change":
                exp[x["path"]] = ("R", 0o644, emit.file_bytes(x["b"]))
        for x in s["secs"]:
            if x["kind"] in ("copy", "rename"):
                exp[x["newpath"]] = ("R", 0o644, emit.file_bytes(x["b"]))
            if x["kind"] == "rename":
                exp.pop(x["path"], None)
    got = tree_no_meta(r["tree"])
    # under newline modes other than the default the expected bytes differ only for CRLF content, which sections do not carry
    if r["exit"] != 0:
        return "exit status %d instead of 0 for a conforming diff" % r["exit"]
    d = diff_trees(exp, got)
    if d:
        return "tree after the run differs from the new version: " + "; ".join(d[:4])
    if r["tmp_left"]:
        return "temporary files left behind: %s" % r["tmp_left"]
    return None


def is_known_c01(desc, rep):
    sc = rep.get("scenario_meta") or {}
    if rep.get("k20"):
        return K20
    for key, trig in (("k20", K20), ("k21", K21), ("k2", K2), ("k22", K22)):
        if sc.get(key):
            return trig
    return None


def git_move_scenario(rng):
    """trees A -> B diffed by git diff -M -C: files renamed and copied with small changes, the source of a copy changed as well
    (the only sources git looks at without --find-copies-harder), files swapping names"""
    d = tempfile.mkdtemp(prefix="vprodg")
    try:
        def content(tag):
            return [("%s %d %s" % (tag, i, gen.rand_text(rng, True)), "L") for i in range(rng.randint(8, 14))]
        def tweak(ls):
            ls = list(ls); i = rng.randrange(len(ls)); ls[i] = (ls[i][0] + " changed", "L")
            if rng.random() < 0.3:
                ls.insert(rng.randrange(len(ls)), ("added line", "L"))
            return ls
        A, B = {}, {}
        how = rng.choice(["copy-modified-source", "copy-modified-source", "rename", "rename+copy", "swap", "rename-dir"])
        A["f"] = content("f"); A["sub/g"] = content("g")
        if rng.random() < 0.4:
            # names git writes in quotes (a byte above 0x7f) or ends with a tab (a blank), in a directory that -pN keeps
            q = rng.choice(["d/caf\xc3\xa9.txt", "d/a b.txt", "d/t\xe9"])
            A[q] = content("q")
            B[rng.choice(["d/moved \xc3\xa9", "e/" + q.split("/")[1], "d/plain"])] = A[q] if rng.random() < 0.6 else tweak(A[q])
        if how == "copy-modified-source":
            B["f"] = tweak(A["f"]); B["f2"] = tweak(A["f"]); B["sub/g"] = A["sub/g"]
        elif how == "rename":
            B["moved/f"] = tweak(A["f"]); B["sub/g"] = tweak(A["sub/g"])
        elif how == "rename+copy":
            B["f1"] = tweak(A["f"]); B["f2"] = tweak(A["f"]); B["sub/g"] = A["sub/g"]
        elif how == "swap":
            B["f"] = tweak(A["sub/g"]); B["sub/g"] = tweak(A["f"])
        else:
            B["f"] = A["f"]; B["other/g"] = tweak(A["sub/g"])
        for side, t in (("a", A), ("b", B)):
            for nm, ls in t.items():
                fp = os.path.join(os.fsencode(d), side.encode(), nm.encode("latin-1")); os.makedirs(os.path.dirname(fp), exist_ok=True)
                open(fp, "wb").write(emit.file_bytes(ls))
        p = subprocess.run(["git", "diff", "--no-index", "--no-color", "--text", "-M", "-C", "a", "b"], cwd=d, capture_output=True,
                           env={"HOME": d, "PATH": "/usr/bin:/bin", "GIT_CONFIG_NOSYSTEM": "1"})
        if not p.stdout.strip():
            return None
        tree, exp = {}, {}
        for nm, ls in A.items():
            scen.add_parents(tree, nm); tree[nm] = ("R", 0o644, emit.file_bytes(ls))
        for nm, ls in B.items():
            scen.add_parents(exp, nm); exp[nm] = ("R", 0o644, emit.file_bytes(ls))
        tree["p.diff"] = ("R", 0o644, p.stdout); exp["p.diff"] = tree["p.diff"]
        return dict(tree=tree, opts={"p": 2, "i": "p.diff"}, umask=0o022, expected=exp, meta=dict(k20=False, k21=False, k2=False, k22=False, how=how), producer="git -M -C " + how)
    finally:
        shutil.rmtree(d, ignore_errors=True)


def producer_scenarios(rng, n):
    """trees A -> B diffed by GNU diff (-ruN, -rcN, -rN normal, -U0, -C0...) and by git diff --no-index"""
    scns = []
    for _ in range(n // 6):
        s_ = git_move_scenario(rng)
        if s_:
            scns.append(s_)
    for _ in range(n):
        d = tempfile.mkdtemp(prefix="vprod")
        try:
            prod = rng.choice(["diff -ruN", "diff -ruN", "diff -rN -U0", "diff -rN -U1", "diff -rcN", "diff -rN -C1", "diff -rN", "git",
                               "diff -rupN", "diff -rcpN", "diff -rN -C1 -F ^[a-z]",
                               "diff -ruN --suppress-blank-empty", "diff -rN -U1 --suppress-blank-empty",
                               "diff -rcN -T", "diff -rN -C1 -T", "diff -rN -T"])
            # a normal diff names no file: one file, named on the command line
            normal = prod in ("diff -rN", "diff -rN -T")
            nfiles = 1 if normal else rng.randint(1, 3)
            tree = {}
            exp = {}
            names = rng.sample(["f", "g.txt", "sub/h", "sub/deep/k", "z"], nfiles)
            meta = dict(k20=False, k21=False, k2=False, k22=False)
            pairs = []
            for nm in names:
                a, ops, b = applyc.gen_pair(rng, maxlen=10)
                ops = applyc.fix_nonl([(o, (t.replace("\r", "r"), "L" if nl == "C" else nl)) for o, (t, nl) in ops])
                if "suppress" in prod:
                    # blank lines as context, also as the first line of a hunk
                    ops = [((o, ("", nl)) if (o == " " and rng.random() < 0.4) else (o, (t, nl))) for o, (t, nl) in ops]
                    ops = applyc.fix_nonl(ops)
                a = [l for o, l in ops if o != "+"]; b = [l for o, l in ops if o != "-"]
                kind = "change" if normal else rng.choice(["change", "change", "change", "add", "delete"])
                if kind == "add":
                    a = None; b = b or [("new", "L")]
                if kind == "delete":
                    b = None; a = a or [("old", "L")]
                if kind == "change" and (not a or not b):
                    a = (a or []) + [("seed", "L")]; b = (b or []) + [("seed", "L")]
                    ops = ops + [(" ", ("seed", "L"))]
                pairs.append((nm, a, b, ops))
            for side, idx in (("a", 1), ("b", 2)):
                for p in pairs:
                    content = p[idx]
                    if content is None:
                        continue
                    fp = os.path.join(d, side, p[0]); os.makedirs(os.path.dirname(fp), exist_ok=True)
                    open(fp, "wb").write(emit.file_bytes(content))
            os.makedirs(os.path.join(d, "a"), exist_ok=True); os.makedirs(os.path.join(d, "b"), exist_ok=True)
            if prod == "git":
                p = subprocess.run(["git", "diff", "--no-index", "--no-color", "--text", "a", "b"], cwd=d, capture_output=True, env={"HOME": d, "PATH": "/usr/bin:/bin", "GIT_CONFIG_NOSYSTEM": "1"})
            else:
                p = subprocess.run(prod.split() + ["-a", "a", "b"], cwd=d, capture_output=True)   # -a: bytes such as NUL are text
            text = p.stdout
            if not text.strip():
                continue
            for nm, a, b, ops in pairs:
                if a is not None:
                    scen.add_parents(tree, nm); tree[nm] = ("R", 0o644, emit.file_bytes(a))
                if b is not None:
                    scen.add_parents(exp, nm); exp[nm] = ("R", 0o644, emit.file_bytes(b))
                # known-finding triggers
                hs0 = gen.hunks_from_ops(ops, 0)
                zero = ("-U0" in prod) or normal
                if zero and a and b and hs0 and hs0[0]["oc"] == 0 and hs0[0]["os"] == 0:
                    meta["k20"] = True
                if zero and a and b and hs0 and hs0[0]["nc"] == 0 and hs0[0]["ns"] == 0:
                    meta["k21"] = True
                if (a is None or b is None or (a is not None and not a) or (b is not None and not b)) and ("-rcN" in prod or "-C" in prod or normal):
                    meta["k2"] = True
                if (a is None or (a is not None and not a)) and zero:
                    meta["k2"] = True
            # directories that only exist to hold deleted files vanish with them; those holding surviving files stay
            for nm, a, b, ops in pairs:
                if a is not None and b is not None:
                    scen.add_parents(exp, nm)
            tree["p.diff"] = ("R", 0o644, text); exp["p.diff"] = tree["p.diff"]
            o = {"p": 2 if prod == "git" else 1, "i": "p.diff"}
            if normal:
                o["file"] = names[0]
            scns.append(dict(tree=tree, opts=o, umask=0o022, expected=exp, meta=meta, producer=prod))
        finally:
            shutil.rmtree(d, ignore_errors=True)
    return scns


def judge_producer(s, r):
    got = tree_no_meta(r["tree"])
    exp = s["expected"]
    if r["exit"] != 0:
        return "exit status %d instead of 0 applying the output of '%s'" % (r["exit"], s["producer"])
    d = diff_trees(exp, got)
    if d:
        return "tree differs from the new version after applying the output of '%s': %s" % (s["producer"], "; ".join(d[:4]))
    return None


def run(prop, tier, seed):
    run_ = Run(prop, tier, seed)
    proofs_into_run(run_, prop, THEOREMS)
    rng = random.Random(seed * 32452843 + 1)
    q = tier == "quick"
    try:
        exe = os.path.join(build_impl(), "sb_patch")
        bad1, mism1 = l1_part(run_, rng, 2500 if q else 30000)
        scns = c01_scenarios(rng, 250 if q else 4000)
        _, bad2, mism2 = l2_family(run_, exe, scns, judge_c01, cls=lambda s, r: "emitter " + "+".join(sorted(set(x["kind"] for x in s["secs"]))))
        ps = producer_scenarios(rng, 150 if q else 2500)
        _, bad3, mism3 = l2_family(run_, exe, ps, judge_producer, cls=lambda s, r: "producer " + s["producer"])
        import wide
        wb, wm = wide.wide_family(run_, exe, rng, 300 if q else 4000, prop=prop)
        mism3 = mism3 + wm
    except CheckError as e:
        run_.violation("no-input", "build failed: %s" % e, dict(broken="build", detail=str(e)))
        return run_.finish()
    for i, d, rep in bad3:
        rep["scenario_meta"] = ps[i]["meta"]
    for i, d, rep in bad2:
        rep["scenario_meta"] = emitter_meta(scns[i])
    bad = [(i, d, rep) for i, d, rep in bad1] + bad2 + bad3
    finish(run_, prop, bad, mism1 + mism2 + mism3, known=is_known_c01, corr_name="L1 APPLY + L2 runs")
    run_.cov["rule"] = ("L1: conforming hunks (python LCS-free edit scripts, context widths 0-5) through apply_patch under 4 newline modes; "
                        "L2: trees patched by the independent emitter (unified/context/normal/git incl. create/delete/rename/copy/mode, strip levels, stdin) "
                        "and by GNU diff -ruN/-rcN/-rN/-U0/-C1 and git diff --no-index; judged: exit 0, tree == new version, no reject/backup/temporary")
    run_.sample(scns[0]["tree"].get("p.diff", ("", 0, b""))[2].decode("latin-1")[:500] if scns else "")
    return run_.finish()
