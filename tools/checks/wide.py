"""A wide scenario generator for the whole-program correspondence: every run draws sections (all kinds, all formats, header
styles), a state for every target (as the patch expects it, drifted, already patched, missing, empty, not a regular file,
read-only, CRLF), neighbours at the names the program derives (backup, reject, output), and an option set mixed from all the
options the model knows.  The property checks use it next to their own families: the implementation's run (exit status, final
tree, verdict lines) has to be the model's run on every scenario; what can be judged on any scenario whatever (exit status in
0..2, nothing left in TMPDIR, --dry-run leaves the tree alone) is judged as well."""
import random
from vlib import *
from l2common import *
import scen, gen, emit, streams

OPTION_FRAGMENTS = [
    {"b": 1}, {"f": 1}, {"N": 1}, {"t": 1}, {"R": 1}, {"F": 0}, {"F": 1}, {"F": 3}, {"l": 1}, {"posix": 1}, {"bim": 0}, {"bim": 1},
    {"z": ".bak"}, {"B": "pre."}, {"B": "bk/"}, {"rf": "context"}, {"rf": "unified"}, {"nl": "keep"}, {"nl": "lf"}, {"nl": "crlf"},
    {"ro": "ignore"}, {"ro": "fail"}, {"ro": "warn"}, {"E": 1}, {"v": 1}, {"D": "SYM"}, {"dry": 1}, {"dry": 1},
    {"o": "outfile"}, {"o": "osub/outfile"}, {"o": "-"}, {"r": "rejects.txt"}, {"r": "rsub/rejects.txt"},
    {"N": 1, "t": 1}, {"t": 1, "f": 1}, {"b": 1, "dry": 1}, {"F": 0, "l": 1}, {"rf": "unified", "f": 1}, {"ro": "fail", "dry": 1},
]

TARGET_STATES = ["asis", "asis", "asis", "asis", "drift", "drift", "applied", "missing", "empty", "dir", "fifo", "link", "dangling",
                 "readonly", "mode", "crlf", "nonl", "top-insert"]


def symlink_section(path, target):
    hs = [dict(os=0, oc=0, ns=1, nc=1, body=[("+", target, "N")])]
    text = emit.emit_git(path, path, hs, kind="add", new_mode="120000")
    return dict(path=path, newpath=path, a=[], b=[(target, "N")], text=text, fmt="git", kind="add", hs=hs, ops=[("+", (target, "N"))],
                mode_old=None, mode_new="120000", w=0)


def wide_scenario(rng):
    nsec = rng.choice([1, 1, 1, 2, 2, 3])
    paths = rng.sample(scen.PATHS + ["d\xc3\xa9j\xc3\xa0/vu.txt", "q\xe9"], nsec)
    if rng.random() < 0.12:
        # several sections for one file in one stream (a series)
        s = scen.same_file_scenario(rng, opts={}, git=rng.random() < 0.5)
        o = s["opts"]
        for _ in range(rng.choice([0, 1, 2])):
            o.update(rng.choice(OPTION_FRAGMENTS))
        if o.get("o") == "-" or o.get("D"):
            o.pop("o", None)
        s["umask"] = rng.choice([0o022, 0o077])
        for x in s["secs"]:
            x["state"] = "series"
        return s
    git = rng.random() < 0.35
    secs = []
    for p in paths:
        kind = rng.choice(["change", "change", "change", "add", "delete"] + (["rename", "copy", "mode", "headeronly", "symlink"] if git else []))
        if kind == "headeronly":
            sec = scen.headeronly_section(rng, p, rng.choice(["add", "delete", "rename", "mode"]))
        elif kind == "symlink":
            sec = symlink_section(p, rng.choice(["tgt", "x", "t.2"]))      # (targets in the directory of the link: a later write through a dangling link into a directory that is missing is outside the model)
        else:
            fmt = "git" if git else rng.choice(["unified", "unified", "context", "normal"])
            if fmt == "normal" and (" " in p or kind in ("add", "delete")):
                fmt = "unified"
            if fmt == "context" and kind in ("add", "delete"):
                fmt = rng.choice(["unified", "context"])
            sec = scen.section(rng, p, kind=kind, fmt=fmt, nonl=rng.random() < 0.8)
        if sec["newpath"] != sec["path"] and any(sec["newpath"] in (y["newpath"], y["path"]) for y in secs):
            continue
        secs.append(sec)
    if not secs:
        secs = [scen.section(rng, "f", kind="change", fmt="unified")]
    s = scen.base_scenario(rng, secs, opts={}, via_stdin=rng.random() < 0.15)
    tree = s["tree"]
    # filler between the sections, Prereq: lines
    if rng.random() < 0.3:
        text = streams.filler(rng)
        for x in secs:
            text += x["text"] + (streams.filler_after(rng, x) if x["fmt"] != "normal" else b"")
        if "p.diff" in tree:
            tree["p.diff"] = ("R", 0o644, text)
        else:
            s["stdin"] = text
    # the state of every target
    for x in secs:
        p = x["path"]
        st = rng.choice(TARGET_STATES)
        if x["kind"] == "add":
            st = rng.choice(["asis", "asis", "asis", "exists-empty", "exists-content", "dangling", "dir"])
        cur = tree.get(p)
        A = emit.file_bytes(x["a"]); B = emit.file_bytes(x["b"])
        if st == "drift" and cur:
            tree[p] = ("R", cur[1], emit.file_bytes(gen.drift(rng, x["a"], strength=rng.choice([0.3, 0.6, 0.9]))))
        elif st == "applied" and cur and x["kind"] in ("change", "mode"):
            tree[p] = ("R", cur[1], B)
        elif st == "missing" and cur:
            del tree[p]
        elif st == "empty" and cur:
            tree[p] = ("R", cur[1], b"")
        elif st == "dir":
            scen.add_parents(tree, p); tree[p] = ("D", 0o755, b"")
        elif st == "fifo" and cur:
            tree[p] = ("O", 0o644, b"")
        elif st == "link" and cur:
            # the real file stands in the same directory (the model resolves a link target relative to the link's directory
            # without normalising "..")
            real = p + ".real"
            tree[real] = cur
            tree[p] = ("S", 0, real.rsplit("/", 1)[-1].encode())
        elif st == "dangling":
            scen.add_parents(tree, p); tree[p] = ("S", 0, b"nowhere")
        elif st == "readonly" and cur:
            tree[p] = ("R", rng.choice([0o444, 0o400, 0o555]), cur[2])
        elif st == "mode" and cur:
            tree[p] = ("R", rng.choice([0o600, 0o755, 0o640, 0o604, 0o4755, 0o1644]), cur[2])
        elif st == "crlf" and cur and b"\r" not in cur[2]:
            tree[p] = ("R", cur[1], cur[2].replace(b"\n", b"\r\n"))
        elif st == "nonl" and cur and cur[2].endswith(b"\n"):
            tree[p] = ("R", cur[1], cur[2][:-1])
        elif st == "top-insert" and cur:
            tree[p] = ("R", cur[1], b"zero\n" * rng.randint(1, 3) + cur[2])
        elif st == "exists-empty":
            scen.add_parents(tree, p); tree[p] = ("R", 0o644, b"")
        elif st == "exists-content":
            scen.add_parents(tree, p); tree[p] = ("R", 0o644, rng.choice([B, b"other\n", A + b"x\n"]))
        x["state"] = st
    # options
    o = s["opts"]
    for _ in range(rng.choice([0, 1, 1, 2, 3, 4])):
        o.update(rng.choice(OPTION_FRAGMENTS))
    # without a terminal every question ends the run (exit status 2): most scenarios answer in advance
    if rng.random() < 0.6 and not (o.get("f") or o.get("t") or o.get("N")):
        o.update(rng.choice([{"f": 1}, {"t": 1}, {"N": 1}, {"f": 1}]))
    if o.get("o") and len(secs) > 1 and rng.random() < 0.7:
        o.pop("o")
    if rng.random() < 0.1 and secs[0]["path"] in tree:
        o["file"] = secs[0]["path"]
    if rng.random() < 0.08:
        o[{"unified": "u", "git": "u", "context": "c", "normal": "n"}[secs[0]["fmt"]]] = 1
    if o.get("B") == "bk/" and rng.random() < 0.5:
        tree["bk"] = ("D", 0o755, b"")
    if o.get("o") == "osub/outfile" and rng.random() < 0.5:
        tree["osub"] = ("D", 0o755, b"")
    if o.get("o") == "outfile" and rng.random() < 0.3:
        tree["outfile"] = ("R", rng.choice([0o644, 0o444, 0o600]), b"previous output\n")
    # neighbours at derived names
    for x in secs:
        for q in (x["path"], x["newpath"]):
            if rng.random() < 0.12:
                scen.add_parents(tree, q); tree.setdefault(q + ".orig", ("R", 0o644, b"old backup\n"))
            if rng.random() < 0.12:
                scen.add_parents(tree, q); tree.setdefault(q + ".rej", rng.choice([("R", 0o644, b"old reject\n"), ("R", 0o444, b"old ro reject\n")]))
    # CRLF patch text
    if rng.random() < 0.08 and "p.diff" in tree and b"\\ No newline" not in tree["p.diff"][2] and b"\r" not in tree["p.diff"][2]:
        tree["p.diff"] = ("R", 0o644, tree["p.diff"][2].replace(b"\n", b"\r\n"))
    s["umask"] = rng.choice([0o022, 0o022, 0o077, 0o002, 0o027])
    return s


def judge_for(prop):
    """the part of a property that can be judged on any scenario whatever"""
    def judge(s, r):
        if prop in ("C04", "C07") and r["exit"] not in (0, 1, 2):
            return "exit status %d" % r["exit"]
        if prop == "C16" and r["tmp_left"]:
            return "temporary files left in TMPDIR: %s" % r["tmp_left"]
        if prop == "C15" and s["opts"].get("dry"):
            before = {p: (k, m, d if k in "RS" else b"") for p, (k, m, d) in s["tree"].items()}
            if tree_no_meta(r["tree"]) != before:
                return "--dry-run changed the tree: " + "; ".join(diff_trees(before, tree_no_meta(r["tree"]))[:3])
        return None
    return judge


def wide_family(run_, exe, rng, n, prop="", label="wide"):
    scns = [wide_scenario(rng) for _ in range(n)]
    def cls(s, r):
        return "%s exit %d" % ("+".join(sorted(set(x["kind"] for x in s["secs"]))), r["exit"])
    _, bad, mism = l2_family(run_, exe, scns, judge_for(prop), cls=cls, label=label)
    run_.cov["wide_scenarios"] = n
    return bad, mism
