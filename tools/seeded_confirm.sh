#!/bin/bash
# seeded_confirm.sh <worktree> <mutation dir> <seeded id>
# Confirms a sub-agent's mutation in its scratch worktree: applies cleanly, compiles, the pinned suite still passes
# (only the 3 baseline always-fail tests may fail), the demo passes without and fails with the change.
# On success copies patch.diff, demo.sh, notes.md into /verif/seeded/<id>/ and writes meta.json.
WT=$1; M=$2; ID=$3
set -u
cd "$WT" || exit 2
git checkout -q -- . 2>/dev/null
rm -rf _build
LOG=/tmp/seeded_confirm_$ID.log; : > $LOG
cmake -G Ninja -B _build -DBUILD_TESTING=ON >> $LOG 2>&1 && cmake --build _build >> $LOG 2>&1 || { echo "$ID: clean build failed"; exit 1; }
cp _build/app/sb_patch /tmp/sb_patch_orig_$ID
bash "$M/demo.sh" /tmp/sb_patch_orig_$ID >> $LOG 2>&1; R0=$?
git apply "$M/patch.diff" >> $LOG 2>&1 || { echo "$ID: patch does not apply"; exit 1; }
cmake --build _build >> $LOG 2>&1 || { echo "$ID: mutated tree does not compile"; git checkout -q -- .; exit 1; }
ctest --test-dir _build -j8 --timeout 900 >> $LOG 2>&1
ctest --test-dir _build --rerun-failed --timeout 900 > /tmp/seeded_ctest_$ID.log 2>&1
F=$(grep -E "\((Failed|Timeout|SEGFAULT|Exception|Subprocess aborted)\)" /tmp/seeded_ctest_$ID.log | sed -E 's/^[[:space:]]*[0-9]+ - //; s/ \(.*//' | sort | tr '\n' ' ')
cp _build/app/sb_patch /tmp/sb_patch_mut_$ID
bash "$M/demo.sh" /tmp/sb_patch_mut_$ID >> $LOG 2>&1; R1=$?
git checkout -q -- .
rm -rf _build /tmp/sb_patch_orig_$ID /tmp/sb_patch_mut_$ID
EXP="compat.read_only_file_fail compat.read_only_file_no_arguments compat.read_only_file_warn "
if [ "$F" != "$EXP" ]; then echo "$ID: suite differs with the change: [$F]"; exit 1; fi
if [ $R0 -ne 0 ]; then echo "$ID: demo fails on the unmodified build (rc=$R0)"; exit 1; fi
if [ $R1 -eq 0 ]; then echo "$ID: demo passes on the mutated build"; exit 1; fi
mkdir -p /verif/seeded/$ID
cp "$M/patch.diff" "$M/demo.sh" /verif/seeded/$ID/
[ -f "$M/notes.md" ] && cp "$M/notes.md" /verif/seeded/$ID/
echo "$ID: confirmed (demo rc $R0 -> $R1; suite = baseline)"
exit 0
