#!/usr/bin/env python3
"""seeded_eval_par.py [-j N] [ids...] — evaluate seeded changes in parallel without touching /repo's working tree: every change
gets its own git worktree of /repo's HEAD (with the change applied) and its own copy of /verif; the copy's ./check runs with
VERIF_REPO pointing at that worktree.  Writes seeded/<id>/result.json (in the real /verif) and prints one line per change.
(A C19 change regenerates coq/OptionsTable.v: in its own copy of coq/, like everything else.)"""
import concurrent.futures, json, os, shutil, subprocess, sys
V = os.path.dirname(os.path.dirname(os.path.abspath(__file__)))
args = sys.argv[1:]
J = 3
if args and args[0] == "-j":
    J = int(args[1]); args = args[2:]
ids = args or sorted(os.listdir(os.path.join(V, "seeded")))
RW, VW = "/var/tmp/rw", "/var/tmp/vw"
os.makedirs(RW, exist_ok=True); os.makedirs(VW, exist_ok=True)


def one(i):
    d = os.path.join(V, "seeded", i)
    if not os.path.isdir(d):
        return None
    prop = i.split("-")[0]
    rw, vw = os.path.join(RW, i), os.path.join(VW, i)
    subprocess.run(["git", "-C", "/repo", "worktree", "remove", "--force", rw], capture_output=True)
    shutil.rmtree(rw, ignore_errors=True); shutil.rmtree(vw, ignore_errors=True)
    try:
        subprocess.run(["git", "-C", "/repo", "worktree", "add", "-q", "--detach", rw, "HEAD"], check=True, capture_output=True)
        a = subprocess.run(["git", "-C", rw, "apply", os.path.join(d, "patch.diff")], capture_output=True)
        if a.returncode != 0:
            # the change was written against an earlier HEAD: three-way merge as long as it is clean
            a = subprocess.run(["git", "-C", rw, "apply", "-3", os.path.join(d, "patch.diff")], capture_output=True)
            if a.returncode == 0 and subprocess.run(["git", "-C", rw, "diff", "--name-only", "--diff-filter=U"], capture_output=True).stdout.strip():
                a = subprocess.CompletedProcess(a.args, 1, b"", b"three-way merge with conflicts")
        if a.returncode != 0:
            json.dump(dict(id=i, applies=False), open(os.path.join(d, "result.json"), "w"))
            return "%s: patch does not apply to the current HEAD (%s)" % (i, a.stderr.decode()[:120].replace("\n", " "))
        subprocess.run(["rsync", "-a", "--exclude", ".git", "--exclude", "replays", V + "/", vw + "/"], check=True)
        env = dict(os.environ, VERIF_REPO=rw)
        r = subprocess.run([os.path.join(vw, "check"), prop, "--tier", "quick"], capture_output=True, cwd=vw, env=env)
        out = r.stdout.decode()
        viol = [l for l in out.splitlines() if l.startswith("VIOLATION")]
        last = out.strip().splitlines()[-1] if out.strip() else r.stderr.decode()[-200:]
        det = r.returncode != 0
        conc = det and any("no-failing-input-found" not in v for v in viol)
        first_desc = ""
        if viol:
            try:
                rp = json.load(open(os.path.join(vw, viol[0].split("replay=")[1].split()[0])))
                first_desc = rp.get("description", "")[:200]
            except Exception:
                pass
        json.dump(dict(id=i, applies=True, how="worktree", results={prop: dict(rc=r.returncode, violations=viol[:3], last=last, first=first_desc)},
                       detected=det, concrete=conc), open(os.path.join(d, "result.json"), "w"), indent=1)
        return "%s: %s (%s) %s | %s" % (i, "DETECTED" if det else "MISSED", "concrete input" if conc else ("no-failing-input-found" if det else "-"), last[:90], first_desc[:110])
    finally:
        subprocess.run(["git", "-C", "/repo", "worktree", "remove", "--force", rw], capture_output=True)
        shutil.rmtree(rw, ignore_errors=True); shutil.rmtree(vw, ignore_errors=True)


with concurrent.futures.ThreadPoolExecutor(max_workers=J) as ex:
    for line in ex.map(one, ids):
        if line:
            print(line, flush=True)
