#!/usr/bin/env python3
"""seeded_eval.py [ids...] — apply each seeded mutation to /repo, run the check of its property (quick tier), undo.
Writes seeded/<id>/result.json and prints one line per mutation."""
import json, os, subprocess, sys
V = os.path.dirname(os.path.dirname(os.path.abspath(__file__)))
ids = sys.argv[1:] or sorted(os.listdir(os.path.join(V, "seeded")))
for i in ids:
    d = os.path.join(V, "seeded", i)
    if not os.path.isdir(d):
        continue
    prop = i.split("-")[0]
    subprocess.run(["git", "-C", "/repo", "checkout", "--", "."], check=True)
    a = subprocess.run(["git", "-C", "/repo", "apply", os.path.join(d, "patch.diff")], capture_output=True)
    how = "git apply"
    if a.returncode != 0:
        a = subprocess.run(["git", "-C", "/repo", "apply", "-3", os.path.join(d, "patch.diff")], capture_output=True)
        how = "git apply -3"
        subprocess.run(["git", "-C", "/repo", "reset", "-q"], check=False)
    if a.returncode != 0:
        print("%s: patch does not apply to the current HEAD (%s)" % (i, a.stderr.decode()[:120].replace("\n", " ")))
        json.dump(dict(id=i, applies=False), open(os.path.join(d, "result.json"), "w"))
        subprocess.run(["git", "-C", "/repo", "checkout", "--", "."], check=True)
        continue
    props = [prop] + [p for p in os.environ.get("ALSO", "").split(",") if p]
    res = {}
    for p in props:
        r = subprocess.run([os.path.join(V, "check"), p, "--tier", "quick"], capture_output=True, cwd=V)
        out = r.stdout.decode()
        viol = [l for l in out.splitlines() if l.startswith("VIOLATION")]
        res[p] = dict(rc=r.returncode, violations=viol[:3], last=out.strip().splitlines()[-1] if out.strip() else "")
    subprocess.run(["git", "-C", "/repo", "checkout", "--", "."], check=True)
    det = res[prop]["rc"] != 0
    conc = det and any("no-failing-input-found" not in v for v in res[prop]["violations"])
    print("%s: %s (%s) %s" % (i, "DETECTED" if det else "MISSED", "concrete input" if conc else ("no-failing-input-found" if det else "-"), res[prop]["last"][:100]))
    json.dump(dict(id=i, applies=True, how=how, results=res, detected=det, concrete=conc), open(os.path.join(d, "result.json"), "w"), indent=1)
