#!/usr/bin/env python3
"""gen.py — seeded generators for files, hunks, drifted targets. Every random choice comes from the one
random.Random instance passed in, so a (seed, index) pair replays exactly."""
import random

TEXTS = ["a", "b", "c", "d", "", "a b", "a  b", "a\tb", " a", "\ta", "a ", "a\t ", "  ", "x", "#x", "--- q", "+++ q",
         "@@ -1 +1 @@", "*** 1 ****", "\\ x", "a\rb", "< a", "> a", "---", "***************", "1c1", "ab", "ba",
         "a\x00b", "\x00", "\xe9\x80z", "\x1b[0m"]
SMALL = ["a", "b", "c"]
# comment-style content (SQL, Lua, Haskell ...): a removed line "-- x" reads "--- x" in a unified hunk, an added "++ x" reads "+++ x",
# a changed "* x" / "** x" reads "! ** x" in a context hunk; the words are names that exist in the scenario trees
DASHY = ["-- f", "-- t", "-- g.txt helpers", "++ f", "-- a/t\t2024", "** 1,2 ****", "-- 1 ----", "a", "b", "--", "++"]


def rand_text(rng, small=False):
    if small or rng.random() < 0.7:
        return rng.choice(SMALL)
    return rng.choice(TEXTS)


def rand_file(rng, maxlen=12, small=False, crlf=0.1, nonl=0.15):
    n = rng.choice([0, 1, 2, 3]) if rng.random() < 0.25 else rng.randint(0, maxlen)
    mode = rng.random()
    dashy = rng.random() < 0.06
    ls = []
    for i in range(n):
        t = rng.choice(DASHY) if dashy else rand_text(rng, small)
        if mode < crlf:
            nl = "C"
        elif mode < 2 * crlf:
            nl = rng.choice("LC")
        else:
            nl = "L"
        ls.append((t, nl))
    # repeated blocks make "the same text occurs elsewhere" frequent
    if n >= 2 and rng.random() < 0.4:
        i = rng.randrange(n)
        j = rng.randint(i + 1, min(n, i + 3))
        k = rng.randint(0, len(ls))
        ls[k:k] = ls[i:j]
    if ls and rng.random() < nonl:
        t, _ = ls[-1]
        ls[-1] = (t if t else "z", "N")
    return ls


def edit_script(rng, a, density=0.3):
    """Return b and an op list [(op, line)] op in ' ', '-', '+', transforming a into b."""
    ops = []
    for l in a:
        r = rng.random()
        if r < density / 2:
            ops.append(("-", l))
        elif r < density:
            ops.append(("-", l))
            ops.append(("+", (rand_text(rng), "L")))
        else:
            ops.append((" ", l))
        if rng.random() < density / 3:
            ops.append(("+", (rand_text(rng), "L")))
    if not a and rng.random() < 0.7:
        ops.append(("+", (rand_text(rng), "L")))
    return ops


def hunks_from_ops(ops, ctxw, rng=None):
    """Group an op list into unified-style hunks with context width ctxw (like diff -U ctxw).
    Returns hunks as dicts {os, oc, ns, nc, body}; line numbers 1-based, 'line before' when a side is empty."""
    n = len(ops)
    change = [i for i, (o, _) in enumerate(ops) if o != " "]
    if not change:
        return []
    groups = []
    cur = [change[0], change[0]]
    for i in change[1:]:
        # context lines between cur end and i
        gap = sum(1 for k in range(cur[1] + 1, i) if ops[k][0] == " ")
        if gap <= 2 * ctxw:
            cur[1] = i
        else:
            groups.append(cur)
            cur = [i, i]
    groups.append(cur)
    hunks = []
    for s, e in groups:
        # extend by ctxw context lines
        lo = s
        c = 0
        while lo > 0 and c < ctxw:
            lo -= 1
            c += 1
        hi = e
        c = 0
        while hi < n - 1 and c < ctxw:
            hi += 1
            c += 1
        body = ops[lo:hi + 1]
        oa = sum(1 for o, _ in ops[:lo] if o != "+")
        na = sum(1 for o, _ in ops[:lo] if o != "-")
        oc = sum(1 for o, _ in body if o != "+")
        nc = sum(1 for o, _ in body if o != "-")
        hunks.append(dict(os=oa + 1 if oc else oa, oc=oc, ns=na + 1 if nc else na, nc=nc,
                          body=[(o, t, nl) for o, (t, nl) in body]))
    return hunks


def apply_ops(ops):
    return [l for o, l in ops if o != "-"]


def drift(rng, f, strength=0.3):
    """Drift a file: insert / delete / alter lines, duplicate blocks."""
    g = list(f)
    k = rng.randint(0, 3) if rng.random() < strength * 2 else 0
    for _ in range(k):
        r = rng.random()
        pos = rng.randint(0, len(g))
        if r < 0.35:
            g.insert(pos, (rand_text(rng), "L"))
        elif r < 0.6 and g:
            del g[min(pos, len(g) - 1)]
        elif r < 0.8 and g:
            p = min(pos, len(g) - 1)
            g[p] = (rand_text(rng), g[p][1])
        elif g:
            i = rng.randrange(len(g))
            j = rng.randint(i + 1, min(len(g), i + 3))
            g[pos:pos] = g[i:j]
    # keep "no newline" only on the last line
    g = [(t, ("L" if (nl == "N" and i != len(g) - 1) else nl)) for i, (t, nl) in enumerate(g)]
    return g


def rand_body(rng, maxlen=6, small=True):
    n = rng.randint(1, maxlen)
    body = []
    for i in range(n):
        o = rng.choice(" -+  ")
        body.append((o, rand_text(rng, small), "L"))
    return body


def hunk_of_body(body, os_, ns_=None):
    oc = sum(1 for o, _, _ in body if o != "+")
    nc = sum(1 for o, _, _ in body if o != "-")
    return dict(os=os_, oc=oc, ns=os_ if ns_ is None else ns_, nc=nc, body=body)
