#!/usr/bin/env python3
"""Regenerates MANIFEST.json from the table below (kept valid at all times)."""
import json, os
HERE = os.path.dirname(os.path.dirname(os.path.abspath(__file__)))
COMMON_NOTE = ("Trusted: Coq 8.16.1 kernel (vm_compute, no native_compute, no axioms: every theorem prints 'Closed under the global context'); "
               "extraction via ExtrOcamlBasic only; the hand-written Gallina model is tied to /repo's working tree by the correspondence runs "
               "(differential testing through harness/l1_harness.cpp and whole-program runs), not by a refinement proof. ")
PROOF = "Coq proof over the hand-written Gallina model + extracted-model correspondence + property oracle on the implementation"
CORR = "property oracle on whole-program / library runs + correspondence with the extracted Gallina model (theorems for this property are being added)"
CHECKS = {
 "C01": dict(cat="proof", text="apply_conforming: for every conforming hunk list (any producer, context width, grouping) apply_patch on A yields exactly B, every hunk at its stated line, nothing rejected, no message - for all options without -R/-D/--verbose. Tied by L1 APPLY runs, L2 trees with the independent emitter (all formats, git create/delete/rename/copy/mode, strip levels, stdin) and real GNU diff / git diff output.", ref="DESIGN.md 5 C01", technique=PROOF, note="byte-level parser round trip is tied by correspondence (PARSE) only so far."),
 "C02": dict(cat="proof", text="locate_sound / matches_spec / matches_ws_spec / ignored_lines_are_context / model_meets_spec_C02 over all files, hunks, -F, -l, cursors; apply-level placements judged by the extracted oracle spec_apply on the implementation's verbose report.", ref="DESIGN.md 5 C02", technique=PROOF, note=""),
 "C03": dict(cat="proof", text="locate_complete, locate_min_fuzz, locate_exact_at_stated, insertion_at_stated, model_meets_spec_C03; tie as C02.", ref="DESIGN.md 5 C03", technique=PROOF, note=""),
 "C04": dict(cat="proof", text="apply_patch_replay: the output is the replay of a verdict list over the hunks (nothing lost, duplicated, half applied), failed = number of rejected verdicts; apply_patch_verdicts / verdicts_are_admissible. Exit status, reject file existence and counts judged on whole-program runs.", ref="DESIGN.md 5 C04", technique=PROOF, note="the exit status equation of the driver is judged on runs and tied to Driver.v by correspondence, not yet a theorem."),
 "C05": dict(cat="proof", text="reverse_hunk_involutive, conforming_reverse, apply_reverse (a diff of A to B applied with -R to B gives exactly A); apply-then-reverse histories on whole trees incl. create/delete/rename.", ref="DESIGN.md 5 C05", technique=PROOF, note="driver-level create/delete/rename reversal is judged on runs + correspondence."),
 "C06": dict(cat="exploration", text="two-step histories apply / re-apply with -N, -t, -f judged on whole-program runs; Driver.v + Applier.v tied by correspondence.", ref="DESIGN.md 5 C06", technique=CORR, note=""),
 "C07": dict(cat="exploration", text="ASan+UBSan build of the library and of the program on grammar-aware / blind mutations, extreme numbers, option mixes: no report, no signal, exit in {0,1,2}, diagnostic on 2; model class compared.", ref="DESIGN.md 5 C07", technique=CORR + " (sanitizer flavour)", note="partial: the standard library's own memory safety and code outside the model are only exercised."),
 "C08": dict(cat="exploration", text="crafted and mutated patches <= 4 KiB with numbers up to 2^63-1, repeated/bodiless headers: termination within a fixed time and bounded output; model compared.", ref="DESIGN.md 5 C08", technique=CORR, note="partial: wall-clock limit, not an instruction count."),
 "C09": dict(cat="exploration", text="a syntax error at every line of multi-file streams (exit 2 => every file original or after a whole number of hunks); SIGKILL before every system call touching the scenario (rename source intact or destination complete; with -b original at path or backup path).", ref="DESIGN.md 5 C09", technique=CORR + " + strace kill injection", note="partial: crash points at system-call granularity."),
 "C10": dict(cat="exploration", text="every read/write/open/rename/unlink/chmod/mkdir/symlink/rmdir of the fault-free run that touches the scenario, failed once with EIO/ENOSPC/EACCES: exit 2 with a diagnostic, or identical to the fault-free run.", ref="DESIGN.md 5 C10", technique=CORR + " + strace fault injection", note="partial: stdio buffering is exercised, not modelled."),
 "C11": dict(cat="exploration", text="streams of 1-4 sections in mixed formats with filler: parsing the concatenation = parsing the sections one by one, filler irrelevant; Parser.v tied on valid and mutated streams.", ref="DESIGN.md 5 C11", technique=CORR, note=""),
 "C12": dict(cat="exploration", text="strip_path / parse_quoted_string / parse_file_line against an independent specification, exhaustively over {a,/}-paths and randomly over byte names; candidate order old/new/Index on trees.", ref="DESIGN.md 5 C12", technique=CORR, note=""),
 "C13": dict(cat="exploration", text="hunks written as unified / context rejects and read back denote the same change; reject files of real runs hold exactly the failed hunks, shifted, and are readable by this tool and by GNU patch.", ref="DESIGN.md 5 C13", technique=CORR, note=""),
 "C14": dict(cat="exploration", text="get_line classification exhaustively over {x,CR,LF} strings; LineWriter over all (mode x terminator) cases; conforming patches over LF/CRLF/mixed files under the four modes; final newline rule.", ref="DESIGN.md 5 C14", technique=CORR, note=""),
 "C15": dict(cat="exploration", text="--dry-run: tree, modes and mtimes unchanged, nothing created, TMPDIR empty; exit status and per-hunk verdicts equal those of the real run on the same state.", ref="DESIGN.md 5 C15", technique=CORR, note=""),
 "C16": dict(cat="exploration", text="bystander files (same basename elsewhere, same prefix, old .orig/.rej): only targets, their rejects/backups and created/emptied parents change; no temporary left.", ref="DESIGN.md 5 C16", technique=CORR, note=""),
 "C17": dict(cat="exploration", text="modes preserved (or exactly the git new mode) with/without backup, rename/copy; refusals (read-only+fail, non-regular target, Prereq under --batch) leave bytes and mode untouched with non-zero status.", ref="DESIGN.md 5 C17", technique=CORR, note="runs as user nobody for real permission semantics."),
 "C18": dict(cat="exploration", text="backup exists iff due, holds the pre-run bytes, named per -B/-z, pre-existing files untouched when none is due.", ref="DESIGN.md 5 C18", technique=CORR, note=""),
 "C19": dict(cat="exploration", text="option table regenerated from options.cpp on every run (translator); every option x every spelling x every unambiguous prefix x bundles x operand positions give identical option records; bad command lines rejected with status 2 and no file touched; Cmdline.v compared on all.", ref="DESIGN.md 5 C19", technique="translator (gen_options_table.py) + " + CORR, note=""),
 "C20": dict(cat="exploration", text="-D output evaluated by an independent #ifdef evaluator with SYM defined / undefined equals new / original, balanced, common lines once; Applier.v tied.", ref="DESIGN.md 5 C20", technique=CORR, note=""),
}
PENDING = {}
for i in range(1, 21):
    pid = "C%02d" % i
    if pid not in CHECKS:
        PENDING[pid] = "check under construction in this round (model/proofs not yet registered); see DESIGN.md section 5 for the planned theorems"

def main():
    checks = []
    for pid, c in sorted(CHECKS.items()):
        checks.append(dict(
            property_id=pid,
            quick_cmd="./check %s --tier quick" % pid,
            thorough_cmd="./check %s --tier thorough" % pid,
            evidence_file="evidence/%s.json" % pid,
            replay_cmd_template="./check %s --replay {path}" % pid,
            engine="coq-model+correspondence",
            level_claimed=dict(category=c["cat"], text=c["text"], design_ref=c["ref"]),
            level_note=COMMON_NOTE + c["note"],
            technique=c["technique"]))
    m = dict(
        version=1,
        setup_cmd="./setup.sh",
        hooks=dict(guard="PATCH_VERIF_HOOKS", enable="tools/build_repo.sh hooks  (g++ -DPATCH_VERIF_HOOKS over /repo's working tree)",
                   baseline_off_cmd="tools/run_baseline.sh", source_commits=[], add_only=True),
        engines=[dict(name="coq-model+correspondence", path="coq/ ocaml/ harness/ tools/",
                      serves_properties=sorted(CHECKS), kind_free_text="Coq 8.16 proofs over a hand-written Gallina model; extracted OCaml model vs. libpatch.a / sb_patch differential runs; extracted Gallina oracles")],
        checks=checks,
        notes="All checks: ./check <id> --tier quick|thorough, seed from VERIF_SEED. Known findings: known_findings.txt.",
        not_applicable=[dict(property_id=p, reason=r) for p, r in sorted(PENDING.items())])
    json.dump(m, open(os.path.join(HERE, "MANIFEST.json"), "w"), indent=1)

if __name__ == "__main__":
    main()
