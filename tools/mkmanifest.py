#!/usr/bin/env python3
"""Regenerates MANIFEST.json from the table below (kept valid at all times)."""
import json, os
HERE = os.path.dirname(os.path.dirname(os.path.abspath(__file__)))
COMMON_NOTE = ("Trusted: Coq 8.16.1 kernel (vm_compute, no native_compute, no axioms: every theorem prints 'Closed under the global context'); "
               "extraction via ExtrOcamlBasic only; the hand-written Gallina model is tied to /repo's working tree by the correspondence runs "
               "(differential testing through harness/l1_harness.cpp and whole-program runs), not by a refinement proof. ")
CHECKS = {
 "C02": dict(
   text="Theorems over the model of locate_hunk/matches (all files, hunks, -F, -l, cursors): every placement is Admissible (not before the cursor, fuzz <= -F and <= context carried, non-ignored old lines match, -l relation = equality of norm_ws); the executable oracle spec_C02 is proved sound and proved to hold of the model; model tied to the code by L1 differential runs (random + exhaustive small scope) and the oracle is run on the implementation's answers.",
   ref="DESIGN.md 5 C02", technique="Coq proof (induction over scans/fuzz levels; two-cursor loop vs norm_ws) + L1 correspondence + extracted oracle",
   note="apply-level partition of output lines is tied by correspondence (APPLY cases) and stated in Properties_C04."),
 "C03": dict(
   text="Theorems: locate_complete (any admissible placement within -F => not rejected), locate_min_fuzz, locate_exact_at_stated, insertion_at_stated, and model_meets_spec_C03 for the executable oracle; tie as C02.",
   ref="DESIGN.md 5 C03", technique="Coq proof (forward+backward scans enumerate exactly [cursor, size)) + L1 correspondence + extracted oracle",
   note=""),
}
PENDING = {}
for i in range(1, 21):
    pid = "C%02d" % i
    if pid not in CHECKS:
        PENDING[pid] = "check under construction in this round (model/proofs not yet registered); see DESIGN.md section 5 for the planned theorems"

def main():
    checks = []
    for pid, c in sorted(CHECKS.items()):
        checks.append(dict(
            property_id=pid,
            quick_cmd="./check %s --tier quick" % pid,
            thorough_cmd="./check %s --tier thorough" % pid,
            evidence_file="evidence/%s.json" % pid,
            replay_cmd_template="./check %s --replay {path}" % pid,
            engine="coq-model+correspondence",
            level_claimed=dict(category="proof", text=c["text"], design_ref=c["ref"]),
            level_note=COMMON_NOTE + c["note"],
            technique=c["technique"]))
    m = dict(
        version=1,
        setup_cmd="./setup.sh",
        hooks=dict(guard="PATCH_VERIF_HOOKS", enable="tools/build_repo.sh hooks  (g++ -DPATCH_VERIF_HOOKS over /repo's working tree)",
                   baseline_off_cmd="tools/run_baseline.sh", source_commits=[], add_only=True),
        engines=[dict(name="coq-model+correspondence", path="coq/ ocaml/ harness/ tools/",
                      serves_properties=sorted(CHECKS), kind_free_text="Coq 8.16 proofs over a hand-written Gallina model; extracted OCaml model vs. libpatch.a / sb_patch differential runs; extracted Gallina oracles")],
        checks=checks,
        notes="All checks: ./check <id> --tier quick|thorough, seed from VERIF_SEED. Known findings: known_findings.txt.",
        not_applicable=[dict(property_id=p, reason=r) for p, r in sorted(PENDING.items())])
    json.dump(m, open(os.path.join(HERE, "MANIFEST.json"), "w"), indent=1)

if __name__ == "__main__":
    main()
