#!/usr/bin/env python3
"""Regenerates the status tables of DESIGN.md (between the STATUS markers) from the THEOREMS tables of the check
modules, MANIFEST.json and seeded/*/meta.json + result.json."""
import json, os, re, sys, importlib
HERE = os.path.dirname(os.path.dirname(os.path.abspath(__file__)))
sys.path.insert(0, os.path.join(HERE, "tools")); sys.path.insert(0, os.path.join(HERE, "tools", "checks"))

def theorems():
    out = {}
    for mod in ("c01", "locate", "l2props", "robust", "faults", "c11", "l1props", "c19"):
        m = importlib.import_module(mod)
        t = getattr(m, "THEOREMS", None)
        if isinstance(t, dict):
            for k, v in t.items():
                out.setdefault(k, []).extend(v)
        elif isinstance(t, list):
            pid = {"c01": "C01", "c11": "C11", "c19": "C19"}[mod]
            out.setdefault(pid, []).extend(t)
    return out

def main():
    th = theorems()
    man = json.load(open(os.path.join(HERE, "MANIFEST.json")))
    cat = {c["property_id"]: c["level_claimed"]["category"] for c in man["checks"]}
    titles = {}
    for l in open(os.path.join(HERE, "properties.jsonl")):
        d = json.loads(l); titles[d["id"]] = d["title"]
    seeded = {}
    sd = os.path.join(HERE, "seeded")
    for d in sorted(os.listdir(sd)):
        mp = os.path.join(sd, d, "meta.json")
        if not os.path.exists(mp):
            continue
        meta = json.load(open(mp))
        seeded.setdefault(meta["breaks_property"], []).append((d, meta))
    L = []
    L.append("| id | level | theorems (Properties_<id>.v) | seeded changes: caught / kept |")
    L.append("|---|---|---|---|")
    for i in range(1, 21):
        pid = "C%02d" % i
        ms = seeded.get(pid, [])
        valid = [m for _, m in ms if not m.get("status", "").startswith("obsolete")]
        caught = [m for m in valid if m.get("detected_by_check")]
        L.append("| %s | %s | %s | %d / %d |" % (pid, cat.get(pid, "-"), ", ".join("`%s`" % t for t in th.get(pid, [])) or "none (exploration + model correspondence)", len(caught), len(valid)))
    L.append("")
    L.append("Seeded changes (each written by a sub-agent that saw only the property text and a scratch clone; kept only after "
             "`tools/seeded_confirm.sh` confirmed: applies, compiles, suite = baseline, its demo passes without and fails with the change):")
    L.append("")
    L.append("| change | needs, in order to manifest | caught by `./check <id>` | how | when first evaluated |")
    L.append("|---|---|---|---|---|")
    for pid in sorted(seeded):
        for d, m in seeded[pid]:
            if m.get("status", "").startswith("obsolete"):
                how = "obsolete: " + m["status"][9:].strip()
                c = "n/a"
            else:
                c = "yes" if m.get("detected_by_check") else "NO"
                how = ("concrete failing input in the replay file" if m.get("concrete_failing_input") else
                       ("broken correspondence, no-failing-input-found" if m.get("detected_by_check") else "missed"))
            first = m.get("detected_before_strengthening")
            firsts = "-" if first is None else ("caught" if first else "missed; added: " + m.get("strengthening", ""))
            L.append("| %s | %s | %s | %s | %s |" % (d, m.get("needs_to_manifest", "").replace("|", "/"), c, how, firsts.replace("|", "/")))
    block = "\n".join(L)
    p = os.path.join(HERE, "DESIGN.md")
    s = open(p).read()
    b, e = "<!-- STATUS:BEGIN -->", "<!-- STATUS:END -->"
    if b in s and e in s:
        s = s[:s.index(b) + len(b)] + "\n" + block + "\n" + s[s.index(e):]
        open(p, "w").write(s)
    else:
        print(block)

if __name__ == "__main__":
    main()
