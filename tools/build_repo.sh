#!/bin/bash
# Build /repo's *current working tree* (never git HEAD) into a scratch dir keyed by a content hash.
# usage: build_repo.sh <flavour>   flavour = plain | hooks | asan
# prints the build dir on stdout; exit != 0 (and log path on stderr) when the tree does not build.
set -u
FLAV=${1:-plain}
REPO=${VERIF_REPO:-/repo}
ROOT=/var/tmp/verif-build
mkdir -p $ROOT
H=$( (cd $REPO && cat $(find src include app -type f | LC_ALL=C sort) CMakeLists.txt; echo $FLAV) | sha1sum | cut -c1-16)
D=$ROOT/$FLAV-$H
if [ -f $D/ok ]; then touch $D/ok; echo $D; exit 0; fi
# drop stale builds of this flavour (keep disk small)
find $ROOT -maxdepth 1 -name "$FLAV-*" -mmin +30 -exec rm -rf {} + 2>/dev/null
rm -rf $D; mkdir -p $D
case $FLAV in
  plain) CXX=g++;      FLAGS="-std=c++11 -O1 -g0";;
  hooks) CXX=g++;      FLAGS="-std=c++11 -O1 -g0 -DPATCH_VERIF_HOOKS";;
  asan)  CXX=clang++;  FLAGS="-std=c++11 -O1 -g -fsanitize=address,undefined -fno-sanitize-recover=all -fno-omit-frame-pointer -D_GLIBCXX_ASSERTIONS";;
  *) echo "unknown flavour" >&2; exit 2;;
esac
echo "$CXX $FLAGS" > $D/flags
( cd $REPO && ls src/*.cpp app/main.cpp | xargs -P 16 -I{} sh -c "$CXX $FLAGS -I$REPO/include -c {} -o $D/\$(basename {} .cpp).o" ) > $D/build.log 2>&1
if [ $? -ne 0 ]; then echo "BUILD FAILED: $D/build.log" >&2; exit 1; fi
( cd $D && ar rcs libpatch.a $(ls *.o | grep -v '^main.o$') && $CXX $FLAGS main.o libpatch.a -o sb_patch ) >> $D/build.log 2>&1
if [ $? -ne 0 ]; then echo "BUILD FAILED: $D/build.log" >&2; exit 1; fi
touch $D/ok
echo $D
