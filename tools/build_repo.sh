#!/bin/bash
# Build /repo's *current working tree* (never git HEAD) into a scratch dir keyed by a content hash.
# usage: build_repo.sh <flavour>   flavour = plain | hooks | asan
# prints the build dir on stdout; exit != 0 (and log path on stderr) when the tree does not build.
set -u
FLAV=${1:-plain}
REPO=${VERIF_REPO:-/repo}
ROOT=/var/tmp/verif-build
mkdir -p $ROOT
H=$( (cd $REPO && cat $(find src include app -type f | LC_ALL=C sort) CMakeLists.txt; echo $FLAV) | sha1sum | cut -c1-16)
D=$ROOT/$FLAV-$H
if [ -f $D/ok ]; then touch $D/ok $D; echo $D; exit 0; fi
# drop builds of this flavour that nobody has asked for in the last 6 hours (a long run may still be using a younger one)
for old in $ROOT/$FLAV-*; do
  [ -d "$old" ] || continue
  if [ -z "$(find "$old" -maxdepth 1 -name ok -mmin -360 2>/dev/null)" ] && [ -z "$(find "$old" -maxdepth 0 -mmin -60 2>/dev/null)" ]; then rm -rf "$old"; fi
done
# build in a private directory and move it into place: two runs asking for the same tree do not disturb each other
FINAL=$D
D=$ROOT/.tmp-$FLAV-$H-$$
rm -rf $D; mkdir -p $D
case $FLAV in
  plain) CXX=g++;      FLAGS="-std=c++11 -O1 -g0";;
  hooks) CXX=g++;      FLAGS="-std=c++11 -O1 -g0 -DPATCH_VERIF_HOOKS";;
  asan)  CXX=clang++;  FLAGS="-std=c++11 -O1 -g -fsanitize=address,undefined -fno-sanitize-recover=all -fno-omit-frame-pointer -D_GLIBCXX_ASSERTIONS";;
  *) echo "unknown flavour" >&2; exit 2;;
esac
echo "$CXX $FLAGS" > $D/flags
( cd $REPO && ls src/*.cpp app/main.cpp | xargs -P 16 -I{} sh -c "$CXX $FLAGS -I$REPO/include -c {} -o $D/\$(basename {} .cpp).o" ) > $D/build.log 2>&1
if [ $? -ne 0 ]; then echo "BUILD FAILED: $D/build.log" >&2; exit 1; fi
( cd $D && ar rcs libpatch.a $(ls *.o | grep -v '^main.o$') && $CXX $FLAGS main.o libpatch.a -o sb_patch ) >> $D/build.log 2>&1
if [ $? -ne 0 ]; then echo "BUILD FAILED: $D/build.log" >&2; exit 1; fi
touch $D/ok
if [ -f $FINAL/ok ]; then rm -rf $D; else rm -rf $FINAL; mv $D $FINAL 2>/dev/null || rm -rf $D; fi
echo $FINAL
