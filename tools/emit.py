#!/usr/bin/env python3
"""emit.py — an independent diff producer (python): unified, context, normal and git-style output from an
edit script. Used beside GNU diff and git diff as the third producer. Lines are (text, nl) with nl in L/C/N."""

MARK = b"\\ No newline at end of file\n"


def lb(t, nl):
    """bytes of a line as it appears inside a diff body (without op prefix)"""
    t = t.encode("latin-1") if isinstance(t, str) else t
    if nl == "C":
        return t + b"\r\n"
    if nl == "N":
        return t + b"\n" + MARK
    return t + b"\n"


def file_bytes(ls):
    out = b""
    for t, nl in ls:
        t = t.encode("latin-1") if isinstance(t, str) else t
        out += t + (b"\n" if nl == "L" else b"\r\n" if nl == "C" else b"")
    return out


def urange(s, c):
    return ("%d" % s) if c == 1 else "%d,%d" % (s, c)


def emit_unified_hunks(hs):
    out = b""
    for h in hs:
        # (diff -p / -F: the name of the function the hunk is in follows the range)
        out += ("@@ -%s +%s @@%s\n" % (urange(h["os"], h["oc"]), urange(h["ns"], h["nc"]), (" " + h["heading"]) if h.get("heading") else "")).encode("latin-1")
        for o, t, nl in h["body"]:
            out += o.encode() + lb(t, nl)
    return out


def emit_unified(a, b, hs, ta=None, tb=None):
    out = ("--- %s%s\n+++ %s%s\n" % (a, "\t" + ta if ta else "", b, "\t" + tb if tb else "")).encode("latin-1")
    return out + emit_unified_hunks(hs)


def crange(s, c):
    if c == 0:
        return "%d" % s
    return ("%d" % s) if c == 1 else "%d,%d" % (s, s + c - 1)


def groups(body):
    """split a hunk body into runs: ('ctx', lines) / ('chg', dels, adds)"""
    res = []
    i = 0
    while i < len(body):
        if body[i][0] == " ":
            j = i
            while j < len(body) and body[j][0] == " ":
                j += 1
            res.append(("ctx", body[i:j]))
            i = j
        else:
            j = i
            while j < len(body) and body[j][0] != " ":
                j += 1
            run = body[i:j]
            res.append(("chg", [x for x in run if x[0] == "-"], [x for x in run if x[0] == "+"]))
            i = j
    return res


def emit_context_hunks(hs):
    out = b""
    for h in hs:
        out += b"***************" + ((" " + h["heading"]).encode("latin-1") if h.get("heading") else b"") + b"\n"
        old, new = [], []
        has_old_change = has_new_change = False
        for g in groups(h["body"]):
            if g[0] == "ctx":
                for _, t, nl in g[1]:
                    old.append((" ", t, nl)); new.append((" ", t, nl))
            else:
                dels, adds = g[1], g[2]
                if dels and adds:
                    old += [("!", t, nl) for _, t, nl in dels]; new += [("!", t, nl) for _, t, nl in adds]
                    has_old_change = has_new_change = True
                elif dels:
                    old += [("-", t, nl) for _, t, nl in dels]; has_old_change = True
                else:
                    new += [("+", t, nl) for _, t, nl in adds]; has_new_change = True
        out += ("*** %s ****\n" % crange(h["os"], h["oc"])).encode()
        if has_old_change:
            for o, t, nl in old:
                out += o.encode() + b" " + lb(t, nl)
        out += ("--- %s ----\n" % crange(h["ns"], h["nc"])).encode()
        if has_new_change:
            for o, t, nl in new:
                out += o.encode() + b" " + lb(t, nl)
    return out


def emit_context(a, b, hs, ta=None, tb=None):
    out = ("*** %s%s\n--- %s%s\n" % (a, "\t" + ta if ta else "", b, "\t" + tb if tb else "")).encode("latin-1")
    return out + emit_context_hunks(hs)


def emit_normal(ops):
    """normal format from a whole edit script [(op, (t, nl))]"""
    out = b""
    oa = na = 0   # lines of old / new before the current position
    i = 0
    while i < len(ops):
        if ops[i][0] == " ":
            oa += 1; na += 1; i += 1
            continue
        j = i
        while j < len(ops) and ops[j][0] != " ":
            j += 1
        dels = [l for o, l in ops[i:j] if o == "-"]
        adds = [l for o, l in ops[i:j] if o == "+"]

        def nr(start, n):
            return "%d" % start if n == 1 else "%d,%d" % (start, start + n - 1)
        if dels and adds:
            out += ("%sc%s\n" % (nr(oa + 1, len(dels)), nr(na + 1, len(adds)))).encode()
        elif dels:
            out += ("%sd%d\n" % (nr(oa + 1, len(dels)), na)).encode()
        else:
            out += ("%da%s\n" % (oa, nr(na + 1, len(adds)))).encode()
        for t, nl in dels:
            out += b"< " + lb(t, nl)
        if dels and adds:
            out += b"---\n"
        for t, nl in adds:
            out += b"> " + lb(t, nl)
        oa += len(dels); na += len(adds)
        i = j
    return out


def cquote(name):
    """C-style quoting as git / GNU diff emit it"""
    b = name.encode("latin-1") if isinstance(name, str) else name
    out = b'"'
    for c in b:
        if c == 0x5c:
            out += b"\\\\"
        elif c == 0x22:
            out += b'\\"'
        elif c == 0x0a:
            out += b"\\n"
        elif c == 0x09:
            out += b"\\t"
        elif c < 0x20 or c >= 0x7f:
            out += b"\\%03o" % c
        else:
            out += bytes([c])
    return out + b'"'


def emit_git(a, b, hs, kind="change", old_mode=None, new_mode=None, index=True):
    """kind: change | add | delete | rename | copy | mode"""
    out = ("diff --git a/%s b/%s\n" % (a, b)).encode("latin-1")
    if kind == "add":
        out += ("new file mode %s\n" % (new_mode or "100644")).encode()
    elif kind == "delete":
        out += ("deleted file mode %s\n" % (old_mode or "100644")).encode()
    elif old_mode and new_mode:
        out += ("old mode %s\nnew mode %s\n" % (old_mode, new_mode)).encode()
    if kind in ("rename", "copy"):
        out += ("similarity index 90%%\n%s from %s\n%s to %s\n" % (kind, a, kind, b)).encode("latin-1")
    if hs:
        if index:
            out += b"index 1111111..2222222 100644\n"
        # like git, end a name that contains a blank with a tab
        na = "/dev/null" if kind == "add" else "a/" + a + ("\t" if " " in a else "")
        nb = "/dev/null" if kind == "delete" else "b/" + b + ("\t" if " " in b else "")
        out += ("--- %s\n+++ %s\n" % (na, nb)).encode("latin-1")
        out += emit_unified_hunks(hs)
    return out
