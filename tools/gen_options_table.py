#!/usr/bin/env python3
"""gen_options_table.py — translator: regenerates coq/OptionsTable.v from /repo/src/options.cpp on every run.
Parses the s_switches initialiser and the switch of OptionHandler::process_option (both in a rigid one-entry-per-line
style). Anything it cannot parse is a hard failure (exit 1)."""
import os, re, sys
REPO = os.environ.get("VERIF_REPO", "/repo")
OUT = os.path.join(os.path.dirname(os.path.dirname(os.path.abspath(__file__))), "coq", "OptionsTable.v")

FIELDS = {  # C++ member -> Gallina field constructor
    "backup_prefix": "FBackupPrefix", "define_macro": "FDefineMacro", "remove_empty_files": "FRemoveEmptyFiles", "max_fuzz": "FMaxFuzz",
    "ignore_reversed": "FIgnoreReversed", "reverse_patch": "FReversePatch", "save_backup": "FSaveBackup", "interpret_as_context": "FInterpretAsContext",
    "patch_directory_path": "FPatchDirectoryPath", "interpret_as_ed": "FInterpretAsEd", "force": "FForce", "show_help": "FShowHelp",
    "patch_file_path": "FPatchFilePath", "ignore_whitespace": "FIgnoreWhitespace", "interpret_as_normal": "FInterpretAsNormal",
    "out_file_path": "FOutFilePath", "strip_size": "FStripSize", "reject_file_path": "FRejectFilePath", "batch": "FBatch",
    "interpret_as_unified": "FInterpretAsUnified", "show_version": "FShowVersion", "backup_suffix": "FBackupSuffix", "verbose": "FVerbose",
    "dry_run": "FDryRun", "backup_if_mismatch": "FBackupIfMismatch", "posix": "FPosix"}
HANDLERS = {"handle_newline_strategy": "HNewline", "handle_read_only": "HReadOnly", "handle_reject_format": "HRejectFormat", "handle_quoting_style": "HQuotingStyle"}


def ident(tok):
    tok = tok.strip()
    m = re.fullmatch(r"'(.)'", tok)
    if m:
        return ord(m.group(1))
    m = re.fullmatch(r"CHAR_MAX \+ (\d+)", tok)
    if m:
        return 127 + int(m.group(1))
    raise ValueError("cannot read option id %r" % tok)


def main():
    src = open(os.path.join(REPO, "src", "options.cpp")).read()
    m = re.search(r"s_switches\s*\{\s*\{(.*?)\}\s*\};", src, flags=re.S)
    if not m:
        sys.exit("gen_options_table: s_switches initialiser not found")
    switches = []
    for line in m.group(1).splitlines():
        line = line.strip()
        if not line or line.startswith("//"):
            continue
        e = re.fullmatch(r"\{\s*(.+?),\s*\"(--[^\"]*)\",\s*CmdLineParser::HasArgument::(Yes|No)\s*\},?", line)
        if not e:
            sys.exit("gen_options_table: cannot parse switch entry: " + line)
        switches.append((ident(e.group(1)), e.group(2), e.group(3) == "Yes"))
    m = re.search(r"void OptionHandler::process_option\(.*?\)\s*\{\s*switch \(short_name\) \{(.*?)\n    default:", src, flags=re.S)
    if not m:
        sys.exit("gen_options_table: process_option switch not found")
    setters = []
    for case in re.finditer(r"case (.+?):\s*\n\s*(.+?);\s*\n\s*break;", m.group(1)):
        i = ident(case.group(1))
        stmt = case.group(2).strip()
        a = re.fullmatch(r"m_options\.(\w+) = option", stmt)
        b = re.fullmatch(r"m_options\.(\w+) = true", stmt)
        c = re.fullmatch(r"m_options\.(\w+) = stoi\(option, \"([^\"]*)\"\)", stmt)
        d = re.fullmatch(r"m_options\.(\w+) = Options::OptionalBool::(Yes|No)", stmt)
        h = re.fullmatch(r"(\w+)\(option\)", stmt)
        try:
            if a:
                s = "SetStr %s" % FIELDS[a.group(1)]
            elif b:
                s = "SetTrue %s" % FIELDS[b.group(1)]
            elif c:
                s = "SetInt %s" % FIELDS[c.group(1)]
            elif d:
                s = "SetOB %s %s" % (FIELDS[d.group(1)], "true" if d.group(2) == "Yes" else "false")
            elif h:
                s = "Handle %s" % HANDLERS[h.group(1)]
            else:
                raise KeyError(stmt)
        except KeyError as e:
            sys.exit("gen_options_table: cannot translate statement for case %s: %s" % (case.group(1), stmt))
        setters.append((i, s))
    out = ["(* OptionsTable.v — GENERATED on every run by tools/gen_options_table.py from /repo/src/options.cpp. Do not edit. *)",
           "From PatchV Require Import Base OptionsVocab.", "",
           "Definition switches : list (Z * list N * bool) :="]
    out.append("  [ " + "\n  ; ".join('(%d%%Z, bs "%s", %s)' % (i, n, "true" if a else "false") for i, n, a in switches) + " ].")
    out += ["", "Definition setters : list (Z * setter) :="]
    out.append("  [ " + "\n  ; ".join("(%d%%Z, %s)" % (i, s) for i, s in setters) + " ].")
    txt = "\n".join(out) + "\n"
    old = open(OUT).read() if os.path.exists(OUT) else None
    if old != txt:
        open(OUT, "w").write(txt)
    print("generated %s: %d switches, %d setters" % (OUT, len(switches), len(setters)))


if __name__ == "__main__":
    main()
