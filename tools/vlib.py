#!/usr/bin/env python3
"""vlib.py — shared machinery of the /verif checks: builds (implementation from /repo's working tree,
Coq development, extracted model), proof-obligation checking, L1 correspondence runs, oracle runs,
evidence, replays, known findings."""
import time, hashlib, json, os, random, re, shutil, subprocess, sys, time

VERIF = os.path.dirname(os.path.dirname(os.path.abspath(__file__)))
REPO = os.environ.get("VERIF_REPO", "/repo")
COQ = os.path.join(VERIF, "coq")
OCAML = os.path.join(VERIF, "ocaml")
NPROC = 16

ALLOWED_AXIOMS = set()   # every property theorem is expected to be closed under the global context

FORBIDDEN = re.compile(r"\b(Admitted|admit|Axiom|Parameter|Conjecture|Unset Guard|bypass_check|type-in-type|"
                       r"Admit Obligations|native_compute|Unset Positivity|Unset Universe)\b")


class CheckError(Exception):
    pass


def sh(cmd, timeout=600, cwd=None, inp=None, env=None):
    e = dict(os.environ)
    if env:
        e.update(env)
    p = subprocess.run(cmd, shell=isinstance(cmd, str), cwd=cwd, input=inp, capture_output=True,
                       timeout=timeout, env=e)
    return p.returncode, p.stdout, p.stderr


# ------------------------------------------------------------------ builds
def build_impl(flavour="plain"):
    """Build /repo's working tree; returns build dir. Raises CheckError when it does not build."""
    rc, out, err = sh([os.path.join(VERIF, "tools", "build_repo.sh"), flavour], timeout=600)
    if rc != 0:
        raise CheckError("implementation does not build (%s): %s" % (flavour, err.decode(errors="replace").strip()))
    d = out.decode().strip().splitlines()[-1]
    h = os.path.join(d, "l1_harness")
    src = os.path.join(VERIF, "harness", "l1_harness.cpp")
    if not os.path.exists(h) or os.path.getmtime(h) < os.path.getmtime(src):
        flags = open(os.path.join(d, "flags")).read().split()
        rc, out, err = sh(flags + ["-I" + os.path.join(REPO, "include"), src, os.path.join(d, "libpatch.a"), "-o", h],
                          timeout=300)
        if rc != 0:
            raise CheckError("L1 harness does not build against the working tree: " + err.decode(errors="replace")[-2000:])
    return d


def build_coq(targets=None):
    """Full .vo build (never -vos) of the development or of the given targets. Returns (ok, log)."""
    if not os.path.exists(os.path.join(COQ, "Makefile")):
        sh("coq_makefile -f _CoqProject -o Makefile", cwd=COQ)
    cmd = ["make", "-k", "-j%d" % NPROC] + (targets or [])
    rc, out, err = sh(cmd, cwd=COQ, timeout=3000)
    return rc == 0, (out + err).decode(errors="replace")


def build_model():
    """Extract the model and build the OCaml driver when stale. Returns path of model_driver."""
    ok, log = build_coq(["Applier.vo"]) if False else build_coq(model_vo_targets())
    if not ok:
        raise CheckError("model files do not compile: " + log[-3000:])
    exe = os.path.join(OCAML, "model_driver")
    srcs = [os.path.join(COQ, f) for f in os.listdir(COQ) if f.endswith(".v")] + [os.path.join(OCAML, "driver.ml")]
    if os.path.exists(exe) and all(os.path.getmtime(exe) >= os.path.getmtime(s) for s in srcs):
        return exe
    rc, out, err = sh("coqc -Q ../coq PatchV ../coq/Extract.v", cwd=OCAML, timeout=600)
    if rc != 0:
        raise CheckError("extraction failed: " + (out + err).decode(errors="replace")[-3000:])
    rc, out, err = sh("ocamlfind ocamlopt -w -a -O3 model.mli model.ml driver.ml -o model_driver", cwd=OCAML, timeout=600)
    if rc != 0:
        raise CheckError("OCaml build of the extracted model failed: " + (out + err).decode(errors="replace")[-3000:])
    return exe


def model_vo_targets():
    # every .v named in _CoqProject that is not a proof/properties file
    t = []
    for l in open(os.path.join(COQ, "_CoqProject")):
        l = l.strip()
        if l.endswith(".v") and not l.startswith(("Proofs_", "Properties_", "Spec_Proofs")):
            t.append(l[:-2] + ".vo")
    return t


def forbidden_vernacular():
    bad = []
    for f in sorted(os.listdir(COQ)):
        if not f.endswith(".v"):
            continue
        txt = open(os.path.join(COQ, f)).read()
        txt = re.sub(r"\(\*.*?\*\)", "", txt, flags=re.S)   # comments may mention the words
        for i, l in enumerate(txt.splitlines(), 1):
            if FORBIDDEN.search(l):
                bad.append("%s:%d: %s" % (f, i, l.strip()))
    return bad


def check_proofs(prop, theorems):
    """Compile Properties_<prop>.v (and what it depends on) from scratch for that file; parse Print Assumptions.
    Returns dict(obligations, discharged, axioms, failures, checker_cmd, log)."""
    pf = "Properties_%s" % prop
    res = dict(obligations=len(theorems), discharged=0, axioms=[], failures=[], log="",
               checker_cmd="cd coq && make -k -j16 %s.vo  (coqc 8.16.1, full .vo build) + Print Assumptions per theorem" % pf)
    bad = forbidden_vernacular()
    if bad:
        res["failures"].append("forbidden vernacular: " + "; ".join(bad[:5]))
        return res
    for ext in (".vo", ".glob", ".vok", ".vos"):
        try:
            os.unlink(os.path.join(COQ, pf + ext))
        except OSError:
            pass
    ok, log = build_coq([pf + ".vo"])
    res["log"] = log[-6000:]
    if not ok or not os.path.exists(os.path.join(COQ, pf + ".vo")):
        m = re.findall(r'File "\./([^"]+)", line (\d+)', log)
        res["failures"].append("proof build failed" + (" at %s:%s" % m[-1] if m else ""))
        # which theorems still compiled cannot be known from a failed file: none is counted
        return res
    # Re-run coqc on the properties file alone: its stdout is exactly the Print Assumptions blocks, in file order.
    rc, out, err = sh(["coqc", "-Q", ".", "PatchV", pf + ".v"], cwd=COQ, timeout=900)
    txt = open(os.path.join(COQ, pf + ".v")).read()
    txt_nc = re.sub(r"\(\*.*?\*\)", "", txt, flags=re.S)
    present = set(re.findall(r"^(?:Theorem|Lemma|Corollary)\s+([A-Za-z0-9_']+)", txt_nc, flags=re.M))
    order = re.findall(r"^Print Assumptions\s+([A-Za-z0-9_']+)\s*\.", txt_nc, flags=re.M)
    o = out.decode(errors="replace")
    blocks = re.split(r"^(?=Closed under the global context|Axioms:)", o, flags=re.M)
    blocks = [b for b in blocks if b.startswith(("Closed under", "Axioms:"))]
    seen = {}
    if rc == 0 and len(blocks) == len(order):
        seen = dict(zip(order, blocks))
    else:
        res["failures"].append("could not match Print Assumptions output to theorems (rc=%d, %d blocks, %d commands)" % (rc, len(blocks), len(order)))
    for t in theorems:
        if t not in present:
            res["failures"].append("theorem %s is missing from %s.v" % (t, pf))
            continue
        b = seen.get(t)
        if b is None:
            res["failures"].append("no Print Assumptions output for %s" % t)
            continue
        if "Closed under the global context" in b:
            res["discharged"] += 1
        else:
            ax = re.findall(r"^([A-Za-z0-9_.']+)\s*:", b, flags=re.M)
            extra = [a for a in ax if a not in ALLOWED_AXIOMS]
            res["axioms"] += ax
            if extra:
                res["failures"].append("theorem %s depends on axioms outside the trusted base: %s" % (t, ", ".join(extra)))
            else:
                res["discharged"] += 1
    return res


# ------------------------------------------------------------------ L1 runs
def run_lines(exe, lines, timeout=None, cwd=None, env=None, max_hangs=3, max_crashes=40, budget=900):
    """Feed case lines to an executable that answers one line per case. Tolerates crashes: the case on which
    the process died gets 'CRASH <rc>' and the rest is retried in a fresh process.  Tolerates hangs: when the process
    does not get through its cases in time (far beyond what the whole batch needs), the case it stopped at gets 'HANG' and
    the rest is retried; after max_hangs of them the remaining cases get 'SKIPPED' (every one would cost another wait)."""
    results = []
    i = 0
    hangs = crashes = 0
    t_start = time.time()
    while i < len(lines):
        chunk = lines[i:]
        e = dict(os.environ)
        if env:
            e.update(env)
        tmo = timeout or max(60, len(chunk) // 100)
        try:
            p = subprocess.run(["setsid", exe], input=("\n".join(chunk) + "\n").encode(), capture_output=True,
                               timeout=tmo, cwd=cwd, env=e)
            out = p.stdout.decode(errors="replace").splitlines()
            note = "CRASH rc=%d %s" % (p.returncode, p.stderr.decode(errors="replace")[-300:].replace("\n", " | "))
        except subprocess.TimeoutExpired as ex:
            out = (ex.stdout or b"").decode(errors="replace").splitlines()
            if (ex.stdout or b"") and not (ex.stdout or b"").endswith(b"\n") and out:
                out = out[:-1]
            note = "HANG no answer within %d s" % tmo
            hangs += 1
        if len(out) >= len(chunk):
            results += out[:len(chunk)]
            break
        results += out
        results.append(note)
        i += len(out) + 1
        if not note.startswith("HANG"):
            crashes += 1
        # a build that dies or hangs on case after case has said what there is to say: the rest is not waited for
        if hangs >= max_hangs or crashes >= max_crashes or time.time() - t_start > budget:
            results += ["SKIPPED after %d hangs, %d crashes, %d s" % (hangs, crashes, time.time() - t_start)] * (len(lines) - i)
            break
    return results


SAN_ENV = {"ASAN_OPTIONS": "exitcode=99:detect_leaks=0:abort_on_error=0:hard_rss_limit_mb=3000", "UBSAN_OPTIONS": "exitcode=99:halt_on_error=1:print_stacktrace=1"}


def run_both(cases, flavour="plain"):
    d = build_impl(flavour)
    m = build_model()
    impl = run_lines(os.path.join(d, "l1_harness"), cases, env=SAN_ENV if flavour == "asan" else None)
    model = run_lines(m, cases)
    return impl, model


def run_model(lines):
    return run_lines(build_model(), lines)


# ------------------------------------------------------------------ encoding helpers (shared with generators)
def hx(b):
    if isinstance(b, str):
        b = b.encode("latin-1")
    return b.hex() if b else "-"


def unhx(s):
    return b"" if s == "-" else bytes.fromhex(s)


def enc_line(txt, nl="L"):
    return "%s:%s" % (hx(txt), nl)


def enc_lines(ls):
    return ",".join(enc_line(t, n) for t, n in ls) if ls else "-"


def enc_hunk(h):
    # h = dict(os, oc, ns, nc, body=[(op, txt, nl)])  op in '+', '-', ' '
    body = ",".join(("_" if o == " " else o) + enc_line(t, n) for o, t, n in h["body"]) or "-"
    return "%d/%d/%d/%d/%s" % (h["os"], h["oc"], h["ns"], h["nc"], body)


def enc_hunks(hs):
    return ";".join(enc_hunk(h) for h in hs) if hs else "-"


# ------------------------------------------------------------------ evidence / verdict
def load_known():
    known, fixed = [], []
    p = os.path.join(VERIF, "known_findings.txt")
    if os.path.exists(p):
        for l in open(p):
            l = l.strip()
            if l.startswith("known:"):
                m = re.match(r"known:\s+property=(\S+)\s+key=(\S+)\s+(.*)", l)
                if m:
                    known.append(dict(prop=m.group(1), key=m.group(2), text=m.group(3)))
            elif l.startswith("fixed:"):
                fixed.append(l)
    return known, fixed


class Run:
    """One check invocation: collects coverage, violations, and writes evidence / replays."""

    def __init__(self, prop, tier, seed, level="proof"):
        self.prop, self.tier, self.seed, self.level = prop, tier, seed, level
        self.t0 = time.time()
        import glob
        for f in glob.glob(os.path.join(VERIF, "replays", "%s-*.json" % prop)):
            try:
                os.unlink(f)
            except OSError:
                pass
        self.cov = dict(evaluations=0, distinct_nontrivial=0, rule="", samples=[], obligations=0, discharged=0,
                        checker_cmd="", trusted_base=[], distribution={})
        self.assumptions = []
        self.violations = []      # (kind, description, replay dict)
        self.known_hits = {}      # key -> text
        self.distinct = set()
        self.notes = []

    def count(self, case_key, nontrivial=True, cls=None):
        self.cov["evaluations"] += 1
        if nontrivial:
            h = hashlib.sha1(case_key.encode()).digest()[:8]
            self.distinct.add(h)
        if cls:
            self.cov["distribution"][cls] = self.cov["distribution"].get(cls, 0) + 1

    def sample(self, s, limit=6):
        if len(self.cov["samples"]) < limit:
            self.cov["samples"].append(s)

    def violation(self, kind, desc, replay):
        self.violations.append((kind, desc, replay))

    def known(self, key, text):
        self.known_hits[key] = text

    def finish(self):
        self.cov["distinct_nontrivial"] = len(self.distinct)
        # the level is the one MANIFEST.json claims for this property; a proof-level claim needs registered theorems
        try:
            man = json.load(open(os.path.join(VERIF, "MANIFEST.json")))
            claimed = {c["property_id"]: c["level_claimed"]["category"] for c in man["checks"]}.get(self.prop)
        except Exception:
            claimed = None
        if claimed:
            self.level = claimed
        if not self.cov.get("obligations"):
            # no theorem registered for this property: the run is what it is, an exploration
            self.level = "exploration"
            for k in ("obligations", "discharged", "checker_cmd", "trusted_base"):
                self.cov.pop(k, None)
        if not self.cov.get("samples"):
            self.cov["samples"] = ["(no sample recorded)"]
        os.makedirs(os.path.join(VERIF, "evidence"), exist_ok=True)
        os.makedirs(os.path.join(VERIF, "replays"), exist_ok=True)
        rc = 0
        lines = []
        for key, text in sorted(self.known_hits.items()):
            lines.append("KNOWN-FINDING: property=%s %s" % (self.prop, text))
        # one VIOLATION line per distinct kind (first witness each), concrete witnesses first
        seen = set()
        conc = [v for v in self.violations if v[0] != "no-input"]
        rest = [v for v in self.violations if v[0] == "no-input"]
        for kind, desc, replay in (conc or rest):
            k = (kind, desc.split(":")[0])
            if k in seen:
                continue
            seen.add(k)
            body = json.dumps(replay, sort_keys=True)
            name = "%s-%s.json" % (self.prop, hashlib.sha1(body.encode()).hexdigest()[:10])
            path = os.path.join(VERIF, "replays", name)
            replay = dict(replay, property=self.prop, kind=kind, description=desc)
            with open(path, "w") as f:
                json.dump(replay, f, indent=1, sort_keys=True)
            tail = " no-failing-input-found" if kind == "no-input" else ""
            lines.append("VIOLATION property=%s replay=%s%s" % (self.prop, os.path.relpath(path, VERIF), tail))
            rc = 1
            if len(seen) >= 5:
                break
        ev = dict(property_id=self.prop, tier=self.tier, seed=self.seed, level=self.level, coverage=self.cov,
                  assumptions=self.assumptions, wall_s=round(time.time() - self.t0, 2),
                  violations=len(self.violations), notes=self.notes,
                  known_findings_hit=sorted(self.known_hits))
        with open(os.path.join(VERIF, "evidence", "%s.json" % self.prop), "w") as f:
            json.dump(ev, f, indent=1, sort_keys=True)
        for l in lines:
            print(l)
        print("%s %s tier=%s seed=%d: %d evaluations, %d distinct non-trivial, %d/%d obligations, %d violation(s), %.1fs"
              % ("FAIL" if rc else "PASS", self.prop, self.tier, self.seed, self.cov["evaluations"],
                 self.cov["distinct_nontrivial"], self.cov.get("discharged", 0), self.cov.get("obligations", 0),
                 len(self.violations), time.time() - self.t0))
        return rc


def proofs_into_run(run, prop, theorems):
    pr = check_proofs(prop, theorems)
    run.cov["obligations"] = pr["obligations"]
    run.cov["discharged"] = pr["discharged"]
    run.cov["checker_cmd"] = pr["checker_cmd"]
    run.cov["theorems"] = theorems
    tb = ["Coq 8.16.1 kernel (coqc, vm_compute; no native_compute)",
          "axioms per Print Assumptions: " + (", ".join(sorted(set(pr["axioms"]))) if pr["axioms"] else "none (all theorems closed under the global context)"),
          "extraction: ExtrOcamlBasic only (bool, option, unit, list, prod, sumbool, sumor, andb, orb); OCaml 4.13.1",
          "hand-written Gallina model tied to /repo by the correspondence runs of this check (differential testing)",
          "harness/l1_harness.cpp, ocaml/driver.ml, tools/*.py (generators, comparison, syscall/strace mapping)"]
    run.cov["trusted_base"] = tb
    for f in pr["failures"]:
        run.violation("no-input", "proof obligation broken: " + f,
                      dict(broken="proof", detail=f, log_tail=pr["log"][-1500:]))
    return pr


def load_corpus(name):
    p = os.path.join(VERIF, "corpus", name + ".cases")
    out = []
    if os.path.exists(p):
        for l in open(p):
            l = l.strip()
            if l and not l.startswith("#"):
                out.append(l)
    return out
