#!/usr/bin/env python3
"""seeded_meta.py <id> <caught|missed> [strengthening text] — write seeded/<id>/meta.json for a round-4 change from its notes.md (NEEDS: line)
and its result.json."""
import json, os, re, sys
V = os.path.dirname(os.path.dirname(os.path.abspath(__file__)))
i, first = sys.argv[1], sys.argv[2]
streng = sys.argv[3] if len(sys.argv) > 3 else ""
d = os.path.join(V, "seeded", i)
notes = open(os.path.join(d, "notes.md"), errors="replace").read() if os.path.exists(os.path.join(d, "notes.md")) else ""
m = re.search(r"NEEDS:\s*(.+)", notes)
needs = m.group(1).strip().strip("*`").strip() if m else ""
res = json.load(open(os.path.join(d, "result.json"))) if os.path.exists(os.path.join(d, "result.json")) else {}
rnd = 5 if i[-2:] in ("m7", "m8") else 4
wt = "/tmp/wt5" if rnd == 5 else "/tmp/wt4"
meta = dict(id=i, breaks_property=i.split("-")[0], needs_to_manifest=needs[:400], round=rnd,
            origin=("fifth" if rnd == 5 else "fourth") + " round: written by an independent sub-agent that saw only the text of the property, its code anchors, the triggers of the earlier changes (to avoid repeating them) and a scratch worktree of /repo; two changes per property; made after the " + ("fourth" if rnd == 5 else "third") + " strengthening",
            confirmed_by="tools/seeded_confirm.sh (clean build, patch applies, suite = baseline, demo.sh passes without and fails with the change)",
            ran=["tools/seeded_confirm.sh %s/%s %s/%s-out/%s %s" % (wt, i.split("-")[0], wt, i.split("-")[0], "A" if i[-2:] in ("m5", "m7") else "B", i), "tools/seeded_eval_par.py " + i],
            detected_by_check=bool(res.get("detected")), concrete_failing_input=bool(res.get("concrete")),
            detected_before_strengthening=(first == "caught"))
if streng:
    meta["strengthening"] = streng
json.dump(meta, open(os.path.join(d, "meta.json"), "w"), indent=1)
print(i, meta["needs_to_manifest"][:100], meta["detected_by_check"], meta["concrete_failing_input"])
