#!/usr/bin/env python3
"""seeded_meta.py <id> <caught|missed> [strengthening text] — write seeded/<id>/meta.json for a round-4 change from its notes.md (NEEDS: line)
and its result.json."""
import json, os, re, sys
V = os.path.dirname(os.path.dirname(os.path.abspath(__file__)))
i, first = sys.argv[1], sys.argv[2]
streng = sys.argv[3] if len(sys.argv) > 3 else ""
d = os.path.join(V, "seeded", i)
notes = open(os.path.join(d, "notes.md"), errors="replace").read() if os.path.exists(os.path.join(d, "notes.md")) else ""
m = re.search(r"NEEDS:\s*(.+)", notes)
needs = m.group(1).strip().strip("*`").strip() if m else ""
res = json.load(open(os.path.join(d, "result.json"))) if os.path.exists(os.path.join(d, "result.json")) else {}
num = int(i.split("-m")[1])
rnd = {5: 4, 6: 4, 7: 5, 8: 5, 9: 6, 10: 6, 11: 7, 12: 7}.get(num, 7)
wt = "/tmp/wt%d" % rnd
meta = dict(id=i, breaks_property=i.split("-")[0], needs_to_manifest=needs[:400], round=rnd,
            origin={4: "fourth", 5: "fifth", 6: "sixth", 7: "seventh"}[rnd] + " round: written by an independent sub-agent that saw only the text of the property, its code anchors, the triggers of the earlier changes (to avoid repeating them) and a scratch worktree of /repo; two changes per property; made after the " + {4: "third", 5: "fourth", 6: "fifth", 7: "sixth"}[rnd] + " strengthening",
            confirmed_by="tools/seeded_confirm.sh (clean build, patch applies, suite = baseline, demo.sh passes without and fails with the change)",
            ran=["tools/seeded_confirm.sh %s/%s %s/%s-out/%s %s" % (wt, i.split("-")[0], wt, i.split("-")[0], "A" if num % 2 == 1 else "B", i), "tools/seeded_eval_par.py " + i],
            detected_by_check=bool(res.get("detected")), concrete_failing_input=bool(res.get("concrete")),
            detected_before_strengthening=(first == "caught"))
if streng:
    meta["strengthening"] = streng
json.dump(meta, open(os.path.join(d, "meta.json"), "w"), indent=1)
print(i, meta["needs_to_manifest"][:100], meta["detected_by_check"], meta["concrete_failing_input"])
