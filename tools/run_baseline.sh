#!/bin/bash
# Rebuild /repo/_build from the working tree and run the pinned suite (guard OFF). Flaky pty tests are re-run serially.
# Exit 0 iff the only failures are the 3 always-fail compat.read_only_* tests of BASELINE.json.
cd /repo || exit 2
cmake --build _build > /tmp/verif_baseline_build.log 2>&1 || { echo "BUILD FAILED"; tail -20 /tmp/verif_baseline_build.log; exit 2; }
ctest --test-dir _build -j8 --timeout 900 > /tmp/verif_baseline_ctest.log 2>&1
if grep -q "tests failed" /tmp/verif_baseline_ctest.log; then
  ctest --test-dir _build --rerun-failed --timeout 900 > /tmp/verif_baseline_ctest2.log 2>&1
  F=$(grep -E "^\s+[0-9]+ - .*\(Failed\)|\(Timeout\)|\(SEGFAULT\)|\(Exception\)" /tmp/verif_baseline_ctest2.log | sed -E 's/^[[:space:]]*[0-9]+ - //; s/ \(.*//' | sort)
else
  F=""
fi
EXP=$(printf 'compat.read_only_file_fail\ncompat.read_only_file_no_arguments\ncompat.read_only_file_warn')
grep -E "tests passed" /tmp/verif_baseline_ctest.log
if [ "$F" == "$EXP" ]; then echo "BASELINE OK (433 pass, 3 always-fail)"; exit 0; fi
echo "BASELINE DIFFERS; failing after serial rerun:"; echo "$F"; exit 1
