(* Parser.v — class Parser of src/parser.cpp: the patch stream (File get_line/peek/tellg/seekg/eof),
   parse_patch_header, the unified / context / normal body parsers, hunk_from_context_parts, parse_patch
   and the section loop of process_patch (parse_all).  Definitions only. *)
From PatchV Require Import Base Lines Hunk LineParser.

(* ---- the stream: remaining bytes + File's eof / bad flags ---- *)
Record stream := mkStream { rest : list N; seof : bool; sbad : bool }.

(* File::get_line : (Some (content, terminator) | None when it returns false, stream afterwards) *)
Definition sget_line (s : stream) : option (list N * newline) * stream :=
  if seof s then (None, mkStream (rest s) true true)
  else if sbad s then (None, s)
  else match get_line (rest s) with
       | None => (None, mkStream [] true (sbad s))
       | Some (t, n, r, eof) => (Some (t, n), mkStream r eof (sbad s))
       end.

Definition speek (s : stream) : option N := match rest s with c :: _ => Some c | [] => None end.
Definition sseek (s : stream) (pos : list N) : stream := mkStream pos (seof s) (sbad s).
Definition sclear (s : stream) : stream := mkStream (rest s) false false.
Definition peek_is (s : stream) (c : N) : bool := match speek s with Some x => N.eqb x c | None => false end.

Definition empty_range : range := mkRange (-1) (-1).
Definition empty_hunk : hunk := mkHunk empty_range empty_range [].

(* line.substr(4, line.size() - 9), size_t arithmetic *)
Definition range_substr (line : list N) : list N :=
  if Nat.leb 9 (length line) then firstn (length line - 9) (skipn 4 line) else skipn 4 line.

(* ---- header scan ---- *)
(* the first line of the body of a normal diff: '<' or '>' and a space or a tab ("diff -T") *)
Definition normal_first_line (line : list N) : bool :=
  match line with
  | c :: w :: _ => (N.eqb c 62 || N.eqb c 60) && is_whitespace w
  | _ => false
  end.

Inductive looks := LKUnknown | LKUnified | LKNormal | LKContext.
Definition looks_eqb (a b : looks) : bool :=
  match a, b with LKUnknown, LKUnknown | LKUnified, LKUnified | LKNormal, LKNormal | LKContext, LKContext => true | _, _ => false end.

Definition format_eqb (a b : format) : bool :=
  match a, b with
  | FContext, FContext | FUnified, FUnified | FGit, FGit | FEd, FEd | FNormal, FNormal | FUnknown, FUnknown => true
  | _, _ => false
  end.

Record hstate := mkHS {
  h_patch : patch; h_looks : looks; h_lines : nat; h_git : bool; h_body : bool;
  h_hunk : hunk; h_first : nat (* lines_till_first_hunk *) }.

Definition set_paths (p : patch) (op np ot nt : list N) : patch :=
  mkPatch (pfmt p) (poper p) (index_path p) (prereq p) op np ot nt (old_mode p) (new_mode p) (hunks p).
Definition set_fmt (p : patch) (f : format) : patch :=
  mkPatch f (poper p) (index_path p) (prereq p) (old_path p) (new_path p) (old_time p) (new_time p) (old_mode p) (new_mode p) (hunks p).
Definition set_oper (p : patch) (o : operation) : patch :=
  mkPatch (pfmt p) o (index_path p) (prereq p) (old_path p) (new_path p) (old_time p) (new_time p) (old_mode p) (new_mode p) (hunks p).
Definition set_index (p : patch) (x : list N) : patch :=
  mkPatch (pfmt p) (poper p) x (prereq p) (old_path p) (new_path p) (old_time p) (new_time p) (old_mode p) (new_mode p) (hunks p).
Definition set_prereq (p : patch) (x : list N) : patch :=
  mkPatch (pfmt p) (poper p) (index_path p) x (old_path p) (new_path p) (old_time p) (new_time p) (old_mode p) (new_mode p) (hunks p).
Definition set_modes (p : patch) (om nm : N) : patch :=
  mkPatch (pfmt p) (poper p) (index_path p) (prereq p) (old_path p) (new_path p) (old_time p) (new_time p) om nm (hunks p).

Definition fmt_unknown_or (p : patch) (f : format) : bool :=
  format_eqb (pfmt p) FUnknown || format_eqb (pfmt p) f.

Definition opt_or {A} (o : option A) (d : A) : A := match o with Some x => x | None => d end.

(* LineParser::parse_git_extended_info: Some p' = returned true with the patch updated;
   None' variants: returned false, possibly after marking the patch Binary *)
Definition parse_git_extended_info (p : patch) (strip : Z) (line : list N) : res (bool * patch) :=
  match consume_str (bs "rename from ") line with
  | Some r => do n <- git_ext_filename strip (bs "a/") r;
              Ok (true, set_paths (set_oper p OpRename) n (new_path p) (old_time p) (new_time p))
  | None =>
  match consume_str (bs "rename to ") line with
  | Some r => do n <- git_ext_filename strip (bs "b/") r;
              Ok (true, set_paths (set_oper p OpRename) (old_path p) n (old_time p) (new_time p))
  | None =>
  match consume_str (bs "copy to ") line with
  | Some r => do n <- git_ext_filename strip (bs "b/") r;
              Ok (true, set_paths (set_oper p OpCopy) (old_path p) n (old_time p) (new_time p))
  | None =>
  match consume_str (bs "copy from ") line with
  | Some r => do n <- git_ext_filename strip (bs "a/") r;
              Ok (true, set_paths (set_oper p OpCopy) n (new_path p) (old_time p) (new_time p))
  | None =>
  match consume_str (bs "deleted file mode ") line with
  | Some r => Ok (true, set_modes (set_oper p OpDelete) (parse_mode r) (new_mode p))
  | None =>
  match consume_str (bs "new file mode ") line with
  | Some r => Ok (true, set_modes (set_oper p OpAdd) (old_mode p) (parse_mode r))
  | None =>
  match consume_str (bs "old mode ") line with
  | Some r => Ok (true, set_modes p (parse_mode r) (new_mode p))
  | None =>
  match consume_str (bs "new mode ") line with
  | Some r => Ok (true, set_modes p (old_mode p) (parse_mode r))
  | None =>
  match consume_str (bs "index ") line with
  | Some _ => Ok (true, p)
  | None =>
  match consume_str (bs "GIT binary patch") line with
  | Some _ => Ok (false, set_oper p OpBinary)
  | None => Ok (false, p)
  end end end end end end end end end end.

(* one iteration of the while (get_line(line)) loop of parse_patch_header;
   inl st = continue scanning, inr st = break *)
Definition header_step (strip : Z) (st : hstate) (line : list N) : res (hstate + hstate) :=
  let lines := S (h_lines st) in
  let last := h_looks st in
  let p := h_patch st in
  (* state after "++lines; this_line_looks_like = Unknown" *)
  let st0 := mkHS p LKUnknown lines (h_git st) (h_body st) (h_hunk st) (h_first st) in
  let with_patch (q : patch) := mkHS q LKUnknown lines (h_git st) (h_body st) (h_hunk st) (h_first st) in
  let first_u := looks_eqb last LKUnified && fmt_unknown_or p FUnified &&
                 (starts_with line [43%N] || starts_with line [45%N] || starts_with line [32%N]) in
  let star := if negb (looks_eqb last LKContext) then consume_str (bs "*** ") line else None in
  let old_line := if first_u then None
                  else match star with Some r => Some r | None => consume_str (bs "+++ ") line end in
  match old_line with
  | Some r =>
      do x <- parse_file_line strip r;
      Ok (inl (with_patch (set_paths p (fst x) (new_path p) (opt_or (snd x) (old_time p)) (new_time p))))
  | None =>
  match (if first_u then None else consume_str (bs "--- ") line) with
  | Some r =>
      do x <- parse_file_line strip r;
      Ok (inl (with_patch (set_paths p (old_path p) (fst x) (old_time p) (opt_or (snd x) (new_time p)))))
  | None =>
  match consume_str (bs "Index: ") line with
  | Some r => do x <- parse_file_line strip r; Ok (inl (with_patch (set_index p (fst x))))
  | None =>
  match consume_str (bs "Prereq: ") line with
  | Some r => do x <- parse_file_line 0 r; Ok (inl (with_patch (set_prereq p (fst x))))
  | None =>
  match consume_str (bs "diff --git ") line with
  | Some r =>
      if h_git st then Ok (inr (mkHS p LKUnknown lines true false (h_hunk st) (h_first st)))
      else do n <- parse_git_header_name strip r;
           Ok (inl (mkHS (set_fmt (set_paths p n n (old_time p) (new_time p)) FUnified) LKUnknown lines true (h_body st)
                         (h_hunk st) (S lines)))
  | None =>
      do gi <- (if h_git st then parse_git_extended_info p strip line else Ok (false, p));
      let p1 := snd gi in
      if fst gi then Ok (inl (mkHS p1 LKUnknown lines (h_git st) (h_body st) (h_hunk st) (S lines)))
      else
        let mk (q : patch) (lk : looks) (hk : hunk) (first : nat) := mkHS q lk lines (h_git st) (h_body st) hk first in
        (* unified *)
        let '(r1, hk1) :=
          if fmt_unknown_or p1 FUnified then
            (* an empty line after the range of a patch whose file names are known is an empty line of context that has
               lost its leading space (diff --suppress-blank-empty) *)
            if looks_eqb last LKUnified &&
               ((is_nil line && negb (is_nil (old_path p1)) && negb (is_nil (new_path p1))) ||
                starts_with line [43%N] || starts_with line [45%N] || starts_with line [32%N]) then
              (Some (inr (mk (set_fmt (set_paths p1 (new_path p1) (old_path p1) (new_time p1) (old_time p1)) FUnified)
                             LKUnknown (h_hunk st) (h_first st))), h_hunk st)
            else let '(ok, hk') := parse_unified_range empty_hunk line in
                 if ok then (Some (inl (mk p1 LKUnified hk' lines)), hk') else (None, h_hunk st)
          else (None, h_hunk st) in
        match r1 with
        | Some r => Ok r
        | None =>
        (* normal *)
        let '(r2, hk2) :=
          if fmt_unknown_or p1 FNormal then
            if looks_eqb last LKNormal && normal_first_line line then
              (Some (inr (mk (set_fmt (set_paths p1 [] [] (old_time p1) (new_time p1)) FNormal) LKUnknown hk1 (h_first st))), hk1)
            else let '(ok, hk') := parse_normal_range empty_hunk line in
                 if ok then (Some (inl (mk p1 LKNormal hk' lines)), hk') else (None, hk1)
          else (None, hk1) in
        match r2 with
        | Some r => Ok r
        | None =>
        (* context *)
        if fmt_unknown_or p1 FContext then
          if looks_eqb last LKContext && starts_with line (bs "*** ") then
            (* the old range of the first context hunk is taken into the hunk used for the Add inference *)
            let hk3 := if ends_with line (bs " ****")
                       then let '(_, st', _) := parse_context_range (rstart (oldr hk2)) 0 (range_substr line) in
                            mkHunk (mkRange st' (rcount (oldr hk2))) (newr hk2) (body hk2)
                       else hk2 in
            Ok (inr (mk (set_fmt p1 FContext) LKUnknown hk3 (h_first st)))
          else if starts_with line (bs "***************") then
            Ok (inl (mk p1 LKContext hk2 lines))
          else Ok (inl (mk p1 LKUnknown hk2 (h_first st)))
        else Ok (inl (mk p1 LKUnknown hk2 (h_first st)))
        end end
  end end end end end.

(* the while (get_line(line)) loop; fuel = number of bytes + 1 *)
Fixpoint header_loop (fuel : nat) (strip : Z) (st : hstate) (s : stream) : res (hstate * stream) :=
  match fuel with
  | O => Throw EOutOfFuel
  | S f =>
      match sget_line s with
      | (None, s') => Ok (st, s')
      | (Some (line, _), s') =>
          do r <- header_step strip st line;
          match r with
          | inl st' => header_loop f strip st' s'
          | inr st' => Ok (st', s')
          end
      end
  end.

Fixpoint skip_lines (n : nat) (s : stream) : res stream :=
  match n with
  | O => Ok s
  | S k => match sget_line s with
           | (None, _) => Throw ERuntime
           | (Some _, s') => skip_lines k s'
           end
  end.

Definition empty_patch (f : format) : patch := mkPatch f OpChange [] [] [] [] [] [] 0 0 [].

(* parse_patch_header: (should_parse_body, patch, stream, a hunk start was found) *)
Definition parse_patch_header_full (p : patch) (strip : Z) (s : stream) : res (bool * patch * stream * bool) :=
  let start := rest s in
  do x <- header_loop (S (length (rest s))) strip (mkHS p LKUnknown 0 false true empty_hunk 0) s;
  let '(st, s1) := x in
  let p1 := if h_git st then set_fmt (h_patch st) FGit else h_patch st in
  let s2 := sseek (sclear s1) start in
  do s3 <- skip_lines (h_first st - 1) s2;
  let p2 := match poper p1 with
            | OpChange =>
                if Z.eqb (rstart (newr (h_hunk st))) 0 || str_eqb (new_path p1) devnull_path then set_oper p1 OpDelete
                else if Z.eqb (rstart (oldr (h_hunk st))) 0 || str_eqb (old_path p1) devnull_path then set_oper p1 OpAdd
                else p1
            | _ => p1
            end in
  Ok (h_body st, p2, s3, negb (Nat.eqb (h_first st) 0)).

Definition parse_patch_header (p : patch) (strip : Z) (s : stream) : res (bool * patch * stream) :=
  do x <- parse_patch_header_full p strip s; Ok (fst x).

(* ---- unified body (parser.cpp parse_unified_patch) ---- *)
Definition op_of_char (c : N) : option op :=
  if N.eqb c 32 then Some Ctx else if N.eqb c 43 then Some Add else if N.eqb c 45 then Some Del else None.

Definition set_last_nonl (l : list pline) : list pline :=
  match rev l with
  | [] => []
  | p :: r => rev (mkPL (pop p) (mkLine (txt (pl p)) NoNL) :: r)
  end.

(* "if (expected == 0 && m_file.peek() == '\\') { lines.back().newline = None; get_line(line); }" *)
Definition eat_marker (hit : bool) (ls : list pline) (s : stream) : list pline * stream :=
  if hit && peek_is s 92 then (set_last_nonl ls, snd (sget_line s)) else (ls, s).

(* state: Some (hunk under construction, old_expected, new_expected) in Content, None in InitialHunkContext *)
Fixpoint unified_loop (fuel : nat) (s : stream) (acc : list hunk)
         (cur : option (hunk * Z * Z)) (last_exp : Z * Z) : res (list hunk * stream) :=
  match fuel with
  | O => Throw EOutOfFuel
  | S f =>
      match sget_line s with
      | (None, s') =>
          (* left the loop by break *)
          match cur with
          | None => if is_nil acc then Ok (acc, s')
                    else if negb (Z.eqb (snd last_exp) 0) then Throw EInvalidArgument
                    else if negb (Z.eqb (fst last_exp) 0) then Throw EInvalidArgument
                    else Ok (acc, s')
          | Some (_, oe, ne) =>
              if negb (Z.eqb ne 0) then Throw EInvalidArgument
              else if negb (Z.eqb oe 0) then Throw EInvalidArgument
              else Ok (acc, s')
          end
      | (Some (line, n), s') =>
          match cur with
          | None =>
              let '(ok, h) := parse_unified_range empty_hunk line in
              if ok then unified_loop f s' acc (Some (mkHunk (oldr h) (newr h) [], rcount (oldr h), rcount (newr h))) last_exp
              else unified_loop f s' acc None last_exp
          | Some (h, oe, ne) =>
              let line1 := match line with [] => [32%N] | _ => line end in
              match line1 with
              | [] => Throw EOutOfRange
              | what :: content =>
                  match op_of_char what with
                  | None => Throw ERuntime
                  | Some o =>
                      let ls0 := body h ++ [mkPL o (mkLine content n)] in
                      let ne1 := match o with Del => ne | _ => (ne - 1)%Z end in
                      let '(ls1, s1) := match o with Del => (ls0, s') | _ => eat_marker (Z.eqb ne1 0) ls0 s' end in
                      let oe1 := match o with Add => oe | _ => (oe - 1)%Z end in
                      let '(ls2, s2) := match o with Add => (ls1, s1) | _ => eat_marker (Z.eqb oe1 0) ls1 s1 end in
                      if Z.eqb oe1 0 && Z.eqb ne1 0 then
                        let acc' := acc ++ [mkHunk (oldr h) (newr h) ls2] in
                        let pos := rest s2 in
                        match sget_line s2 with
                        | (None, s3) => Ok (acc', s3)
                        | (Some (l2, _), s3) =>
                            let '(ok, h2) := parse_unified_range (mkHunk (oldr h) (newr h) []) l2 in
                            if ok then unified_loop f s3 acc' (Some (mkHunk (oldr h2) (newr h2) [], rcount (oldr h2), rcount (newr h2))) (0%Z, 0%Z)
                            else Ok (acc', sseek s3 pos)
                        end
                      else unified_loop f s2 acc (Some (mkHunk (oldr h) (newr h) ls2, oe1, ne1)) last_exp
                  end
              end
          end
      end
  end.

Definition parse_unified_patch (s : stream) : res (list hunk * stream) :=
  unified_loop (S (length (rest s))) s [] None ((-1)%Z, (-1)%Z).

(* ---- context body ---- *)
Inductive cxop := XSp | XPlus | XMinus | XBang.
Definition cxop_of_char (c : N) : option cxop :=
  if N.eqb c 32 then Some XSp else if N.eqb c 43 then Some XPlus else if N.eqb c 45 then Some XMinus
  else if N.eqb c 33 then Some XBang else None.

(* append_line *)
Definition ctx_append_line (ls : list (cxop * line)) (content : list N) (n : newline) : res (list (cxop * line)) :=
  match content with
  | c0 :: c1 :: r =>
      if N.eqb c1 45 then Throw ERuntime
      else match cxop_of_char c0 with
           | Some o => Ok (ls ++ [(o, mkLine r n)])
           | None => Throw ERuntime
           end
  | _ => Throw EInvalidArgument
  end.

(* append_content: read lines while i <= end, i starting at start + size *)
Fixpoint ctx_append_content (fuel : nat) (ls : list (cxop * line)) (i en : Z) (s : stream) : res (list (cxop * line) * stream) :=
  match fuel with
  | O => Throw EOutOfFuel
  | S f =>
      if Z.ltb en i then Ok (ls, s)
      else match sget_line s with
           | (None, _) => Throw ERuntime
           | (Some (line, n), s') =>
               do ls' <- ctx_append_line ls line n;
               if Z.eqb i en then Ok (ls', s') else ctx_append_content f ls' (i + 1)%Z en s'
           end
  end.

Definition set_last_nonl_c (l : list (cxop * line)) : list (cxop * line) :=
  match rev l with
  | [] => []
  | (o, x) :: r => rev ((o, mkLine (txt x) NoNL) :: r)
  end.

Definition ctx_check_nonl (ls : list (cxop * line)) (s : stream) : list (cxop * line) * stream :=
  if negb (is_nil ls) && peek_is s 92 then (set_last_nonl_c ls, snd (sget_line s)) else (ls, s).

Definition is_old_range_line (line : list N) : bool := starts_with line (bs "*** ") && ends_with line (bs " ****").
Definition is_new_range_line (line : list N) : bool := starts_with line (bs "--- ") && ends_with line (bs " ----").

(* the first while loop: skip until the old file range; returns (old_start, old_end, stream) *)
Fixpoint ctx_find_old_range (fuel : nat) (s : stream) : Z * Z * stream :=
  match fuel with
  | O => (0%Z, 0%Z, s)
  | S f =>
      match sget_line s with
      | (None, s') => (0%Z, 0%Z, s')
      | (Some (line, _), s') =>
          if is_old_range_line line then
            let '(_, st, en) := parse_context_range 0 0 (range_substr line) in (st, en, s')
          else ctx_find_old_range f s'
      end
  end.

(* parse_range lambda: None = not a range line; Some (Throw) when the range inside does not parse *)
Definition ctx_parse_new_range (line : list N) : option (res (Z * Z)) :=
  if negb (is_new_range_line line) then None
  else let '(ok, st, en) := parse_context_range 0 0 (range_substr line) in
       Some (if ok then Ok (st, en) else Throw ERuntime).

Definition line_or_empty (x : option (list N * newline)) : list N * newline :=
  match x with Some y => y | None => ([], NoNL) end.

(* a line of the new side of a context hunk: ' ', '+' or '!' followed by a blank *)
Definition looks_like_new_line (line : list N) : bool :=
  match line with
  | c0 :: c1 :: _ => (N.eqb c0 32 || N.eqb c0 43 || N.eqb c0 33) && is_whitespace c1
  | _ => false
  end.

Definition parse_context_hunk (s : stream)
  : res (list (cxop * line) * Z * list (cxop * line) * Z * stream) :=
  let fuel := S (length (rest s)) in
  let '(ostart, oend, s1) := ctx_find_old_range fuel s in
  match sget_line s1 with
  | (None, _) => Throw ERuntime
  | (Some (line, n), s2) =>
      match ctx_parse_new_range line with
      | Some (Throw e) => Throw e
      | Some (Ok (nstart, nend)) =>
          do x <- ctx_append_content fuel [] (sadd nstart 0) nend s2;
          let '(nl2, s3) := ctx_check_nonl (fst x) (snd x) in
          Ok ([], ostart, nl2, nstart, s3)
      | None =>
          do ol1 <- ctx_append_line [] line n;
          do x <- ctx_append_content fuel ol1 (sadd ostart (Z.of_nat (length ol1))) oend s2;
          let '(ol2, s3) := ctx_check_nonl (fst x) (snd x) in
          let '(l2, s4) := sget_line s3 in
          let line2 := fst (line_or_empty l2) in
          match ctx_parse_new_range line2 with
          | None => Throw ERuntime
          | Some (Throw e) => Throw e
          | Some (Ok (nstart, nend)) =>
              let pos := rest s4 in
              let '(l3, s5) := sget_line s4 in
              let '(line3, n3) := line_or_empty l3 in
              if seof s5 then Ok (ol2, ostart, [], nstart, s5)
              else if starts_with line3 (bs "**********") then Ok (ol2, ostart, [], nstart, s5)
              else if negb (looks_like_new_line line3) then Ok (ol2, ostart, [], nstart, sseek s5 pos)
              else
                do nl1 <- ctx_append_line [] line3 n3;
                do y <- ctx_append_content fuel nl1 (sadd nstart (Z.of_nat (length nl1))) nend s5;
                let '(nl2, s6) := ctx_check_nonl (fst y) (snd y) in
                Ok (ol2, ostart, nl2, nstart, s6)
          end
      end
  end.

(* hunk_from_context_parts *)
Fixpoint from_context_parts (fuel : nat) (ol nl_ : list (cxop * line)) (acc : list pline) (oc nc : Z)
  : res (list pline * Z * Z) :=
  match fuel with
  | O => Throw EOutOfFuel
  | S f =>
      match ol, nl_ with
      | [], [] => Ok (acc, oc, nc)
      | _, _ =>
          let oh := match ol with x :: _ => Some x | [] => None end in
          let nh := match nl_ with x :: _ => Some x | [] => None end in
          let otl := tl ol in let ntl := tl nl_ in
          match oh, nh with
          | Some (XMinus, l), _ => from_context_parts f otl nl_ (acc ++ [mkPL Del l]) (oc + 1)%Z nc
          | _, Some (XPlus, l) => from_context_parts f ol ntl (acc ++ [mkPL Add l]) oc (nc + 1)%Z
          | Some (XBang, l), _ => from_context_parts f otl nl_ (acc ++ [mkPL Del l]) (oc + 1)%Z nc
          | _, Some (XBang, l) => from_context_parts f ol ntl (acc ++ [mkPL Add l]) oc (nc + 1)%Z
          | Some (XSp, l), Some (XSp, l') =>
              if negb (str_eqb (txt l) (txt l')) then Throw EInvalidArgument
              else from_context_parts f otl ntl (acc ++ [mkPL Ctx l]) (oc + 1)%Z (nc + 1)%Z
          | Some (XSp, l), _ => from_context_parts f otl nl_ (acc ++ [mkPL Ctx l]) (oc + 1)%Z (nc + 1)%Z
          | _, Some (XSp, l) => from_context_parts f ol ntl (acc ++ [mkPL Ctx l]) (oc + 1)%Z (nc + 1)%Z
          | _, _ => Throw EInvalidArgument
          end
      end
  end.

Definition has_bang (l : list (cxop * line)) : bool := existsb (fun x => match fst x with XBang => true | _ => false end) l.

Definition hunk_from_context_parts (ostart : Z) (ol : list (cxop * line)) (nstart : Z) (nl_ : list (cxop * line)) : res hunk :=
  if (is_nil nl_ && has_bang ol) || (is_nil ol && has_bang nl_) then Throw EInvalidArgument else
  do x <- from_context_parts (S (length ol + length nl_)) ol nl_ [] 0 0;
  let '(b, oc, nc) := x in Ok (mkHunk (mkRange ostart oc) (mkRange nstart nc) b).

Fixpoint context_loop (fuel : nat) (s : stream) (acc : list hunk) : res (list hunk * stream) :=
  match fuel with
  | O => Throw EOutOfFuel
  | S f =>
      do x <- parse_context_hunk s;
      let '(ol, ostart, nl_, nstart, s1) := x in
      do h <- hunk_from_context_parts ostart ol nstart nl_;
      let acc' := acc ++ [h] in
      let pos := rest s1 in
      let '(l, s2) := sget_line s1 in
      let line := fst (line_or_empty l) in
      let s3 := sseek s2 pos in
      if starts_with line (bs "***************") || is_old_range_line line then context_loop f s3 acc'
      else Ok (acc', s3)
  end.

Definition parse_context_patch (s : stream) : res (list hunk * stream) :=
  context_loop (S (length (rest s))) s [].

(* ---- normal body ---- *)
Fixpoint normal_read (fuel : nat) (n : Z) (marker : N) (o : op) (s : stream) (acc : list pline) : res (list pline * stream) :=
  match fuel with
  | O => Throw EOutOfFuel
  | S f =>
      if Z.leb n 0 then Ok (acc, s)
      else match sget_line s with
           | (None, _) => Throw ERuntime
           | (Some (line, nl_), s') =>
               match line with
               | c0 :: c1 :: r =>
                   if N.eqb c0 marker && is_whitespace c1 then normal_read f (n - 1)%Z marker o s' (acc ++ [mkPL o (mkLine r nl_)])
                   else Throw ERuntime
               | _ => Throw ERuntime
               end
           end
  end.

Definition normal_check_nonl (ls : list pline) (s : stream) : list pline * stream :=
  if negb (is_nil ls) && peek_is s 92 then (set_last_nonl ls, snd (sget_line s)) else (ls, s).

Fixpoint normal_loop (fuel : nat) (s : stream) (acc : list hunk) : res (list hunk * stream) :=
  match fuel with
  | O => Throw EOutOfFuel
  | S f =>
      let pos := rest s in
      match sget_line s with
      | (None, s') => Ok (acc, s')
      | (Some (line, _), s') =>
          if seof s' || is_nil line then Ok (acc, s')
          else
            let '(ok, h) := parse_normal_range empty_hunk line in
            if negb ok then
              if is_nil acc then Throw EInvalidArgument else Ok (acc, sseek s' pos)
            else
              let fuel2 := S (length (rest s')) in
              do x <- normal_read fuel2 (rcount (oldr h)) 60 Del s' [];
              let '(ls1, s1) := normal_check_nonl (fst x) (snd x) in
              let s2 := if peek_is s1 45 then
                          match sget_line s1 with
                          | (Some (l, _), s') => if str_eqb l (bs "---") then s' else sseek s' (rest s1)
                          | (None, s') => s'
                          end
                        else s1 in
              do y <- normal_read fuel2 (rcount (newr h)) 62 Add s2 ls1;
              let '(ls2, s3) := normal_check_nonl (fst y) (snd y) in
              normal_loop f s3 (acc ++ [mkHunk (oldr h) (newr h) ls2])
      end
  end.

Definition parse_normal_patch (s : stream) : res (list hunk * stream) :=
  normal_loop (S (length (rest s))) s [].

(* ---- parse_patch_body / parse_patch / the section loop ---- *)
Definition parse_patch_body (p : patch) (s : stream) : res (patch * stream) :=
  match pfmt p with
  | FUnified | FGit => do x <- parse_unified_patch s; Ok (set_hunks p (hunks p ++ fst x), snd x)
  | FContext => do x <- parse_context_patch s; Ok (set_hunks p (hunks p ++ fst x), snd x)
  | FNormal => do x <- parse_normal_patch s; Ok (set_hunks p (hunks p ++ fst x), snd x)
  | _ => Throw ERuntime
  end.

Definition stream_of (b : list N) : stream := mkStream b false false.

Definition parse_patch (b : list N) (f : format) (strip : Z) : res patch :=
  do x <- parse_patch_header (empty_patch f) strip (stream_of b);
  let '(should, p, s) := x in
  if should then do y <- parse_patch_body p s; Ok (fst y) else Ok p.

(* the section structure of process_patch's loop: every section's patch as parsed, in order *)
Fixpoint parse_all_loop (fuel : nat) (f : format) (strip : Z) (s : stream) (first : bool) (acc : list patch) : res (list patch) :=
  match fuel with
  | O => Throw EOutOfFuel
  | S k =>
      if seof s then Ok acc
      else
        do x <- parse_patch_header_full (empty_patch f) strip s;
        let '(should, p, s1, found) := x in
        match (if negb found && should then FUnknown else pfmt p) with
        | FUnknown => if first then Throw EInvalidArgument else Ok acc
        | _ =>
            match poper p with
            | OpBinary => parse_all_loop k f strip s1 false (acc ++ [p])
            | _ =>
                if should then do y <- parse_patch_body p s1; parse_all_loop k f strip (snd y) false (acc ++ [fst y])
                else parse_all_loop k f strip s1 false (acc ++ [p])
            end
        end
  end.

Definition parse_all (b : list N) (f : format) (strip : Z) : res (list patch) :=
  parse_all_loop (S (S (length b))) f strip (stream_of b) true [].
