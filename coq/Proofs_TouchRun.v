(* Proofs_TouchRun.v — C16 at the level of the whole run: nothing outside what the trace names changes (Part 2), and every
   operation of the run is allowed for one of the sections of the stream or for a deferred destination (Part 1). *)
From PatchV Require Import Base Lines Hunk Locator Formatter Options Applier LineParser Parser World Driver
     Proofs_Base Proofs_World Proofs_Driver Proofs_Touch Proofs_Crash Proofs_Fuel Proofs_Progress Proofs_Sections
     Proofs_DriverMore Proofs_CrashRun.

(* ================================================================================================================== *)
(* Part 2: the frame of a history                                                                                     *)
(* ================================================================================================================== *)

(* [op_spares m op q]: performed in the tree m, the operation op neither names q nor names a link whose target is q *)
Definition op_spares (m : fsmap) (op : sysop) (q : list N) : Prop :=
  ~ In q (op_paths op) /\ (forall p t, In p (op_paths op) -> lookup m p = Some (Sym t) -> q <> link_target p t).

(* [log_spares w log q]: every operation of the history spares q in the tree it is performed in (the tree reached from w
   by the operations before it) *)
Definition log_spares (w : world) (log : list entry) (q : list N) : Prop :=
  forall pre op r post wi, log = pre ++ (op, r) :: post -> Steps w pre wi -> op_spares (fs wi) op q.

Lemma perform_frame op w r w1 q : perform op w = (Ok r, w1) -> op_spares (fs w) op q -> lookup (fs w1) q = lookup (fs w) q.
Proof.
  intros P (Hq & Hl). destruct (perform_ok _ _ _ _ P) as [[_ E]|(e & _ & E)].
  - eapply exec_op_frame; eauto.
  - rewrite E. reflexivity.
Qed.

Theorem steps_frame w log w' q : Steps w log w' -> log_spares w log q -> lookup (fs w') q = lookup (fs w) q.
Proof.
  induction 1 as [a b (F & _)|a a0 op r a1 l b S P R IH]; intros H.
  - rewrite F. reflexivity.
  - rewrite IH.
    + destruct S as (F & U & T & Fa). rewrite <- F. eapply perform_frame; [exact P|].
      rewrite F. apply (H [] op r l a eq_refl). apply Steps_nil. apply same_tree_refl.
    + intros pre op' r' post wi E St. apply (H ((op, r) :: pre) op' r' post wi).
      * rewrite E. reflexivity.
      * eapply Steps_cons; [exact S|exact P|exact St].
Qed.

(* a failed operation leaves the whole tree alone *)
Lemma perform_failed op w e w1 : perform op w = (Ok (Some e), w1) -> fs w1 = fs w.
Proof. intros P. destruct (perform_ok _ _ _ _ P) as [[E _]|(e' & _ & E)]; [discriminate|exact E]. Qed.

(* the same with the failed operations left out of the condition: only an operation that succeeded has to spare q *)
Definition log_spares_ok (w : world) (log : list entry) (q : list N) : Prop :=
  forall pre op post wi, log = pre ++ (op, None) :: post -> Steps w pre wi -> op_spares (fs wi) op q.

Theorem steps_frame_ok w log w' q : Steps w log w' -> log_spares_ok w log q -> lookup (fs w') q = lookup (fs w) q.
Proof.
  induction 1 as [a b (F & _)|a a0 op r a1 l b S P R IH]; intros H.
  - rewrite F. reflexivity.
  - rewrite IH.
    + destruct S as (F & U & T & Fa). rewrite <- F. destruct r as [e|].
      * rewrite (perform_failed _ _ _ _ P). reflexivity.
      * eapply perform_frame; [exact P|]. rewrite F. apply (H [] op l a eq_refl). apply Steps_nil. apply same_tree_refl.
    + intros pre op' post wi E St. apply (H ((op, r) :: pre) op' post wi).
      * rewrite E. reflexivity.
      * eapply Steps_cons; [exact S|exact P|exact St].
Qed.

(* the run: process_patch has a history whose operations are the extension of the trace, and every path all of them spare
   keeps its entry (kind, bytes, mode, or absence) *)
Theorem run_frame o t w :
  exists log, Steps w log (snd (process_patch o t w)) /\
    trace (snd (process_patch o t w)) = trace w ++ map fst log /\
    forall q, log_spares_ok w log q -> lookup (fs (snd (process_patch o t w))) q = lookup (fs w) q.
Proof.
  destruct (Logged_process_patch o t w) as (log & S & _). exists log. split; [exact S|]. split.
  - apply Steps_trace. exact S.
  - intros q H. eapply steps_frame_ok; eauto.
Qed.

(* ---------- a static sufficient condition: the link targets that can occur are those of the tree the run starts in and
   those of the symlinks the run creates ---------- *)
Definition targets_in (T : list N -> Prop) (m : fsmap) : Prop := forall p t, lookup m p = Some (Sym t) -> T t.

Lemma lookup_remove_some m x p n : lookup (remove_key m x) p = Some n -> lookup m p = Some n.
Proof.
  destruct (list_eq_dec N.eq_dec x p) as [->|D].
  - rewrite lookup_remove_same. discriminate.
  - rewrite lookup_remove_other by exact D. auto.
Qed.

Lemma lookup_upd_some m x n0 p n : lookup (upd m x n0) p = Some n -> n = n0 \/ lookup m p = Some n.
Proof.
  destruct (list_eq_dec N.eq_dec x p) as [->|D].
  - rewrite lookup_upd_same. intros [= ->]. left. reflexivity.
  - rewrite lookup_upd_other by exact D. auto.
Qed.

Lemma targets_upd T m x n : targets_in T m -> (forall t, n = Sym t -> T t) -> targets_in T (upd m x n).
Proof. intros H Hn p t L. destruct (lookup_upd_some _ _ _ _ _ L) as [E|L']; [apply Hn; symmetry; exact E|eapply H; exact L']. Qed.

Lemma targets_remove T m x : targets_in T m -> targets_in T (remove_key m x).
Proof. intros H p t L. eapply H. eapply lookup_remove_some. exact L. Qed.

Lemma exec_op_targets T m um op m' :
  exec_op m um op = inl m' -> targets_in T m -> (forall t p, op = OSymlink t p -> T t) -> targets_in T m'.
Proof.
  intros E H Hs. destruct op as [p md|a b|p|p|p|p data|t p|p]; cbn [exec_op] in E.
  - destruct (negb (parent_ok m p false)); [discriminate|].
    destruct (lookup m p) as [[d x|x|t|x]|] eqn:L; try discriminate.
    + inversion E. apply targets_upd; [exact H|discriminate].
    + inversion E. apply targets_upd; [exact H|discriminate].
    + destruct (lookup m (link_target p t)) as [[d x|x|t2|x]|]; try discriminate. inversion E. apply targets_upd; [exact H|discriminate].
    + inversion E. apply targets_upd; [exact H|discriminate].
  - destruct (negb (parent_ok m a true && parent_ok m b true)); [discriminate|].
    destruct (lookup m a) as [n|] eqn:La; [|discriminate].
    assert (R : targets_in T (upd (remove_key m a) b n)).
    { apply targets_upd; [apply targets_remove; exact H|]. intros t ->. eapply H. exact La. }
    destruct (lookup m b) as [[d x|x|t|x]|]; try discriminate; inversion E; subst; exact R.
  - destruct (negb (parent_ok m p true)); [discriminate|].
    pose proof (targets_remove T m p H) as R.
    destruct (lookup m p) as [[d x|x|t|x]|]; try discriminate; try (inversion E; subst; exact R).
    destruct (has_children m p); [discriminate|]. inversion E; subst; exact R.
  - destruct (negb (parent_ok m p true)); [discriminate|].
    destruct (lookup m p) as [[d x|x|t|x]|]; try discriminate. destruct (has_children m p); [discriminate|].
    inversion E. apply targets_remove. exact H.
  - destruct (lookup m p); [discriminate|]. destruct (parent_ok m p true); [|discriminate].
    inversion E. apply targets_upd; [exact H|discriminate].
  - destruct (lookup m p) as [[d x|x|t|x]|] eqn:L; try discriminate.
    + destruct (parent_ok m p false && owner_w x); [|discriminate]. inversion E. apply targets_upd; [exact H|discriminate].
    + destruct (lookup m (link_target p t)) as [[d2 x2|x2|t2|x2]|]; try discriminate.
      * destruct (owner_w x2); [|discriminate]. inversion E. apply targets_upd; [exact H|discriminate].
      * inversion E. apply targets_upd; [exact H|discriminate].
    + destruct (parent_ok m p true); [|discriminate]. inversion E. apply targets_upd; [exact H|discriminate].
  - destruct (lookup m p); [discriminate|]. destruct (parent_ok m p true); [|discriminate].
    inversion E. apply targets_upd; [exact H|]. intros t0 [= ->]. eapply Hs. reflexivity.
  - destruct (stat m p) as [[d x|x|t|x]|]; try discriminate.
    + destruct (owner_r x); [|discriminate]. inversion E; subst; exact H.
    + inversion E; subst; exact H.
Qed.

(* [named_spares T op q]: op does not name q, and q is not what a link at a path op names would point to with a target in T *)
Definition named_spares (T : list N -> Prop) (op : sysop) (q : list N) : Prop :=
  ~ In q (op_paths op) /\ (forall p t, In p (op_paths op) -> T t -> q <> link_target p t).

Theorem steps_frame_static T w log w' q :
  Steps w log w' ->
  targets_in T (fs w) ->
  (forall t p r, In (OSymlink t p, r) log -> T t) ->
  (forall op r, In (op, r) log -> named_spares T op q) ->
  lookup (fs w') q = lookup (fs w) q.
Proof.
  induction 1 as [a b (F & _)|a a0 op r a1 l b S P R IH]; intros HT Hs Hq.
  - rewrite F. reflexivity.
  - destruct S as (F & U & Tr & Fa). rewrite <- F in HT.
    destruct (Hq op r (or_introl eq_refl)) as (Hn & Hl).
    assert (HT1 : targets_in T (fs a1)).
    { destruct (perform_ok _ _ _ _ P) as [[_ E]|(e & _ & E)]; [|rewrite E; exact HT].
      eapply exec_op_targets; [exact E|exact HT|]. intros t p ->. eapply Hs. left. reflexivity. }
    rewrite IH.
    + rewrite <- F. eapply perform_frame; [exact P|]. split; [exact Hn|].
      intros p t I L. apply Hl; [exact I|]. eapply HT. exact L.
    + exact HT1.
    + intros t p r0 I. eapply Hs. right. exact I.
    + intros op0 r0 I. eapply Hq. right. exact I.
Qed.

(* the statement over the trace alone (operations without results) *)
Theorem run_frame_static T o t w q :
  targets_in T (fs w) ->
  (forall ext, trace (snd (process_patch o t w)) = trace w ++ ext ->
     (forall tg p, In (OSymlink tg p) ext -> T tg) /\ (forall op, In op ext -> named_spares T op q)) ->
  lookup (fs (snd (process_patch o t w))) q = lookup (fs w) q.
Proof.
  intros HT H. destruct (Logged_process_patch o t w) as (log & S & _).
  destruct (H (map fst log) (Steps_trace _ _ _ S)) as (Hs & Hq).
  eapply steps_frame_static; [exact S|exact HT| |].
  - intros tg p r I. eapply Hs. apply (in_map fst _ _ I).
  - intros op r I. apply Hq. apply (in_map fst _ _ I).
Qed.

(* without symbolic links anywhere (none in the tree, none created): a path no operation of the run names keeps its entry *)
Corollary run_frame_nolinks o t w q :
  (forall p tg, lookup (fs w) p <> Some (Sym tg)) ->
  (forall ext, trace (snd (process_patch o t w)) = trace w ++ ext ->
     (forall tg p, ~ In (OSymlink tg p) ext) /\ (forall op, In op ext -> ~ In q (op_paths op))) ->
  lookup (fs (snd (process_patch o t w))) q = lookup (fs w) q.
Proof.
  intros HT H. apply (run_frame_static (fun _ => False)).
  - intros p tg L. exact (HT p tg L).
  - intros ext E. destruct (H ext E) as (Hs & Hq). split.
    + intros tg p I. exact (Hs tg p I).
    + intros op I. split; [apply Hq; exact I|]. intros p tg _ [].
Qed.

(* ================================================================================================================== *)
(* Part 1: every operation of the run is allowed for one of the sections processed                                   *)
(* ================================================================================================================== *)

Lemma sections_done_trans o f a sa wa b sb wb c sc wc :
  sections_done o f a sa wa b sb wb -> sections_done o f b sb wb c sc wc -> sections_done o f a sa wa c sc wc.
Proof.
  induction 1 as [st s w|st s w should p s1 found st1 s2 w1 st' s' w' He Hh Hf Hop Hps _ IH
                 |st s w should p s1 found st' s' w' He Hh Hf Hop _ IH]; intros H2.
  - exact H2.
  - eapply SD_section; eauto.
  - eapply SD_binary; eauto.
Qed.

(* the file a section selects in the tree m with the deferred writes of st, for the header p *)
Definition section_ftp (o : options) (st : dstate) (m : fsmap) (p : patch) : list N :=
  if is_nil (file_to_patch o) then guess_filepath m (map d_dest (deferred_writes st)) p o else file_to_patch o.

(* [run_allowed o f a sa wa op]: in the run of the section loop started in state a on the stream sa in the world wa, op is
   - allowed for the section whose header is read at a point (st, s, w) the loop reaches after whole sections, for the
     target that section selects there; or
   - allowed for the destination of a deferred write recorded in a state the loop reaches; or
   - the removal of a path recorded for removal in a state the loop reaches, or of a parent directory of it. *)
Definition run_allowed (o : options) (f : format) (a : dstate) (sa : stream) (wa : world) (op : sysop) : Prop :=
  (exists st s w should p s1 found,
      sections_done o f a sa wa st s w /\ seof s = false /\
      parse_patch_header_full (empty_patch f) (strip_size o) s = Ok (should, p, s1, found) /\
      allowed o (section_ftp o st (fs w) p) (output_path o p (section_ftp o st (fs w) p)) op)
  \/ (exists st s w d, sections_done o f a sa wa st s w /\ In d (deferred_writes st) /\ allowed o (d_dest d) (d_dest d) op)
  \/ (exists st s w p, sections_done o f a sa wa st s w /\ In p (deferred_removals st) /\
        (op = OUnlink p \/ exists d, op = ORmdir d /\ is_ancestor d p)).

Definition loop_post (o : options) (f : format) (a : dstate) (sa : stream) (wa : world) (w : world) (x : res dstate * world) : Prop :=
  exists ext, trace (snd x) = trace w ++ ext /\ Forall (run_allowed o f a sa wa) ext /\
    (forall st', fst x = Ok st' -> exists s', sections_done o f a sa wa st' s' (snd x)).

Lemma loop_post_here o f a sa wa st s w : sections_done o f a sa wa st s w -> loop_post o f a sa wa w (Ok st, w).
Proof.
  intros H. exists []. cbn [fst snd]. rewrite app_nil_r. split; [reflexivity|]. split; [constructor|].
  intros st' [= <-]. exists s. exact H.
Qed.

Lemma loop_post_throw o f a sa wa e w : loop_post o f a sa wa w (@Throw dstate e, w).
Proof.
  exists []. cbn [fst snd]. rewrite app_nil_r. split; [reflexivity|]. split; [constructor|]. intros st' [=].
Qed.

Lemma loop_run_allowed o f a sa wa : forall fuel st s first w,
  sections_done o f a sa wa st s w -> loop_post o f a sa wa w (section_loop fuel o f st s first w).
Proof.
  induction fuel as [|k IH]; intros st s first w SD; cbn [section_loop]; [apply loop_post_throw|].
  destruct (seof s) eqn:He; [eapply loop_post_here; exact SD|].
  rewrite bind_lift.
  destruct (parse_patch_header_full (empty_patch f) (strip_size o) s) as [[[[should p] s1] found]|e] eqn:Hh; [|apply loop_post_throw].
  set (fm := if negb found && should then FUnknown else pfmt p).
  assert (Hfm : fm = if negb found && should then FUnknown else pfmt p) by reflexivity. clearbody fm.
  (* the section at s, when it is not a binary one *)
  assert (GK : fm <> FUnknown -> poper p <> OpBinary ->
               loop_post o f a sa wa w ((let! y := process_section o st should p s1 in section_loop k o f (fst y) (snd y) false) w)).
  { intros Hf Hop. unfold mbind.
    pose proof (section_ops_allowed o st should p s1 w) as A. cbv zeta in A. destruct A as (e1 & T1 & F1).
    fold (section_ftp o st (fs w) p) in F1.
    assert (F1' : Forall (run_allowed o f a sa wa) e1).
    { eapply Forall_impl; [|exact F1]. intros op Hal. left. exists st, s, w, should, p, s1, found. auto. }
    destruct (process_section o st should p s1 w) as [[[st1 s2]|e] w1] eqn:Hps; cbn [snd fst] in *.
    - assert (SD1 : sections_done o f a sa wa st1 s2 w1).
      { eapply sections_done_trans; [exact SD|]. eapply SD_section; [exact He|exact Hh|rewrite <- Hfm; exact Hf|exact Hop|exact Hps|apply SD_here]. }
      destruct (IH st1 s2 false w1 SD1) as (e2 & T2 & F2 & R2). exists (e1 ++ e2). rewrite T2, T1, app_assoc.
      split; [reflexivity|]. split; [apply Forall_app; split; assumption|exact R2].
    - exists e1. cbn [fst snd]. split; [exact T1|]. split; [exact F1'|]. intros st' [=]. }
  (* a binary section *)
  assert (GB : fm <> FUnknown -> poper p = OpBinary ->
               loop_post o f a sa wa w (section_loop k o f (set_failure st) s1 false w)).
  { intros Hf Hop. apply IH. eapply sections_done_trans; [exact SD|].
    eapply SD_binary; [exact He|exact Hh|rewrite <- Hfm; exact Hf|exact Hop|apply SD_here]. }
  assert (G : fm <> FUnknown ->
              loop_post o f a sa wa w
                (match poper p with
                 | OpBinary => section_loop k o f (set_failure st) s1 false
                 | _ => let! y := process_section o st should p s1 in section_loop k o f (fst y) (snd y) false
                 end w)).
  { intros Hf. destruct (poper p) eqn:Hop; try (apply GK; [exact Hf|discriminate]). apply GB; [exact Hf|reflexivity]. }
  destruct fm; try (apply G; discriminate).
  destruct first; [apply loop_post_throw|eapply loop_post_here; exact SD].
Qed.

Lemma TP_finish_run_allowed o f a sa wa st s w :
  sections_done o f a sa wa st s w -> TP (run_allowed o f a sa wa) (finish o st).
Proof.
  intros SD. unfold finish. apply TP_bind.
  - eapply TP_weaken; [apply finalize_ops_allowed|]. intros op (d & I & A). right. left. exists st, s, w, d. auto.
  - intros st1. apply TP_bind; [|intros x; apply TP_ret].
    eapply TP_weaken; [apply finalize_removals_allowed|]. intros op (p & I & A). right. right. exists st, s, w, p. auto.
Qed.

(* the run *)
Theorem run_ops_allowed o f t w :
  format_from_options o = Ok f ->
  exists ext, trace (snd (process_patch o t w)) = trace w ++ ext /\ Forall (run_allowed o f ds0 (stream_of t) w) ext.
Proof.
  intros Hfo. rewrite process_patch_unfold, bind_lift, Hfo. unfold mbind.
  destruct (loop_run_allowed o f ds0 (stream_of t) w (S (S (length t))) ds0 (stream_of t) true w (SD_here _ _ _ _ _)) as (e1 & T1 & F1 & R1).
  destruct (section_loop (S (S (length t))) o f ds0 (stream_of t) true w) as [[st|e] w1]; cbn [fst snd] in *.
  - destruct (R1 st eq_refl) as (s' & SD).
    destruct (TP_finish_run_allowed o f ds0 (stream_of t) w st s' w1 SD w1) as (e2 & T2 & F2).
    exists (e1 ++ e2). rewrite T2, T1, app_assoc. split; [reflexivity|]. apply Forall_app. split; assumption.
  - exists e1. split; [exact T1|exact F1].
Qed.

(* ================================================================================================================== *)
(* Example: the two-section stream of Proofs_Sections.v (files f and g, -b) run in a tree with a bystander file h       *)
(* ================================================================================================================== *)
Local Open Scope string_scope.
Definition tr_w : world :=
  mkWorld [(bs "f", Reg (bs "x" ++ nlb) 420); (bs "g", Reg (bs "c" ++ nlb) 420); (bs "h", Reg (bs "bystander" ++ nlb) 384)]
          18 [] None [].

(* the nine operations of the run: f is read, f.rej written, f renamed to f.orig, f written, chmod; g read, renamed to g.orig,
   written, chmod *)
Definition tr_ext : list sysop :=
  [OOpenRead (bs "f"); OWrite (bs "f.rej") (ex_sec_f);
   ORename (bs "f") (bs "f.orig"); OWrite (bs "f") (bs "x" ++ nlb); OChmod (bs "f") 420;
   OOpenRead (bs "g"); ORename (bs "g") (bs "g.orig"); OWrite (bs "g") (bs "d" ++ nlb); OChmod (bs "g") 420].

Example tr_trace : trace (snd (process_patch ex_o ex_t tr_w)) = trace tr_w ++ tr_ext.
Proof. vm_compute. reflexivity. Qed.

(* the bystander keeps its entry: by the theorem, from the trace alone *)
Example bystander_unchanged :
  lookup (fs (snd (process_patch ex_o ex_t tr_w))) (bs "h") = Some (Reg (bs "bystander" ++ nlb) 384).
Proof.
  rewrite (run_frame_nolinks ex_o ex_t tr_w (bs "h")).
  - vm_compute. reflexivity.
  - intros p tg. cbn [fs tr_w lookup].
    destruct (str_eqb (bs "f") p); [discriminate|]. destruct (str_eqb (bs "g") p); [discriminate|].
    destruct (str_eqb (bs "h") p); discriminate.
  - intros ext E. rewrite tr_trace in E. apply app_inv_head in E. subst ext. split.
    + intros tg p I. vm_compute in I. repeat (destruct I as [I|I]; [discriminate I|]). exact I.
    + intros op I. vm_compute in I.
      repeat (destruct I as [I|I]; [subst op; vm_compute; intros H; repeat (destruct H as [H|H]; [discriminate H|]); exact H|]).
      destruct I.
Qed.

(* and so does any path other than f, f.rej, f.orig, g, g.orig, present or not *)
Example others_unchanged q :
  ~ In q [bs "f"; bs "f.rej"; bs "f.orig"; bs "g"; bs "g.orig"] ->
  lookup (fs (snd (process_patch ex_o ex_t tr_w))) q = lookup (fs tr_w) q.
Proof.
  intros Hq. apply run_frame_nolinks.
  - intros p tg. cbn [fs tr_w lookup].
    destruct (str_eqb (bs "f") p); [discriminate|]. destruct (str_eqb (bs "g") p); [discriminate|].
    destruct (str_eqb (bs "h") p); discriminate.
  - intros ext E. rewrite tr_trace in E. apply app_inv_head in E. subst ext. split.
    + intros tg p I. unfold tr_ext in I. cbn [In] in I. repeat (destruct I as [I|I]; [discriminate I|]). exact I.
    + intros op I. unfold tr_ext in I. cbn [In] in I.
      repeat (destruct I as [I|I]; [subst op; cbn [op_paths In]; intros H; apply Hq; cbn [In]; tauto|]).
      destruct I.
Qed.

(* Part 1 on the example: the hypothesis holds, so each of the nine operations is allowed for the section of f or of g *)
Example tr_run_allowed :
  exists ext, trace (snd (process_patch ex_o ex_t tr_w)) = trace tr_w ++ ext /\
              Forall (run_allowed ex_o FUnknown ds0 (stream_of ex_t) tr_w) ext.
Proof. apply run_ops_allowed. vm_compute. reflexivity. Qed.
