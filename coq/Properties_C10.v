(* Properties_C10.v — C10: I/O failures are never reported as success.  Statements only; proofs in Proofs_Faults.v.
   The model injects one failure: the k-th system operation of the run (open for reading, write of a whole file, rename,
   unlink, rmdir, mkdir, chmod, symlink; on the patch file, a target, a backup, a reject file, a directory) reports EIO. *)
From PatchV Require Import Base Lines Hunk Options World Driver Proofs_Faults.

(* if the injected failure was reached, the run ends with exit status 2 *)
Theorem fault_is_fatal : forall o stdin w,
  fault w <> None -> fault (rr_world (run_patch o stdin w)) = None -> rr_exit (run_patch o stdin w) = 2.
Proof. exact Proofs_Faults.fault_is_fatal. Qed.
Print Assumptions fault_is_fatal.

Theorem no_fault_no_fault : forall o stdin w, fault w = None -> fault (rr_world (run_patch o stdin w)) = None.
Proof. exact Proofs_Faults.no_fault_no_fault. Qed.
Print Assumptions no_fault_no_fault.

Local Open Scope string_scope.
Definition ex_opts :=
  mkOptions true false [] [] false (bs "p.diff") false false false [] (-1) 2 false [] [] false false false false false false false false OBUnset OBUnset MNative RFDefault ROWarn QSUnset [] [].
Definition nlb : list N := [10%N].
Definition ex_patch := bs "--- f" ++ nlb ++ bs "+++ f" ++ nlb ++ bs "@@ -1 +1 @@" ++ nlb ++ bs "-a" ++ nlb ++ bs "+b" ++ nlb.
Definition ex_world (k : option nat) := mkWorld [(bs "f", Reg (bs "a" ++ nlb) 420); (bs "p.diff", Reg ex_patch 420)] 18 [] k [].
(* the fault-free run performs 5 operations (open patch, open f, rename f f.orig, write f, chmod f); each of them, failing, gives 2;
   a failure scheduled after the last one is never reached and the run is the fault-free one *)
Example faults_nonvacuous :
  length (trace (rr_world (run_patch ex_opts [] (ex_world None)))) = 5 /\
  map (fun k => rr_exit (run_patch ex_opts [] (ex_world (Some k)))) [0; 1; 2; 3; 4; 5] = [2; 2; 2; 2; 2; 0] /\
  map (fun k => fault (rr_world (run_patch ex_opts [] (ex_world (Some k))))) [0; 4; 5] = [None; None; Some 0].
Proof. vm_compute. repeat split; reflexivity. Qed.

(* ===== merged from Properties_FaultsRun.v ===== *)
From PatchV Require Import Base Lines Hunk Options World Driver Proofs_Faults Proofs_FaultsRun Proofs_FaultsPrefix.

Theorem unreached_fault_is_invisible_gen : forall o stdin w1 w2,
  same_but_fault w1 w2 -> fault w2 = None ->
  fault (rr_world (run_patch o stdin w1)) <> None ->
  rr_exit (run_patch o stdin w1) = rr_exit (run_patch o stdin w2) /\
  rr_events (run_patch o stdin w1) = rr_events (run_patch o stdin w2) /\
  same_but_fault (rr_world (run_patch o stdin w1)) (rr_world (run_patch o stdin w2)).
Proof. exact Proofs_FaultsRun.unreached_fault_is_invisible_gen. Qed.
Print Assumptions unreached_fault_is_invisible_gen.

Theorem unreached_fault_is_invisible : forall o stdin w k k',
  fault w = Some k -> fault (rr_world (run_patch o stdin w)) = Some k' ->
  rr_exit (run_patch o stdin w) = rr_exit (run_patch o stdin (clear_fault w)) /\
  rr_events (run_patch o stdin w) = rr_events (run_patch o stdin (clear_fault w)) /\
  clear_fault (rr_world (run_patch o stdin w)) = rr_world (run_patch o stdin (clear_fault w)) /\
  k' + length (trace (rr_world (run_patch o stdin w))) = k + length (trace w).
Proof. exact Proofs_FaultsRun.unreached_fault_is_invisible. Qed.
Print Assumptions unreached_fault_is_invisible.

Theorem success_means_no_failure_hit : forall o stdin w,
  rr_exit (run_patch o stdin w) <> 2 ->
  (fault w = None -> fault (rr_world (run_patch o stdin w)) = None) /\
  (forall k, fault w = Some k ->
     exists k', fault (rr_world (run_patch o stdin w)) = Some k' /\
                k' + length (trace (rr_world (run_patch o stdin w))) = k + length (trace w)).
Proof. exact Proofs_FaultsRun.success_means_no_failure_hit. Qed.
Print Assumptions success_means_no_failure_hit.

Theorem success_is_the_fault_free_run : forall o stdin w,
  rr_exit (run_patch o stdin w) <> 2 ->
  rr_exit (run_patch o stdin w) = rr_exit (run_patch o stdin (clear_fault w)) /\
  rr_events (run_patch o stdin w) = rr_events (run_patch o stdin (clear_fault w)) /\
  clear_fault (rr_world (run_patch o stdin w)) = rr_world (run_patch o stdin (clear_fault w)).
Proof. exact Proofs_FaultsRun.success_is_the_fault_free_run. Qed.
Print Assumptions success_is_the_fault_free_run.

Theorem success_tree_is_fault_free_tree : forall o stdin w,
  rr_exit (run_patch o stdin w) <> 2 ->
  fs (rr_world (run_patch o stdin w)) = fs (rr_world (run_patch o stdin (clear_fault w))) /\
  trace (rr_world (run_patch o stdin w)) = trace (rr_world (run_patch o stdin (clear_fault w))) /\
  stdout_data (rr_world (run_patch o stdin w)) = stdout_data (rr_world (run_patch o stdin (clear_fault w))).
Proof. exact Proofs_FaultsRun.success_tree_is_fault_free_tree. Qed.
Print Assumptions success_tree_is_fault_free_tree.

(* the example of Properties_C10.v: the fault-free run performs 5 operations; a failure scheduled as the 6th (Some 5) or
   later (Some 7) is not reached: the hypotheses hold, the exit status is 0, the countdown ends at 0 resp. 2 and the
   world is the fault-free one (f holds "b\n", f.orig holds "a\n") *)
Example unreached_nonvacuous :
  clear_fault (ex_world (Some 7)) = ex_world None /\
  fault (rr_world (run_patch ex_opts [] (ex_world (Some 5)))) = Some 0 /\
  fault (rr_world (run_patch ex_opts [] (ex_world (Some 7)))) = Some 2 /\
  rr_exit (run_patch ex_opts [] (ex_world (Some 7))) = 0 /\
  clear_fault (rr_world (run_patch ex_opts [] (ex_world (Some 7)))) = rr_world (run_patch ex_opts [] (ex_world None)) /\
  lookup (fs (rr_world (run_patch ex_opts [] (ex_world (Some 7))))) (bs "f") = Some (Reg (bs "b" ++ nlb) 420) /\
  lookup (fs (rr_world (run_patch ex_opts [] (ex_world (Some 7))))) (bs "f.orig") = Some (Reg (bs "a" ++ nlb) 420).
Proof. vm_compute. repeat split; reflexivity. Qed.

(* the theorem instantiated on it *)
Example unreached_instance :
  rr_exit (run_patch ex_opts [] (ex_world (Some 7))) = rr_exit (run_patch ex_opts [] (ex_world None)) /\
  rr_events (run_patch ex_opts [] (ex_world (Some 7))) = rr_events (run_patch ex_opts [] (ex_world None)) /\
  clear_fault (rr_world (run_patch ex_opts [] (ex_world (Some 7)))) = rr_world (run_patch ex_opts [] (ex_world None)) /\
  2 + length (trace (rr_world (run_patch ex_opts [] (ex_world (Some 7))))) = 7 + 0.
Proof.
  assert (K' : fault (rr_world (run_patch ex_opts [] (ex_world (Some 7)))) = Some 2) by (vm_compute; reflexivity).
  exact (unreached_fault_is_invisible ex_opts [] (ex_world (Some 7)) 7 2 eq_refl K').
Qed.

(* a reached failure (Some 3: the write of f) is visible: status 2, and the tree differs from the fault-free one
   (f has been renamed to f.orig and not rewritten): the hypothesis "not reached" cannot be dropped *)
Example reached_is_visible :
  rr_exit (run_patch ex_opts [] (ex_world (Some 3))) = 2 /\
  fault (rr_world (run_patch ex_opts [] (ex_world (Some 3)))) = None /\
  lookup (fs (rr_world (run_patch ex_opts [] (ex_world (Some 3))))) (bs "f") = None /\
  lookup (fs (rr_world (run_patch ex_opts [] (ex_world (Some 3))))) (bs "f.orig") = Some (Reg (bs "a" ++ nlb) 420).
Proof. vm_compute. repeat split; reflexivity. Qed.

(* a run that reached the injected failure ends with status 2 and the operations it performed (the failing one included)
   are the first operations of the fault-free run *)
Theorem reached_fault_trace_is_prefix : forall o stdin w,
  fault w <> None -> fault (rr_world (run_patch o stdin w)) = None ->
  rr_exit (run_patch o stdin w) = 2 /\
  exists l, trace (rr_world (run_patch o stdin (clear_fault w))) = trace (rr_world (run_patch o stdin w)) ++ l.
Proof. exact Proofs_FaultsPrefix.reached_fault_trace_is_prefix. Qed.
Print Assumptions reached_fault_trace_is_prefix.

Example reached_prefix_instance :
  trace (rr_world (run_patch ex_opts [] (ex_world (Some 3)))) =
    [OOpenRead (bs "p.diff"); OOpenRead (bs "f"); ORename (bs "f") (bs "f.orig"); OWrite (bs "f") (bs "b" ++ nlb)] /\
  trace (rr_world (run_patch ex_opts [] (ex_world None))) =
    trace (rr_world (run_patch ex_opts [] (ex_world (Some 3)))) ++ [OChmod (bs "f") 420].
Proof. vm_compute. split; reflexivity. Qed.
