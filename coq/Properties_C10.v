(* Properties_C10.v — C10: I/O failures are never reported as success.  Statements only; proofs in Proofs_Faults.v.
   The model injects one failure: the k-th system operation of the run (open for reading, write of a whole file, rename,
   unlink, rmdir, mkdir, chmod, symlink; on the patch file, a target, a backup, a reject file, a directory) reports EIO. *)
From PatchV Require Import Base Lines Hunk Options World Driver Proofs_Faults.

(* if the injected failure was reached, the run ends with exit status 2 *)
Theorem fault_is_fatal : forall o stdin w,
  fault w <> None -> fault (rr_world (run_patch o stdin w)) = None -> rr_exit (run_patch o stdin w) = 2.
Proof. exact Proofs_Faults.fault_is_fatal. Qed.
Print Assumptions fault_is_fatal.

Theorem no_fault_no_fault : forall o stdin w, fault w = None -> fault (rr_world (run_patch o stdin w)) = None.
Proof. exact Proofs_Faults.no_fault_no_fault. Qed.
Print Assumptions no_fault_no_fault.

Local Open Scope string_scope.
Definition ex_opts :=
  mkOptions true false [] [] false (bs "p.diff") false false false [] (-1) 2 false [] [] false false false false false false false false OBUnset OBUnset MNative RFDefault ROWarn QSUnset [] [].
Definition nlb : list N := [10%N].
Definition ex_patch := bs "--- f" ++ nlb ++ bs "+++ f" ++ nlb ++ bs "@@ -1 +1 @@" ++ nlb ++ bs "-a" ++ nlb ++ bs "+b" ++ nlb.
Definition ex_world (k : option nat) := mkWorld [(bs "f", Reg (bs "a" ++ nlb) 420); (bs "p.diff", Reg ex_patch 420)] 18 [] k [].
(* the fault-free run performs 5 operations (open patch, open f, rename f f.orig, write f, chmod f); each of them, failing, gives 2;
   a failure scheduled after the last one is never reached and the run is the fault-free one *)
Example faults_nonvacuous :
  length (trace (rr_world (run_patch ex_opts [] (ex_world None)))) = 5 /\
  map (fun k => rr_exit (run_patch ex_opts [] (ex_world (Some k)))) [0; 1; 2; 3; 4; 5] = [2; 2; 2; 2; 2; 0] /\
  map (fun k => fault (rr_world (run_patch ex_opts [] (ex_world (Some k))))) [0; 4; 5] = [None; None; Some 0].
Proof. vm_compute. repeat split; reflexivity. Qed.
