(* Proofs_ArithSize.v — C07 (arithmetic part): the body lines of the hunks come out of the input, one line of at least one
   byte each, so the total number of body lines of a parsed patch is at most the number of bytes of the patch file.
   This turns the "fits in memory" hypothesis of Proofs_Arith.v into a bound on the sizes of the two inputs. *)
From PatchV Require Import Base Lines Hunk LineParser Parser Proofs_Base Proofs_Fuel Proofs_Progress Proofs_Unified
     Proofs_ArithParse Proofs_ArithHeader.

Lemma blen_app a b : blen (a ++ b) = blen a + blen b.
Proof. induction a as [|h r IH]; cbn [app blen]; [reflexivity|]. rewrite IH. lia. Qed.

Lemma blen_one h : blen [h] = length (body h). Proof. cbn [blen]. lia. Qed.

(* ---------- unified ---------- *)
Definition curlen (cur : option (hunk * Z * Z)) : nat :=
  match cur with Some (h, _, _) => length (body h) | None => 0 end.

Lemma unified_loop_size : forall fuel s acc cur le hs s',
  unified_loop fuel s acc cur le = Ok (hs, s') ->
  blen hs + length (rest s') <= blen acc + curlen cur + length (rest s).
Proof.
  induction fuel as [|f IH]; intros s acc cur le hs s' H; [discriminate|]. cbn [unified_loop] in H.
  destruct (sget_line s) as [[[line n]|] s1] eqn:G.
  - pose proof (sget_line_some _ _ _ G) as L1.
    destruct cur as [[[h oe] ne]|]; cbn [curlen].
    + destruct (match line with [] => [32%N] | _ :: _ => line end) as [|what content]; [discriminate|].
      destruct (op_of_char what) as [o|]; [|discriminate].
      set (ls0 := body h ++ [mkPL o (mkLine content n)]) in *.
      assert (N0 : length ls0 = S (length (body h))) by (unfold ls0; rewrite app_length; cbn [length]; lia).
      set (ne1 := match o with Del => ne | _ => (ne - 1)%Z end) in *.
      destruct (match o with Del => (ls0, s1) | _ => eat_marker (ne1 =? 0)%Z ls0 s1 end) as [ls1 s2] eqn:E1.
      assert (L2 : length (rest s2) <= length (rest s1) /\ length ls1 = length ls0).
      { destruct o; try (inversion E1; subst; split; lia);
          (pose proof (eat_marker_le (ne1 =? 0)%Z ls0 s1) as X; pose proof (eat_marker_counts (ne1 =? 0)%Z ls0 s1) as Y;
           rewrite E1 in X, Y; cbn [fst snd] in X, Y; split; [exact X|apply Y]). }
      set (oe1 := match o with Add => oe | _ => (oe - 1)%Z end) in *.
      destruct (match o with Add => (ls1, s2) | _ => eat_marker (oe1 =? 0)%Z ls1 s2 end) as [ls2 s3] eqn:E2.
      assert (L3 : length (rest s3) <= length (rest s2) /\ length ls2 = length ls1).
      { destruct o; try (inversion E2; subst; split; lia);
          (pose proof (eat_marker_le (oe1 =? 0)%Z ls1 s2) as X; pose proof (eat_marker_counts (oe1 =? 0)%Z ls1 s2) as Y;
           rewrite E2 in X, Y; cbn [fst snd] in X, Y; split; [exact X|apply Y]). }
      destruct L2 as [L2 N1]. destruct L3 as [L3 N2].
      destruct ((oe1 =? 0)%Z && (ne1 =? 0)%Z).
      * assert (B : blen (acc ++ [mkHunk (oldr h) (newr h) ls2]) = blen acc + S (length (body h)))
          by (rewrite blen_app, blen_one; cbn [body]; lia).
        destruct (sget_line s3) as [[[l2 n2]|] s4] eqn:G2.
        -- pose proof (sget_line_some _ _ _ G2) as L4.
           destruct (parse_unified_range (mkHunk (oldr h) (newr h) []) l2) as [ok h2]. destruct ok.
           ++ apply IH in H. cbn [curlen body length] in H. lia.
           ++ inversion H; subst. cbn [sseek rest]. lia.
        -- pose proof (sget_line_le _ _ _ G2). inversion H; subst. lia.
      * apply IH in H. cbn [curlen body] in H. lia.
    + destruct (parse_unified_range empty_hunk line) as [ok h]. destruct ok; apply IH in H; cbn [curlen body length] in H; lia.
  - pose proof (sget_line_le _ _ _ G) as L1.
    destruct cur as [[[h oe] ne]|]; cbn [curlen].
    + destruct (negb (ne =? 0)%Z); [discriminate|]. destruct (negb (oe =? 0)%Z); [discriminate|]. inversion H; subst. lia.
    + destruct (is_nil acc); [inversion H; subst; lia|]. destruct (negb (snd le =? 0)%Z); [discriminate|].
      destruct (negb (fst le =? 0)%Z); [discriminate|]. inversion H; subst. lia.
Qed.

(* ---------- normal ---------- *)
Lemma normal_read_size : forall fuel n marker o s acc x,
  normal_read fuel n marker o s acc = Ok x -> length (fst x) + length (rest (snd x)) <= length acc + length (rest s).
Proof.
  induction fuel as [|f IH]; intros n marker o s acc x H; [discriminate|]. cbn [normal_read] in H.
  destruct (Z.leb n 0); [inversion H; subst; cbn [fst snd]; lia|].
  destruct (sget_line s) as [[[line nl_]|] s1] eqn:G; [|discriminate].
  pose proof (sget_line_some _ _ _ G) as L1.
  destruct line as [|c0 [|c1 r]]; try discriminate.
  destruct (N.eqb c0 marker && is_whitespace c1); [|discriminate].
  apply IH in H. rewrite app_length in H. cbn [length] in H. lia.
Qed.

Lemma normal_loop_size : forall fuel s acc hs s',
  normal_loop fuel s acc = Ok (hs, s') -> blen hs + length (rest s') <= blen acc + length (rest s).
Proof.
  induction fuel as [|f IH]; intros s acc hs s' H; [discriminate|]. cbn [normal_loop] in H.
  destruct (sget_line s) as [[[line n]|] s1] eqn:G; [|pose proof (sget_line_le _ _ _ G); inversion H; subst; lia].
  pose proof (sget_line_some _ _ _ G) as L1.
  destruct (seof s1 || is_nil line); [inversion H; subst; lia|].
  destruct (parse_normal_range empty_hunk line) as [ok h]. destruct ok; cbn [negb] in H.
  - destruct (normal_read (S (length (rest s1))) (rcount (oldr h)) 60 Del s1 []) as [x|e] eqn:R1; cbn [rbind] in H; [|discriminate].
    pose proof (normal_read_size _ _ _ _ _ _ _ R1) as L2. cbn [length] in L2.
    destruct (normal_check_nonl (fst x) (snd x)) as [ls1 s2] eqn:E1.
    pose proof (normal_check_nonl_le (fst x) (snd x)) as L3. pose proof (normal_check_nonl_counts (fst x) (snd x)) as N3.
    rewrite E1 in L3, N3. cbn [fst snd] in L3, N3. destruct N3 as (_ & _ & N3).
    set (s3 := if peek_is s2 45 then match sget_line s2 with (Some (l, _), s'0) => if str_eqb l (bs "---") then s'0 else sseek s'0 (rest s2) | (None, s'0) => s'0 end else s2) in *.
    assert (L4 : length (rest s3) <= length (rest s2)).
    { unfold s3. destruct (peek_is s2 45); [|lia]. destruct (sget_line s2) as [[[l nn]|] s0] eqn:G1.
      - pose proof (sget_line_some _ _ _ G1). destruct (str_eqb l (bs "---")); [lia|cbn; lia].
      - pose proof (sget_line_le _ _ _ G1). lia. }
    destruct (normal_read (S (length (rest s1))) (rcount (newr h)) 62 Add s3 ls1) as [y|e] eqn:R2; cbn [rbind] in H; [|discriminate].
    pose proof (normal_read_size _ _ _ _ _ _ _ R2) as L5.
    destruct (normal_check_nonl (fst y) (snd y)) as [ls2 s4] eqn:E3.
    pose proof (normal_check_nonl_le (fst y) (snd y)) as L6. pose proof (normal_check_nonl_counts (fst y) (snd y)) as N6.
    rewrite E3 in L6, N6. cbn [fst snd] in L6, N6. destruct N6 as (_ & _ & N6).
    apply IH in H. rewrite blen_app, blen_one in H. cbn [body] in H. lia.
  - destruct (is_nil acc); [discriminate|]. inversion H; subst. cbn [sseek rest]. lia.
Qed.

(* ---------- context ---------- *)
Lemma ctx_append_line_len ls line n ls' : ctx_append_line ls line n = Ok ls' -> length ls' = S (length ls).
Proof.
  unfold ctx_append_line. destruct line as [|c0 [|c1 r]]; try discriminate. destruct (N.eqb c1 45); [discriminate|].
  destruct (cxop_of_char c0); [|discriminate]. intros [= <-]. rewrite app_length. cbn [length]. lia.
Qed.

Lemma ctx_append_content_size : forall fuel ls i en s x,
  ctx_append_content fuel ls i en s = Ok x -> length (fst x) + length (rest (snd x)) <= length ls + length (rest s).
Proof.
  induction fuel as [|f IH]; intros ls i en s x H; [discriminate|]. cbn [ctx_append_content] in H.
  destruct (Z.ltb en i); [inversion H; cbn [fst snd]; lia|].
  destruct (sget_line s) as [[[line n]|] s1] eqn:G; [|discriminate].
  pose proof (sget_line_some _ _ _ G) as L1.
  destruct (ctx_append_line ls line n) as [ls'|e] eqn:A; cbn [rbind] in H; [|discriminate].
  apply ctx_append_line_len in A.
  destruct (Z.eqb i en); [inversion H; cbn [fst snd]; lia|]. apply IH in H. lia.
Qed.

Lemma set_last_nonl_c_len l : length (set_last_nonl_c l) = length l.
Proof.
  unfold set_last_nonl_c. destruct (rev l) as [|[o x] r] eqn:E.
  - apply (f_equal (@length _)) in E. rewrite rev_length in E. cbn in *. lia.
  - apply (f_equal (@length _)) in E. rewrite rev_length in E. rewrite rev_length. cbn [length] in *. lia.
Qed.

Lemma ctx_check_nonl_len ls s : length (fst (ctx_check_nonl ls s)) = length ls.
Proof. unfold ctx_check_nonl. destruct (negb (is_nil ls) && peek_is s 92); cbn [fst]; [apply set_last_nonl_c_len|reflexivity]. Qed.

Lemma parse_context_hunk_size s ol ostart nl_ nstart s' :
  parse_context_hunk s = Ok (ol, ostart, nl_, nstart, s') -> length ol + length nl_ + length (rest s') <= length (rest s).
Proof.
  unfold parse_context_hunk.
  destruct (ctx_find_old_range (S (length (rest s))) s) as [[os oend] s1] eqn:F.
  pose proof (ctx_find_old_range_le _ _ _ _ _ F) as L1.
  destruct (sget_line s1) as [[[line n]|] s2] eqn:G; [|discriminate].
  pose proof (sget_line_some _ _ _ G) as L2.
  destruct (ctx_parse_new_range line) as [[[ns nend]|e]|] eqn:E.
  - destruct (ctx_append_content _ [] (sadd ns 0) nend s2) as [x|e] eqn:C; cbn [rbind]; [|discriminate].
    pose proof (ctx_append_content_size _ _ _ _ _ _ C) as L3. cbn [length] in L3.
    destruct (ctx_check_nonl (fst x) (snd x)) as [nl2 s3] eqn:K.
    pose proof (ctx_check_nonl_le (fst x) (snd x)) as L4. pose proof (ctx_check_nonl_len (fst x) (snd x)) as N4.
    rewrite K in L4, N4. cbn [fst snd] in L4, N4.
    intros [= <- _ <- _ <-]. cbn [length]. lia.
  - discriminate.
  - destruct (ctx_append_line [] line n) as [ol1|e] eqn:A1; cbn [rbind]; [|discriminate].
    apply ctx_append_line_len in A1. cbn [length] in A1.
    destruct (ctx_append_content _ ol1 _ oend s2) as [x|e] eqn:C; cbn [rbind]; [|discriminate].
    pose proof (ctx_append_content_size _ _ _ _ _ _ C) as L3.
    destruct (ctx_check_nonl (fst x) (snd x)) as [ol2 s3] eqn:K.
    pose proof (ctx_check_nonl_le (fst x) (snd x)) as L4. pose proof (ctx_check_nonl_len (fst x) (snd x)) as N4.
    rewrite K in L4, N4. cbn [fst snd] in L4, N4.
    destruct (sget_line s3) as [l2 s4] eqn:G4. pose proof (sget_line_le _ _ _ G4) as L5.
    destruct (ctx_parse_new_range (fst (line_or_empty l2))) as [[[ns nend]|e]|] eqn:E2; try discriminate.
    destruct (sget_line s4) as [l3 s5] eqn:G5. pose proof (sget_line_le _ _ _ G5) as L6.
    destruct (line_or_empty l3) as [line3 n3] eqn:LE.
    destruct (seof s5); [intros [= <- _ <- _ <-]; cbn [length]; lia|].
    destruct (starts_with line3 (bs "**********")); [intros [= <- _ <- _ <-]; cbn [length]; lia|].
    destruct (negb (looks_like_new_line line3)) eqn:LK; [intros [= <- _ <- _ <-]; cbn [length sseek rest]; lia|].
    (* a line was read: l3 is not None, so the stream shrank *)
    assert (L6' : length (rest s5) < length (rest s4)).
    { destruct l3 as [y|]; [exact (sget_line_some _ _ _ G5)|].
      cbn [line_or_empty] in LE. inversion LE; subst. cbn in LK. discriminate. }
    destruct (ctx_append_line [] line3 n3) as [nl1|e] eqn:A3; cbn [rbind]; [|discriminate].
    apply ctx_append_line_len in A3. cbn [length] in A3.
    destruct (ctx_append_content _ nl1 _ nend s5) as [y|e] eqn:C2; cbn [rbind]; [|discriminate].
    pose proof (ctx_append_content_size _ _ _ _ _ _ C2) as L7.
    destruct (ctx_check_nonl (fst y) (snd y)) as [nl2 s6] eqn:K2.
    pose proof (ctx_check_nonl_le (fst y) (snd y)) as L8. pose proof (ctx_check_nonl_len (fst y) (snd y)) as N8.
    rewrite K2 in L8, N8. cbn [fst snd] in L8, N8.
    intros [= <- _ <- _ <-]. lia.
Qed.

Lemma from_context_parts_size : forall fuel ol nl_ acc oc nc b oc' nc',
  from_context_parts fuel ol nl_ acc oc nc = Ok (b, oc', nc') -> length b <= length acc + length ol + length nl_.
Proof.
  induction fuel as [|f IH]; intros ol nl_ acc oc nc b oc' nc' H; [discriminate|]. cbn [from_context_parts] in H.
  destruct ol as [|[[| | |] lo] ol']; destruct nl_ as [|[[| | |] ln] nl']; cbn [tl] in H;
    try discriminate;
    try (inversion H; subst; cbn [length]; lia);
    try (apply IH in H; rewrite app_length in H; cbn [length] in *; lia).
  destruct (negb (str_eqb (txt lo) (txt ln))); [discriminate|].
  apply IH in H; rewrite app_length in H; cbn [length] in *; lia.
Qed.

Lemma hunk_from_context_parts_size ostart ol nstart nl_ h :
  hunk_from_context_parts ostart ol nstart nl_ = Ok h -> length (body h) <= length ol + length nl_.
Proof.
  unfold hunk_from_context_parts. destruct (_ || _); [discriminate|].
  destruct (from_context_parts _ ol nl_ [] 0 0) as [[[b oc] nc]|e] eqn:F; cbn [rbind]; [|discriminate].
  intros [= <-]. cbn [body]. apply from_context_parts_size in F. cbn [length] in F. lia.
Qed.

Lemma context_loop_size : forall fuel s acc hs s',
  context_loop fuel s acc = Ok (hs, s') -> blen hs + length (rest s') <= blen acc + length (rest s).
Proof.
  induction fuel as [|f IH]; intros s acc hs s' H; [discriminate|]. cbn [context_loop] in H.
  destruct (parse_context_hunk s) as [[[[[ol ostart] nl_] nstart] s1]|e] eqn:P; cbn [rbind] in H; [|discriminate].
  apply parse_context_hunk_size in P.
  destruct (hunk_from_context_parts ostart ol nstart nl_) as [h|e] eqn:Hh; cbn [rbind] in H; [|discriminate].
  apply hunk_from_context_parts_size in Hh.
  destruct (sget_line s1) as [l s2] eqn:G.
  destruct (starts_with (fst (line_or_empty l)) (bs "***************") || is_old_range_line (fst (line_or_empty l))).
  - apply IH in H. rewrite blen_app, blen_one in H. cbn [sseek rest] in H. lia.
  - inversion H; subst. rewrite blen_app, blen_one. cbn [sseek rest]. lia.
Qed.

(* ---------- all formats, and parse_patch ---------- *)
Theorem parse_patch_body_size p s p' s' :
  parse_patch_body p s = Ok (p', s') -> blen (hunks p') + length (rest s') <= blen (hunks p) + length (rest s).
Proof.
  unfold parse_patch_body. intros H. destruct (pfmt p); try discriminate.
  - destruct (parse_context_patch s) as [[hs s1]|e] eqn:P; cbn [rbind] in H; [|discriminate].
    inversion H; subst. cbn [hunks set_hunks fst snd]. rewrite blen_app.
    apply context_loop_size in P. cbn [blen] in P. lia.
  - destruct (parse_unified_patch s) as [[hs s1]|e] eqn:P; cbn [rbind] in H; [|discriminate].
    inversion H; subst. cbn [hunks set_hunks fst snd]. rewrite blen_app.
    apply unified_loop_size in P. cbn [blen curlen] in P. lia.
  - destruct (parse_unified_patch s) as [[hs s1]|e] eqn:P; cbn [rbind] in H; [|discriminate].
    inversion H; subst. cbn [hunks set_hunks fst snd]. rewrite blen_app.
    apply unified_loop_size in P. cbn [blen curlen] in P. lia.
  - destruct (parse_normal_patch s) as [[hs s1]|e] eqn:P; cbn [rbind] in H; [|discriminate].
    inversion H; subst. cbn [hunks set_hunks fst snd]. rewrite blen_app.
    apply normal_loop_size in P. cbn [blen] in P. lia.
Qed.

(* the patch parse_patch returns has at most as many body lines as the patch file has bytes *)
Theorem parse_patch_size b f strip p : parse_patch b f strip = Ok p -> blen (hunks p) <= length b.
Proof.
  unfold parse_patch, parse_patch_header.
  destruct (parse_patch_header_full (empty_patch f) strip (stream_of b)) as [[[[should p1] s1] found]|e] eqn:H; cbn [rbind fst]; [|discriminate].
  pose proof (header_full_hunks _ _ _ _ _ _ _ H) as Hh. cbn [empty_patch hunks] in Hh.
  apply header_full_spec in H. destruct H as [L _]. cbn [stream_of rest] in L.
  destruct should.
  - destruct (parse_patch_body p1 s1) as [[p2 s2]|e] eqn:B; cbn [rbind fst]; [|discriminate].
    intros [= <-]. apply parse_patch_body_size in B. rewrite Hh in B. cbn [blen] in B. lia.
  - intros [= <-]. rewrite Hh. cbn [blen]. lia.
Qed.

(* every section of a patch file: no more body lines than the patch file has bytes *)
Lemma parse_all_loop_size (N : nat) : forall fuel f strip s first acc ps,
  parse_all_loop fuel f strip s first acc = Ok ps ->
  Forall (fun p => blen (hunks p) <= N) acc -> length (rest s) <= N ->
  Forall (fun p => blen (hunks p) <= N) ps.
Proof.
  induction fuel as [|k IH]; intros f strip s first acc ps H Ha Ls; [discriminate|]. cbn [parse_all_loop] in H.
  destruct (seof s); [inversion H; subst; exact Ha|].
  destruct (parse_patch_header_full (empty_patch f) strip s) as [[[[should p] s1] found]|e] eqn:HF; cbn [rbind] in H; [|discriminate].
  pose proof (header_full_hunks _ _ _ _ _ _ _ HF) as Hh. cbn [empty_patch hunks] in Hh.
  apply header_full_spec in HF. destruct HF as [L1 _].
  assert (Ha' : Forall (fun p => blen (hunks p) <= N) (acc ++ [p])).
  { apply Forall_app. split; [exact Ha|]. constructor; [rewrite Hh; cbn [blen]; lia|constructor]. }
  assert (C : match poper p with
              | OpBinary => parse_all_loop k f strip s1 false (acc ++ [p])
              | _ => if should then (do y <- parse_patch_body p s1; parse_all_loop k f strip (snd y) false (acc ++ [fst y]))
                     else parse_all_loop k f strip s1 false (acc ++ [p])
              end = Ok ps -> Forall (fun p => blen (hunks p) <= N) ps).
  { intros C. destruct (poper p).
    6: (eapply IH; [exact C|exact Ha'|lia]).
    all: destruct should; [|eapply IH; [exact C|exact Ha'|lia]].
    all: destruct (parse_patch_body p s1) as [[p2 s2]|e] eqn:B; cbn [rbind] in C; [|discriminate].
    all: apply parse_patch_body_size in B; rewrite Hh in B; cbn [blen] in B.
    all: eapply IH; [exact C| |cbn [snd]; lia]; cbn [fst]; apply Forall_app; split; [exact Ha|]; constructor; [lia|constructor]. }
  destruct (if negb found && should then FUnknown else pfmt p).
  6: (destruct first; [discriminate|inversion H; subst; exact Ha]).
  all: apply C; exact H.
Qed.

Theorem parse_all_size b f strip ps : parse_all b f strip = Ok ps -> Forall (fun p => blen (hunks p) <= length b) ps.
Proof. intros H. eapply parse_all_loop_size; [exact H|constructor|cbn; lia]. Qed.

(* the file to patch: no more lines than bytes *)
Lemma split_lines_fuel_length : forall fuel s, length (split_lines_fuel fuel s) <= length s.
Proof.
  induction fuel as [|f IH]; intros s; cbn [split_lines_fuel]; [cbn; lia|].
  destruct (get_line s) as [[[[t n] r] eof]|] eqn:G; [|cbn; lia].
  unfold get_line in G. pose proof (get_line_aux_shrinks _ _ _ _ _ _ G) as [L1 L2].
  assert (Hs : s <> []) by (intros ->; cbn in G; discriminate). specialize (L2 Hs).
  cbn [length]. destruct eof; [cbn [length]; lia|]. specialize (IH r). lia.
Qed.

Theorem split_lines_length s : length (split_lines s) <= length s.
Proof. apply split_lines_fuel_length. Qed.
