(* Properties_C01.v — C01 (hunk level): applying a conforming diff of A to B to A yields exactly B. *)
From PatchV Require Import Base Lines Hunk Locator Formatter Options Applier LineParser Parser World Driver Spec_Locate Spec_Apply Proofs_Conf Proofs_EndToEnd Proofs_Unified Spec_Normal Proofs_Normal Proofs_NormalConf Spec_Names Proofs_Filler Proofs_Names Proofs_Reverse Proofs_Sections Proofs_Sections_Unified Proofs_Whole Proofs_WholeSections Proofs_WholeGit.

(* any option record without -R, -D, --verbose; any -F >= 0, with or without -l, -N, -t, -f, any newline
   mode and reject format; files of fewer than 2^63-1 lines; a patch whose old file is /dev/null (one that
   creates the file) only against an absent or empty file *)
Theorem apply_conforming : forall o p A B,
  define_macro o = [] -> verbose o = false -> reverse_patch_opt o = false -> (0 <= max_fuzz o)%Z ->
  Conforming A B (hunks p) -> (Z.of_nat (length A) < MAXZ)%Z -> creation_guard p A ->
  exists r, apply_patch o A p = Ok r /\ r_out r = B /\ r_failed r = 0 /\ r_rej r = [] /\
            r_skipped r = false /\ r_perfect r = true /\ r_msgs r = [].
Proof. exact Proofs_Conf.apply_conforming. Qed.
Print Assumptions apply_conforming.

(* each hunk lands at its stated line even when the same text also occurs elsewhere: the locator's
   answer for a file that carries the old side at the stated place is that place, fuzz 0, offset 0 *)
Theorem stated_place_wins : forall ws F cursor f pre post h,
  f = pre ++ old_side (body h) ++ post ->
  body h <> [] ->
  rcount (oldr h) = Z.of_nat (length (old_side (body h))) ->
  rstart (oldr h) = (if Z.eqb (rcount (oldr h)) 0 then Z.of_nat (length pre) else Z.of_nat (length pre) + 1)%Z ->
  cursor <= length pre -> (0 <= F)%Z -> (Z.of_nat (length f) < MAXZ)%Z ->
  locate_hunk f h ws 0 F cursor = Some (mkLoc (length pre) 0 0).
Proof. exact Proofs_Conf.locate_conf. Qed.
Print Assumptions stated_place_wins.

(* through the driver: one section of a unified diff of A to B naming a file of the working directory that is a regular,
   readable, writable file holding A, nothing failing: afterwards the file holds exactly B (terminators as
   --newline-output asks), its mode is unchanged, every other entry of the tree is untouched (no reject, no backup), no
   failure is recorded (exit status 0 if this was the only section) *)
Theorem section_writes_new_version : forall o p f A B,
  (file_to_patch o = [] /\ out_file_path o = [] /\ dry_run o = false /\ save_backup o = false /\ define_macro o = [] /\
   verbose o = false /\ reverse_patch_opt o = false /\ (0 <= max_fuzz o)%Z) ->
  (pfmt p = FUnified /\ poper p = OpChange /\ prereq p = [] /\ old_path p = f /\ new_path p = f /\ new_mode p = 0%N /\
   f <> devnull /\ f <> [] /\ ~ In 47%N f) ->
  Conforming A B (hunks p) -> lines_bytes (newline_output o) B <> [] -> (Z.of_nat (length A) < MAXZ)%Z ->
  forall st s w data mode,
  fault w = None -> deferred_writes st = [] ->
  lookup (fs w) f = Some (Reg data mode) -> (mode < 4096)%N -> owner_r mode = true -> owner_w mode = true ->
  N.land mode write_mask <> 0%N ->
  split_lines data = A ->
  exists st' w',
    process_section o st false p s w = (Ok (st', s), w') /\
    lookup (fs w') f = Some (Reg (lines_bytes (newline_output o) B) mode) /\
    (forall q, q <> f -> lookup (fs w') q = lookup (fs w) q) /\
    had_failure st' = had_failure st /\ deferred_writes st' = [] /\ fault w' = None.
Proof. exact Proofs_EndToEnd.section_writes_new_version. Qed.
Print Assumptions section_writes_new_version.

Local Open Scope string_scope.
(* formerly refuted (known finding K20, fixed in /repo): a context-free insertion at the top of a non-empty file,
   as diff -U0 writes it, is conforming and is now applied *)
Example top_insertion_applies :
  let l s := mkLine (bs s) LF in
  let h := mkHunk (mkRange 0 0) (mkRange 1 1) [mkPL Add (l "n")] in
  match apply_patch default_options [l "x"] (mkPatch FUnified OpChange [] [] (bs "f") (bs "f") [] [] 0 0 [h]) with
  | Ok r => r_failed r = 0 /\ r_out r = [l "n"; l "x"]
  | Throw _ => False
  end.
Proof. vm_compute. split; reflexivity. Qed.

(* non-vacuity of apply_conforming: a two-hunk conforming patch over a file with repeated lines *)
Definition ex_l (s : String.string) := mkLine (bs s) LF.
Definition ex_h1 := mkHunk (mkRange 1 3) (mkRange 1 3)
  [mkPL Ctx (ex_l "a"); mkPL Del (ex_l "b"); mkPL Add (ex_l "B"); mkPL Ctx (ex_l "a")].
Definition ex_h2 := mkHunk (mkRange 5 1) (mkRange 5 2) [mkPL Ctx (ex_l "a"); mkPL Add (ex_l "z")].
Example conforming_nonvacuous :
  Conforming [ex_l "a"; ex_l "b"; ex_l "a"; ex_l "b"; ex_l "a"]
             [ex_l "a"; ex_l "B"; ex_l "a"; ex_l "b"; ex_l "a"; ex_l "z"] [ex_h1; ex_h2] /\
  creation_guard (mkPatch FUnified OpChange [] [] (bs "f") (bs "f") [] [] 0 0 [ex_h1; ex_h2])
                 [ex_l "a"; ex_l "b"; ex_l "a"; ex_l "b"; ex_l "a"].
Proof.
  split.
  - unfold Conforming.
    apply (Conf_cons 0 0 [] ex_h1 [ex_h2] [ex_l "b"; ex_l "a"] [ex_l "b"; ex_l "a"; ex_l "z"]); try reflexivity; [discriminate|].
    apply (Conf_cons 3 3 [ex_l "b"] ex_h2 [] [] []); try reflexivity; [discriminate|]. constructor.
  - intros H. vm_compute in H. discriminate.
Qed.

(* ---------------------------------------------------------------------------------------------------------------
   C01 (and C05) for the NORMAL diff format: what a producer writes (Spec_Normal.v, a specification: the program never
   writes this format; checked byte for byte against GNU diff output in an Example) is read back as the same hunks, and the
   normal diff of A to B applied to A gives B (with -R applied to B gives A).  Proofs in Proofs_Normal.v, Proofs_NormalConf.v. *)

(* a command line that is written is read back as the ranges of the hunk: for "a" the old number is the line after
   which the lines are added (count 0), for "d" the new number is the line after which they would have been (count 0),
   otherwise first line and number of lines *)
Theorem parse_normal_header : forall h h0,
  wf_hunk_n h -> parse_normal_range h0 (normal_header h) = (true, mkHunk (oldr h) (newr h) (body h0)).
Proof. exact Proofs_Normal.parse_normal_header. Qed.
Print Assumptions parse_normal_header.

(* Change groups written as a normal diff are read back as exactly the same hunks — same stated lines and counts, same
   old-side and new-side lines in the same order, same missing-newline marks — and the parser stops where they end.
   wf_hunk_n: a non-empty body that is its deletions followed by its additions (no context); per side: no line feed
   inside a line, no trailing CR, terminators LF, or none on the last line only; start, count and last line of each
   range within 0..2^63-1; counts equal to the numbers of lines.
   tail_ok_n: what follows does not begin with '\' or '-', and its first line is empty, or unterminated, or not a
   command line.  after_n: the stream in front of the tail (an empty or unterminated first line of the tail is consumed). *)
Theorem normal_roundtrip : forall hs tail,
  hs <> [] -> Forall wf_hunk_n hs -> tail_ok_n tail ->
  parse_normal_patch (strm (emit_normal hs ++ tail)) = Ok (hs, after_n tail).
Proof. exact Proofs_Normal.normal_roundtrip. Qed.
Print Assumptions normal_roundtrip.

Theorem normal_roundtrip_sides : forall hs tail,
  hs <> [] -> Forall wf_hunk_n hs -> tail_ok_n tail ->
  exists hs', parse_normal_patch (strm (emit_normal hs ++ tail)) = Ok (hs', after_n tail) /\
              map oldr hs' = map oldr hs /\ map newr hs' = map newr hs /\
              map (fun h => old_side (body h)) hs' = map (fun h => old_side (body h)) hs /\
              map (fun h => new_side (body h)) hs' = map (fun h => new_side (body h)) hs.
Proof. exact Proofs_Normal.normal_roundtrip_sides. Qed.
Print Assumptions normal_roundtrip_sides.

Theorem normal_body_roundtrip : forall p hs tail,
  pfmt p = FNormal -> hs <> [] -> Forall wf_hunk_n hs -> tail_ok_n tail ->
  parse_patch_body p (strm (emit_normal hs ++ tail)) = Ok (set_hunks p (hunks p ++ hs), after_n tail).
Proof. exact Proofs_Normal.normal_body_roundtrip. Qed.
Print Assumptions normal_body_roundtrip.

(* the hypotheses in everyday terms *)
Theorem tail_ok_n_nil : tail_ok_n [].
Proof. exact Proofs_Normal.tail_ok_n_nil. Qed.
Theorem tail_ok_n_text : forall c l2 more,
  clean (c :: l2) -> is_digit c = false -> c <> 92%N -> c <> 45%N -> tail_ok_n ((c :: l2) ++ 10%N :: more).
Proof. exact Proofs_Normal.tail_ok_n_text. Qed.
Theorem after_n_line : forall l2 more, clean l2 -> l2 <> [] -> after_n (l2 ++ 10%N :: more) = strm (l2 ++ 10%N :: more).
Proof. exact Proofs_Normal.after_n_line. Qed.
Theorem wf_mk_change : forall os ns ds as_,
  (ds <> [] \/ as_ <> []) -> side_ok ds -> side_ok as_ ->
  wf_range_n (mkRange os (Z.of_nat (length ds))) -> wf_range_n (mkRange ns (Z.of_nat (length as_))) ->
  wf_hunk_n (mk_change os ns ds as_).
Proof. exact Proofs_Normal.wf_mk_change. Qed.
Theorem wf_hunk_n_shape : forall h, wf_hunk_n h ->
  h = mk_change (rstart (oldr h)) (rstart (newr h)) (old_side (body h)) (new_side (body h)).
Proof. exact Proofs_Normal.wf_hunk_n_shape. Qed.

(* the parsed hunks tile A and B whenever the emitted ones do *)
Theorem normal_roundtrip_conforming : forall A B hs tail,
  hs <> [] -> Forall wf_hunk_n hs -> tail_ok_n tail -> Conforming A B hs ->
  exists hs', parse_normal_patch (strm (emit_normal hs ++ tail)) = Ok (hs', after_n tail) /\ Conforming A B hs'.
Proof. exact Proofs_NormalConf.normal_roundtrip_conforming. Qed.
Print Assumptions normal_roundtrip_conforming.

(* the change groups of an edit script tile its old and new file, and are well formed when both files are readable *)
Theorem script_conf : forall sc a b fin,
  Forall seg_ok sc -> Conf a b (script_old sc fin) (script_new sc fin) (script_hunks a b sc).
Proof. exact Proofs_NormalConf.script_conf. Qed.
Print Assumptions script_conf.

Theorem script_wf : forall sc a b fin,
  Forall seg_ok sc -> side_ok (script_old sc fin) -> side_ok (script_new sc fin) ->
  (Z.of_nat (a + length (script_old sc fin)) <= MAXZ)%Z -> (Z.of_nat (b + length (script_new sc fin)) <= MAXZ)%Z ->
  Forall wf_hunk_n (script_hunks a b sc).
Proof. exact Proofs_NormalConf.script_wf. Qed.
Print Assumptions script_wf.

(* C01 for the normal format: the normal diff of A to B, read by the parser and applied to A, gives B *)
Theorem normal_diff_applies : forall o p sc fin tail,
  sc <> [] -> Forall seg_ok sc ->
  side_ok (script_old sc fin) -> side_ok (script_new sc fin) ->
  (Z.of_nat (length (script_old sc fin)) < MAXZ)%Z -> (Z.of_nat (length (script_new sc fin)) < MAXZ)%Z ->
  tail_ok_n tail ->
  pfmt p = FNormal -> hunks p = [] -> creation_guard p (script_old sc fin) ->
  define_macro o = [] -> verbose o = false -> reverse_patch_opt o = false -> (0 <= max_fuzz o)%Z ->
  exists p' r,
    parse_patch_body p (strm (emit_normal (script_hunks 0 0 sc) ++ tail)) = Ok (p', after_n tail) /\
    apply_patch o (script_old sc fin) p' = Ok r /\ r_out r = script_new sc fin /\ r_failed r = 0 /\ r_rej r = [] /\
    r_skipped r = false /\ r_perfect r = true /\ r_msgs r = [].
Proof. exact Proofs_NormalConf.normal_diff_applies. Qed.
Print Assumptions normal_diff_applies.

(* C05 for the normal format: applied with -R to B it gives A *)
Theorem normal_diff_reverses : forall o p sc fin tail,
  sc <> [] -> Forall seg_ok sc ->
  side_ok (script_old sc fin) -> side_ok (script_new sc fin) ->
  (Z.of_nat (length (script_old sc fin)) < MAXZ)%Z -> (Z.of_nat (length (script_new sc fin)) < MAXZ)%Z ->
  tail_ok_n tail ->
  pfmt p = FNormal -> hunks p = [] ->
  (str_eqb (new_path p) (bs "/dev/null") = true -> script_new sc fin = []) ->
  define_macro o = [] -> verbose o = false -> reverse_patch_opt o = true -> (0 <= max_fuzz o)%Z ->
  exists p' r,
    parse_patch_body p (strm (emit_normal (script_hunks 0 0 sc) ++ tail)) = Ok (p', after_n tail) /\
    apply_patch o (script_new sc fin) p' = Ok r /\ r_out r = script_old sc fin /\ r_failed r = 0 /\ r_rej r = [] /\
    r_skipped r = false /\ r_perfect r = true /\ r_msgs r = [].
Proof. exact Proofs_NormalConf.normal_diff_reverses. Qed.
Print Assumptions normal_diff_reverses.

(* non-vacuity: what GNU diff prints for a,b,c,d,e,f -> x,a,b,d,e,F,G(no newline), followed by further text *)
Import NormalExamples.
Example roundtrip_nonvacuous :
  Forall wf_hunk_n [hA; hD; hC] /\ tail_ok_n ex_tail /\ emit_normal [hA; hD; hC] = ex_text /\
  parse_normal_patch (strm (ex_text ++ ex_tail)) = Ok ([hA; hD; hC], strm ex_tail).
Proof. exact (conj ex_wf (conj ex_tail_ok (conj ex_emit ex_roundtrip))). Qed.

(* ---------------------------------------------------------------------------------------------------------------
   C01 (and C12) end to end over the whole model: from the bytes of a unified patch, as diff -u / svn diff / git diff write
   it, to the bytes of the patched file.  Proofs in Proofs_Whole.v, Proofs_WholeSections.v, Proofs_WholeGit.v (non-vacuity
   Examples and vm_compute runs of run_patch on the same data are there). *)

(* (1) the header diff -u writes *)
Theorem unified_header_scan : forall strip f fl oldname t1 newname t2 h1 hs tail,
  f = FUnknown \/ f = FUnified ->
  Forall (Filler strip (empty_patch f)) fl -> Forall clean fl ->
  plain_name oldname -> plain_name newname -> clean (oldname ++ tab_time t1) -> clean (newname ++ tab_time t2) ->
  Forall wf_hunk (h1 :: hs) ->
  parse_patch_header_full (empty_patch f) strip
    (strm (join_lines (fl ++ [bs "--- " ++ oldname ++ tab_time t1; bs "+++ " ++ newname ++ tab_time t2]) ++ emit_hunks (h1 :: hs) ++ tail)) =
  Ok (true,
      mkPatch FUnified (decide_oper h1 (stripped oldname strip) (stripped newname strip)) [] []
              (stripped oldname strip) (stripped newname strip) (opt_or (time_read t1) []) (opt_or (time_read t2) []) 0 0 [],
      strm (emit_hunks (h1 :: hs) ++ tail), true).
Proof. exact Proofs_Whole.unified_header_scan. Qed.
Print Assumptions unified_header_scan.

(* ... with an "Index: name" line in front (svn, cvs) *)
Theorem unified_header_scan_index : forall strip f fl ixname ixt fl2 oldname t1 newname t2 h1 hs tail,
  f = FUnknown \/ f = FUnified ->
  Forall (Filler strip (empty_patch f)) fl -> Forall clean fl ->
  plain_name ixname -> clean (ixname ++ tab_time ixt) ->
  Forall (Filler strip (set_index (empty_patch f) (stripped ixname strip))) fl2 -> Forall clean fl2 ->
  plain_name oldname -> plain_name newname -> clean (oldname ++ tab_time t1) -> clean (newname ++ tab_time t2) ->
  Forall wf_hunk (h1 :: hs) ->
  parse_patch_header_full (empty_patch f) strip
    (strm (join_lines ((fl ++ [bs "Index: " ++ ixname ++ tab_time ixt] ++ fl2) ++
                       [bs "--- " ++ oldname ++ tab_time t1; bs "+++ " ++ newname ++ tab_time t2]) ++ emit_hunks (h1 :: hs) ++ tail)) =
  Ok (true,
      mkPatch FUnified (decide_oper h1 (stripped oldname strip) (stripped newname strip)) (stripped ixname strip) []
              (stripped oldname strip) (stripped newname strip) (opt_or (time_read t1) []) (opt_or (time_read t2) []) 0 0 [],
      strm (emit_hunks (h1 :: hs) ++ tail), true).
Proof. exact Proofs_Whole.unified_header_scan_index. Qed.
Print Assumptions unified_header_scan_index.

(* ... and when the first hunk begins with an EMPTY line standing for an empty line of context (diff -u --suppress-blank-empty):
   the scan takes it for the first line of the hunk as soon as both names are known (not empty after -p).  Only the scan:
   the body-level round trip is about hunks as the formatter writes them, which never drops the leading space. *)
Theorem unified_header_scan_blank : forall strip f fl oldname t1 newname t2 o nr more,
  f = FUnknown \/ f = FUnified ->
  Forall (Filler strip (empty_patch f)) fl -> Forall clean fl ->
  plain_name oldname -> plain_name newname -> clean (oldname ++ tab_time t1) -> clean (newname ++ tab_time t2) ->
  stripped oldname strip <> [] -> stripped newname strip <> [] ->
  wf_range o -> wf_range nr ->
  parse_patch_header_full (empty_patch f) strip
    (strm (join_lines (fl ++ [bs "--- " ++ oldname ++ tab_time t1; bs "+++ " ++ newname ++ tab_time t2]) ++
           unified_header o nr ++ 10%N :: 10%N :: more)) =
  Ok (true,
      mkPatch FUnified (decide_oper (mkHunk o nr []) (stripped oldname strip) (stripped newname strip)) [] []
              (stripped oldname strip) (stripped newname strip) (opt_or (time_read t1) []) (opt_or (time_read t2) []) 0 0 [],
      strm (unified_header o nr ++ 10%N :: 10%N :: more), true).
Proof. exact Proofs_Whole.unified_header_scan_blank. Qed.
Print Assumptions unified_header_scan_blank.

(* the operation: Change unless a range of the first hunk starts at 0 (diff -U0) or a name is /dev/null *)
Theorem decide_oper_change : forall h1 a b,
  rstart (oldr h1) <> 0%Z -> rstart (newr h1) <> 0%Z -> a <> devnull_path -> b <> devnull_path -> decide_oper h1 a b = OpChange.
Proof. exact Proofs_Whole.decide_oper_change. Qed.

(* the names are those of Spec_Names.strip_spec ... *)
Theorem stripped_spec : forall name k, name <> devnull_path -> (0 <= k)%Z -> stripped name k = strip_spec name (Z.to_nat k).
Proof. exact Proofs_Whole.stripped_spec. Qed.

(* ... in particular: -p1 on "a/f", -p0 on "f", no -p on "dir/f" *)
Theorem stripped_p1 : forall d f, d <> [] -> ~ In 47%N d -> f <> [] -> ~ In 47%N f -> stripped (d ++ 47%N :: f) 1 = f.
Proof. exact Proofs_Whole.stripped_p1. Qed.
Theorem stripped_p0 : forall f, ~ In 47%N f -> stripped f 0 = f.
Proof. exact Proofs_Whole.stripped_p0. Qed.
Theorem stripped_basename : forall d f strip,
  (strip < 0)%Z -> d ++ 47%N :: f <> devnull_path -> ~ In 47%N f -> stripped (d ++ 47%N :: f) strip = f.
Proof. exact Proofs_Whole.stripped_basename. Qed.

(* (2) C01 end to end.  No hypothesis on where the ranges start: a first hunk "@@ -0,0 +1 @@" or "@@ -1 +0,0 @@" (diff -U0) makes the
   scan infer Add / Delete, and the run still writes exactly B (Proofs_Whole.top_insertion_end_to_end,
   first_line_removal_end_to_end). *)
Theorem patch_applies_end_to_end : forall o f0 fl oldname t1 newname t2 h1 hs tail fname A B w data mode,
  plain_options o -> reverse_patch_opt o = false ->
  format_from_options o = Ok f0 -> f0 = FUnknown \/ f0 = FUnified ->
  Forall (Filler (strip_size o) (empty_patch f0)) fl -> Forall clean fl ->
  plain_name oldname -> plain_name newname -> clean (oldname ++ tab_time t1) -> clean (newname ++ tab_time t2) ->
  stripped oldname (strip_size o) = fname -> stripped newname (strip_size o) = fname ->
  fname <> [] /\ ~ In 47%N fname ->
  Forall wf_hunk (h1 :: hs) -> Conforming A B (h1 :: hs) ->
  remove_empty_files o <> OBYes \/ lines_bytes (newline_output o) B <> [] ->
  (Z.of_nat (length A) < MAXZ)%Z ->
  tail_ok tail -> ends_here o f0 (after tail) = true ->
  fault w = None -> lookup (fs w) fname = Some (Reg data mode) -> (mode < 4096)%N -> owner_r mode = true -> owner_w mode = true ->
  split_lines data = A ->
  exists w',
    process_patch o (join_lines (fl ++ [bs "--- " ++ oldname ++ tab_time t1; bs "+++ " ++ newname ++ tab_time t2]) ++
                     emit_hunks (h1 :: hs) ++ tail) w = (Ok (0, []), w') /\
    lookup (fs w') fname = Some (Reg (lines_bytes (newline_output o) B) mode) /\
    (forall q, q <> fname -> lookup (fs w') q = lookup (fs w) q) /\
    fault w' = None /\ umask w' = umask w.
Proof. exact Proofs_Whole.patch_applies_end_to_end. Qed.
Print Assumptions patch_applies_end_to_end.

Theorem patch_applies_end_to_end_index : forall o f0 fl ixname ixt fl2 oldname t1 newname t2 h1 hs tail fname A B w data mode,
  plain_options o -> reverse_patch_opt o = false ->
  format_from_options o = Ok f0 -> f0 = FUnknown \/ f0 = FUnified ->
  Forall (Filler (strip_size o) (empty_patch f0)) fl -> Forall clean fl ->
  plain_name ixname -> clean (ixname ++ tab_time ixt) ->
  Forall (Filler (strip_size o) (set_index (empty_patch f0) (stripped ixname (strip_size o)))) fl2 -> Forall clean fl2 ->
  plain_name oldname -> plain_name newname -> clean (oldname ++ tab_time t1) -> clean (newname ++ tab_time t2) ->
  stripped oldname (strip_size o) = fname -> stripped newname (strip_size o) = fname ->
  fname <> [] /\ ~ In 47%N fname ->
  Forall wf_hunk (h1 :: hs) -> Conforming A B (h1 :: hs) ->
  remove_empty_files o <> OBYes \/ lines_bytes (newline_output o) B <> [] ->
  (Z.of_nat (length A) < MAXZ)%Z ->
  tail_ok tail -> ends_here o f0 (after tail) = true ->
  fault w = None -> lookup (fs w) fname = Some (Reg data mode) -> (mode < 4096)%N -> owner_r mode = true -> owner_w mode = true ->
  split_lines data = A ->
  exists w',
    process_patch o (join_lines ((fl ++ [bs "Index: " ++ ixname ++ tab_time ixt] ++ fl2) ++
                                 [bs "--- " ++ oldname ++ tab_time t1; bs "+++ " ++ newname ++ tab_time t2]) ++
                     emit_hunks (h1 :: hs) ++ tail) w = (Ok (0, []), w') /\
    lookup (fs w') fname = Some (Reg (lines_bytes (newline_output o) B) mode) /\
    (forall q, q <> fname -> lookup (fs w') q = lookup (fs w) q) /\
    fault w' = None /\ umask w' = umask w.
Proof. exact Proofs_Whole.patch_applies_end_to_end_index. Qed.
Print Assumptions patch_applies_end_to_end_index.

(* the usual call: patch -p1 on a diff of da/f against db/f *)
Theorem patch_p1_applies : forall o f0 fl da db t1 t2 h1 hs tail fname A B w data mode,
  plain_options o -> reverse_patch_opt o = false -> strip_size o = 1%Z ->
  format_from_options o = Ok f0 -> f0 = FUnknown \/ f0 = FUnified ->
  Forall (Filler 1 (empty_patch f0)) fl -> Forall clean fl ->
  plain_name da -> ~ In 47%N da -> ~ In 10%N da -> plain_name db -> ~ In 47%N db -> ~ In 10%N db ->
  plain_name fname -> ~ In 47%N fname ->
  clean (fname ++ tab_time t1) -> clean (fname ++ tab_time t2) ->
  Forall wf_hunk (h1 :: hs) -> Conforming A B (h1 :: hs) ->
  remove_empty_files o <> OBYes \/ lines_bytes (newline_output o) B <> [] ->
  (Z.of_nat (length A) < MAXZ)%Z ->
  tail_ok tail -> ends_here o f0 (after tail) = true ->
  fault w = None -> lookup (fs w) fname = Some (Reg data mode) -> (mode < 4096)%N -> owner_r mode = true -> owner_w mode = true ->
  split_lines data = A ->
  exists w',
    process_patch o (join_lines (fl ++ [bs "--- " ++ (da ++ 47%N :: fname) ++ tab_time t1; bs "+++ " ++ (db ++ 47%N :: fname) ++ tab_time t2]) ++
                     emit_hunks (h1 :: hs) ++ tail) w = (Ok (0, []), w') /\
    lookup (fs w') fname = Some (Reg (lines_bytes (newline_output o) B) mode) /\
    (forall q, q <> fname -> lookup (fs w') q = lookup (fs w) q) /\
    fault w' = None /\ umask w' = umask w.
Proof. exact Proofs_Whole.patch_p1_applies. Qed.
Print Assumptions patch_p1_applies.

(* the whole program (run_patch): the patch on standard input ... *)
Theorem run_patch_end_to_end : forall o f0 fl oldname t1 newname t2 h1 hs tail fname A B w data mode,
  (patch_file_path o = [] \/ patch_file_path o = bs "-") ->
  plain_options o -> reverse_patch_opt o = false ->
  format_from_options o = Ok f0 -> f0 = FUnknown \/ f0 = FUnified ->
  Forall (Filler (strip_size o) (empty_patch f0)) fl -> Forall clean fl ->
  plain_name oldname -> plain_name newname -> clean (oldname ++ tab_time t1) -> clean (newname ++ tab_time t2) ->
  stripped oldname (strip_size o) = fname -> stripped newname (strip_size o) = fname ->
  fname <> [] /\ ~ In 47%N fname ->
  Forall wf_hunk (h1 :: hs) -> Conforming A B (h1 :: hs) ->
  remove_empty_files o <> OBYes \/ lines_bytes (newline_output o) B <> [] ->
  (Z.of_nat (length A) < MAXZ)%Z ->
  tail_ok tail -> ends_here o f0 (after tail) = true ->
  fault w = None -> lookup (fs w) fname = Some (Reg data mode) -> (mode < 4096)%N -> owner_r mode = true -> owner_w mode = true ->
  split_lines data = A ->
  exists w',
    run_patch o (join_lines (fl ++ [bs "--- " ++ oldname ++ tab_time t1; bs "+++ " ++ newname ++ tab_time t2]) ++
                 emit_hunks (h1 :: hs) ++ tail) w = mkRR 0 [] w' /\
    lookup (fs w') fname = Some (Reg (lines_bytes (newline_output o) B) mode) /\
    (forall q, q <> fname -> lookup (fs w') q = lookup (fs w) q).
Proof. exact Proofs_Whole.run_patch_end_to_end. Qed.
Print Assumptions run_patch_end_to_end.

(* ... or in a file named with -i *)
Theorem run_patch_file_end_to_end : forall o f0 fl oldname t1 newname t2 h1 hs tail fname A B w data mode pf pm stdin,
  patch_file_path o = pf -> pf <> [] -> pf <> bs "-" -> ~ In 47%N pf -> pf <> fname ->
  lookup (fs w) pf = Some (Reg (join_lines (fl ++ [bs "--- " ++ oldname ++ tab_time t1; bs "+++ " ++ newname ++ tab_time t2]) ++
                                emit_hunks (h1 :: hs) ++ tail) pm) -> owner_r pm = true ->
  plain_options o -> reverse_patch_opt o = false ->
  format_from_options o = Ok f0 -> f0 = FUnknown \/ f0 = FUnified ->
  Forall (Filler (strip_size o) (empty_patch f0)) fl -> Forall clean fl ->
  plain_name oldname -> plain_name newname -> clean (oldname ++ tab_time t1) -> clean (newname ++ tab_time t2) ->
  stripped oldname (strip_size o) = fname -> stripped newname (strip_size o) = fname ->
  fname <> [] /\ ~ In 47%N fname ->
  Forall wf_hunk (h1 :: hs) -> Conforming A B (h1 :: hs) ->
  remove_empty_files o <> OBYes \/ lines_bytes (newline_output o) B <> [] ->
  (Z.of_nat (length A) < MAXZ)%Z ->
  tail_ok tail -> ends_here o f0 (after tail) = true ->
  fault w = None -> lookup (fs w) fname = Some (Reg data mode) -> (mode < 4096)%N -> owner_r mode = true -> owner_w mode = true ->
  split_lines data = A ->
  exists w',
    run_patch o stdin w = mkRR 0 [] w' /\
    lookup (fs w') fname = Some (Reg (lines_bytes (newline_output o) B) mode) /\
    (forall q, q <> fname -> lookup (fs w') q = lookup (fs w) q).
Proof. exact Proofs_Whole.run_patch_file_end_to_end. Qed.
Print Assumptions run_patch_file_end_to_end.

(* (4a) a patch over several files (diff -ru, svn diff): every section leaves its new version, nothing else changes.
   u_ok o f0 s collects, for the section s, the hypotheses of patch_applies_end_to_end on its header, names and hunks (with any
   lines in front of "--- " / "+++ " that lead the scan to a record u_p0 s: text, an Index line), plus first_ok s: its first
   line is neither a range line nor a "\" marker (so that the section before it ends there).  u_there w s: the file of s
   is a regular readable writable file of w holding u_A s. *)
Theorem sections_apply : forall o f0,
  plain_options o -> reverse_patch_opt o = false -> format_from_options o = Ok f0 ->
  forall ss tail w,
  ss <> [] -> Forall (u_ok o f0) ss -> NoDup (map u_name ss) ->
  tail_ok tail -> ends_here o f0 (after tail) = true ->
  fault w = None -> (forall s, In s ss -> u_there w s) ->
  exists w',
    process_patch o (texts ss ++ tail) w = (Ok (0, []), w') /\
    (forall s data mode, In s ss -> lookup (fs w) (u_name s) = Some (Reg data mode) ->
                         lookup (fs w') (u_name s) = Some (Reg (lines_bytes (newline_output o) (u_B s)) mode)) /\
    (forall q, ~ In q (map u_name ss) -> lookup (fs w') q = lookup (fs w) q) /\
    fault w' = None /\ umask w' = umask w.
Proof. exact Proofs_WholeSections.sections_apply. Qed.
Print Assumptions sections_apply.

(* (4b) a section written by git diff: the write is deferred to the end of the run; same result *)
Theorem git_patch_applies : forall o f0 fl ga gb ix oldname t1 newname t2 h1 hs tail fname A B w data mode,
  plain_options o -> reverse_patch_opt o = false ->
  format_from_options o = Ok f0 -> f0 = FUnknown \/ f0 = FUnified ->
  Forall (Filler (strip_size o) (empty_patch f0)) fl -> Forall clean fl ->
  ~ In 32%N ga -> hd 0%N ga <> 34%N -> clean (bs "diff --git " ++ ga ++ bs " b/" ++ gb) -> clean (bs "index " ++ ix) ->
  plain_name oldname -> plain_name newname -> clean (oldname ++ tab_time t1) -> clean (newname ++ tab_time t2) ->
  stripped oldname (strip_size o) = fname -> stripped newname (strip_size o) = fname ->
  fname <> [] /\ ~ In 47%N fname ->
  Forall wf_hunk (h1 :: hs) -> Conforming A B (h1 :: hs) ->
  rstart (oldr h1) <> 0%Z /\ rstart (newr h1) <> 0%Z ->
  remove_empty_files o <> OBYes \/ lines_bytes (newline_output o) B <> [] ->
  (Z.of_nat (length A) < MAXZ)%Z ->
  tail_ok tail -> ends_here o f0 (after tail) = true ->
  fault w = None -> lookup (fs w) fname = Some (Reg data mode) -> (mode < 4096)%N -> owner_r mode = true -> owner_w mode = true ->
  split_lines data = A ->
  exists w',
    process_patch o (join_lines (fl ++ [bs "diff --git " ++ ga ++ bs " b/" ++ gb; bs "index " ++ ix;
                                        bs "--- " ++ oldname ++ tab_time t1; bs "+++ " ++ newname ++ tab_time t2]) ++
                     emit_hunks (h1 :: hs) ++ tail) w = (Ok (0, []), w') /\
    lookup (fs w') fname = Some (Reg (lines_bytes (newline_output o) B) mode) /\
    (forall q, q <> fname -> lookup (fs w') q = lookup (fs w) q) /\
    fault w' = None /\ umask w' = umask w.
Proof. exact Proofs_WholeGit.git_patch_applies. Qed.
Print Assumptions git_patch_applies.

(* when the first hunk has a line on each side, neither range starts at 0 (hypothesis of git_patch_applies) *)
Theorem conforming_starts : forall A B h1 hs,
  Conforming A B (h1 :: hs) -> rcount (oldr h1) <> 0%Z -> rcount (newr h1) <> 0%Z ->
  rstart (oldr h1) <> 0%Z /\ rstart (newr h1) <> 0%Z.
Proof. exact Proofs_Whole.conforming_starts. Qed.

(* (3) non-vacuity: the instances are Proofs_Whole.patch_applies_end_to_end_nonvacuous (diff -u output with time stamps, -p1),
   run_patch_same, patch_applies_index_nonvacuous (svn style, mail around it, -p0 -i file), run_patch_file_same,
   Proofs_WholeSections.sections_apply_nonvacuous (diff -ru over two files), Proofs_WholeGit.git_patch_applies_nonvacuous. *)
Check Proofs_Whole.patch_applies_end_to_end_nonvacuous.
Check Proofs_Whole.run_patch_same.
Check Proofs_Whole.patch_applies_index_nonvacuous.
Check Proofs_Whole.run_patch_file_same.
Check Proofs_WholeSections.sections_apply_nonvacuous.
Check Proofs_WholeGit.git_patch_applies_nonvacuous.
Check Proofs_Whole.top_insertion_end_to_end.
Check Proofs_Whole.first_line_removal_end_to_end.

(* ===== merged from Properties_WholeOther.v ===== *)
From PatchV Require Import Base Lines Hunk Locator Formatter Options Applier LineParser Parser World Driver
     Spec_Locate Spec_Apply Spec_Names Proofs_Unified Proofs_Filler Proofs_Names Proofs_Conf Proofs_Reverse Proofs_Sections
     Proofs_Context Spec_Normal Proofs_Normal Proofs_Whole Proofs_WholeOther.

(* the context reader regroups the lines of a change group (deletions first); the hunks it hands over tile A and B as the
   written ones did *)
Theorem conforming_norm : forall A B hs, Conforming A B hs -> Conforming A B (map norm_hunk hs).
Proof. exact Proofs_WholeOther.conforming_norm. Qed.
Print Assumptions conforming_norm.

(* ================= context format ================= *)
Theorem context_patch_applies_end_to_end : forall o f0 fl oldname t1 newname t2 h1 hs tail fname A B w data mode,
  plain_options o -> reverse_patch_opt o = false ->
  format_from_options o = Ok f0 -> f0 = FUnknown \/ f0 = FContext ->
  Forall (Filler (strip_size o) (empty_patch f0)) fl -> Forall clean fl ->
  plain_name oldname -> plain_name newname -> clean (oldname ++ tab_time t1) -> clean (newname ++ tab_time t2) ->
  stripped oldname (strip_size o) = fname -> stripped newname (strip_size o) = fname ->
  fname <> [] /\ ~ In 47%N fname ->
  Forall wf_hunk_c (h1 :: hs) -> Conforming A B (h1 :: hs) ->
  remove_empty_files o <> OBYes \/ lines_bytes (newline_output o) B <> [] ->
  (Z.of_nat (length A) < MAXZ)%Z ->
  tail_ok_c tail -> (tail <> [] -> ends_here o f0 (stream_of tail) = true) ->
  fault w = None -> lookup (fs w) fname = Some (Reg data mode) -> (mode < 4096)%N -> owner_r mode = true -> owner_w mode = true ->
  split_lines data = A ->
  exists w',
    process_patch o (join_lines (fl ++ [bs "*** " ++ oldname ++ tab_time t1; bs "--- " ++ newname ++ tab_time t2]) ++
                     emit_c (h1 :: hs) ++ tail) w = (Ok (0, []), w') /\
    lookup (fs w') fname = Some (Reg (lines_bytes (newline_output o) B) mode) /\
    (forall q, q <> fname -> lookup (fs w') q = lookup (fs w) q) /\
    fault w' = None /\ umask w' = umask w.
Proof. exact Proofs_WholeOther.context_patch_applies_end_to_end. Qed.
Print Assumptions context_patch_applies_end_to_end.

Theorem context_patch_applies_end_to_end_index : forall o f0 fl ixname ixt fl2 oldname t1 newname t2 h1 hs tail fname A B w data mode,
  plain_options o -> reverse_patch_opt o = false ->
  format_from_options o = Ok f0 -> f0 = FUnknown \/ f0 = FContext ->
  Forall (Filler (strip_size o) (empty_patch f0)) fl -> Forall clean fl ->
  plain_name ixname -> clean (ixname ++ tab_time ixt) ->
  Forall (Filler (strip_size o) (set_index (empty_patch f0) (stripped ixname (strip_size o)))) fl2 -> Forall clean fl2 ->
  plain_name oldname -> plain_name newname -> clean (oldname ++ tab_time t1) -> clean (newname ++ tab_time t2) ->
  stripped oldname (strip_size o) = fname -> stripped newname (strip_size o) = fname ->
  fname <> [] /\ ~ In 47%N fname ->
  Forall wf_hunk_c (h1 :: hs) -> Conforming A B (h1 :: hs) ->
  remove_empty_files o <> OBYes \/ lines_bytes (newline_output o) B <> [] ->
  (Z.of_nat (length A) < MAXZ)%Z ->
  tail_ok_c tail -> (tail <> [] -> ends_here o f0 (stream_of tail) = true) ->
  fault w = None -> lookup (fs w) fname = Some (Reg data mode) -> (mode < 4096)%N -> owner_r mode = true -> owner_w mode = true ->
  split_lines data = A ->
  exists w',
    process_patch o (join_lines ((fl ++ [bs "Index: " ++ ixname ++ tab_time ixt] ++ fl2) ++
                                 [bs "*** " ++ oldname ++ tab_time t1; bs "--- " ++ newname ++ tab_time t2]) ++
                     emit_c (h1 :: hs) ++ tail) w = (Ok (0, []), w') /\
    lookup (fs w') fname = Some (Reg (lines_bytes (newline_output o) B) mode) /\
    (forall q, q <> fname -> lookup (fs w') q = lookup (fs w) q) /\
    fault w' = None /\ umask w' = umask w.
Proof. exact Proofs_WholeOther.context_patch_applies_end_to_end_index. Qed.
Print Assumptions context_patch_applies_end_to_end_index.

Theorem context_patch_reverses_end_to_end : forall o f0 fl oldname t1 newname t2 h1 hs tail fname A B w data mode,
  plain_options o -> reverse_patch_opt o = true ->
  format_from_options o = Ok f0 -> f0 = FUnknown \/ f0 = FContext ->
  Forall (Filler (strip_size o) (empty_patch f0)) fl -> Forall clean fl ->
  plain_name oldname -> plain_name newname -> clean (oldname ++ tab_time t1) -> clean (newname ++ tab_time t2) ->
  stripped oldname (strip_size o) = fname -> stripped newname (strip_size o) = fname ->
  fname <> [] /\ ~ In 47%N fname ->
  Forall wf_hunk_c (h1 :: hs) -> Conforming A B (h1 :: hs) ->
  remove_empty_files o <> OBYes \/ lines_bytes (newline_output o) A <> [] ->
  (Z.of_nat (length B) < MAXZ)%Z ->
  tail_ok_c tail -> (tail <> [] -> ends_here o f0 (stream_of tail) = true) ->
  fault w = None -> lookup (fs w) fname = Some (Reg data mode) -> (mode < 4096)%N -> owner_r mode = true -> owner_w mode = true ->
  split_lines data = B ->
  exists w',
    process_patch o (join_lines (fl ++ [bs "*** " ++ oldname ++ tab_time t1; bs "--- " ++ newname ++ tab_time t2]) ++
                     emit_c (h1 :: hs) ++ tail) w = (Ok (0, []), w') /\
    lookup (fs w') fname = Some (Reg (lines_bytes (newline_output o) A) mode) /\
    (forall q, q <> fname -> lookup (fs w') q = lookup (fs w) q) /\
    fault w' = None /\ umask w' = umask w.
Proof. exact Proofs_WholeOther.context_patch_reverses_end_to_end. Qed.
Print Assumptions context_patch_reverses_end_to_end.

Theorem run_patch_context_end_to_end : forall o f0 fl oldname t1 newname t2 h1 hs tail fname A B w data mode,
  (patch_file_path o = [] \/ patch_file_path o = bs "-") ->
  plain_options o -> reverse_patch_opt o = false ->
  format_from_options o = Ok f0 -> f0 = FUnknown \/ f0 = FContext ->
  Forall (Filler (strip_size o) (empty_patch f0)) fl -> Forall clean fl ->
  plain_name oldname -> plain_name newname -> clean (oldname ++ tab_time t1) -> clean (newname ++ tab_time t2) ->
  stripped oldname (strip_size o) = fname -> stripped newname (strip_size o) = fname ->
  fname <> [] /\ ~ In 47%N fname ->
  Forall wf_hunk_c (h1 :: hs) -> Conforming A B (h1 :: hs) ->
  remove_empty_files o <> OBYes \/ lines_bytes (newline_output o) B <> [] ->
  (Z.of_nat (length A) < MAXZ)%Z ->
  tail_ok_c tail -> (tail <> [] -> ends_here o f0 (stream_of tail) = true) ->
  fault w = None -> lookup (fs w) fname = Some (Reg data mode) -> (mode < 4096)%N -> owner_r mode = true -> owner_w mode = true ->
  split_lines data = A ->
  exists w',
    run_patch o (join_lines (fl ++ [bs "*** " ++ oldname ++ tab_time t1; bs "--- " ++ newname ++ tab_time t2]) ++
                 emit_c (h1 :: hs) ++ tail) w = mkRR 0 [] w' /\
    lookup (fs w') fname = Some (Reg (lines_bytes (newline_output o) B) mode) /\
    (forall q, q <> fname -> lookup (fs w') q = lookup (fs w) q).
Proof. exact Proofs_WholeOther.run_patch_context_end_to_end. Qed.
Print Assumptions run_patch_context_end_to_end.

(* ================= normal format ================= *)
Theorem normal_patch_applies_end_to_end : forall o f0 fl ixname ixt fl2 h1 hs tail fname A B w data mode,
  plain_options o -> reverse_patch_opt o = false ->
  format_from_options o = Ok f0 -> f0 = FUnknown \/ f0 = FNormal ->
  Forall (Filler (strip_size o) (empty_patch f0)) fl -> Forall clean fl ->
  plain_name ixname -> clean (ixname ++ tab_time ixt) ->
  Forall (Filler (strip_size o) (set_index (empty_patch f0) (stripped ixname (strip_size o)))) fl2 -> Forall clean fl2 ->
  stripped ixname (strip_size o) = fname ->
  fname <> [] /\ ~ In 47%N fname ->
  Forall wf_hunk_n (h1 :: hs) -> Conforming A B (h1 :: hs) ->
  remove_empty_files o <> OBYes \/ lines_bytes (newline_output o) B <> [] ->
  (Z.of_nat (length A) < MAXZ)%Z ->
  tail_ok_n tail -> ends_here o f0 (after_n tail) = true ->
  fault w = None -> lookup (fs w) [] = None ->
  lookup (fs w) fname = Some (Reg data mode) -> (mode < 4096)%N -> owner_r mode = true -> owner_w mode = true ->
  split_lines data = A ->
  exists w',
    process_patch o (join_lines (fl ++ [bs "Index: " ++ ixname ++ tab_time ixt] ++ fl2) ++ emit_normal (h1 :: hs) ++ tail) w = (Ok (0, []), w') /\
    lookup (fs w') fname = Some (Reg (lines_bytes (newline_output o) B) mode) /\
    (forall q, q <> fname -> lookup (fs w') q = lookup (fs w) q) /\
    fault w' = None /\ umask w' = umask w.
Proof. exact Proofs_WholeOther.normal_patch_applies_end_to_end. Qed.
Print Assumptions normal_patch_applies_end_to_end.

Theorem normal_patch_applies_operand : forall o f0 fl h1 hs tail fname A B w data mode,
  plain_options_ftp o -> file_to_patch o = fname -> reverse_patch_opt o = false ->
  format_from_options o = Ok f0 -> f0 = FUnknown \/ f0 = FNormal ->
  Forall (Filler (strip_size o) (empty_patch f0)) fl -> Forall clean fl ->
  fname <> [] /\ ~ In 47%N fname ->
  Forall wf_hunk_n (h1 :: hs) -> Conforming A B (h1 :: hs) ->
  remove_empty_files o <> OBYes \/ lines_bytes (newline_output o) B <> [] ->
  (Z.of_nat (length A) < MAXZ)%Z ->
  tail_ok_n tail -> ends_here o f0 (after_n tail) = true ->
  fault w = None -> lookup (fs w) fname = Some (Reg data mode) -> (mode < 4096)%N -> owner_r mode = true -> owner_w mode = true ->
  split_lines data = A ->
  exists w',
    process_patch o (join_lines fl ++ emit_normal (h1 :: hs) ++ tail) w = (Ok (0, []), w') /\
    lookup (fs w') fname = Some (Reg (lines_bytes (newline_output o) B) mode) /\
    (forall q, q <> fname -> lookup (fs w') q = lookup (fs w) q) /\
    fault w' = None /\ umask w' = umask w.
Proof. exact Proofs_WholeOther.normal_patch_applies_operand. Qed.
Print Assumptions normal_patch_applies_operand.

Theorem normal_patch_reverses_end_to_end : forall o f0 fl ixname ixt fl2 h1 hs tail fname A B w data mode,
  plain_options o -> reverse_patch_opt o = true ->
  format_from_options o = Ok f0 -> f0 = FUnknown \/ f0 = FNormal ->
  Forall (Filler (strip_size o) (empty_patch f0)) fl -> Forall clean fl ->
  plain_name ixname -> clean (ixname ++ tab_time ixt) ->
  Forall (Filler (strip_size o) (set_index (empty_patch f0) (stripped ixname (strip_size o)))) fl2 -> Forall clean fl2 ->
  stripped ixname (strip_size o) = fname ->
  fname <> [] /\ ~ In 47%N fname ->
  Forall wf_hunk_n (h1 :: hs) -> Conforming A B (h1 :: hs) ->
  remove_empty_files o <> OBYes \/ lines_bytes (newline_output o) A <> [] ->
  (Z.of_nat (length B) < MAXZ)%Z ->
  tail_ok_n tail -> ends_here o f0 (after_n tail) = true ->
  fault w = None -> lookup (fs w) [] = None ->
  lookup (fs w) fname = Some (Reg data mode) -> (mode < 4096)%N -> owner_r mode = true -> owner_w mode = true ->
  split_lines data = B ->
  exists w',
    process_patch o (join_lines (fl ++ [bs "Index: " ++ ixname ++ tab_time ixt] ++ fl2) ++ emit_normal (h1 :: hs) ++ tail) w = (Ok (0, []), w') /\
    lookup (fs w') fname = Some (Reg (lines_bytes (newline_output o) A) mode) /\
    (forall q, q <> fname -> lookup (fs w') q = lookup (fs w) q) /\
    fault w' = None /\ umask w' = umask w.
Proof. exact Proofs_WholeOther.normal_patch_reverses_end_to_end. Qed.
Print Assumptions normal_patch_reverses_end_to_end.

Theorem normal_patch_reverses_operand : forall o f0 fl h1 hs tail fname A B w data mode,
  plain_options_ftp o -> file_to_patch o = fname -> reverse_patch_opt o = true ->
  format_from_options o = Ok f0 -> f0 = FUnknown \/ f0 = FNormal ->
  Forall (Filler (strip_size o) (empty_patch f0)) fl -> Forall clean fl ->
  fname <> [] /\ ~ In 47%N fname ->
  Forall wf_hunk_n (h1 :: hs) -> Conforming A B (h1 :: hs) ->
  remove_empty_files o <> OBYes \/ lines_bytes (newline_output o) A <> [] ->
  (Z.of_nat (length B) < MAXZ)%Z ->
  tail_ok_n tail -> ends_here o f0 (after_n tail) = true ->
  fault w = None -> lookup (fs w) fname = Some (Reg data mode) -> (mode < 4096)%N -> owner_r mode = true -> owner_w mode = true ->
  split_lines data = B ->
  exists w',
    process_patch o (join_lines fl ++ emit_normal (h1 :: hs) ++ tail) w = (Ok (0, []), w') /\
    lookup (fs w') fname = Some (Reg (lines_bytes (newline_output o) A) mode) /\
    (forall q, q <> fname -> lookup (fs w') q = lookup (fs w) q) /\
    fault w' = None /\ umask w' = umask w.
Proof. exact Proofs_WholeOther.normal_patch_reverses_operand. Qed.
Print Assumptions normal_patch_reverses_operand.

Theorem run_patch_normal_end_to_end : forall o f0 fl ixname ixt fl2 h1 hs tail fname A B w data mode,
  (patch_file_path o = [] \/ patch_file_path o = bs "-") ->
  plain_options o -> reverse_patch_opt o = false ->
  format_from_options o = Ok f0 -> f0 = FUnknown \/ f0 = FNormal ->
  Forall (Filler (strip_size o) (empty_patch f0)) fl -> Forall clean fl ->
  plain_name ixname -> clean (ixname ++ tab_time ixt) ->
  Forall (Filler (strip_size o) (set_index (empty_patch f0) (stripped ixname (strip_size o)))) fl2 -> Forall clean fl2 ->
  stripped ixname (strip_size o) = fname ->
  fname <> [] /\ ~ In 47%N fname ->
  Forall wf_hunk_n (h1 :: hs) -> Conforming A B (h1 :: hs) ->
  remove_empty_files o <> OBYes \/ lines_bytes (newline_output o) B <> [] ->
  (Z.of_nat (length A) < MAXZ)%Z ->
  tail_ok_n tail -> ends_here o f0 (after_n tail) = true ->
  fault w = None -> lookup (fs w) [] = None ->
  lookup (fs w) fname = Some (Reg data mode) -> (mode < 4096)%N -> owner_r mode = true -> owner_w mode = true ->
  split_lines data = A ->
  exists w',
    run_patch o (join_lines (fl ++ [bs "Index: " ++ ixname ++ tab_time ixt] ++ fl2) ++ emit_normal (h1 :: hs) ++ tail) w = mkRR 0 [] w' /\
    lookup (fs w') fname = Some (Reg (lines_bytes (newline_output o) B) mode) /\
    (forall q, q <> fname -> lookup (fs w') q = lookup (fs w) q).
Proof. exact Proofs_WholeOther.run_patch_normal_end_to_end. Qed.
Print Assumptions run_patch_normal_end_to_end.

Theorem run_patch_normal_operand : forall o f0 fl h1 hs tail fname A B w data mode,
  (patch_file_path o = [] \/ patch_file_path o = bs "-") ->
  plain_options_ftp o -> file_to_patch o = fname -> reverse_patch_opt o = false ->
  format_from_options o = Ok f0 -> f0 = FUnknown \/ f0 = FNormal ->
  Forall (Filler (strip_size o) (empty_patch f0)) fl -> Forall clean fl ->
  fname <> [] /\ ~ In 47%N fname ->
  Forall wf_hunk_n (h1 :: hs) -> Conforming A B (h1 :: hs) ->
  remove_empty_files o <> OBYes \/ lines_bytes (newline_output o) B <> [] ->
  (Z.of_nat (length A) < MAXZ)%Z ->
  tail_ok_n tail -> ends_here o f0 (after_n tail) = true ->
  fault w = None -> lookup (fs w) fname = Some (Reg data mode) -> (mode < 4096)%N -> owner_r mode = true -> owner_w mode = true ->
  split_lines data = A ->
  exists w',
    run_patch o (join_lines fl ++ emit_normal (h1 :: hs) ++ tail) w = mkRR 0 [] w' /\
    lookup (fs w') fname = Some (Reg (lines_bytes (newline_output o) B) mode) /\
    (forall q, q <> fname -> lookup (fs w') q = lookup (fs w) q).
Proof. exact Proofs_WholeOther.run_patch_normal_operand. Qed.
Print Assumptions run_patch_normal_operand.

(* non-vacuity: Proofs_WholeOther.context_patch_applies_nonvacuous / context_patch_reverses_nonvacuous (diff -c output of a two-hunk
   change with time stamps, a mail signature after it, -p1, a tree with bystanders), normal_patch_applies_nonvacuous /
   normal_patch_reverses_nonvacuous ("Index: f", two change groups, an empty line and text after them, -p0),
   normal_patch_operand_nonvacuous (patch f < diff), normal_top_insertion_reverses ("0a1" with -R); each cross-checked by
   vm_compute on run_patch (run_patch_context_same, run_patch_normal_same, ...). *)
