(* Properties_C01.v — C01 (hunk level): applying a conforming diff of A to B to A yields exactly B. *)
From PatchV Require Import Base Lines Hunk Locator Options Applier Parser World Driver Spec_Locate Spec_Apply Proofs_Conf Proofs_EndToEnd.

(* any option record without -R, -D, --verbose; any -F >= 0, with or without -l, -N, -t, -f, any newline
   mode and reject format; files of fewer than 2^63-1 lines; a patch whose old file is /dev/null (one that
   creates the file) only against an absent or empty file *)
Theorem apply_conforming : forall o p A B,
  define_macro o = [] -> verbose o = false -> reverse_patch_opt o = false -> (0 <= max_fuzz o)%Z ->
  Conforming A B (hunks p) -> (Z.of_nat (length A) < MAXZ)%Z -> creation_guard p A ->
  exists r, apply_patch o A p = Ok r /\ r_out r = B /\ r_failed r = 0 /\ r_rej r = [] /\
            r_skipped r = false /\ r_perfect r = true /\ r_msgs r = [].
Proof. exact Proofs_Conf.apply_conforming. Qed.
Print Assumptions apply_conforming.

(* each hunk lands at its stated line even when the same text also occurs elsewhere: the locator's
   answer for a file that carries the old side at the stated place is that place, fuzz 0, offset 0 *)
Theorem stated_place_wins : forall ws F cursor f pre post h,
  f = pre ++ old_side (body h) ++ post ->
  body h <> [] ->
  rcount (oldr h) = Z.of_nat (length (old_side (body h))) ->
  rstart (oldr h) = (if Z.eqb (rcount (oldr h)) 0 then Z.of_nat (length pre) else Z.of_nat (length pre) + 1)%Z ->
  cursor <= length pre -> (0 <= F)%Z -> (Z.of_nat (length f) < MAXZ)%Z ->
  locate_hunk f h ws 0 F cursor = Some (mkLoc (length pre) 0 0).
Proof. exact Proofs_Conf.locate_conf. Qed.
Print Assumptions stated_place_wins.

(* through the driver: one section of a unified diff of A to B naming a file of the working directory that is a regular,
   readable, writable file holding A, nothing failing: afterwards the file holds exactly B (terminators as
   --newline-output asks), its mode is unchanged, every other entry of the tree is untouched (no reject, no backup), no
   failure is recorded (exit status 0 if this was the only section) *)
Theorem section_writes_new_version : forall o p f A B,
  (file_to_patch o = [] /\ out_file_path o = [] /\ dry_run o = false /\ save_backup o = false /\ define_macro o = [] /\
   verbose o = false /\ reverse_patch_opt o = false /\ (0 <= max_fuzz o)%Z) ->
  (pfmt p = FUnified /\ poper p = OpChange /\ prereq p = [] /\ old_path p = f /\ new_path p = f /\ new_mode p = 0%N /\
   f <> devnull /\ f <> [] /\ ~ In 47%N f) ->
  Conforming A B (hunks p) -> lines_bytes (newline_output o) B <> [] -> (Z.of_nat (length A) < MAXZ)%Z ->
  forall st s w data mode,
  fault w = None -> deferred_writes st = [] ->
  lookup (fs w) f = Some (Reg data mode) -> (mode < 4096)%N -> owner_r mode = true -> owner_w mode = true ->
  N.land mode write_mask <> 0%N ->
  split_lines data = A ->
  exists st' w',
    process_section o st false p s w = (Ok (st', s), w') /\
    lookup (fs w') f = Some (Reg (lines_bytes (newline_output o) B) mode) /\
    (forall q, q <> f -> lookup (fs w') q = lookup (fs w) q) /\
    had_failure st' = had_failure st /\ deferred_writes st' = [] /\ fault w' = None.
Proof. exact Proofs_EndToEnd.section_writes_new_version. Qed.
Print Assumptions section_writes_new_version.

Local Open Scope string_scope.
(* formerly refuted (known finding K20, fixed in /repo): a context-free insertion at the top of a non-empty file,
   as diff -U0 writes it, is conforming and is now applied *)
Example top_insertion_applies :
  let l s := mkLine (bs s) LF in
  let h := mkHunk (mkRange 0 0) (mkRange 1 1) [mkPL Add (l "n")] in
  match apply_patch default_options [l "x"] (mkPatch FUnified OpChange [] [] (bs "f") (bs "f") [] [] 0 0 [h]) with
  | Ok r => r_failed r = 0 /\ r_out r = [l "n"; l "x"]
  | Throw _ => False
  end.
Proof. vm_compute. split; reflexivity. Qed.

(* non-vacuity of apply_conforming: a two-hunk conforming patch over a file with repeated lines *)
Definition ex_l (s : String.string) := mkLine (bs s) LF.
Definition ex_h1 := mkHunk (mkRange 1 3) (mkRange 1 3)
  [mkPL Ctx (ex_l "a"); mkPL Del (ex_l "b"); mkPL Add (ex_l "B"); mkPL Ctx (ex_l "a")].
Definition ex_h2 := mkHunk (mkRange 5 1) (mkRange 5 2) [mkPL Ctx (ex_l "a"); mkPL Add (ex_l "z")].
Example conforming_nonvacuous :
  Conforming [ex_l "a"; ex_l "b"; ex_l "a"; ex_l "b"; ex_l "a"]
             [ex_l "a"; ex_l "B"; ex_l "a"; ex_l "b"; ex_l "a"; ex_l "z"] [ex_h1; ex_h2] /\
  creation_guard (mkPatch FUnified OpChange [] [] (bs "f") (bs "f") [] [] 0 0 [ex_h1; ex_h2])
                 [ex_l "a"; ex_l "b"; ex_l "a"; ex_l "b"; ex_l "a"].
Proof.
  split.
  - unfold Conforming.
    apply (Conf_cons 0 0 [] ex_h1 [ex_h2] [ex_l "b"; ex_l "a"] [ex_l "b"; ex_l "a"; ex_l "z"]); try reflexivity; [discriminate|].
    apply (Conf_cons 3 3 [ex_l "b"] ex_h2 [] [] []); try reflexivity; [discriminate|]. constructor.
  - intros H. vm_compute in H. discriminate.
Qed.
