(* Properties_C01.v — C01 (hunk level): applying a conforming diff of A to B to A yields exactly B. *)
From PatchV Require Import Base Lines Hunk Locator Formatter Options Applier LineParser Parser World Driver Spec_Locate Spec_Apply Proofs_Conf Proofs_EndToEnd
     Proofs_Unified Spec_Normal Proofs_Normal Proofs_NormalConf.

(* any option record without -R, -D, --verbose; any -F >= 0, with or without -l, -N, -t, -f, any newline
   mode and reject format; files of fewer than 2^63-1 lines; a patch whose old file is /dev/null (one that
   creates the file) only against an absent or empty file *)
Theorem apply_conforming : forall o p A B,
  define_macro o = [] -> verbose o = false -> reverse_patch_opt o = false -> (0 <= max_fuzz o)%Z ->
  Conforming A B (hunks p) -> (Z.of_nat (length A) < MAXZ)%Z -> creation_guard p A ->
  exists r, apply_patch o A p = Ok r /\ r_out r = B /\ r_failed r = 0 /\ r_rej r = [] /\
            r_skipped r = false /\ r_perfect r = true /\ r_msgs r = [].
Proof. exact Proofs_Conf.apply_conforming. Qed.
Print Assumptions apply_conforming.

(* each hunk lands at its stated line even when the same text also occurs elsewhere: the locator's
   answer for a file that carries the old side at the stated place is that place, fuzz 0, offset 0 *)
Theorem stated_place_wins : forall ws F cursor f pre post h,
  f = pre ++ old_side (body h) ++ post ->
  body h <> [] ->
  rcount (oldr h) = Z.of_nat (length (old_side (body h))) ->
  rstart (oldr h) = (if Z.eqb (rcount (oldr h)) 0 then Z.of_nat (length pre) else Z.of_nat (length pre) + 1)%Z ->
  cursor <= length pre -> (0 <= F)%Z -> (Z.of_nat (length f) < MAXZ)%Z ->
  locate_hunk f h ws 0 F cursor = Some (mkLoc (length pre) 0 0).
Proof. exact Proofs_Conf.locate_conf. Qed.
Print Assumptions stated_place_wins.

(* through the driver: one section of a unified diff of A to B naming a file of the working directory that is a regular,
   readable, writable file holding A, nothing failing: afterwards the file holds exactly B (terminators as
   --newline-output asks), its mode is unchanged, every other entry of the tree is untouched (no reject, no backup), no
   failure is recorded (exit status 0 if this was the only section) *)
Theorem section_writes_new_version : forall o p f A B,
  (file_to_patch o = [] /\ out_file_path o = [] /\ dry_run o = false /\ save_backup o = false /\ define_macro o = [] /\
   verbose o = false /\ reverse_patch_opt o = false /\ (0 <= max_fuzz o)%Z) ->
  (pfmt p = FUnified /\ poper p = OpChange /\ prereq p = [] /\ old_path p = f /\ new_path p = f /\ new_mode p = 0%N /\
   f <> devnull /\ f <> [] /\ ~ In 47%N f) ->
  Conforming A B (hunks p) -> lines_bytes (newline_output o) B <> [] -> (Z.of_nat (length A) < MAXZ)%Z ->
  forall st s w data mode,
  fault w = None -> deferred_writes st = [] ->
  lookup (fs w) f = Some (Reg data mode) -> (mode < 4096)%N -> owner_r mode = true -> owner_w mode = true ->
  N.land mode write_mask <> 0%N ->
  split_lines data = A ->
  exists st' w',
    process_section o st false p s w = (Ok (st', s), w') /\
    lookup (fs w') f = Some (Reg (lines_bytes (newline_output o) B) mode) /\
    (forall q, q <> f -> lookup (fs w') q = lookup (fs w) q) /\
    had_failure st' = had_failure st /\ deferred_writes st' = [] /\ fault w' = None.
Proof. exact Proofs_EndToEnd.section_writes_new_version. Qed.
Print Assumptions section_writes_new_version.

Local Open Scope string_scope.
(* formerly refuted (known finding K20, fixed in /repo): a context-free insertion at the top of a non-empty file,
   as diff -U0 writes it, is conforming and is now applied *)
Example top_insertion_applies :
  let l s := mkLine (bs s) LF in
  let h := mkHunk (mkRange 0 0) (mkRange 1 1) [mkPL Add (l "n")] in
  match apply_patch default_options [l "x"] (mkPatch FUnified OpChange [] [] (bs "f") (bs "f") [] [] 0 0 [h]) with
  | Ok r => r_failed r = 0 /\ r_out r = [l "n"; l "x"]
  | Throw _ => False
  end.
Proof. vm_compute. split; reflexivity. Qed.

(* non-vacuity of apply_conforming: a two-hunk conforming patch over a file with repeated lines *)
Definition ex_l (s : String.string) := mkLine (bs s) LF.
Definition ex_h1 := mkHunk (mkRange 1 3) (mkRange 1 3)
  [mkPL Ctx (ex_l "a"); mkPL Del (ex_l "b"); mkPL Add (ex_l "B"); mkPL Ctx (ex_l "a")].
Definition ex_h2 := mkHunk (mkRange 5 1) (mkRange 5 2) [mkPL Ctx (ex_l "a"); mkPL Add (ex_l "z")].
Example conforming_nonvacuous :
  Conforming [ex_l "a"; ex_l "b"; ex_l "a"; ex_l "b"; ex_l "a"]
             [ex_l "a"; ex_l "B"; ex_l "a"; ex_l "b"; ex_l "a"; ex_l "z"] [ex_h1; ex_h2] /\
  creation_guard (mkPatch FUnified OpChange [] [] (bs "f") (bs "f") [] [] 0 0 [ex_h1; ex_h2])
                 [ex_l "a"; ex_l "b"; ex_l "a"; ex_l "b"; ex_l "a"].
Proof.
  split.
  - unfold Conforming.
    apply (Conf_cons 0 0 [] ex_h1 [ex_h2] [ex_l "b"; ex_l "a"] [ex_l "b"; ex_l "a"; ex_l "z"]); try reflexivity; [discriminate|].
    apply (Conf_cons 3 3 [ex_l "b"] ex_h2 [] [] []); try reflexivity; [discriminate|]. constructor.
  - intros H. vm_compute in H. discriminate.
Qed.

(* ---------------------------------------------------------------------------------------------------------------
   C01 (and C05) for the NORMAL diff format: what a producer writes (Spec_Normal.v, a specification: the program never
   writes this format; checked byte for byte against GNU diff output in an Example) is read back as the same hunks, and the
   normal diff of A to B applied to A gives B (with -R applied to B gives A).  Proofs in Proofs_Normal.v, Proofs_NormalConf.v. *)

(* a command line that is written is read back as the ranges of the hunk: for "a" the old number is the line after
   which the lines are added (count 0), for "d" the new number is the line after which they would have been (count 0),
   otherwise first line and number of lines *)
Theorem parse_normal_header : forall h h0,
  wf_hunk_n h -> parse_normal_range h0 (normal_header h) = (true, mkHunk (oldr h) (newr h) (body h0)).
Proof. exact Proofs_Normal.parse_normal_header. Qed.
Print Assumptions parse_normal_header.

(* Change groups written as a normal diff are read back as exactly the same hunks — same stated lines and counts, same
   old-side and new-side lines in the same order, same missing-newline marks — and the parser stops where they end.
   wf_hunk_n: a non-empty body that is its deletions followed by its additions (no context); per side: no line feed
   inside a line, no trailing CR, terminators LF, or none on the last line only; start, count and last line of each
   range within 0..2^63-1; counts equal to the numbers of lines.
   tail_ok_n: what follows does not begin with '\' or '-', and its first line is empty, or unterminated, or not a
   command line.  after_n: the stream in front of the tail (an empty or unterminated first line of the tail is consumed). *)
Theorem normal_roundtrip : forall hs tail,
  hs <> [] -> Forall wf_hunk_n hs -> tail_ok_n tail ->
  parse_normal_patch (strm (emit_normal hs ++ tail)) = Ok (hs, after_n tail).
Proof. exact Proofs_Normal.normal_roundtrip. Qed.
Print Assumptions normal_roundtrip.

Theorem normal_roundtrip_sides : forall hs tail,
  hs <> [] -> Forall wf_hunk_n hs -> tail_ok_n tail ->
  exists hs', parse_normal_patch (strm (emit_normal hs ++ tail)) = Ok (hs', after_n tail) /\
              map oldr hs' = map oldr hs /\ map newr hs' = map newr hs /\
              map (fun h => old_side (body h)) hs' = map (fun h => old_side (body h)) hs /\
              map (fun h => new_side (body h)) hs' = map (fun h => new_side (body h)) hs.
Proof. exact Proofs_Normal.normal_roundtrip_sides. Qed.
Print Assumptions normal_roundtrip_sides.

Theorem normal_body_roundtrip : forall p hs tail,
  pfmt p = FNormal -> hs <> [] -> Forall wf_hunk_n hs -> tail_ok_n tail ->
  parse_patch_body p (strm (emit_normal hs ++ tail)) = Ok (set_hunks p (hunks p ++ hs), after_n tail).
Proof. exact Proofs_Normal.normal_body_roundtrip. Qed.
Print Assumptions normal_body_roundtrip.

(* the hypotheses in everyday terms *)
Theorem tail_ok_n_nil : tail_ok_n [].
Proof. exact Proofs_Normal.tail_ok_n_nil. Qed.
Theorem tail_ok_n_text : forall c l2 more,
  clean (c :: l2) -> is_digit c = false -> c <> 92%N -> c <> 45%N -> tail_ok_n ((c :: l2) ++ 10%N :: more).
Proof. exact Proofs_Normal.tail_ok_n_text. Qed.
Theorem after_n_line : forall l2 more, clean l2 -> l2 <> [] -> after_n (l2 ++ 10%N :: more) = strm (l2 ++ 10%N :: more).
Proof. exact Proofs_Normal.after_n_line. Qed.
Theorem wf_mk_change : forall os ns ds as_,
  (ds <> [] \/ as_ <> []) -> side_ok ds -> side_ok as_ ->
  wf_range_n (mkRange os (Z.of_nat (length ds))) -> wf_range_n (mkRange ns (Z.of_nat (length as_))) ->
  wf_hunk_n (mk_change os ns ds as_).
Proof. exact Proofs_Normal.wf_mk_change. Qed.
Theorem wf_hunk_n_shape : forall h, wf_hunk_n h ->
  h = mk_change (rstart (oldr h)) (rstart (newr h)) (old_side (body h)) (new_side (body h)).
Proof. exact Proofs_Normal.wf_hunk_n_shape. Qed.

(* the parsed hunks tile A and B whenever the emitted ones do *)
Theorem normal_roundtrip_conforming : forall A B hs tail,
  hs <> [] -> Forall wf_hunk_n hs -> tail_ok_n tail -> Conforming A B hs ->
  exists hs', parse_normal_patch (strm (emit_normal hs ++ tail)) = Ok (hs', after_n tail) /\ Conforming A B hs'.
Proof. exact Proofs_NormalConf.normal_roundtrip_conforming. Qed.
Print Assumptions normal_roundtrip_conforming.

(* the change groups of an edit script tile its old and new file, and are well formed when both files are readable *)
Theorem script_conf : forall sc a b fin,
  Forall seg_ok sc -> Conf a b (script_old sc fin) (script_new sc fin) (script_hunks a b sc).
Proof. exact Proofs_NormalConf.script_conf. Qed.
Print Assumptions script_conf.

Theorem script_wf : forall sc a b fin,
  Forall seg_ok sc -> side_ok (script_old sc fin) -> side_ok (script_new sc fin) ->
  (Z.of_nat (a + length (script_old sc fin)) <= MAXZ)%Z -> (Z.of_nat (b + length (script_new sc fin)) <= MAXZ)%Z ->
  Forall wf_hunk_n (script_hunks a b sc).
Proof. exact Proofs_NormalConf.script_wf. Qed.
Print Assumptions script_wf.

(* C01 for the normal format: the normal diff of A to B, read by the parser and applied to A, gives B *)
Theorem normal_diff_applies : forall o p sc fin tail,
  sc <> [] -> Forall seg_ok sc ->
  side_ok (script_old sc fin) -> side_ok (script_new sc fin) ->
  (Z.of_nat (length (script_old sc fin)) < MAXZ)%Z -> (Z.of_nat (length (script_new sc fin)) < MAXZ)%Z ->
  tail_ok_n tail ->
  pfmt p = FNormal -> hunks p = [] -> creation_guard p (script_old sc fin) ->
  define_macro o = [] -> verbose o = false -> reverse_patch_opt o = false -> (0 <= max_fuzz o)%Z ->
  exists p' r,
    parse_patch_body p (strm (emit_normal (script_hunks 0 0 sc) ++ tail)) = Ok (p', after_n tail) /\
    apply_patch o (script_old sc fin) p' = Ok r /\ r_out r = script_new sc fin /\ r_failed r = 0 /\ r_rej r = [] /\
    r_skipped r = false /\ r_perfect r = true /\ r_msgs r = [].
Proof. exact Proofs_NormalConf.normal_diff_applies. Qed.
Print Assumptions normal_diff_applies.

(* C05 for the normal format: applied with -R to B it gives A *)
Theorem normal_diff_reverses : forall o p sc fin tail,
  sc <> [] -> Forall seg_ok sc ->
  side_ok (script_old sc fin) -> side_ok (script_new sc fin) ->
  (Z.of_nat (length (script_old sc fin)) < MAXZ)%Z -> (Z.of_nat (length (script_new sc fin)) < MAXZ)%Z ->
  tail_ok_n tail ->
  pfmt p = FNormal -> hunks p = [] ->
  (str_eqb (new_path p) (bs "/dev/null") = true -> script_new sc fin = []) ->
  define_macro o = [] -> verbose o = false -> reverse_patch_opt o = true -> (0 <= max_fuzz o)%Z ->
  exists p' r,
    parse_patch_body p (strm (emit_normal (script_hunks 0 0 sc) ++ tail)) = Ok (p', after_n tail) /\
    apply_patch o (script_new sc fin) p' = Ok r /\ r_out r = script_old sc fin /\ r_failed r = 0 /\ r_rej r = [] /\
    r_skipped r = false /\ r_perfect r = true /\ r_msgs r = [].
Proof. exact Proofs_NormalConf.normal_diff_reverses. Qed.
Print Assumptions normal_diff_reverses.

(* non-vacuity: what GNU diff prints for a,b,c,d,e,f -> x,a,b,d,e,F,G(no newline), followed by further text *)
Import NormalExamples.
Example roundtrip_nonvacuous :
  Forall wf_hunk_n [hA; hD; hC] /\ tail_ok_n ex_tail /\ emit_normal [hA; hD; hC] = ex_text /\
  parse_normal_patch (strm (ex_text ++ ex_tail)) = Ok ([hA; hD; hC], strm ex_tail).
Proof. exact (conj ex_wf (conj ex_tail_ok (conj ex_emit ex_roundtrip))). Qed.
