(* Lines.v — File::get_line / file_as_lines (file.cpp:170-215, patch.cpp:28-37) and LineWriter
   (applier.cpp:19-73).  Model file: definitions only. *)
From PatchV Require Import Base.

Inductive newline := LF | CRLF | NoNL.
Record line := mkLine { txt : list N; nl : newline }.

Definition newline_eqb (a b : newline) : bool :=
  match a, b with LF, LF | CRLF, CRLF | NoNL, NoNL => true | _, _ => false end.

(* One call of File::get_line on the remaining bytes of a stream that is not yet at EOF.
   Returns (line read, its terminator class, remaining bytes, eof flag afterwards), or None when the
   call returns false (EOF hit with nothing read).  [acc] is the reversed content read so far. *)
Fixpoint get_line_aux (s : list N) (acc : list N) : option (list N * newline * list N * bool) :=
  match s with
  | [] => match acc with
          | [] => None                                   (* EOF, line empty: return false, eof set *)
          | _ => Some (rev acc, NoNL, [], true)          (* EOF after content: no terminator, '\r' kept *)
          end
  | c :: r =>
      if N.eqb c 10 then
        match acc with
        | 13%N :: acc' => Some (rev acc', CRLF, r, false)
        | _ => Some (rev acc, LF, r, false)
        end
      else get_line_aux r (c :: acc)
  end.
Definition get_line (s : list N) := get_line_aux s [].

(* file_as_lines: fuel = number of bytes + 1 is always enough (each call consumes >= 1 byte) *)
Fixpoint split_lines_fuel (fuel : nat) (s : list N) : list line :=
  match fuel with
  | O => []
  | S f => match get_line s with
           | None => []
           | Some (t, n, r, eof) => mkLine t n :: (if eof then [] else split_lines_fuel f r)
           end
  end.
Definition split_lines (s : list N) : list line := split_lines_fuel (S (length s)) s.

(* LineWriter *)
Inductive nlmode := MNative | MLF | MCRLF | MKeep.

Definition nl_bytes (m : nlmode) (n : newline) : list N :=
  match n with
  | NoNL => []
  | _ => match m with
         | MNative | MLF => [10%N]
         | MCRLF => [13%N; 10%N]
         | MKeep => match n with CRLF => [13%N; 10%N] | _ => [10%N] end
         end
  end.

Definition line_bytes (m : nlmode) (l : line) : list N := txt l ++ nl_bytes m (nl l).
Definition lines_bytes (m : nlmode) (ls : list line) : list N := flat_map (line_bytes m) ls.
