(* Proofs_Fuel.v — C08 over the parser model: every loop over the patch stream consumes input at each pass, so the fuel the
   model gives its loops (the number of bytes left, plus one) is never exhausted: the number of passes is bounded by the size
   of the input, whatever numbers are written in it. *)
From PatchV Require Import Base Lines Hunk LineParser Parser Proofs_Base.

Definition fueled {A} (r : res A) : Prop := r <> Throw EOutOfFuel.

Lemma fueled_ok {A} (a : A) : fueled (Ok a). Proof. discriminate. Qed.
Lemma fueled_throw {A} e : e <> EOutOfFuel -> fueled (@Throw A e). Proof. intros H E. inversion E. contradiction. Qed.
#[local] Hint Resolve fueled_ok : fuel.
Ltac fthrow := apply fueled_throw; discriminate.
Lemma fueled_retype {A B} e : fueled (@Throw A e) -> fueled (@Throw B e).
Proof. intros H E. apply H. inversion E. reflexivity. Qed.

Lemma fueled_bind {A B} (m : res A) (f : A -> res B) : fueled m -> (forall a, m = Ok a -> fueled (f a)) -> fueled (rbind m f).
Proof. intros Hm Hf. destruct m as [a|e]; cbn [rbind]; [apply Hf; reflexivity|]. intros E. apply Hm. inversion E. reflexivity. Qed.

(* ---------- reading a line consumes input ---------- *)
Lemma get_line_aux_shrinks : forall s acc t n r e, get_line_aux s acc = Some (t, n, r, e) -> length r <= length s /\ (s <> [] -> length r < length s).
Proof.
  induction s as [|c s IH]; intros acc t n r e H; cbn [get_line_aux] in H.
  - destruct acc; [discriminate|]. inversion H; subst. split; [cbn; lia|congruence].
  - destruct (N.eqb c 10).
    + assert (r = s) by (destruct acc as [|a acc]; [inversion H; reflexivity|]; destruct a as [|q]; [inversion H; reflexivity|];
                         do 4 (destruct q as [q|q|]; try (inversion H; reflexivity))).
      subst. cbn [length]. split; [lia|intros _; lia].
    + apply IH in H. cbn [length]. destruct H as [H1 H2]. split; [lia|intros _; lia].
Qed.

Lemma sget_line_some s x s' : sget_line s = (Some x, s') -> length (rest s') < length (rest s).
Proof.
  unfold sget_line. destruct (seof s); [discriminate|]. destruct (sbad s); [discriminate|].
  unfold get_line. destruct (get_line_aux (rest s) []) as [[[[t n] r] e]|] eqn:G; [|discriminate].
  intros [= <- <-]. cbn [rest]. destruct (rest s) as [|c r0] eqn:E; [cbn in G; discriminate|].
  apply get_line_aux_shrinks in G. destruct G as [_ G]. apply G. discriminate.
Qed.

Lemma sget_line_le s x s' : sget_line s = (x, s') -> length (rest s') <= length (rest s).
Proof.
  destruct x as [x|]; [intros H; apply sget_line_some in H; lia|].
  unfold sget_line. destruct (seof s); [intros [= <-]; cbn; lia|]. destruct (sbad s); [intros [= <-]; lia|].
  destruct (get_line (rest s)) as [[[[t n] r] e]|]; [discriminate|]. intros [= <-]. cbn. lia.
Qed.

Lemma eat_marker_le hit ls s : length (rest (snd (eat_marker hit ls s))) <= length (rest s).
Proof.
  unfold eat_marker. destruct (hit && peek_is s 92); cbn [snd]; [|lia].
  destruct (sget_line s) as [x s'] eqn:E. cbn [snd]. eapply sget_line_le; eauto.
Qed.

(* ---------- the unified body parser ---------- *)
Lemma unified_loop_fueled : forall fuel s acc cur le, length (rest s) < fuel -> fueled (unified_loop fuel s acc cur le).
Proof.
  induction fuel as [|f IH]; intros s acc cur le L; [lia|]. cbn [unified_loop].
  destruct (sget_line s) as [[[line n]|] s'] eqn:G.
  - pose proof (sget_line_some _ _ _ G) as L1.
    destruct cur as [[[h oe] ne]|].
    + destruct (match line with [] => [32%N] | _ :: _ => line end) as [|what content]; [fthrow|].
      destruct (op_of_char what) as [o|]; [|fthrow].
      set (ls0 := body h ++ [mkPL o (mkLine content n)]).
      set (ne1 := match o with Del => ne | _ => (ne - 1)%Z end).
      destruct (match o with Del => (ls0, s') | _ => eat_marker (ne1 =? 0)%Z ls0 s' end) as [ls1 s1] eqn:E1.
      assert (L2 : length (rest s1) <= length (rest s')).
      { destruct o; try (inversion E1; lia); pose proof (eat_marker_le (ne1 =? 0)%Z ls0 s') as X; rewrite E1 in X; exact X. }
      set (oe1 := match o with Add => oe | _ => (oe - 1)%Z end).
      destruct (match o with Add => (ls1, s1) | _ => eat_marker (oe1 =? 0)%Z ls1 s1 end) as [ls2 s2] eqn:E2.
      assert (L3 : length (rest s2) <= length (rest s1)).
      { destruct o; try (inversion E2; lia); pose proof (eat_marker_le (oe1 =? 0)%Z ls1 s1) as X; rewrite E2 in X; exact X. }
      destruct ((oe1 =? 0)%Z && (ne1 =? 0)%Z).
      * destruct (sget_line s2) as [[[l2 n2]|] s3] eqn:G2; [|apply fueled_ok].
        pose proof (sget_line_some _ _ _ G2) as L4.
        destruct (parse_unified_range (mkHunk (oldr h) (newr h) []) l2) as [ok h2]. destruct ok; [|apply fueled_ok].
        apply IH. lia.
      * apply IH. lia.
    + destruct (parse_unified_range empty_hunk line) as [ok h]. destruct ok; apply IH; lia.
  - destruct cur as [[[h oe] ne]|].
    + destruct (negb (ne =? 0)%Z); [fthrow|]. destruct (negb (oe =? 0)%Z); [fthrow|apply fueled_ok].
    + destruct (is_nil acc); [apply fueled_ok|]. destruct (negb (snd le =? 0)%Z); [fthrow|]. destruct (negb (fst le =? 0)%Z); [fthrow|apply fueled_ok].
Qed.

Theorem parse_unified_fueled s : fueled (parse_unified_patch s).
Proof. apply unified_loop_fueled. lia. Qed.

(* ---------- the normal body parser ---------- *)
Lemma normal_read_fueled : forall fuel n marker o s acc, length (rest s) < fuel -> fueled (normal_read fuel n marker o s acc).
Proof.
  induction fuel as [|f IH]; intros n marker o s acc L; [lia|]. cbn [normal_read].
  destruct (Z.leb n 0); [apply fueled_ok|].
  destruct (sget_line s) as [[[line nl_]|] s'] eqn:G; [|fthrow].
  pose proof (sget_line_some _ _ _ G). destruct line as [|c0 [|c1 r]]; try fthrow.
  destruct (N.eqb c0 marker && is_whitespace c1); [apply IH; lia|fthrow].
Qed.

Lemma normal_read_le : forall fuel n marker o s acc x, normal_read fuel n marker o s acc = Ok x -> length (rest (snd x)) <= length (rest s).
Proof.
  induction fuel as [|f IH]; intros n marker o s acc x H; [discriminate|]. cbn [normal_read] in H.
  destruct (Z.leb n 0); [inversion H; cbn; lia|].
  destruct (sget_line s) as [[[line nl_]|] s'] eqn:G; [|discriminate].
  pose proof (sget_line_some _ _ _ G). destruct line as [|c0 [|c1 r]]; try discriminate.
  destruct (N.eqb c0 marker && is_whitespace c1); [|discriminate]. apply IH in H. lia.
Qed.

Lemma normal_check_nonl_le ls s : length (rest (snd (normal_check_nonl ls s))) <= length (rest s).
Proof.
  unfold normal_check_nonl. destruct (negb (is_nil ls) && peek_is s 92); cbn [snd]; [|lia].
  destruct (sget_line s) as [x s'] eqn:E. cbn [snd]. eapply sget_line_le; eauto.
Qed.

Lemma normal_loop_fueled : forall fuel s acc, length (rest s) < fuel -> fueled (normal_loop fuel s acc).
Proof.
  induction fuel as [|f IH]; intros s acc L; [lia|]. cbn [normal_loop].
  destruct (sget_line s) as [[[line n]|] s'] eqn:G; [|apply fueled_ok].
  pose proof (sget_line_some _ _ _ G) as L1.
  destruct (seof s' || is_nil line); [apply fueled_ok|].
  destruct (parse_normal_range empty_hunk line) as [ok h]. destruct ok; cbn [negb].
  - apply fueled_bind; [apply normal_read_fueled; lia|]. intros x Hx.
    pose proof (normal_read_le _ _ _ _ _ _ _ Hx) as L2.
    destruct (normal_check_nonl (fst x) (snd x)) as [ls1 s1] eqn:E1.
    assert (L3 : length (rest s1) <= length (rest (snd x))) by (pose proof (normal_check_nonl_le (fst x) (snd x)) as X; rewrite E1 in X; exact X).
    set (s2 := if peek_is s1 45 then match sget_line s1 with (Some (l, _), s'0) => if str_eqb l (bs "---") then s'0 else sseek s'0 (rest s1) | (None, s'0) => s'0 end else s1).
    assert (L4 : length (rest s2) <= length (rest s1)).
    { unfold s2. destruct (peek_is s1 45); [|lia]. destruct (sget_line s1) as [[[l nn]|] s0] eqn:G1.
      - pose proof (sget_line_some _ _ _ G1). destruct (str_eqb l (bs "---")); [lia|cbn; lia].
      - pose proof (sget_line_le _ _ _ G1). lia. }
    apply fueled_bind; [apply normal_read_fueled; lia|]. intros y Hy.
    pose proof (normal_read_le _ _ _ _ _ _ _ Hy) as L5.
    destruct (normal_check_nonl (fst y) (snd y)) as [ls2 s3] eqn:E3.
    assert (L6 : length (rest s3) <= length (rest (snd y))) by (pose proof (normal_check_nonl_le (fst y) (snd y)) as X; rewrite E3 in X; exact X).
    apply IH. lia.
  - destruct (is_nil acc); [fthrow|apply fueled_ok].
Qed.

Theorem parse_normal_fueled s : fueled (parse_normal_patch s).
Proof. apply normal_loop_fueled. lia. Qed.

(* ---------- the context body parser ---------- *)
Lemma ctx_append_content_fueled : forall fuel ls i en s, length (rest s) < fuel -> fueled (ctx_append_content fuel ls i en s).
Proof.
  induction fuel as [|f IH]; intros ls i en s L; [lia|]. cbn [ctx_append_content].
  destruct (Z.ltb en i); [apply fueled_ok|].
  destruct (sget_line s) as [[[line n]|] s'] eqn:G; [|fthrow].
  pose proof (sget_line_some _ _ _ G).
  apply fueled_bind.
  - unfold ctx_append_line. destruct line as [|c0 [|c1 r]]; try fthrow. destruct (N.eqb c1 45); [fthrow|]. destruct (cxop_of_char c0); [apply fueled_ok|fthrow].
  - intros ls' _. destruct (Z.eqb i en); [apply fueled_ok|apply IH; lia].
Qed.

Lemma ctx_append_content_le : forall fuel ls i en s x, ctx_append_content fuel ls i en s = Ok x -> length (rest (snd x)) <= length (rest s).
Proof.
  induction fuel as [|f IH]; intros ls i en s x H; [discriminate|]. cbn [ctx_append_content] in H.
  destruct (Z.ltb en i); [inversion H; cbn; lia|].
  destruct (sget_line s) as [[[line n]|] s'] eqn:G; [|discriminate].
  pose proof (sget_line_some _ _ _ G).
  destruct (ctx_append_line ls line n) as [ls'|e]; cbn [rbind] in H; [|discriminate].
  destruct (Z.eqb i en); [inversion H; cbn; lia|]. apply IH in H. lia.
Qed.

Lemma ctx_find_old_range_le : forall fuel s a b s', ctx_find_old_range fuel s = (a, b, s') -> length (rest s') <= length (rest s).
Proof.
  induction fuel as [|f IH]; intros s a b s' H; cbn [ctx_find_old_range] in H; [inversion H; lia|].
  destruct (sget_line s) as [[[line n]|] s1] eqn:G.
  - pose proof (sget_line_some _ _ _ G). destruct (is_old_range_line line).
    + destruct (parse_context_range 0 0 (range_substr line)) as [[ok st] en]. inversion H; subst. lia.
    + apply IH in H. lia.
  - pose proof (sget_line_le _ _ _ G). inversion H; subst. lia.
Qed.

Lemma ctx_check_nonl_le ls s : length (rest (snd (ctx_check_nonl ls s))) <= length (rest s).
Proof.
  unfold ctx_check_nonl. destruct (negb (is_nil ls) && peek_is s 92); cbn [snd]; [|lia].
  destruct (sget_line s) as [x s'] eqn:E. cbn [snd]. eapply sget_line_le; eauto.
Qed.

Lemma ctx_append_line_fueled ls line n : fueled (ctx_append_line ls line n).
Proof.
  unfold ctx_append_line. destruct line as [|c0 [|c1 r]]; try fthrow. destruct (N.eqb c1 45); [fthrow|]. destruct (cxop_of_char c0); [apply fueled_ok|fthrow].
Qed.

(* a new-range line either is none, or parses, or is a runtime error *)
Lemma ctx_parse_new_range_cases line :
  ctx_parse_new_range line = None \/ (exists a b, ctx_parse_new_range line = Some (Ok (a, b))) \/ ctx_parse_new_range line = Some (Throw ERuntime).
Proof.
  unfold ctx_parse_new_range. destruct (negb (is_new_range_line line)); [left; reflexivity|].
  destruct (parse_context_range 0 0 (range_substr line)) as [[ok st] en]. destruct ok; [right; left; eauto|right; right; reflexivity].
Qed.

(* one context hunk: the fuel is enough, and at least one line is consumed *)
Lemma parse_context_hunk_spec s :
  fueled (parse_context_hunk s) /\
  (forall x, parse_context_hunk s = Ok x -> length (rest (snd x)) < length (rest s)).
Proof.
  unfold parse_context_hunk.
  destruct (ctx_find_old_range (S (length (rest s))) s) as [[ostart oend] s1] eqn:F.
  pose proof (ctx_find_old_range_le _ _ _ _ _ F) as L1.
  destruct (sget_line s1) as [[[line n]|] s2] eqn:G; [|split; [fthrow|discriminate]].
  pose proof (sget_line_some _ _ _ G) as L2.
  destruct (ctx_parse_new_range_cases line) as [E|[(nstart & nend & E)|E]]; rewrite E.
  - (* old side first *)
    destruct (ctx_append_line [] line n) as [ol1|e] eqn:A1; cbn [rbind];
      [|split; [pose proof (ctx_append_line_fueled [] line n) as X; rewrite A1 in X; exact (fueled_retype _ X)|discriminate]].
    destruct (ctx_append_content (S (length (rest s))) ol1 (sadd ostart (Z.of_nat (length ol1))) oend s2) as [x|e] eqn:C; cbn [rbind];
      [|split; [pose proof (ctx_append_content_fueled (S (length (rest s))) ol1 (sadd ostart (Z.of_nat (length ol1))) oend s2 ltac:(lia)) as X; rewrite C in X; exact (fueled_retype _ X)|discriminate]].
    pose proof (ctx_append_content_le _ _ _ _ _ _ C) as L3.
    destruct (ctx_check_nonl (fst x) (snd x)) as [ol2 s3] eqn:K.
    pose proof (ctx_check_nonl_le (fst x) (snd x)) as L4. rewrite K in L4. cbn [snd] in L4.
    destruct (sget_line s3) as [l2 s4] eqn:G4. pose proof (sget_line_le _ _ _ G4) as L5.
    destruct (ctx_parse_new_range_cases (fst (line_or_empty l2))) as [E2|[(nstart & nend & E2)|E2]]; rewrite E2;
      [split; [fthrow|discriminate]| |split; [fthrow|discriminate]].
    destruct (sget_line s4) as [l3 s5] eqn:G5. pose proof (sget_line_le _ _ _ G5) as L6.
    destruct (line_or_empty l3) as [line3 n3].
    destruct (seof s5); [split; [apply fueled_ok|intros y [= <-]; cbn [snd]; lia]|].
    destruct (starts_with line3 (bs "**********")); [split; [apply fueled_ok|intros y [= <-]; cbn [snd]; lia]|].
    destruct (negb (looks_like_new_line line3)); [split; [apply fueled_ok|intros y [= <-]; cbn [snd sseek rest]; lia]|].
    destruct (ctx_append_line [] line3 n3) as [nl1|e] eqn:A3; cbn [rbind];
      [|split; [pose proof (ctx_append_line_fueled [] line3 n3) as X; rewrite A3 in X; exact (fueled_retype _ X)|discriminate]].
    destruct (ctx_append_content (S (length (rest s))) nl1 (sadd nstart (Z.of_nat (length nl1))) nend s5) as [y|e] eqn:C2; cbn [rbind];
      [|split; [pose proof (ctx_append_content_fueled (S (length (rest s))) nl1 (sadd nstart (Z.of_nat (length nl1))) nend s5 ltac:(lia)) as X; rewrite C2 in X; exact (fueled_retype _ X)|discriminate]].
    pose proof (ctx_append_content_le _ _ _ _ _ _ C2) as L7.
    destruct (ctx_check_nonl (fst y) (snd y)) as [nl2 s6] eqn:K2.
    pose proof (ctx_check_nonl_le (fst y) (snd y)) as L8. rewrite K2 in L8. cbn [snd] in L8.
    split; [apply fueled_ok|]. intros z [= <-]. cbn [snd]. lia.
  - destruct (ctx_append_content (S (length (rest s))) [] (sadd nstart 0) nend s2) as [x|e] eqn:C; cbn [rbind].
    + pose proof (ctx_append_content_le _ _ _ _ _ _ C) as L3.
      destruct (ctx_check_nonl (fst x) (snd x)) as [nl2 s3] eqn:K.
      pose proof (ctx_check_nonl_le (fst x) (snd x)) as L4. rewrite K in L4. cbn [snd] in L4.
      split; [apply fueled_ok|]. intros y [= <-]. cbn [snd]. lia.
    + split; [|discriminate]. pose proof (ctx_append_content_fueled (S (length (rest s))) [] (sadd nstart 0) nend s2 ltac:(lia)) as X. rewrite C in X. exact (fueled_retype _ X).
  - split; [fthrow|discriminate].
Qed.

Lemma from_context_parts_fueled : forall fuel ol nl_ acc oc nc, length ol + length nl_ < fuel -> fueled (from_context_parts fuel ol nl_ acc oc nc).
Proof.
  induction fuel as [|f IH]; intros ol nl_ acc oc nc L; [lia|]. cbn [from_context_parts].
  destruct ol as [|[[| | |] lo] ol']; destruct nl_ as [|[[| | |] ln] nl']; cbn [tl length] in *;
    try apply fueled_ok; try fthrow; try (apply IH; cbn [length]; lia).
  destruct (negb (str_eqb (txt lo) (txt ln))); [fthrow|apply IH; lia].
Qed.

Lemma hunk_from_context_parts_fueled a ol b nl_ : fueled (hunk_from_context_parts a ol b nl_).
Proof.
  unfold hunk_from_context_parts. destruct (_ || _); [fthrow|].
  apply fueled_bind; [apply from_context_parts_fueled; lia|]. intros [[bd oc] nc] _. apply fueled_ok.
Qed.

Lemma context_loop_fueled : forall fuel s acc, length (rest s) < fuel -> fueled (context_loop fuel s acc).
Proof.
  induction fuel as [|f IH]; intros s acc L; [lia|]. cbn [context_loop].
  destruct (parse_context_hunk_spec s) as [F P].
  destruct (parse_context_hunk s) as [[[[[ol ostart] nl_] nstart] s1]|e] eqn:H; cbn [rbind]; [|exact (fueled_retype _ F)].
  specialize (P _ eq_refl). cbn [snd] in P.
  apply fueled_bind; [apply hunk_from_context_parts_fueled|]. intros h _.
  destruct (sget_line s1) as [l s2] eqn:G.
  destruct (starts_with (fst (line_or_empty l)) (bs "***************") || is_old_range_line (fst (line_or_empty l))); [|apply fueled_ok].
  apply IH. cbn [sseek rest]. lia.
Qed.

Theorem parse_context_fueled s : fueled (parse_context_patch s).
Proof. apply context_loop_fueled. lia. Qed.

(* every body parser *)
Theorem parse_patch_body_fueled p s : fueled (parse_patch_body p s).
Proof.
  unfold parse_patch_body. destruct (pfmt p); try fthrow; (apply fueled_bind; [|intros x _; apply fueled_ok]).
  - apply parse_context_fueled.
  - apply parse_unified_fueled.
  - apply parse_unified_fueled.
  - apply parse_normal_fueled.
Qed.

(* ---------- the header scan ---------- *)
Lemma pqs_loop_fueled : forall fuel s out, length s < fuel -> fueled (pqs_loop fuel s out).
Proof.
  induction fuel as [|f IH]; intros s out L; [lia|]. cbn [pqs_loop].
  destruct s as [|c r]; [fthrow|]. cbn [length] in L.
  destruct (N.eqb c 34); [apply fueled_ok|]. destruct (N.eqb c 92); [|apply IH; lia].
  destruct r as [|e r2]; [fthrow|]. cbn [length] in L.
  destruct (N.eqb e 0); [fthrow|]. destruct (N.eqb e 92); [apply IH; lia|]. destruct (N.eqb e 34); [apply IH; lia|].
  destruct (N.eqb e 110); [apply IH; lia|]. destruct (N.eqb e 116); [apply IH; lia|].
  destruct (is_octal e); [|fthrow].
  destruct r2 as [|d2 r3]; [apply IH; cbn; lia|]. cbn [length] in L.
  destruct (is_octal d2); [|apply IH; cbn [length]; lia].
  destruct r3 as [|d3 r4]; [apply IH; cbn; lia|]. cbn [length] in L.
  destruct (is_octal d3); apply IH; cbn [length]; lia.
Qed.

Lemma parse_quoted_string_fueled s : fueled (parse_quoted_string s).
Proof. unfold parse_quoted_string. apply pqs_loop_fueled. lia. Qed.

Lemma parse_file_line_fueled strip s : fueled (parse_file_line strip s).
Proof.
  unfold parse_file_line. destruct s as [|c r]; [apply fueled_ok|].
  apply fueled_bind; [destruct (N.eqb c 34); [apply parse_quoted_string_fueled|apply fueled_ok]|].
  intros [path it] _. apply fueled_ok.
Qed.

Lemma parse_git_header_name_fueled strip s : fueled (parse_git_header_name strip s).
Proof.
  unfold parse_git_header_name. apply fueled_bind; [|intros; apply fueled_ok].
  destruct s as [|c r]; [apply fueled_ok|]. destruct c as [|q]; [apply fueled_ok|].
  do 6 (destruct q as [q|q|]; try apply fueled_ok).
  apply fueled_bind; [apply parse_quoted_string_fueled|intros; apply fueled_ok].
Qed.

Lemma git_ext_filename_fueled strip prefix s : fueled (git_ext_filename strip prefix s).
Proof.
  unfold git_ext_filename. apply fueled_bind; [|intros; apply fueled_ok].
  destruct s as [|c r]; [apply fueled_ok|]. destruct c as [|q]; [apply fueled_ok|].
  do 6 (destruct q as [q|q|]; try apply fueled_ok).
  apply fueled_bind; [apply parse_quoted_string_fueled|intros; apply fueled_ok].
Qed.

Lemma parse_git_extended_info_fueled p strip line : fueled (parse_git_extended_info p strip line).
Proof.
  unfold parse_git_extended_info.
  repeat match goal with
         | |- fueled (match ?x with Some _ => _ | None => _ end) => destruct x
         | |- fueled (rbind _ _) => apply fueled_bind; [apply git_ext_filename_fueled|intros; apply fueled_ok]
         | |- fueled (Ok _) => apply fueled_ok
         end.
Qed.

Lemma header_step_fueled strip st line : fueled (header_step strip st line).
Proof.
  unfold header_step.
  repeat match goal with
         | |- fueled (Ok _) => apply fueled_ok
         | |- fueled (rbind (parse_file_line _ _) _) => apply fueled_bind; [apply parse_file_line_fueled|intros; apply fueled_ok]
         | |- fueled (rbind (parse_git_header_name _ _) _) => apply fueled_bind; [apply parse_git_header_name_fueled|intros; apply fueled_ok]
         | |- fueled (rbind (if h_git st then parse_git_extended_info _ _ _ else Ok _) _) =>
             apply fueled_bind; [destruct (h_git st); [apply parse_git_extended_info_fueled|apply fueled_ok]|intros gi _]
         | |- fueled (match ?x with Some _ => _ | None => _ end) => destruct x
         | |- fueled (if ?c then _ else _) => destruct c
         | |- fueled (let '(_, _) := ?x in _) => destruct x
         end.
Qed.

Lemma header_loop_fueled : forall fuel strip st s, length (rest s) < fuel -> fueled (header_loop fuel strip st s).
Proof.
  induction fuel as [|f IH]; intros strip st s L; [lia|]. cbn [header_loop].
  destruct (sget_line s) as [[[line n]|] s'] eqn:G; [|apply fueled_ok].
  pose proof (sget_line_some _ _ _ G).
  apply fueled_bind; [apply header_step_fueled|]. intros [st'|st'] _; [apply IH; lia|apply fueled_ok].
Qed.

Lemma skip_lines_fueled : forall n s, fueled (skip_lines n s).
Proof. induction n as [|k IH]; intros s; cbn [skip_lines]; [apply fueled_ok|]. destruct (sget_line s) as [[x|] s']; [apply IH|fthrow]. Qed.

Theorem parse_patch_header_fueled p strip s : fueled (parse_patch_header_full p strip s).
Proof.
  unfold parse_patch_header_full. apply fueled_bind; [apply header_loop_fueled; lia|]. intros [st s1] _.
  apply fueled_bind; [apply skip_lines_fueled|intros; apply fueled_ok].
Qed.
