(* Properties_C04.v — C04 (library part): every hunk is applied or rejected, never lost, duplicated or
   half-applied; the reject count is the number of rejected hunks. *)
From PatchV Require Import Base Lines Hunk Locator Options Applier Parser World Driver Spec_Locate Spec_Apply Proofs_Apply Proofs_Progress Proofs_Predict Formatter LineParser Proofs_Status Proofs_StatusDriver Proofs_StatusParse.

(* The output of apply_patch is the replay of a verdict list over the hunks it was given (as left in the
   patch: reversed when the patch was reversed, start lines shifted for rejects — replay only reads the
   bodies): applied hunks are spliced in order at non-decreasing cursors, rejected ones leave no trace,
   all other lines are copied once; failed = number of rejected verdicts; no hunk disappears. *)
Theorem apply_patch_replay : forall o f p r,
  define_macro o = [] -> apply_patch o f p = Ok r ->
  exists vs, replay f 0 (hunks (r_patch r)) vs = Some (r_out r) /\
             r_failed r = count_rejected vs /\
             length (hunks (r_patch r)) = length (hunks p).
Proof. exact Proofs_Apply.apply_patch_replay. Qed.
Print Assumptions apply_patch_replay.

(* with -f each verdict is locate_hunk's own answer for that hunk at that moment (C02/C03 then apply) *)
Theorem apply_patch_verdicts : forall o f p r,
  define_macro o = [] -> force o = true -> apply_patch o f p = Ok r ->
  let hs := hunks (if reverse_patch_opt o then reverse_patch p else p) in
  exists vs, replay f 0 hs vs = Some (r_out r) /\ r_failed r = count_rejected vs /\
             r_skipped r = false /\ verdicts_from_locate o (if reverse_patch_opt o then reverse_patch p else p) f 0 0 hs vs.
Proof. exact Proofs_Apply.apply_patch_verdicts. Qed.
Print Assumptions apply_patch_verdicts.

(* hence every applied hunk sits at or after the cursor left by the previous one, at an admissible place *)
Theorem verdicts_are_admissible : forall o p f hs vs cursor offerr,
  verdicts_from_locate o p f cursor offerr hs vs ->
  verdicts_admissible (ignore_whitespace o) (max_fuzz o) f cursor hs vs.
Proof. exact Proofs_Apply.verdicts_from_locate_admissible. Qed.
Print Assumptions verdicts_are_admissible.

Local Open Scope string_scope.
(* non-vacuity: one hunk applied with offset, one rejected *)
Example replay_nonvacuous :
  let l s := mkLine (bs s) LF in
  let f := [l "x"; l "a"; l "b"; l "c"] in
  let h1 := mkHunk (mkRange 1 1) (mkRange 1 1) [mkPL Del (l "a"); mkPL Add (l "A")] in
  let h2 := mkHunk (mkRange 3 1) (mkRange 3 1) [mkPL Del (l "q"); mkPL Add (l "Q")] in
  let p := mkPatch FUnified OpChange [] [] (bs "f") (bs "f") [] [] 0 0 [h1; h2] in
  match apply_patch default_options f p with
  | Ok r => r_out r = [l "x"; l "A"; l "b"; l "c"] /\ r_failed r = 1 /\
            replay f 0 [h1; h2] [VApplied 1 0; VRejected] = Some (r_out r)
  | Throw _ => False
  end.
Proof. vm_compute. repeat split; reflexivity. Qed.

(* through the driver: once the hunks of a section have been applied (result ar: r_failed ar is the number of rejected
   verdicts by apply_patch_replay), the failure flag of the run — exit status 1 instead of 0 — is set exactly when it was set
   before, or some hunk was rejected / the patch skipped, or a deletion left content behind ([leftover]) *)
Theorem section_failure_flag : forall o st ftp outf op op1 needed ar s2,
  Post (section_tail o st ftp outf op op1 needed ar s2)
       (fun y => had_failure (fst y) = had_failure st || negb (Nat.eqb (r_failed ar) 0) || leftover o ar).
Proof. exact Proofs_Predict.section_failure_flag. Qed.
Print Assumptions section_failure_flag.

(* ---------------------------------------------------------------------------------------------------------------
   C04 over apply_patch and the driver model: failing to place a hunk never throws; the reject file is written iff some hunk
   failed (and never under --dry-run); the exit status tells the truth; what an exception (status 2) can come from.
   Proofs in Proofs_Status.v, Proofs_StatusDriver.v, Proofs_StatusParse.v. *)

(* ---------------------------------------------------------------------------------------------------------------
   (1) failing to place a hunk never throws
   --------------------------------------------------------------------------------------------------------------- *)

(* The reject writer in context form answers exactly on the hunks whose stated counts are not met too early by the body
   (count negative, or at least the number of lines of that side) and of which one count is the true one.
   n_old / n_new: numbers of lines of the old / new side of the body. *)
Theorem write_hunk_as_context_iff : forall h,
  (exists t, write_hunk_as_context h = Ok t) <->
  ((rcount (oldr h) < 0 \/ Z.of_nat (n_old (body h)) <= rcount (oldr h))%Z /\
   (rcount (newr h) < 0 \/ Z.of_nat (n_new (body h)) <= rcount (newr h))%Z /\
   (Z.of_nat (n_new (body h)) = rcount (newr h) \/ Z.of_nat (n_old (body h)) = rcount (oldr h))).
Proof. exact Proofs_Status.write_hunk_as_context_iff. Qed.
Print Assumptions write_hunk_as_context_iff.

(* in particular on every hunk whose two counts are the numbers of lines of its two sides *)
Theorem counts_ok_writable : forall h, hunk_counts_ok h -> ctx_writable h.
Proof. exact Proofs_Status.counts_ok_writable. Qed.
Print Assumptions counts_ok_writable.

(* Without -D: when every hunk can be written by the reject writer (always so in unified form), apply_patch ends normally
   unless the question "reversed (or previously applied) patch?" has to be asked, and there is no terminal:
   question_needed o lines p = the first hunk of the patch (reversed first under -R) does not fit perfectly and -f was not
   given, it fits reversed (perfectly, or at all when it does not fit as it stands), and neither -t nor -N is given. *)
Theorem apply_never_fatal : forall o lines p,
  define_macro o = [] ->
  (should_write_as_unified o p = true \/ Forall ctx_writable (hunks p)) ->
  ~ question_needed o lines p ->
  exists r, apply_patch o lines p = Ok r.
Proof. exact Proofs_Status.apply_never_fatal. Qed.
Print Assumptions apply_never_fatal.

(* the question is never needed under -f, -t or -N *)
Theorem never_asks_no_question : forall o lines p,
  (force o = true \/ batch o = true \/ ignore_reversed o = true) -> ~ question_needed o lines p.
Proof. exact Proofs_Status.never_asks_no_question. Qed.
Print Assumptions never_asks_no_question.

(* and it is exactly what stands between a patch with writable hunks and a normal end *)
Theorem apply_patch_ok_iff : forall o lines p,
  define_macro o = [] ->
  (should_write_as_unified o p = true \/ Forall ctx_writable (hunks p)) ->
  ((exists r, apply_patch o lines p = Ok r) <-> ~ question_needed o lines p).
Proof. exact Proofs_Status.apply_patch_ok_iff. Qed.
Print Assumptions apply_patch_ok_iff.

Theorem question_throws : forall o lines p, question_needed o lines p -> apply_patch o lines p = Throw ESystem.
Proof. exact Proofs_Status.question_throws. Qed.
Print Assumptions question_throws.

(* What -D needs: under -D a placed hunk whose old count is not the number of its old-side lines can have a deleted line
   beyond the end of the file (EOutOfRange from .at()); with both counts right (the new count matters when the patch is
   reversed) nothing is ever thrown, whatever the reject format. *)
Theorem apply_never_fatal_define : forall o lines p,
  Forall hunk_counts_ok (hunks p) ->
  ~ question_needed o lines p ->
  exists r, apply_patch o lines p = Ok r.
Proof. exact Proofs_Status.apply_never_fatal_define. Qed.
Print Assumptions apply_never_fatal_define.

(* every exception of apply_patch, for any option record:
   ERuntime     — the reject format is context and some hunk is not writable;
   EOutOfRange  — -D is given and some hunk has a wrong count;
   ESystem      — the question has to be asked. *)
Theorem apply_patch_throws_only_from : forall o lines p e,
  apply_patch o lines p = Throw e ->
  ((e = ERuntime /\ should_write_as_unified o p = false /\ Exists (fun h => ~ ctx_writable h) (hunks p)) \/
   (e = EOutOfRange /\ define_macro o <> [] /\ Exists (fun h => ~ old_count_ok h \/ ~ new_count_ok h) (hunks p))) \/
  (e = ESystem /\ question_needed o lines p).
Proof. exact Proofs_Status.apply_patch_throws_only_from. Qed.
Print Assumptions apply_patch_throws_only_from.

(* ---------------------------------------------------------------------------------------------------------------
   (2) the reject file is written exactly when some hunk failed
   --------------------------------------------------------------------------------------------------------------- *)

(* A section that is not refused (sec_refused: target exists and is no regular file, or is read-only under
   --read-only=fail) and ends normally.  ar = the result of apply_patch on the lines of the target (sec_apply spells out
   which lines and which patch record).  Among the operations the section performed, the writing of the reject file occurs
   exactly when some hunk failed outside --dry-run, and it writes what apply_patch collected.
   The two side conditions keep other writes of the section apart from it: the reject file is not the output file (so with
   reject_file_path o = [], see reject_path_default), and the backup name of the output file is not the reject file. *)
Theorem section_reject_iff : forall o st should p s w y w',
  process_section o st should p s w = (Ok y, w') ->
  let outf := sec_out o st p (fs w) in
  let rp := reject_path o outf in
  rp <> outf -> backup_name o outf <> rp ->
  sec_refused o st p (fs w) = false ->
  exists ar ext, sec_apply o st should p s (fs w) = Ok ar /\ trace w' = trace w ++ ext /\
    forall data, In (OWrite rp data) ext <-> (dry_run o = false /\ r_failed ar <> 0 /\ data = r_rej ar).
Proof. exact Proofs_StatusDriver.section_reject_iff. Qed.
Print Assumptions section_reject_iff.

(* a refused section writes all its hunks to the reject file, and nothing else *)
Theorem section_refused_rejects : forall o st should p s w y w',
  process_section o st should p s w = (Ok y, w') ->
  sec_refused o st p (fs w) = true ->
  let rp := reject_path o (sec_out o st p (fs w)) in
  exists p2 s2 ext, sec_body should p s = Ok (p2, s2) /\ snd y = s2 /\ trace w' = trace w ++ ext /\
    forall q data, In (OWrite q data) ext <-> (dry_run o = false /\ q = rp /\ reject_all o p2 (hunks p2) 0 = Ok data).
Proof. exact Proofs_StatusDriver.section_refused_rejects. Qed.
Print Assumptions section_refused_rejects.

(* with --dry-run a section writes no file at all, however it ends *)
Theorem section_dry_run_writes_nothing : forall o st should p s w,
  dry_run o = true ->
  exists ext, trace (snd (process_section o st should p s w)) = trace w ++ ext /\ forall q data, ~ In (OWrite q data) ext.
Proof. exact Proofs_StatusDriver.section_dry_run_writes_nothing. Qed.
Print Assumptions section_dry_run_writes_nothing.

(* the side conditions of section_reject_iff under the default names *)
Lemma reject_path_default o outf : reject_file_path o = [] -> reject_path o outf <> outf.
Proof.
  intros H. unfold reject_path. rewrite H. cbn [is_nil]. intros E.
  apply (f_equal (@length N)) in E. rewrite app_length in E. cbn in E. lia.
Qed.

Lemma backup_name_default o outf :
  reject_file_path o = [] -> backup_prefix o = [] -> backup_suffix o = [] -> backup_name o outf <> reject_path o outf.
Proof.
  intros H1 H2 H3. unfold reject_path, backup_name. rewrite H1, H2, H3. cbn [is_nil negb andb]. intros E.
  apply app_inv_head in E. discriminate.
Qed.

(* ---------------------------------------------------------------------------------------------------------------
   (3) the exit status
   --------------------------------------------------------------------------------------------------------------- *)

(* the flag after one section: set before, or this section failed.  sec_outcome: refused / applied with result ar;
   outcome_failed: binary patch, refusal, r_failed ar <> 0 (rejected hunk; a skipped patch has all its hunks rejected),
   or leftover o ar (deletion that leaves content behind: "Not deleting file") *)
Theorem section_flag : forall o st should p s w y w',
  process_section o st should p s w = (Ok y, w') ->
  exists x, sec_outcome o st should p s (fs w) = Some x /\
            had_failure (fst y) = had_failure st || outcome_failed o x.
Proof. exact Proofs_StatusDriver.section_flag. Qed.
Print Assumptions section_flag.

(* the flag after the loop over sections: set before, or one of the sections met failed *)
Theorem loop_flag : forall o f fuel st s first w st' w',
  section_loop fuel o f st s first w = (Ok st', w') ->
  had_failure st' = had_failure st || existsb (outcome_failed o) (outcomes_met fuel o f st s w).
Proof. exact Proofs_StatusDriver.loop_flag. Qed.
Print Assumptions loop_flag.

(* A run that ends normally: the status is 0 exactly when none of the sections met failed, 1 exactly when one did. *)
Theorem exit_status_truth : forall o bytes w code ev w' f,
  process_patch o bytes w = (Ok (code, ev), w') -> format_from_options o = Ok f ->
  let met := outcomes_met (S (S (length bytes))) o f st_init (stream_of bytes) w in
  (code = 0 <-> Forall (fun x => outcome_failed o x = false) met) /\
  (code = 1 <-> Exists (fun x => outcome_failed o x = true) met) /\
  (code = 0 \/ code = 1).
Proof. exact Proofs_StatusDriver.exit_status_zero_iff. Qed.
Print Assumptions exit_status_truth.

(* status 2 exactly when an exception reaches main *)
Theorem run_exit_status : forall o stdin w,
  let m := (let! b := patch_file_bytes o stdin in process_patch o b) in
  (rr_exit (run_patch o stdin w) = 2 <-> exists e, fst (m w) = Throw e) /\
  (rr_exit (run_patch o stdin w) = 0 \/ rr_exit (run_patch o stdin w) = 1 \/ rr_exit (run_patch o stdin w) = 2).
Proof. exact Proofs_StatusDriver.run_exit_status. Qed.
Print Assumptions run_exit_status.

(* and an exception has one of the causes listed in Proofs_StatusDriver.cause, each with its evidence (explains): option
   not supported, first section not a patch, parse error of a header / a body (the parser's own Throw on that input),
   no file name / prerequisite and nobody to ask, apply_patch's Throw (see apply_patch_throws_only_from), the reject
   writer's Throw in a refusal, a failed operation (the last one of the trace), a directory as target, an empty name. *)
Theorem run_throws_only_from : forall o stdin w e w',
  (let! b := patch_file_bytes o stdin in process_patch o b) w = (Throw e, w') ->
  exists c, c <> CFuel /\ explains o c e w'.
Proof. exact Proofs_StatusDriver.run_throws_only_from. Qed.
Print Assumptions run_throws_only_from.

(* a patch skipped as already applied (-N) counts as failed: all its hunks are rejected *)
Theorem skipped_is_failed : forall o lines p r, apply_patch o lines p = Ok r -> r_skipped r = true -> r_failed r <> 0.
Proof. exact Proofs_Status.skipped_is_failed. Qed.
Print Assumptions skipped_is_failed.

(* what a section reports: the per-hunk lines and, when hunks failed, the summary with the number of rejected hunks *)
Theorem section_report : forall o st should p s w y w',
  process_section o st should p s w = (Ok y, w') ->
  sec_refused o st p (fs w) = false ->
  exists ar, sec_apply o st should p s (fs w) = Ok ar /\
    events (fst y) = events st ++ r_msgs ar ++
      (if Nat.eqb (r_failed ar) 0 then []
       else inform_hunks_failed (if r_skipped ar then bs "ignored" else bs "FAILED") (length (hunks (r_patch ar))) (r_failed ar) ++ [10%N]).
Proof. exact Proofs_StatusDriver.section_report. Qed.
Print Assumptions section_report.

(* ---------------------------------------------------------------------------------------------------------------
   syntactically well-formed patches: what the unified parser hands over satisfies the hypothesis of (1), so for unified
   and git patches "failing to place a hunk is never a fatal error" holds without side condition
   --------------------------------------------------------------------------------------------------------------- *)
Theorem parse_unified_counts : forall s hs s', parse_unified_patch s = Ok (hs, s') -> Forall hunk_counts_ok hs.
Proof. exact Proofs_StatusParse.parse_unified_counts. Qed.
Print Assumptions parse_unified_counts.

(* the header scan delivers a record without hunks *)
Theorem header_full_hunks : forall f strip s should p s1 found,
  parse_patch_header_full (empty_patch f) strip s = Ok (should, p, s1, found) -> hunks p = [].
Proof. exact Proofs_StatusParse.header_full_hunks. Qed.
Print Assumptions header_full_hunks.

Theorem parsed_unified_never_fatal : forall o lines p s p' s',
  (pfmt p = FUnified \/ pfmt p = FGit) -> hunks p = [] ->
  parse_patch_body p s = Ok (p', s') ->
  ~ question_needed o lines p' ->
  exists r, apply_patch o lines p' = Ok r.
Proof. exact Proofs_StatusParse.parsed_unified_never_fatal. Qed.
Print Assumptions parsed_unified_never_fatal.

(* benign_cause o c: c is neither "the reject writer threw in a refusal" nor the model's fuel, and when it is "apply_patch
   threw" then the question had to be asked.  One section of a unified or git patch, any options, any tree: *)
Theorem unified_section_hunk_failure_never_fatal : forall o st should p s w e w',
  (pfmt p = FUnified \/ pfmt p = FGit) -> hunks p = [] ->
  process_section o st should p s w = (Throw e, w') ->
  exists c, benign_cause o c /\ explains o c e w'.
Proof. exact Proofs_StatusParse.unified_section_hunk_failure_never_fatal. Qed.
Print Assumptions unified_section_hunk_failure_never_fatal.

(* a whole run under -u *)
Theorem unified_run_hunk_failure_never_fatal : forall o stdin w e w',
  format_from_options o = Ok FUnified ->
  (let! b := patch_file_bytes o stdin in process_patch o b) w = (Throw e, w') ->
  exists c, benign_cause o c /\ explains o c e w'.
Proof. exact Proofs_StatusParse.unified_run_hunk_failure_never_fatal. Qed.
Print Assumptions unified_run_hunk_failure_never_fatal.

(* the general form: any property G of patch records kept by the body parser and by set_oper, true of what the header scan
   delivers, and which gives every hunk the right counts *)
Theorem run_hunk_failure_never_fatal : forall o (G : patch -> Prop) stdin w e w',
  (forall q s q' s', G q -> parse_patch_body q s = Ok (q', s') -> G q') ->
  (forall q x, G q -> G (set_oper q x)) ->
  (forall q, G q -> Forall hunk_counts_ok (hunks q)) ->
  (forall f strip s should p s1 found, format_from_options o = Ok f ->
     parse_patch_header_full (empty_patch f) strip s = Ok (should, p, s1, found) -> G p) ->
  (let! b := patch_file_bytes o stdin in process_patch o b) w = (Throw e, w') ->
  exists c, benign_cause o c /\ explains o c e w'.
Proof. exact Proofs_StatusDriver.run_hunk_failure_never_fatal. Qed.
Print Assumptions run_hunk_failure_never_fatal.

(* ---------------------------------------------------------------------------------------------------------------
   non-vacuity
   --------------------------------------------------------------------------------------------------------------- *)
Local Open Scope string_scope.
Definition nlb : list N := [10%N].
Fixpoint cat (l : list String.string) : list N := match l with [] => [] | x :: r => bs x ++ nlb ++ cat r end.
Definition exl (s : String.string) := mkLine (bs s) LF.

Definition sx_f := [exl "x"; exl "a"; exl "b"; exl "c"].
Definition sx_h1 := mkHunk (mkRange 2 1) (mkRange 2 1) [mkPL Del (exl "a"); mkPL Add (exl "A")].
Definition sx_h2 := mkHunk (mkRange 4 1) (mkRange 4 1) [mkPL Del (exl "q"); mkPL Add (exl "Q")].
(* a context patch: its rejects are written in context form *)
Definition sx_p := mkPatch FContext OpChange [] [] (bs "f") (bs "f") [] [] 0 0 [sx_h1; sx_h2].

(* (1): the hypotheses hold, one hunk is applied, the other is rejected, nothing is thrown *)
Example apply_never_fatal_nonvacuous :
  define_macro default_options = [] /\
  should_write_as_unified default_options sx_p = false /\
  Forall ctx_writable (hunks sx_p) /\
  ~ question_needed default_options sx_f sx_p /\
  match apply_patch default_options sx_f sx_p with
  | Ok r => r_out r = [exl "x"; exl "A"; exl "b"; exl "c"] /\ r_failed r = 1 /\ r_rej r <> []
  | Throw _ => False
  end.
Proof.
  split; [reflexivity|]. split; [reflexivity|]. split.
  - repeat constructor; unfold ctx_writable; cbn; lia.
  - split.
    + intros (_ & H & _). vm_compute in H. discriminate.
    + vm_compute. repeat split; try reflexivity. discriminate.
Qed.

(* the hypothesis on the hunks is needed: the same patch with a wrong old count in the hunk that fails to apply is fatal
   (std::runtime_error from the reject writer: "failing to place a hunk" is fatal here) *)
Definition sx_h2_bad := mkHunk (mkRange 4 3) (mkRange 4 2) [mkPL Del (exl "q"); mkPL Add (exl "Q")].
Definition sx_p_bad := mkPatch FContext OpChange [] [] (bs "f") (bs "f") [] [] 0 0 [sx_h1; sx_h2_bad].
Example unwritable_hunk_is_fatal :
  ~ ctx_writable sx_h2_bad /\ apply_patch default_options sx_f sx_p_bad = Throw ERuntime.
Proof. split; [unfold ctx_writable; cbn; lia|vm_compute; reflexivity]. Qed.

(* the question: the patch fits reversed; without -t / -N / -f the run dies for lack of a terminal, with -t it goes on *)
Definition sx_p_rev := mkPatch FUnified OpChange [] [] (bs "f") (bs "f") [] [] 0 0
  [mkHunk (mkRange 2 1) (mkRange 2 1) [mkPL Del (exl "A"); mkPL Add (exl "a")]].
Definition batch_options : options :=
  mkOptions false false [] [] false [] false false false [] (-1)%Z 2%Z false [] []
            false true false false false false false false OBUnset OBUnset MNative RFDefault ROWarn QSUnset [] [].
Example question_nonvacuous :
  question_needed default_options sx_f sx_p_rev /\
  apply_patch default_options sx_f sx_p_rev = Throw ESystem /\
  match apply_patch batch_options sx_f sx_p_rev with Ok r => r_failed r = 0 | Throw _ => False end.
Proof. split; [|split]; vm_compute; auto. Qed.

(* what -D needs: a placed hunk with a wrong old count throws EOutOfRange *)
Definition define_options : options :=
  mkOptions false false [] (bs "SYM") false [] false false false [] (-1)%Z 2%Z false [] []
            true false false false false false false false OBUnset OBUnset MNative RFDefault ROWarn QSUnset [] [].
Definition sx_p_def := mkPatch FUnified OpChange [] [] (bs "f") (bs "f") [] [] 0 0
  [mkHunk (mkRange 4 0) (mkRange 5 1) [mkPL Del (exl "z"); mkPL Add (exl "Z")]].
Example define_needs_counts : apply_patch define_options sx_f sx_p_def = Throw EOutOfRange.
Proof. vm_compute. reflexivity. Qed.

(* (2) and (3): a run over two files; the second hunk of the first file fails *)
Definition sx_bytes := cat ["--- f"; "+++ f"; "@@ -2,1 +2,1 @@"; "-a"; "+A"; "@@ -4,1 +4,1 @@"; "-q"; "+Q";
                            "--- g"; "+++ g"; "@@ -1,1 +1,1 @@"; "-c"; "+d"].
Definition sx_w := mkWorld [(bs "f", Reg (cat ["x"; "a"; "b"; "c"]) 420); (bs "g", Reg (cat ["c"]) 420)] 18 [] None [].
Definition sx_rej := cat ["--- f"; "+++ f"; "@@ -4 +4 @@"; "-q"; "+Q"].

Example section_reject_nonvacuous :
  match parse_patch_header_full (empty_patch FUnknown) (strip_size default_options) (stream_of sx_bytes) with
  | Ok (should, p, s1, found) =>
      match process_section default_options st_init should p s1 sx_w with
      | (Ok y, w') =>
          sec_refused default_options st_init p (fs sx_w) = false /\
          sec_out default_options st_init p (fs sx_w) = bs "f" /\
          reject_path default_options (bs "f") = bs "f.rej" /\
          backup_name default_options (bs "f") <> bs "f.rej" /\
          match sec_apply default_options st_init should p s1 (fs sx_w) with
          | Ok ar => r_failed ar = 1 /\ r_rej ar = sx_rej
          | Throw _ => False
          end /\
          trace w' = [OOpenRead (bs "f"); OWrite (bs "f.rej") sx_rej; OWrite (bs "f") (cat ["x"; "A"; "b"; "c"]); OChmod (bs "f") 420] /\
          had_failure (fst y) = true
      | _ => False
      end
  | Throw _ => False
  end.
Proof. vm_compute. repeat split; try reflexivity. discriminate. Qed.

Example exit_status_nonvacuous :
  match process_patch default_options sx_bytes sx_w with
  | (Ok (code, ev), w') =>
      code = 1 /\
      In (OWrite (bs "f.rej") sx_rej) (trace w') /\ (forall data, ~ In (OWrite (bs "g.rej") data) (trace w')) /\
      match outcomes_met (S (S (length sx_bytes))) default_options FUnknown st_init (stream_of sx_bytes) sx_w with
      | [OutApplied t1 ar1; OutApplied t2 ar2] => t1 = bs "f" /\ r_failed ar1 = 1 /\ t2 = bs "g" /\ r_failed ar2 = 0 /\ leftover default_options ar2 = false
      | _ => False
      end
  | _ => False
  end.
Proof.
  vm_compute. repeat split; try reflexivity.
  - right. left. reflexivity.
  - intros data H. repeat (destruct H as [H|H]; [discriminate|]). exact H.
Qed.

(* the same patch applied to a tree where everything fits: status 0 *)
Definition sx_w_ok := mkWorld [(bs "f", Reg (cat ["x"; "a"; "b"; "q"]) 420); (bs "g", Reg (cat ["c"]) 420)] 18 [] None [].
Example exit_status_zero :
  match process_patch default_options sx_bytes sx_w_ok with
  | (Ok (code, ev), w') => code = 0 /\ forall q data, In (OWrite q data) (trace w') -> q = bs "f" \/ q = bs "g"
  | _ => False
  end.
Proof.
  vm_compute. split; [reflexivity|]. intros q data H.
  repeat (destruct H as [H|H]; [try discriminate; inversion H; auto|]). destruct H.
Qed.

(* exit status 2 and its cause: the target of the second section is missing *)
Definition sx_w_missing := mkWorld [(bs "f", Reg (cat ["x"; "a"; "b"; "q"]) 420)] 18 [] None [].
Example exit_status_two :
  rr_exit (run_patch default_options sx_bytes sx_w_missing) = 2 /\
  match (let! b := patch_file_bytes default_options sx_bytes in process_patch default_options b) sx_w_missing with
  | (Throw e, w') => explains default_options CNoFileName e w'
  | _ => False
  end.
Proof. vm_compute. split; reflexivity. Qed.

(* the other causes of status 1, one by one *)
(* a deletion that leaves content behind ("Not deleting file f as content differs from patch"), under -E *)
Definition remove_empty_options : options :=
  mkOptions false false [] [] false [] false false false [] (-1)%Z 2%Z false [] []
            false false false false false false false false OBUnset OBYes MNative RFDefault ROWarn QSUnset [] [].
Definition sx_del_bytes := cat ["--- f"; "+++ /dev/null"; "@@ -1,2 +0,0 @@"; "-x"; "-a"].
Example leftover_nonvacuous :
  match process_patch remove_empty_options sx_del_bytes sx_w with
  | (Ok (code, ev), w') =>
      code = 1 /\
      match outcomes_met (S (S (length sx_del_bytes))) remove_empty_options FUnknown st_init (stream_of sx_del_bytes) sx_w with
      | [OutApplied t ar] => r_failed ar = 0 /\ leftover remove_empty_options ar = true
      | _ => False
      end
  | _ => False
  end.
Proof. vm_compute. repeat split; reflexivity. Qed.

(* a refusal: the target is a directory *)
Definition sx_w_dir := mkWorld [(bs "f", Dir 493)] 18 [] None [].
Example refused_nonvacuous :
  match process_patch default_options sx_bytes sx_w_dir with
  | (Ok (code, ev), w') => False
  | (Throw e, w') =>
      (* the first section is refused (all hunks to f.rej, flag set); the second has no target: exit status 2 *)
      In (OWrite (bs "f.rej") (cat ["--- f"; "+++ f"; "@@ -2 +2 @@"; "-a"; "+A"; "@@ -4 +4 @@"; "-q"; "+Q"])) (trace w') /\ e = ESystem
  end.
Proof. vm_compute. split; [left; reflexivity|reflexivity]. Qed.

Definition sx_one_bytes := cat ["--- f"; "+++ f"; "@@ -2,1 +2,1 @@"; "-a"; "+A"].
Example refused_status_one :
  match process_patch default_options sx_one_bytes sx_w_dir with
  | (Ok (code, ev), w') =>
      code = 1 /\ outcomes_met (S (S (length sx_one_bytes))) default_options FUnknown st_init (stream_of sx_one_bytes) sx_w_dir = [OutRefused (bs "f")]
  | _ => False
  end.
Proof. vm_compute. split; reflexivity. Qed.

(* --dry-run: same status, nothing written *)
Definition dry_options : options :=
  mkOptions false false [] [] false [] false false false [] (-1)%Z 2%Z false [] []
            false false false false false false true false OBUnset OBUnset MNative RFDefault ROWarn QSUnset [] [].
Example dry_run_nonvacuous :
  match process_patch dry_options sx_bytes sx_w with
  | (Ok (code, ev), w') => code = 1 /\ trace w' = [OOpenRead (bs "f"); OOpenRead (bs "g")] /\ fs w' = fs sx_w
  | _ => False
  end.
Proof. vm_compute. repeat split; reflexivity. Qed.

(* ---------------------------------------------------------------------------------------------------------------
   findings (the model mirrors the program: reject files are opened with std::ios::trunc by every section)
   --------------------------------------------------------------------------------------------------------------- *)
(* F1: with -r FILE, two sections with failed hunks: the second section truncates the reject file; the hunk the first
   section rejected (-q +Q on f) is neither applied nor in any reject file afterwards.  Status is still 1. *)
Definition rej_options : options :=
  mkOptions false false [] [] false [] false false false [] (-1)%Z 2%Z false [] (bs "all.rej")
            false false false false false false false false OBUnset OBUnset MNative RFDefault ROWarn QSUnset [] [].
Definition sx_bytes2 := cat ["--- f"; "+++ f"; "@@ -2,1 +2,1 @@"; "-a"; "+A"; "@@ -4,1 +4,1 @@"; "-q"; "+Q";
                             "--- g"; "+++ g"; "@@ -1,1 +1,1 @@"; "-z"; "+d"].
Example finding_rejects_lost_with_common_reject_file :
  match process_patch rej_options sx_bytes2 sx_w with
  | (Ok (code, ev), w') =>
      code = 1 /\
      In (OWrite (bs "all.rej") sx_rej) (trace w') /\                                   (* f's reject was written ... *)
      lookup (fs w') (bs "all.rej") = Some (Reg (cat ["--- g"; "+++ g"; "@@ -1 +1 @@"; "-z"; "+d"]) 420) /\   (* ... and is gone *)
      lookup (fs w') (bs "f") = Some (Reg (cat ["x"; "A"; "b"; "c"]) 420)
  | _ => False
  end.
Proof. vm_compute. repeat split; try reflexivity. right. left. reflexivity. Qed.

(* F2: the same file patched by two sections of one patch, each with a failed hunk: f.rej holds the second one only *)
Definition sx_bytes3 := cat ["--- f"; "+++ f"; "@@ -2,1 +2,1 @@"; "-a"; "+A"; "@@ -4,1 +4,1 @@"; "-q"; "+Q";
                             "--- f"; "+++ f"; "@@ -1,1 +1,1 @@"; "-z"; "+d"].
Example finding_rejects_lost_same_target_twice :
  match process_patch default_options sx_bytes3 sx_w with
  | (Ok (code, ev), w') =>
      code = 1 /\ In (OWrite (bs "f.rej") sx_rej) (trace w') /\
      lookup (fs w') (bs "f.rej") = Some (Reg (cat ["--- f"; "+++ f"; "@@ -1 +1 @@"; "-z"; "+d"]) 420)
  | _ => False
  end.
Proof. vm_compute. repeat split; try reflexivity. right. left. reflexivity. Qed.

(* F3: why section_reject_iff asks for backup_name o outf <> reject_path o outf: with -b -z .rej the backup of f is taken
   after the rejects were written, over them *)
Definition bk_options : options :=
  mkOptions true false [] [] false [] false false false [] (-1)%Z 2%Z false [] []
            false false false false false false false false OBUnset OBUnset MNative RFDefault ROWarn QSUnset (bs ".rej") [].
Example finding_backup_over_rejects :
  match process_patch bk_options sx_bytes sx_w with
  | (Ok (code, ev), w') =>
      code = 1 /\ In (OWrite (bs "f.rej") sx_rej) (trace w') /\ In (ORename (bs "f") (bs "f.rej")) (trace w') /\
      lookup (fs w') (bs "f.rej") = Some (Reg (cat ["x"; "a"; "b"; "c"]) 420)
  | _ => False
  end.
Proof. vm_compute. repeat split; try reflexivity. - right. left. reflexivity. - right. right. left. reflexivity. Qed.

(* ===== merged from Properties_Sections_Other.v (status wiring) ===== *)
From PatchV Require Import Base Lines Hunk Locator Formatter Options Applier LineParser Parser World Driver
     Proofs_Base Proofs_Lines Proofs_Fuel Proofs_Unified Proofs_Filler Proofs_Progress Proofs_Sections Proofs_Sections_Unified
     Proofs_Names Proofs_CtxLines Proofs_CtxMerge Proofs_Context Spec_Normal Proofs_Normal
     Proofs_ArithParse Proofs_ArithHeader Proofs_Status Proofs_StatusDriver Proofs_Whole Proofs_Sections_Other.

(* ---------------------------------------------------------------------------------------------------------------
   C04
   --------------------------------------------------------------------------------------------------------------- *)
(* a hunk whose counts are the numbers of lines of its sides (what every body parser builds: Proofs_ArithParse) can be written
   in context form *)
Theorem parsed_hunks_ctx_writable : forall h, good_hunk h -> ctx_writable h.
Proof. exact Proofs_Sections_Other.parsed_hunks_ctx_writable. Qed.
Print Assumptions parsed_hunks_ctx_writable.

Theorem parse_patch_ctx_writable : forall b f strip p, parse_patch b f strip = Ok p -> Forall ctx_writable (hunks p).
Proof. exact Proofs_Sections_Other.parse_patch_ctx_writable. Qed.
Print Assumptions parse_patch_ctx_writable.

Theorem parse_patch_counts_ok : forall b f strip p, parse_patch b f strip = Ok p -> Forall hunk_counts_ok (hunks p).
Proof. exact Proofs_Sections_Other.parse_patch_counts_ok. Qed.
Print Assumptions parse_patch_counts_ok.

Theorem parse_body_counts_ok : forall p s p' s',
  Forall good_hunk (hunks p) -> parse_patch_body p s = Ok (p', s') ->
  Forall hunk_counts_ok (hunks p') /\ Forall ctx_writable (hunks p').
Proof. exact Proofs_Sections_Other.parse_body_counts_ok. Qed.
Print Assumptions parse_body_counts_ok.

(* any parsed patch, any options, any target lines: apply_patch ends normally unless the question has to be asked *)
Theorem parsed_never_fatal : forall o lines b f strip p,
  parse_patch b f strip = Ok p -> ~ question_needed o lines p -> exists r, apply_patch o lines p = Ok r.
Proof. exact Proofs_Sections_Other.parsed_never_fatal. Qed.
Print Assumptions parsed_never_fatal.

Theorem any_section_hunk_failure_never_fatal : forall o st should p s w e w',
  Forall good_hunk (hunks p) ->
  process_section o st should p s w = (Throw e, w') ->
  exists c, benign_cause o c /\ explains o c e w'.
Proof. exact Proofs_Sections_Other.any_section_hunk_failure_never_fatal. Qed.
Print Assumptions any_section_hunk_failure_never_fatal.

(* no hypothesis on the options or on the format *)
Theorem any_run_hunk_failure_never_fatal : forall o stdin w e w',
  (let! b := patch_file_bytes o stdin in process_patch o b) w = (Throw e, w') ->
  exists c, benign_cause o c /\ explains o c e w'.
Proof. exact Proofs_Sections_Other.any_run_hunk_failure_never_fatal. Qed.
Print Assumptions any_run_hunk_failure_never_fatal.

