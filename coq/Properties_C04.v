(* Properties_C04.v — C04 (library part): every hunk is applied or rejected, never lost, duplicated or
   half-applied; the reject count is the number of rejected hunks. *)
From PatchV Require Import Base Lines Hunk Locator Options Applier Parser World Driver Spec_Locate Spec_Apply Proofs_Apply Proofs_Progress Proofs_Predict.

(* The output of apply_patch is the replay of a verdict list over the hunks it was given (as left in the
   patch: reversed when the patch was reversed, start lines shifted for rejects — replay only reads the
   bodies): applied hunks are spliced in order at non-decreasing cursors, rejected ones leave no trace,
   all other lines are copied once; failed = number of rejected verdicts; no hunk disappears. *)
Theorem apply_patch_replay : forall o f p r,
  define_macro o = [] -> apply_patch o f p = Ok r ->
  exists vs, replay f 0 (hunks (r_patch r)) vs = Some (r_out r) /\
             r_failed r = count_rejected vs /\
             length (hunks (r_patch r)) = length (hunks p).
Proof. exact Proofs_Apply.apply_patch_replay. Qed.
Print Assumptions apply_patch_replay.

(* with -f each verdict is locate_hunk's own answer for that hunk at that moment (C02/C03 then apply) *)
Theorem apply_patch_verdicts : forall o f p r,
  define_macro o = [] -> force o = true -> apply_patch o f p = Ok r ->
  let hs := hunks (if reverse_patch_opt o then reverse_patch p else p) in
  exists vs, replay f 0 hs vs = Some (r_out r) /\ r_failed r = count_rejected vs /\
             r_skipped r = false /\ verdicts_from_locate o (if reverse_patch_opt o then reverse_patch p else p) f 0 0 hs vs.
Proof. exact Proofs_Apply.apply_patch_verdicts. Qed.
Print Assumptions apply_patch_verdicts.

(* hence every applied hunk sits at or after the cursor left by the previous one, at an admissible place *)
Theorem verdicts_are_admissible : forall o p f hs vs cursor offerr,
  verdicts_from_locate o p f cursor offerr hs vs ->
  verdicts_admissible (ignore_whitespace o) (max_fuzz o) f cursor hs vs.
Proof. exact Proofs_Apply.verdicts_from_locate_admissible. Qed.
Print Assumptions verdicts_are_admissible.

Local Open Scope string_scope.
(* non-vacuity: one hunk applied with offset, one rejected *)
Example replay_nonvacuous :
  let l s := mkLine (bs s) LF in
  let f := [l "x"; l "a"; l "b"; l "c"] in
  let h1 := mkHunk (mkRange 1 1) (mkRange 1 1) [mkPL Del (l "a"); mkPL Add (l "A")] in
  let h2 := mkHunk (mkRange 3 1) (mkRange 3 1) [mkPL Del (l "q"); mkPL Add (l "Q")] in
  let p := mkPatch FUnified OpChange [] [] (bs "f") (bs "f") [] [] 0 0 [h1; h2] in
  match apply_patch default_options f p with
  | Ok r => r_out r = [l "x"; l "A"; l "b"; l "c"] /\ r_failed r = 1 /\
            replay f 0 [h1; h2] [VApplied 1 0; VRejected] = Some (r_out r)
  | Throw _ => False
  end.
Proof. vm_compute. repeat split; reflexivity. Qed.

(* through the driver: once the hunks of a section have been applied (result ar: r_failed ar is the number of rejected
   verdicts by apply_patch_replay), the failure flag of the run — exit status 1 instead of 0 — is set exactly when it was set
   before, or some hunk was rejected / the patch skipped, or a deletion left content behind ([leftover]) *)
Theorem section_failure_flag : forall o st ftp outf op op1 needed ar s2,
  Post (section_tail o st ftp outf op op1 needed ar s2)
       (fun y => had_failure (fst y) = had_failure st || negb (Nat.eqb (r_failed ar) 0) || leftover o ar).
Proof. exact Proofs_Predict.section_failure_flag. Qed.
Print Assumptions section_failure_flag.
