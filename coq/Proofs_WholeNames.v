(* Proofs_WholeNames.v — C12 over the whole model: which file the headers name, for names written in C-quoted form
   (--- "a/caf\303\251.txt"), for names with blanks ended by a TAB (--- a/my file<TAB>stamp), for git headers with
   directories under -pN, and for pure git renames.  (1) the header scan, (2) git headers and renames, (3) from the bytes of
   the patch to the bytes of the file that is named -- and no other. *)
From PatchV Require Import Base Lines Hunk Locator Formatter Options Applier LineParser Parser World Driver
     Spec_Locate Spec_Apply Spec_Names Proofs_Base Proofs_Lines Proofs_Fuel Proofs_Unified Proofs_Filler Proofs_Progress
     Proofs_Names Proofs_Conf Proofs_World Proofs_Crash Proofs_EndToEnd Proofs_Reverse Proofs_Sections Proofs_Sections_Unified
     Proofs_Whole Proofs_WholeGit.

(* ================= the text after "--- " / "+++ " ================= *)
(* [file_line strip r path ts]: the header file line r is read as the name [path] (components already removed) and the time
   stamp [ts] (None: none given); r can stand in a patch as a line of its own *)
Definition file_line (strip : Z) (r path : list N) (ts : option (list N)) : Prop :=
  parse_file_line strip r = Ok (path, ts) /\ clean r /\ r <> [].

Definition bytes (name : list N) : Prop := Forall (fun c => (c < 256)%N) name.

(* what parse_file_line keeps of what follows the name: nothing, or a non-empty string *)
Lemma parse_file_line_time strip r x : parse_file_line strip r = Ok x -> r <> [] -> time_read (snd x) = snd x.
Proof.
  intros H Hr. unfold parse_file_line in H. destruct r as [|c r]; [contradiction|].
  destruct (if N.eqb c 34 then parse_quoted_string (c :: r) else Ok (pfl_scan (c :: r) [])) as [[path it]|e]; cbn [rbind] in H; [|discriminate].
  inversion H; subst. cbn [snd]. destruct it as [|a [|b t]]; reflexivity.
Qed.

Lemma file_line_time strip r path ts : file_line strip r path ts -> time_read ts = ts.
Proof. intros (H & _ & Hr). exact (parse_file_line_time strip r (path, ts) H Hr). Qed.

(* -- a plain name (no blank), with or without a time stamp: what Proofs_Whole.v covers *)
Lemma file_line_of_plain strip name ts :
  plain_name name -> clean (name ++ tab_time ts) -> file_line strip (name ++ tab_time ts) (stripped name strip) (time_read ts).
Proof.
  intros Hp Hc. split; [apply file_line_name; exact Hp|]. split; [exact Hc|]. destruct Hp as (Hn & _).
  destruct name; [contradiction|discriminate].
Qed.

(* -- a name with blanks, ended by a TAB (GNU diff always writes the TAB when the name has a blank) *)
Definition blank_name (name : list N) : Prop := name <> [] /\ ~ In 9%N name /\ hd 0%N name <> 34%N.

Lemma file_line_of_blank strip name t :
  blank_name name -> clean (name ++ 9%N :: t) ->
  file_line strip (name ++ 9%N :: t) (stripped name strip) (match t with [] => None | _ => Some t end).
Proof.
  intros (Hn & H9 & Hq) Hc. split; [apply file_line_plain; assumption|]. split; [exact Hc|].
  destruct name; [contradiction|discriminate].
Qed.

(* -- a C-quoted name, any bytes *)
Lemma octal3_no_nl c : ~ In 10%N (octal3 c).
Proof.
  assert (X : forall x, (48 + x)%N <> 10%N) by (intros x; lia).
  unfold octal3. intros [E|[E|[E|[]]]]; exact (X _ E).
Qed.

Lemma cquote_char_no_nl c : ~ In 10%N (cquote_char c).
Proof.
  unfold cquote_char.
  destruct (N.eqb c 92); [intros [E|[E|[]]]; discriminate|].
  destruct (N.eqb c 34); [intros [E|[E|[]]]; discriminate|].
  destruct (N.eqb_spec c 10) as [->|Hc]; [intros [E|[E|[]]]; discriminate|].
  destruct (N.eqb c 9); [intros [E|[E|[]]]; discriminate|].
  destruct (N.ltb c 32 || N.leb 127 c).
  - intros [E|I]; [discriminate|exact (octal3_no_nl c I)].
  - intros [E|[]]. apply Hc. exact E.
Qed.

Lemma cquote_body_no_nl name : ~ In 10%N (cquote_body name).
Proof.
  unfold cquote_body. intros I. apply in_flat_map in I. destruct I as (c & _ & I). exact (cquote_char_no_nl c I).
Qed.

Lemma cquote_no_nl name : ~ In 10%N (cquote name).
Proof.
  unfold cquote. intros [E|I]; [discriminate|]. apply in_app_or in I. destruct I as [I|[E|[]]]; [exact (cquote_body_no_nl name I)|discriminate].
Qed.

Lemma cquote_clean name tail : clean tail -> clean (cquote name ++ tail).
Proof.
  intros [C1 C2]. destruct tail as [|c tail].
  - rewrite app_nil_r. split; [apply cquote_no_nl|]. unfold cquote.
    change (34%N :: cquote_body name ++ [34%N]) with ((34%N :: cquote_body name) ++ [34%N]). rewrite last_opt_snoc. discriminate.
  - split.
    + intros I. apply in_app_or in I. destruct I as [I|I]; [exact (cquote_no_nl name I)|exact (C1 I)].
    + rewrite last_opt_app_ne by discriminate. exact C2.
Qed.

Lemma cquote_ne name : cquote name <> [].
Proof. discriminate. Qed.

(* what follows the closing quote is taken as the time stamp WITH the TAB in front of it (the cursor is left on the closing
   quote, see unquote_quote) *)
Definition qtime (tail : list N) : option (list N) := match tail with [] => None | _ => Some tail end.

Lemma file_line_of_quoted strip name tail :
  bytes name -> clean tail -> file_line strip (cquote name ++ tail) (stripped name strip) (qtime tail).
Proof.
  intros Hb Hc. split; [apply file_line_quoted; exact Hb|]. split; [apply cquote_clean; exact Hc|].
  unfold cquote. discriminate.
Qed.

(* ================= (1) the header scan ================= *)
Lemma scan_core_lines strip p0 n r1 oldp ts1 r2 newp ts2 o nr opc t :
  file_line strip r1 oldp ts1 -> file_line strip r2 newp ts2 -> fmt_unknown_or p0 FUnified = true -> wf_range o -> wf_range nr ->
  scan strip (hs_at p0 n) [bs "--- " ++ r1; bs "+++ " ++ r2; unified_header o nr; op_char opc :: t] =
  Some (mkHS (named p0 oldp newp ts1 ts2) LKUnknown (S (S (S (S n)))) false true (mkHunk o nr []) (S (S (S n)))).
Proof.
  intros H1 H2 Hf Wo Wn. pose proof (file_line_time _ _ _ _ H1) as T1. pose proof (file_line_time _ _ _ _ H2) as T2.
  destruct H1 as (P1 & _ & _). destruct H2 as (P2 & _ & _).
  rewrite (scan_inl _ _ _ _ _ (step_minus strip p0 n _ _ P1)). cbn [fst snd].
  rewrite (scan_inl _ _ _ _ _ (step_plus strip _ (S n) _ _ P2)). cbn [fst snd].
  match goal with |- scan _ (hs_at ?q _) _ = _ => set (p2 := q) end.
  assert (Hf2 : fmt_unknown_or p2 FUnified = true) by (destruct p0; exact Hf).
  rewrite (scan_inl _ _ _ _ _ (step_range strip p2 (S (S n)) o nr Hf2 Wo Wn)).
  cbn [scan]. rewrite (step_first strip p2 _ _ _ opc t Hf2). cbn [is_nil].
  unfold named. rewrite T1, T2. destruct p0; reflexivity.
Qed.

Lemma line_clean pfx r : ~ In 10%N pfx -> clean r -> r <> [] -> clean (pfx ++ r).
Proof. intros Hp Hc Hr. apply clean_prefixed; assumption. Qed.

Lemma minus_clean strip r path ts : file_line strip r path ts -> clean (bs "--- " ++ r).
Proof. intros (_ & Hc & Hr). apply line_clean; [vm_compute; intuition discriminate|exact Hc|exact Hr]. Qed.
Lemma plus_clean strip r path ts : file_line strip r path ts -> clean (bs "+++ " ++ r).
Proof. intros (_ & Hc & Hr). apply line_clean; [vm_compute; intuition discriminate|exact Hc|exact Hr]. Qed.

(* the scan of a unified header whose two file lines are any file lines: after the lines pre0 (which lead the scan from the
   empty record to p0) *)
Theorem header_scan_lines strip f pre0 p0 r1 oldp ts1 r2 newp ts2 h1 hs tail :
  leads strip (empty_patch f) pre0 p0 -> Forall clean pre0 -> poper p0 = OpChange -> fmt_unknown_or p0 FUnified = true ->
  file_line strip r1 oldp ts1 -> file_line strip r2 newp ts2 ->
  Forall wf_hunk (h1 :: hs) ->
  parse_patch_header_full (empty_patch f) strip
    (strm (join_lines (pre0 ++ [bs "--- " ++ r1; bs "+++ " ++ r2]) ++ emit_hunks (h1 :: hs) ++ tail)) =
  Ok (true, set_oper (named p0 oldp newp ts1 ts2) (decide_oper h1 oldp newp), strm (emit_hunks (h1 :: hs) ++ tail), true).
Proof.
  intros Hlead Hclean0 Hop0 Hfmt0 H1 H2 Hwf.
  set (pre := pre0 ++ [bs "--- " ++ r1; bs "+++ " ++ r2]).
  set (st' := mkHS (named p0 oldp newp ts1 ts2) LKUnknown (S (S (S (S (length pre0))))) false true
                   (mkHunk (oldr h1) (newr h1) []) (S (S (S (length pre0))))).
  assert (Hpre : Forall clean pre).
  { apply Forall_app. split; [exact Hclean0|]. constructor; [exact (minus_clean _ _ _ _ H1)|]. constructor; [exact (plus_clean _ _ _ _ H2)|constructor]. }
  assert (Hscan : scan strip (st0 (empty_patch f)) (pre ++ [unified_header (oldr h1) (newr h1); first_line h1]) = Some st').
  { pose proof (Forall_inv Hwf) as Hw1. destruct Hw1 as (Hne & _ & Wo & Wn & _).
    destruct (first_line_op h1 Hne) as (opc & t & ->).
    unfold pre. rewrite <- app_assoc. change (st0 (empty_patch f)) with (hs_at (empty_patch f) 0). rewrite Hlead. rewrite Nat.add_0_r.
    cbn [app]. apply scan_core_lines; assumption. }
  pose proof (header_of_section (with_strip strip) f pre h1 hs st' Hpre Hwf Hscan) as X.
  cbn [strip_size with_strip] in X. rewrite app_assoc.
  rewrite X; [|unfold st', pre; cbn [h_first]; rewrite app_length; cbn [length]; f_equal; lia|reflexivity].
  unfold st'. rewrite (header_patch_named p0 _ _ ts1 ts2 _ _ _ _ h1 Hop0 eq_refl eq_refl). reflexivity.
Qed.
Print Assumptions header_scan_lines.

(* the header as diff -u writes it, text in front, the two file lines in any of the three forms *)
Theorem unified_header_scan_any strip f fl r1 oldp ts1 r2 newp ts2 h1 hs tail :
  f = FUnknown \/ f = FUnified ->
  Forall (Filler strip (empty_patch f)) fl -> Forall clean fl ->
  file_line strip r1 oldp ts1 -> file_line strip r2 newp ts2 ->
  Forall wf_hunk (h1 :: hs) ->
  parse_patch_header_full (empty_patch f) strip
    (strm (join_lines (fl ++ [bs "--- " ++ r1; bs "+++ " ++ r2]) ++ emit_hunks (h1 :: hs) ++ tail)) =
  Ok (true,
      mkPatch FUnified (decide_oper h1 oldp newp) [] [] oldp newp (opt_or ts1 []) (opt_or ts2 []) 0 0 [],
      strm (emit_hunks (h1 :: hs) ++ tail), true).
Proof.
  intros Hf HF HC H1 H2 Hwf.
  rewrite (header_scan_lines strip f fl (empty_patch f) r1 oldp ts1 r2 newp ts2 h1 hs tail (leads_fillers _ _ _ HF) HC eq_refl
             (fmt_unknown_or_empty f Hf) H1 H2 Hwf).
  unfold named. rewrite (file_line_time _ _ _ _ H1), (file_line_time _ _ _ _ H2). reflexivity.
Qed.
Print Assumptions unified_header_scan_any.

(* (1a) both names C-quoted, as GNU diff and git write a name that has a control character, a quote, a backslash or a byte
   above 126 in it: --- "a/caf\303\251.txt"<TAB>stamp.  ANY byte strings (NUL and newline included: they are written \000
   and \n) are read back exactly, then stripped.  What follows the closing quote (tail1, tail2: nothing, or TAB and a time
   stamp) is kept as the time stamp, TAB included. *)
Theorem unified_header_scan_quoted strip f fl oldname tail1 newname tail2 h1 hs tail :
  f = FUnknown \/ f = FUnified ->
  Forall (Filler strip (empty_patch f)) fl -> Forall clean fl ->
  bytes oldname -> bytes newname -> clean tail1 -> clean tail2 ->
  Forall wf_hunk (h1 :: hs) ->
  parse_patch_header_full (empty_patch f) strip
    (strm (join_lines (fl ++ [bs "--- " ++ cquote oldname ++ tail1; bs "+++ " ++ cquote newname ++ tail2]) ++
           emit_hunks (h1 :: hs) ++ tail)) =
  Ok (true,
      mkPatch FUnified (decide_oper h1 (stripped oldname strip) (stripped newname strip)) [] []
              (stripped oldname strip) (stripped newname strip) (opt_or (qtime tail1) []) (opt_or (qtime tail2) []) 0 0 [],
      strm (emit_hunks (h1 :: hs) ++ tail), true).
Proof.
  intros Hf HF HC B1 B2 C1 C2 Hwf.
  apply unified_header_scan_any; try assumption; apply file_line_of_quoted; assumption.
Qed.
Print Assumptions unified_header_scan_quoted.

(* (1b) names with blanks, written as they are and ended by a TAB: --- a/my file<TAB>stamp *)
Theorem unified_header_scan_blanks strip f fl oldname t1 newname t2 h1 hs tail :
  f = FUnknown \/ f = FUnified ->
  Forall (Filler strip (empty_patch f)) fl -> Forall clean fl ->
  blank_name oldname -> blank_name newname -> clean (oldname ++ 9%N :: t1) -> clean (newname ++ 9%N :: t2) ->
  Forall wf_hunk (h1 :: hs) ->
  parse_patch_header_full (empty_patch f) strip
    (strm (join_lines (fl ++ [bs "--- " ++ oldname ++ 9%N :: t1; bs "+++ " ++ newname ++ 9%N :: t2]) ++
           emit_hunks (h1 :: hs) ++ tail)) =
  Ok (true,
      mkPatch FUnified (decide_oper h1 (stripped oldname strip) (stripped newname strip)) [] []
              (stripped oldname strip) (stripped newname strip) t1 t2 0 0 [],
      strm (emit_hunks (h1 :: hs) ++ tail), true).
Proof.
  intros Hf HF HC B1 B2 C1 C2 Hwf.
  rewrite (unified_header_scan_any strip f fl _ _ _ _ _ _ h1 hs tail Hf HF HC
             (file_line_of_blank strip oldname t1 B1 C1) (file_line_of_blank strip newname t2 B2 C2) Hwf).
  destruct t1, t2; reflexivity.
Qed.
Print Assumptions unified_header_scan_blanks.

(* ================= what -pN makes of "a/NAME" ================= *)
Lemma drop_component_dir : forall d name, ~ In 47%N d -> drop_component (d ++ 47%N :: name) = Some (skip_slashes name).
Proof.
  induction d as [|c d IH]; intros name Hd; cbn [app drop_component]; unfold SLASH.
  - reflexivity.
  - destruct (N.eqb_spec c 47) as [->|_]; [exfalso; apply Hd; left; reflexivity|]. apply IH. intros I. apply Hd. right. exact I.
Qed.

Lemma skip_slashes_hd name : hd 0%N name <> 47%N -> skip_slashes name = name.
Proof. destruct name as [|c r]; [reflexivity|]. cbn [hd skip_slashes]. unfold SLASH. intros H. destruct (N.eqb_spec c 47); [contradiction|reflexivity]. Qed.

(* -pN, N >= 1, on DIR/NAME (DIR one component, "a" or "b" or anything): NAME with N-1 components removed *)
Lemma stripped_dir d name k :
  d <> [] -> ~ In 47%N d -> hd 0%N name <> 47%N -> (0 <= k)%Z ->
  stripped (d ++ 47%N :: name) (k + 1) = strip_spec name (Z.to_nat k).
Proof.
  intros Hd Hds Hn Hk. unfold stripped. rewrite (not_devnull_one_slash d name Hd Hds).
  rewrite strip_path_spec by lia. replace (Z.to_nat (k + 1)) with (S (Z.to_nat k)) by lia.
  unfold strip_spec. cbn [strip_n]. rewrite (drop_component_dir d name Hds), (skip_slashes_hd name Hn). reflexivity.
Qed.

(* -p0: the name as it is written *)
Lemma stripped_zero name : name <> devnull_path -> stripped name 0 = name.
Proof. intros H. rewrite (stripped_spec name 0 H) by lia. reflexivity. Qed.

(* no -p: what follows the last slash *)
Lemma stripped_default name strip : (strip < 0)%Z -> name <> devnull_path -> stripped name strip = basename name /\ is_basename name (basename name).
Proof.
  intros Hs Hd. unfold stripped. apply str_eqb_neq in Hd. rewrite Hd. apply strip_path_basename. exact Hs.
Qed.

(* ================= (3) the file that is named is the file that is patched ================= *)
(* the section once its header is read: as Proofs_Whole.whole_section, for the record alone *)
Lemma section_named o p0 t1 t2 h1 hs tail fname A B w data mode :
  plain_options o -> reverse_patch_opt o = false ->
  poper p0 = OpChange /\ prereq p0 = [] /\ new_mode p0 = 0%N /\ hunks p0 = [] /\ fmt_unknown_or p0 FUnified = true ->
  fname <> [] /\ ~ In 47%N fname ->
  Forall wf_hunk (h1 :: hs) -> Conforming A B (h1 :: hs) ->
  remove_empty_files o <> OBYes \/ lines_bytes (newline_output o) B <> [] ->
  (Z.of_nat (length A) < MAXZ)%Z ->
  tail_ok tail ->
  fault w = None -> lookup (fs w) fname = Some (Reg data mode) -> (mode < 4096)%N -> owner_r mode = true -> owner_w mode = true ->
  split_lines data = A ->
  exists st1 w',
    process_section o ds0 true (set_oper (named p0 fname fname t1 t2) (decide_oper h1 fname fname))
                    (strm (emit_hunks (h1 :: hs) ++ tail)) w = (Ok (st1, after tail), w') /\
    same_state ds0 st1 /\
    lookup (fs w') fname = Some (Reg (lines_bytes (newline_output o) B) mode) /\
    (forall q, q <> fname -> lookup (fs w') q = lookup (fs w) q) /\
    fault w' = None /\ umask w' = umask w.
Proof.
  intros Hplain Hfwd (P1 & P2 & P3 & P4 & P5) (F1 & F2) Hwf Hconf HB HA Htail Fw Lf Hm Hr Hw HS.
  set (p := set_oper (named p0 fname fname t1 t2) (decide_oper h1 fname fname)).
  assert (Hne : h1 :: hs <> []) by discriminate.
  assert (E1 : process_section o ds0 true p (strm (emit_hunks (h1 :: hs) ++ tail)) w =
               process_section o ds0 false (set_hunks p (h1 :: hs)) (after tail) w).
  { apply process_section_parsed; [exact P4|]. intros q Q1 Q2. apply unified_body_fresh; try assumption. left. rewrite Q1. reflexivity. }
  assert (Dn : fname <> Driver.devnull) by (intros ->; apply F2; left; reflexivity).
  destruct (section_forward_any o (set_hunks p (h1 :: hs)) fname A B ds0 (after tail) w data mode Hplain Hfwd)
    as (st1 & w1 & E2 & L1 & L2 & SS & Fa & Um); try assumption; try reflexivity; try discriminate.
  { exact (decide_oper_cases h1 fname fname). }
  exists st1, w1. rewrite E1. repeat split; try assumption; apply SS.
Qed.

Theorem right_file_patched_gen o f0 pre0 p0 r1 ts1 r2 ts2 h1 hs tail fname A B w data mode :
  plain_options o -> reverse_patch_opt o = false -> format_from_options o = Ok f0 ->
  leads (strip_size o) (empty_patch f0) pre0 p0 -> Forall clean pre0 ->
  poper p0 = OpChange /\ prereq p0 = [] /\ new_mode p0 = 0%N /\ hunks p0 = [] /\ fmt_unknown_or p0 FUnified = true ->
  file_line (strip_size o) r1 fname ts1 -> file_line (strip_size o) r2 fname ts2 ->
  fname <> [] /\ ~ In 47%N fname ->
  Forall wf_hunk (h1 :: hs) -> Conforming A B (h1 :: hs) ->
  remove_empty_files o <> OBYes \/ lines_bytes (newline_output o) B <> [] ->
  (Z.of_nat (length A) < MAXZ)%Z ->
  tail_ok tail -> ends_here o f0 (after tail) = true ->
  fault w = None -> lookup (fs w) fname = Some (Reg data mode) -> (mode < 4096)%N -> owner_r mode = true -> owner_w mode = true ->
  split_lines data = A ->
  exists w',
    process_patch o (join_lines (pre0 ++ [bs "--- " ++ r1; bs "+++ " ++ r2]) ++ emit_hunks (h1 :: hs) ++ tail) w = (Ok (0, []), w') /\
    lookup (fs w') fname = Some (Reg (lines_bytes (newline_output o) B) mode) /\
    (forall q, q <> fname -> lookup (fs w') q = lookup (fs w) q) /\
    fault w' = None /\ umask w' = umask w.
Proof.
  intros Hplain Hfwd Hfo Hlead Hclean0 Hp0 H1 H2 Hfname Hwf Hconf HB HA Htail Hends Fw Lf Hm Hr Hw HS.
  destruct (section_named o p0 ts1 ts2 h1 hs tail fname A B w data mode Hplain Hfwd Hp0 Hfname Hwf Hconf HB HA Htail Fw Lf Hm Hr Hw HS)
    as (st1 & w1 & E & SS & L1 & L2 & Fa & Um).
  destruct SS as (S1 & S2 & S3 & S4 & S5). destruct Hp0 as (P1 & P2 & P3 & P4 & P5).
  exists w1. split; [|repeat split; assumption].
  set (bytes_ := join_lines (pre0 ++ [bs "--- " ++ r1; bs "+++ " ++ r2]) ++ emit_hunks (h1 :: hs) ++ tail).
  set (p := set_oper (named p0 fname fname ts1 ts2) (decide_oper h1 fname fname)) in *.
  assert (Hh : parse_patch_header_full (empty_patch f0) (strip_size o) (stream_of bytes_) = Ok (true, p, strm (emit_hunks (h1 :: hs) ++ tail), true)).
  { change (stream_of bytes_) with (strm bytes_). unfold bytes_.
    exact (header_scan_lines (strip_size o) f0 pre0 p0 r1 fname ts1 r2 fname ts2 h1 hs tail Hlead Hclean0 P1 P5 H1 H2 Hwf). }
  assert (X : process_patch o bytes_ w = (Ok (exit_of st1, events st1), w1)).
  { apply (process_patch_single o f0 bytes_ true p (strm (emit_hunks (h1 :: hs) ++ tail)) true st1 (after tail) w w1 Hfo Hh).
    - discriminate.
    - unfold p. cbn [set_oper poper]. destruct (decide_oper_cases h1 fname fname) as [E0|[E0|E0]]; rewrite E0; discriminate.
    - exact E.
    - rewrite S3. reflexivity.
    - rewrite S4. reflexivity.
    - exact Hends. }
  rewrite X. unfold exit_of. rewrite S1, S5. reflexivity.
Qed.
Print Assumptions right_file_patched_gen.

(* (3a) names C-quoted.  oldname, newname: ANY byte strings (as decoded); the file they name once the -p components are
   removed is fname, a name of the working directory -- it may hold blanks, quotes, backslashes, control characters and
   bytes above 127.  The world: fname is a regular file holding A; whatever else it holds (the unstripped name's base name
   in another directory, the quoted spelling as a file name, ...) is left exactly as it was. *)
Theorem right_file_patched o f0 fl oldname tail1 newname tail2 h1 hs tail fname A B w data mode :
  plain_options o -> reverse_patch_opt o = false ->
  format_from_options o = Ok f0 -> f0 = FUnknown \/ f0 = FUnified ->
  Forall (Filler (strip_size o) (empty_patch f0)) fl -> Forall clean fl ->
  bytes oldname -> bytes newname -> clean tail1 -> clean tail2 ->
  stripped oldname (strip_size o) = fname -> stripped newname (strip_size o) = fname ->
  fname <> [] /\ ~ In 47%N fname ->
  Forall wf_hunk (h1 :: hs) -> Conforming A B (h1 :: hs) ->
  remove_empty_files o <> OBYes \/ lines_bytes (newline_output o) B <> [] ->
  (Z.of_nat (length A) < MAXZ)%Z ->
  tail_ok tail -> ends_here o f0 (after tail) = true ->
  fault w = None -> lookup (fs w) fname = Some (Reg data mode) -> (mode < 4096)%N -> owner_r mode = true -> owner_w mode = true ->
  split_lines data = A ->
  exists w',
    process_patch o (join_lines (fl ++ [bs "--- " ++ cquote oldname ++ tail1; bs "+++ " ++ cquote newname ++ tail2]) ++
                     emit_hunks (h1 :: hs) ++ tail) w = (Ok (0, []), w') /\
    lookup (fs w') fname = Some (Reg (lines_bytes (newline_output o) B) mode) /\
    (forall q, q <> fname -> lookup (fs w') q = lookup (fs w) q) /\
    fault w' = None /\ umask w' = umask w.
Proof.
  intros Hplain Hfwd Hfo Hf0 HF HC B1 B2 C1 C2 S1 S2. intros.
  apply (right_file_patched_gen o f0 fl (empty_patch f0) _ (qtime tail1) _ (qtime tail2) h1 hs tail fname A B) with (data := data); try assumption.
  - apply leads_fillers. exact HF.
  - apply p0_empty. exact Hf0.
  - rewrite <- S1. apply file_line_of_quoted; assumption.
  - rewrite <- S2. apply file_line_of_quoted; assumption.
Qed.
Print Assumptions right_file_patched.

(* (3b) names with blanks ended by a TAB *)
Theorem right_file_patched_blanks o f0 fl oldname t1 newname t2 h1 hs tail fname A B w data mode :
  plain_options o -> reverse_patch_opt o = false ->
  format_from_options o = Ok f0 -> f0 = FUnknown \/ f0 = FUnified ->
  Forall (Filler (strip_size o) (empty_patch f0)) fl -> Forall clean fl ->
  blank_name oldname -> blank_name newname -> clean (oldname ++ 9%N :: t1) -> clean (newname ++ 9%N :: t2) ->
  stripped oldname (strip_size o) = fname -> stripped newname (strip_size o) = fname ->
  fname <> [] /\ ~ In 47%N fname ->
  Forall wf_hunk (h1 :: hs) -> Conforming A B (h1 :: hs) ->
  remove_empty_files o <> OBYes \/ lines_bytes (newline_output o) B <> [] ->
  (Z.of_nat (length A) < MAXZ)%Z ->
  tail_ok tail -> ends_here o f0 (after tail) = true ->
  fault w = None -> lookup (fs w) fname = Some (Reg data mode) -> (mode < 4096)%N -> owner_r mode = true -> owner_w mode = true ->
  split_lines data = A ->
  exists w',
    process_patch o (join_lines (fl ++ [bs "--- " ++ oldname ++ 9%N :: t1; bs "+++ " ++ newname ++ 9%N :: t2]) ++
                     emit_hunks (h1 :: hs) ++ tail) w = (Ok (0, []), w') /\
    lookup (fs w') fname = Some (Reg (lines_bytes (newline_output o) B) mode) /\
    (forall q, q <> fname -> lookup (fs w') q = lookup (fs w) q) /\
    fault w' = None /\ umask w' = umask w.
Proof.
  intros Hplain Hfwd Hfo Hf0 HF HC B1 B2 C1 C2 S1 S2. intros.
  apply (right_file_patched_gen o f0 fl (empty_patch f0) _ (match t1 with [] => None | _ => Some t1 end) _
           (match t2 with [] => None | _ => Some t2 end) h1 hs tail fname A B) with (data := data); try assumption.
  - apply leads_fillers. exact HF.
  - apply p0_empty. exact Hf0.
  - rewrite <- S1. apply file_line_of_blank; assumption.
  - rewrite <- S2. apply file_line_of_blank; assumption.
Qed.
Print Assumptions right_file_patched_blanks.

(* the usual call: patch -p1 on a diff of "a/NAME" against "b/NAME", the names quoted *)
Corollary right_file_patched_p1 o f0 fl da db tail1 tail2 h1 hs tail fname A B w data mode :
  plain_options o -> reverse_patch_opt o = false -> strip_size o = 1%Z ->
  format_from_options o = Ok f0 -> f0 = FUnknown \/ f0 = FUnified ->
  Forall (Filler 1 (empty_patch f0)) fl -> Forall clean fl ->
  da <> [] -> ~ In 47%N da -> bytes da -> db <> [] -> ~ In 47%N db -> bytes db ->
  fname <> [] -> ~ In 47%N fname -> bytes fname ->
  clean tail1 -> clean tail2 ->
  Forall wf_hunk (h1 :: hs) -> Conforming A B (h1 :: hs) ->
  remove_empty_files o <> OBYes \/ lines_bytes (newline_output o) B <> [] ->
  (Z.of_nat (length A) < MAXZ)%Z ->
  tail_ok tail -> ends_here o f0 (after tail) = true ->
  fault w = None -> lookup (fs w) fname = Some (Reg data mode) -> (mode < 4096)%N -> owner_r mode = true -> owner_w mode = true ->
  split_lines data = A ->
  exists w',
    process_patch o (join_lines (fl ++ [bs "--- " ++ cquote (da ++ 47%N :: fname) ++ tail1;
                                        bs "+++ " ++ cquote (db ++ 47%N :: fname) ++ tail2]) ++
                     emit_hunks (h1 :: hs) ++ tail) w = (Ok (0, []), w') /\
    lookup (fs w') fname = Some (Reg (lines_bytes (newline_output o) B) mode) /\
    (forall q, q <> fname -> lookup (fs w') q = lookup (fs w) q) /\
    fault w' = None /\ umask w' = umask w.
Proof.
  intros Hplain Hfwd Hs Hfo Hf0 HF HC A1 A2 A3 B1 B2 B3 F1 F2 F3 C1 C2. intros.
  assert (BB : forall d, bytes d -> bytes (d ++ 47%N :: fname)).
  { intros d D. apply Forall_app. split; [exact D|]. constructor; [reflexivity|exact F3]. }
  apply (right_file_patched o f0 fl (da ++ 47%N :: fname) tail1 (db ++ 47%N :: fname) tail2 h1 hs tail fname A B) with (data := data);
    try assumption; try (rewrite Hs); try assumption.
  - apply BB; exact A3.
  - apply BB; exact B3.
  - apply stripped_p1; assumption.
  - apply stripped_p1; assumption.
  - split; assumption.
Qed.
Print Assumptions right_file_patched_p1.

(* ================= non-vacuity for (1) and (3) ================= *)
Local Open Scope string_scope.
(* "café.txt" in UTF-8 *)
Definition cafe : list N := [99; 97; 102; 195; 169; 46; 116; 120; 116]%N.

Example cafe_quoted : cquote (bs "a/" ++ cafe) = bs """a/caf\303\251.txt""".
Proof. vm_compute. reflexivity. Qed.

(* the output of "diff -u a/café.txt b/café.txt" (GNU diff quotes the names) for the change of Proofs_Whole.v *)
Definition exq_text : list N :=
  bs "diff -u a/caf" ++ [195; 169]%N ++ bs ".txt b/caf" ++ [195; 169]%N ++ bs ".txt" ++ nlb ++
  bs "--- ""a/caf\303\251.txt""" ++ tabb ++ bs "2024-03-01 10:00:00.000000000 +0100" ++ nlb ++
  bs "+++ ""b/caf\303\251.txt""" ++ tabb ++ bs "2024-03-02 11:30:00.000000000 +0100" ++ nlb ++
  bs "@@ -1,5 +1,5 @@" ++ nlb ++
  bs " a" ++ nlb ++ bs "-b" ++ nlb ++ bs "+B" ++ nlb ++ bs " c" ++ nlb ++ bs " d" ++ nlb ++ bs " e" ++ nlb ++
  bs "@@ -8,5 +8,6 @@" ++ nlb ++
  bs " h" ++ nlb ++ bs " i" ++ nlb ++ bs " j" ++ nlb ++ bs "-k" ++ nlb ++ bs "+K" ++ nlb ++ bs "+k2" ++ nlb ++
  bs "-l" ++ nlb ++ bs "+l" ++ nlb ++ bs "\ No newline at end of file" ++ nlb.

Definition exq_cmd : list N := bs "diff -u a/caf" ++ [195; 169]%N ++ bs ".txt b/caf" ++ [195; 169]%N ++ bs ".txt".
Definition exq_t1 : list N := tabb ++ bs "2024-03-01 10:00:00.000000000 +0100".
Definition exq_t2 : list N := tabb ++ bs "2024-03-02 11:30:00.000000000 +0100".

Lemma exq_text_eq :
  exq_text = join_lines ([exq_cmd] ++ [bs "--- " ++ cquote (bs "a" ++ 47%N :: cafe) ++ exq_t1;
                                        bs "+++ " ++ cquote (bs "b" ++ 47%N :: cafe) ++ exq_t2]) ++
             emit_hunks [ex_hunk1; ex_hunk2] ++ [].
Proof. vm_compute. reflexivity. Qed.

(* the world: the file named, and others that a wrong reading of the header would hit -- the same base name under the
   directories a and sub, the quoted spelling taken literally, the name cut at the first byte above 127 *)
Definition exq_world : world :=
  mkWorld [(bs "a", Dir 493); (bs "a/" ++ cafe, Reg (bs "other 1" ++ nlb) 420);
           (bs "caf", Reg (bs "other 2" ++ nlb) 420);
           (bs "caf\303\251.txt", Reg (bs "other 3" ++ nlb) 420);
           (cafe, Reg ex_dataA 420);
           (bs "sub", Dir 493); (bs "sub/" ++ cafe, Reg ex_dataA 420)] 18 [] None [].

Example unified_header_scan_quoted_nonvacuous :
  parse_patch_header_full (empty_patch FUnknown) 1 (strm exq_text) =
  Ok (true, mkPatch FUnified OpChange [] [] cafe cafe exq_t1 exq_t2 0 0 [],
      strm (emit_hunks [ex_hunk1; ex_hunk2] ++ []), true).
Proof.
  rewrite exq_text_eq.
  rewrite (unified_header_scan_quoted 1 FUnknown [exq_cmd] (bs "a" ++ 47%N :: cafe) exq_t1 (bs "b" ++ 47%N :: cafe) exq_t2 ex_hunk1 [ex_hunk2] []).
  - vm_compute. reflexivity.
  - left. reflexivity.
  - repeat constructor; vm_compute; reflexivity.
  - repeat constructor; vm_compute; intuition discriminate.
  - unfold bytes. repeat constructor.
  - unfold bytes. repeat constructor.
  - split; vm_compute; intuition discriminate.
  - split; vm_compute; intuition discriminate.
  - constructor; [exact ex_wf1|constructor; [exact ex_wf2|constructor]].
Qed.

Example right_file_patched_nonvacuous :
  exists w',
    process_patch ex_p1 exq_text exq_world = (Ok (0, []), w') /\
    lookup (fs w') cafe = Some (Reg ex_dataB 420) /\
    (forall q, q <> cafe -> lookup (fs w') q = lookup (fs exq_world) q) /\
    fault w' = None /\ umask w' = umask exq_world.
Proof.
  assert (EB : ex_dataB = lines_bytes (newline_output ex_p1) ex_B) by (vm_compute; reflexivity).
  rewrite exq_text_eq, EB.
  apply (right_file_patched_p1 ex_p1 FUnknown [exq_cmd] (bs "a") (bs "b") exq_t1 exq_t2 ex_hunk1 [ex_hunk2] [] cafe ex_A ex_B
                               exq_world ex_dataA 420).
  - repeat split; try reflexivity. vm_compute. discriminate.
  - reflexivity.
  - reflexivity.
  - reflexivity.
  - left. reflexivity.
  - repeat constructor; vm_compute; reflexivity.
  - repeat constructor; vm_compute; intuition discriminate.
  - discriminate.
  - vm_compute. intuition discriminate.
  - unfold bytes. repeat constructor.
  - discriminate.
  - vm_compute. intuition discriminate.
  - unfold bytes. repeat constructor.
  - discriminate.
  - vm_compute. intuition discriminate.
  - unfold bytes. repeat constructor.
  - split; vm_compute; intuition discriminate.
  - split; vm_compute; intuition discriminate.
  - constructor; [exact ex_wf1|constructor; [exact ex_wf2|constructor]].
  - exact ex_conf.
  - left. discriminate.
  - vm_compute. reflexivity.
  - left. reflexivity.
  - reflexivity.
  - reflexivity.
  - vm_compute. reflexivity.
  - reflexivity.
  - reflexivity.
  - reflexivity.
  - vm_compute. reflexivity.
Qed.

(* the whole program on the same data: same result, by computation; the other entries are as they were *)
Example right_file_run_patch_same :
  let r := run_patch ex_p1 exq_text exq_world in
  rr_exit r = 0 /\ rr_events r = [] /\ rr_world r = snd (process_patch ex_p1 exq_text exq_world) /\
  lookup (fs (rr_world r)) cafe = Some (Reg ex_dataB 420) /\
  lookup (fs (rr_world r)) (bs "a/" ++ cafe) = Some (Reg (bs "other 1" ++ nlb) 420) /\
  lookup (fs (rr_world r)) (bs "caf\303\251.txt") = Some (Reg (bs "other 3" ++ nlb) 420) /\
  lookup (fs (rr_world r)) (bs "sub/" ++ cafe) = Some (Reg ex_dataA 420) /\
  trace (rr_world r) = [OOpenRead cafe; OWrite cafe ex_dataB; OChmod cafe 420].
Proof. vm_compute. repeat split; reflexivity. Qed.

(* ================= (2) git headers ================= *)
(* -- the name on the "diff --git" line: an unquoted one never fails; a quoted one is decoded *)
Lemma git_header_name_plain strip g :
  hd 0%N g <> 34%N -> parse_git_header_name strip g = Ok (strip_path (git_name_loop g []) strip).
Proof.
  intros Hq. unfold parse_git_header_name.
  assert (X : match g with
              | 34%N :: _ => do x <- parse_quoted_string g; Ok (fst x)
              | _ => Ok (git_name_loop g [])
              end = Ok (git_name_loop g [])).
  { destruct g as [|c g]; [reflexivity|]. cbn [hd] in Hq. destruct c as [|q]; [reflexivity|].
    destruct (N.eqb_spec (N.pos q) 34) as [E|E]; [contradiction|].
    do 6 (destruct q as [q|q|]; try reflexivity). all: try (exfalso; apply E; reflexivity). }
  rewrite X. reflexivity.
Qed.

Lemma git_header_name_quoted strip name more :
  bytes name -> parse_git_header_name strip (cquote name ++ more) = Ok (strip_path name strip).
Proof.
  intros Hb. unfold parse_git_header_name. pose proof (unquote_quote name more Hb) as U.
  unfold cquote in *. cbn [app] in *. rewrite U. reflexivity.
Qed.

(* -- the scan over "diff --git", "index", "---", "+++", range line, first body line *)
Lemma scan_core_git_lines strip p0 n g gn ix r1 oldp ts1 r2 newp ts2 o nr opc t :
  parse_git_header_name strip g = Ok gn ->
  file_line strip r1 oldp ts1 -> file_line strip r2 newp ts2 -> wf_range o -> wf_range nr ->
  scan strip (hs_at p0 n)
       [bs "diff --git " ++ g; bs "index " ++ ix; bs "--- " ++ r1; bs "+++ " ++ r2; unified_header o nr; op_char opc :: t] =
  Some (mkHS (named p0 oldp newp ts1 ts2) LKUnknown (S (S (S (S (S (S n)))))) true true (mkHunk o nr []) (S (S (S (S (S n)))))).
Proof.
  intros Hg H1 H2 Wo Wn. pose proof (file_line_time _ _ _ _ H1) as T1. pose proof (file_line_time _ _ _ _ H2) as T2.
  destruct H1 as (P1 & _ & _). destruct H2 as (P2 & _ & _).
  rewrite (scan_inl _ _ _ _ _ (step_git_diff strip p0 n _ _ Hg)).
  rewrite (scan_inl _ _ _ _ _ (step_git_index strip _ (S n) _ ix)).
  rewrite (scan_inl _ _ _ _ _ (step_minus_git strip _ (S (S n)) _ _ _ P1)). cbn [fst snd].
  rewrite (scan_inl _ _ _ _ _ (step_plus_git strip _ (S (S (S n))) _ _ _ P2)). cbn [fst snd].
  match goal with |- scan _ (gs_at ?q _ _) _ = _ => set (p2 := q) end.
  assert (Hf2 : fmt_unknown_or p2 FUnified = true) by reflexivity.
  rewrite (scan_inl _ _ _ _ _ (step_range_git strip p2 _ _ o nr Hf2 Wo Wn)).
  cbn [scan]. rewrite (step_first_git strip p2 _ _ _ opc t Hf2). cbn [is_nil].
  unfold named. rewrite T1, T2. destruct p0; reflexivity.
Qed.

(* (2a) the header git diff writes for a change: the paths are those of the "---" / "+++" lines with the -p components
   removed (the name of the "diff --git" line is overwritten); the format is Git *)
Theorem git_header_scan strip f fl g gn ix r1 oldp ts1 r2 newp ts2 h1 hs tail :
  Forall (Filler strip (empty_patch f)) fl -> Forall clean fl ->
  parse_git_header_name strip g = Ok gn -> clean (bs "diff --git " ++ g) -> clean (bs "index " ++ ix) ->
  file_line strip r1 oldp ts1 -> file_line strip r2 newp ts2 ->
  Forall wf_hunk (h1 :: hs) ->
  parse_patch_header_full (empty_patch f) strip
    (strm (join_lines (fl ++ [bs "diff --git " ++ g; bs "index " ++ ix; bs "--- " ++ r1; bs "+++ " ++ r2]) ++
           emit_hunks (h1 :: hs) ++ tail)) =
  Ok (true,
      mkPatch FGit (decide_oper h1 oldp newp) [] [] oldp newp (opt_or ts1 []) (opt_or ts2 []) 0 0 [],
      strm (emit_hunks (h1 :: hs) ++ tail), true).
Proof.
  intros HF HC Hg Hdc Hic H1 H2 Hwf.
  set (pre := fl ++ [bs "diff --git " ++ g; bs "index " ++ ix; bs "--- " ++ r1; bs "+++ " ++ r2]).
  set (st' := mkHS (named (empty_patch f) oldp newp ts1 ts2) LKUnknown
                   (S (S (S (S (S (S (length fl + 0))))))) true true (mkHunk (oldr h1) (newr h1) []) (S (S (S (S (S (length fl + 0))))))).
  pose proof (Forall_inv Hwf) as Hw1. destruct Hw1 as (Hne & _ & Wo & Wn & _).
  assert (Hscan : scan strip (st0 (empty_patch f)) (pre ++ [unified_header (oldr h1) (newr h1); first_line h1]) = Some st').
  { destruct (first_line_op h1 Hne) as (opc & t & ->). unfold pre. rewrite <- app_assoc.
    change (st0 (empty_patch f)) with (hs_at (empty_patch f) 0). rewrite (scan_fillers _ _ fl 0 _ HF).
    cbn [app]. apply (scan_core_git_lines strip (empty_patch f) _ g gn); assumption. }
  assert (Hpre : Forall clean pre).
  { apply Forall_app. split; [exact HC|]. constructor; [exact Hdc|]. constructor; [exact Hic|].
    constructor; [exact (minus_clean _ _ _ _ H1)|]. constructor; [exact (plus_clean _ _ _ _ H2)|constructor]. }
  assert (Hlen : h_first st' = S (length pre)).
  { unfold st', pre. cbn [h_first]. rewrite app_length. cbn [length]. f_equal. lia. }
  pose proof (header_of_section (with_strip strip) f pre h1 hs st' Hpre Hwf Hscan Hlen eq_refl tail) as Hh.
  cbn [strip_size with_strip] in Hh. rewrite <- app_assoc in Hh. fold pre. rewrite Hh.
  unfold st'. rewrite (header_patch_git (empty_patch f) _ _ ts1 ts2 _ _ _ _ h1 eq_refl eq_refl eq_refl).
  unfold named. rewrite (file_line_time _ _ _ _ H1), (file_line_time _ _ _ _ H2). reflexivity.
Qed.
Print Assumptions git_header_scan.

(* -- "diff --git a/NAME b/NAME", "index ..", "--- a/NAME", "+++ b/NAME": NAME plain (no blank), any directories, any -p *)
Definition git_lines (name ix : list N) : list (list N) :=
  [bs "diff --git " ++ (bs "a/" ++ name) ++ bs " b/" ++ name; bs "index " ++ ix; bs "--- " ++ (bs "a/" ++ name) ++ tab_time None;
   bs "+++ " ++ (bs "b/" ++ name) ++ tab_time None].

Lemma plain_ab d name : d <> 34%N -> d <> 9%N -> d <> 32%N -> ~ In 9%N name -> ~ In 32%N name -> plain_name (d :: 47%N :: name).
Proof.
  intros D1 D2 D3 H9 H32. repeat split.
  - discriminate.
  - intros [E|[E|I]]; [congruence|discriminate|exact (H9 I)].
  - intros [E|[E|I]]; [congruence|discriminate|exact (H32 I)].
  - exact D1.
Qed.

Theorem git_header_scan_names strip f fl name ix h1 hs tail :
  Forall (Filler strip (empty_patch f)) fl -> Forall clean fl ->
  name <> [] -> ~ In 9%N name -> ~ In 32%N name -> clean name -> clean (bs "index " ++ ix) ->
  Forall wf_hunk (h1 :: hs) ->
  parse_patch_header_full (empty_patch f) strip
    (strm (join_lines (fl ++ git_lines name ix) ++ emit_hunks (h1 :: hs) ++ tail)) =
  Ok (true,
      mkPatch FGit (decide_oper h1 (stripped (bs "a/" ++ name) strip) (stripped (bs "b/" ++ name) strip)) [] []
              (stripped (bs "a/" ++ name) strip) (stripped (bs "b/" ++ name) strip) [] [] 0 0 [],
      strm (emit_hunks (h1 :: hs) ++ tail), true).
Proof.
  intros HF HC Hn H9 H32 Hcl Hic Hwf. unfold git_lines.
  assert (Pa : plain_name (bs "a/" ++ name)) by (apply plain_ab; try assumption; discriminate).
  assert (Pb : plain_name (bs "b/" ++ name)) by (apply plain_ab; try assumption; discriminate).
  assert (Ca : clean ((bs "a/" ++ name) ++ tab_time None)).
  { cbn [tab_time]. rewrite app_nil_r. apply line_clean; [vm_compute; intuition discriminate|exact Hcl|exact Hn]. }
  assert (Cb : clean ((bs "b/" ++ name) ++ tab_time None)).
  { cbn [tab_time]. rewrite app_nil_r. apply line_clean; [vm_compute; intuition discriminate|exact Hcl|exact Hn]. }
  assert (Cd : clean (bs "diff --git " ++ (bs "a/" ++ name) ++ bs " b/" ++ name)).
  { rewrite !app_assoc. apply line_clean; [|exact Hcl|exact Hn].
    intros I. apply in_app_or in I. destruct I as [I|I]; [|revert I; vm_compute; intuition discriminate].
    apply in_app_or in I. destruct I as [I|I]; [revert I; vm_compute; intuition discriminate|]. destruct Hcl as [Hc1 _]. exact (Hc1 I). }
  rewrite (git_header_scan strip f fl _ _ ix _ _ _ _ _ _ h1 hs tail HF HC
             (git_header_name_plain strip ((bs "a/" ++ name) ++ bs " b/" ++ name) ltac:(discriminate)) Cd Hic
             (file_line_of_plain strip _ None Pa Ca) (file_line_of_plain strip _ None Pb Cb) Hwf).
  reflexivity.
Qed.
Print Assumptions git_header_scan_names.

(* what the two paths are: NAME without its first N-1 components for -pN, N >= 1 (the "a/", "b/" count as one); the names as
   written for -p0; the base name without -p *)
Lemma stripped_ab_pos d name k : d <> 47%N -> hd 0%N name <> 47%N -> (0 <= k)%Z ->
  stripped (d :: 47%N :: name) (k + 1) = strip_spec name (Z.to_nat k).
Proof.
  intros Hd Hn Hk. apply (stripped_dir [d] name k); [discriminate| |exact Hn|exact Hk]. intros [E|[]]. apply Hd. exact E.
Qed.

Lemma stripped_ab_zero d name : stripped (d :: 47%N :: name) 0 = d :: 47%N :: name.
Proof. apply stripped_zero. intros E. inversion E. Qed.

Lemma stripped_ab_default d name strip : d <> 47%N -> (strip < 0)%Z ->
  stripped (d :: 47%N :: name) strip = basename name /\ is_basename name (basename name).
Proof.
  intros Hd Hs. destruct (stripped_default (d :: 47%N :: name) strip Hs) as [E _]; [intros E; inversion E|].
  rewrite E. split; [|apply (strip_path_basename name strip Hs)].
  unfold basename. cbn [basename_aux]. destruct (N.eqb_spec d 47); [contradiction|]. cbn [basename_aux]. reflexivity.
Qed.

Corollary git_header_scan_pN k f fl name ix h1 hs tail :
  (0 <= k)%Z ->
  Forall (Filler (k + 1) (empty_patch f)) fl -> Forall clean fl ->
  name <> [] -> hd 0%N name <> 47%N -> ~ In 9%N name -> ~ In 32%N name -> clean name -> clean (bs "index " ++ ix) ->
  Forall wf_hunk (h1 :: hs) ->
  parse_patch_header_full (empty_patch f) (k + 1)
    (strm (join_lines (fl ++ git_lines name ix) ++ emit_hunks (h1 :: hs) ++ tail)) =
  Ok (true,
      mkPatch FGit (decide_oper h1 (strip_spec name (Z.to_nat k)) (strip_spec name (Z.to_nat k))) [] []
              (strip_spec name (Z.to_nat k)) (strip_spec name (Z.to_nat k)) [] [] 0 0 [],
      strm (emit_hunks (h1 :: hs) ++ tail), true).
Proof.
  intros Hk HF HC Hn Hs H9 H32 Hcl Hic Hwf.
  rewrite (git_header_scan_names (k + 1) f fl name ix h1 hs tail HF HC Hn H9 H32 Hcl Hic Hwf).
  change (bs "a/" ++ name) with (97%N :: 47%N :: name). change (bs "b/" ++ name) with (98%N :: 47%N :: name).
  rewrite !stripped_ab_pos by (try discriminate; assumption). reflexivity.
Qed.
Print Assumptions git_header_scan_pN.

(* -- the same with every name C-quoted: diff --git "a/NAME" "b/NAME", --- "a/NAME", +++ "b/NAME" *)
Theorem git_header_scan_quoted strip f fl name ix h1 hs tail :
  Forall (Filler strip (empty_patch f)) fl -> Forall clean fl ->
  bytes name -> clean (bs "index " ++ ix) ->
  Forall wf_hunk (h1 :: hs) ->
  parse_patch_header_full (empty_patch f) strip
    (strm (join_lines (fl ++ [bs "diff --git " ++ cquote (bs "a/" ++ name) ++ bs " " ++ cquote (bs "b/" ++ name); bs "index " ++ ix;
                              bs "--- " ++ cquote (bs "a/" ++ name) ++ []; bs "+++ " ++ cquote (bs "b/" ++ name) ++ []]) ++
           emit_hunks (h1 :: hs) ++ tail)) =
  Ok (true,
      mkPatch FGit (decide_oper h1 (stripped (bs "a/" ++ name) strip) (stripped (bs "b/" ++ name) strip)) [] []
              (stripped (bs "a/" ++ name) strip) (stripped (bs "b/" ++ name) strip) [] [] 0 0 [],
      strm (emit_hunks (h1 :: hs) ++ tail), true).
Proof.
  intros HF HC Hb Hic Hwf.
  assert (Ba : bytes (bs "a/" ++ name)) by (repeat constructor; exact Hb).
  assert (Bb : bytes (bs "b/" ++ name)) by (repeat constructor; exact Hb).
  assert (C0 : clean []) by (split; [intros []|discriminate]).
  assert (Cd : clean (bs "diff --git " ++ cquote (bs "a/" ++ name) ++ bs " " ++ cquote (bs "b/" ++ name))).
  { apply line_clean; [vm_compute; intuition discriminate| |discriminate].
    apply cquote_clean. apply line_clean; [vm_compute; intuition discriminate| |discriminate].
    rewrite <- (app_nil_r (cquote _)). apply cquote_clean. exact C0. }
  rewrite (git_header_scan strip f fl _ _ ix _ _ _ _ _ _ h1 hs tail HF HC
             (git_header_name_quoted strip (bs "a/" ++ name) _ Ba) Cd Hic
             (file_line_of_quoted strip _ [] Ba C0) (file_line_of_quoted strip _ [] Bb C0) Hwf).
  reflexivity.
Qed.
Print Assumptions git_header_scan_quoted.

(* ================= (2b) a pure rename ================= *)
(* -- the name on a "rename from" / "rename to" (and "copy from" / "copy to") line.  These lines carry no "a/" / "b/": one
   component less is removed.  With -p0 the prefix is put in front of the whole name. *)
Definition ext_name (strip : Z) (prefix name : list N) : list N :=
  if Z.eqb strip 0 then prefix ++ strip_spec name 0
  else if Z.ltb strip 0 then basename name
  else strip_spec name (Z.to_nat (strip - 1)).

Lemma strip_path_ext strip prefix name :
  (if Z.eqb strip 0 then prefix ++ strip_path name (ext_strip strip) else strip_path name (ext_strip strip)) = ext_name strip prefix name.
Proof.
  unfold ext_name, ext_strip. destruct (Z.eqb_spec strip 0) as [->|Hz].
  - cbn [Z.ltb Z.compare]. f_equal. apply (strip_path_spec name 0). lia.
  - destruct (Z.ltb_spec strip 0) as [Hn|Hp].
    + destruct (Z.ltb_spec 0 strip); [lia|]. unfold strip_path. destruct (Z.ltb_spec strip 0); [reflexivity|lia].
    + destruct (Z.ltb_spec 0 strip); [|lia]. apply strip_path_spec. lia.
Qed.

Lemma git_ext_filename_plain strip prefix name :
  hd 0%N name <> 34%N -> git_ext_filename strip prefix name = Ok (ext_name strip prefix name).
Proof.
  intros Hq. unfold git_ext_filename.
  assert (X : match name with
              | 34%N :: _ => do x <- parse_quoted_string name; Ok (strip_path (fst x) (ext_strip strip))
              | _ => Ok (strip_path name (ext_strip strip))
              end = Ok (strip_path name (ext_strip strip))).
  { destruct name as [|c g]; [reflexivity|]. cbn [hd] in Hq. destruct c as [|q]; [reflexivity|].
    destruct (N.eqb_spec (N.pos q) 34) as [E|E]; [contradiction|].
    do 6 (destruct q as [q|q|]; try reflexivity). all: try (exfalso; apply E; reflexivity). }
  rewrite X. cbn [rbind]. rewrite strip_path_ext. reflexivity.
Qed.

Lemma git_ext_filename_quoted strip prefix name :
  bytes name -> git_ext_filename strip prefix (cquote name) = Ok (ext_name strip prefix name).
Proof.
  intros Hb. unfold git_ext_filename. pose proof (unquote_quote name [] Hb) as U. rewrite app_nil_r in U.
  unfold cquote in *. rewrite U. cbn [rbind fst]. rewrite strip_path_ext. reflexivity.
Qed.

(* what ext_name is, in the vocabulary of Spec_Names *)
Lemma ext_name_spec strip prefix name :
  ((1 <= strip)%Z -> ext_name strip prefix name = strip_spec name (Z.to_nat (strip - 1))) /\
  (strip = 0%Z -> ext_name strip prefix name = prefix ++ strip_spec name 0) /\
  ((strip < 0)%Z -> is_basename name (ext_name strip prefix name)).
Proof.
  unfold ext_name. split; [|split].
  - intros Hs. destruct (Z.eqb_spec strip 0); [lia|]. destruct (Z.ltb_spec strip 0); [lia|reflexivity].
  - intros ->. reflexivity.
  - intros Hs. destruct (Z.eqb_spec strip 0); [lia|]. destruct (Z.ltb_spec strip 0); [|lia]. apply (strip_path_basename name (-1)). lia.
Qed.

(* -- the steps of the scan once "diff --git" has been seen *)
Lemma step_git_similarity strip p n first x :
  header_step strip (gs_at p n first) (bs "similarity index " ++ x) = Ok (inl (gs_at p (S n) first)).
Proof.
  unfold header_step, gs_at. cbn [h_looks h_patch h_lines h_git h_body h_hunk h_first looks_eqb andb negb].
  set (L := bs "similarity index " ++ x).
  change (consume_str (bs "*** ") L) with (@None (list N)).
  change (consume_str (bs "+++ ") L) with (@None (list N)).
  change (consume_str (bs "--- ") L) with (@None (list N)).
  change (consume_str (bs "Index: ") L) with (@None (list N)).
  change (consume_str (bs "Prereq: ") L) with (@None (list N)).
  change (consume_str (bs "diff --git ") L) with (@None (list N)).
  change (parse_git_extended_info p strip L) with (Ok (false, p)).
  cbn [rbind fst snd].
  change (parse_unified_range empty_hunk L) with (false, empty_hunk).
  change (parse_normal_range empty_hunk L) with (false, empty_hunk).
  change (starts_with L (bs "***************")) with false.
  destruct (fmt_unknown_or p FUnified); destruct (fmt_unknown_or p FNormal); destruct (fmt_unknown_or p FContext); reflexivity.
Qed.

Lemma step_rename_from strip p n first r nm :
  git_ext_filename strip (bs "a/") r = Ok nm ->
  header_step strip (gs_at p n first) (bs "rename from " ++ r) =
  Ok (inl (gs_at (set_paths (set_oper p OpRename) nm (new_path p) (old_time p) (new_time p)) (S n) (S (S n)))).
Proof.
  intros H. unfold header_step, gs_at. cbn [h_looks h_patch h_lines h_git h_body h_hunk h_first looks_eqb andb negb].
  set (L := bs "rename from " ++ r).
  change (consume_str (bs "*** ") L) with (@None (list N)).
  change (consume_str (bs "+++ ") L) with (@None (list N)).
  change (consume_str (bs "--- ") L) with (@None (list N)).
  change (consume_str (bs "Index: ") L) with (@None (list N)).
  change (consume_str (bs "Prereq: ") L) with (@None (list N)).
  change (consume_str (bs "diff --git ") L) with (@None (list N)).
  unfold parse_git_extended_info, L. rewrite consume_str_app. rewrite H. reflexivity.
Qed.

Lemma step_rename_to strip p n first r nm :
  git_ext_filename strip (bs "b/") r = Ok nm ->
  header_step strip (gs_at p n first) (bs "rename to " ++ r) =
  Ok (inl (gs_at (set_paths (set_oper p OpRename) (old_path p) nm (old_time p) (new_time p)) (S n) (S (S n)))).
Proof.
  intros H. unfold header_step, gs_at. cbn [h_looks h_patch h_lines h_git h_body h_hunk h_first looks_eqb andb negb].
  set (L := bs "rename to " ++ r).
  change (consume_str (bs "*** ") L) with (@None (list N)).
  change (consume_str (bs "+++ ") L) with (@None (list N)).
  change (consume_str (bs "--- ") L) with (@None (list N)).
  change (consume_str (bs "Index: ") L) with (@None (list N)).
  change (consume_str (bs "Prereq: ") L) with (@None (list N)).
  change (consume_str (bs "diff --git ") L) with (@None (list N)).
  unfold parse_git_extended_info.
  change (consume_str (bs "rename from ") L) with (@None (list N)).
  unfold L. rewrite consume_str_app. rewrite H. reflexivity.
Qed.

(* a second "diff --git" line ends the section: the scan stops, there is no body to parse *)
Lemma step_git_again strip p n first g :
  header_step strip (gs_at p n first) (bs "diff --git " ++ g) = Ok (inr (mkHS p LKUnknown (S n) true false empty_hunk first)).
Proof.
  unfold header_step, gs_at. cbn [h_looks h_patch h_lines h_git h_body h_hunk h_first looks_eqb andb negb].
  set (L := bs "diff --git " ++ g).
  change (consume_str (bs "*** ") L) with (@None (list N)).
  change (consume_str (bs "+++ ") L) with (@None (list N)).
  change (consume_str (bs "--- ") L) with (@None (list N)).
  change (consume_str (bs "Index: ") L) with (@None (list N)).
  change (consume_str (bs "Prereq: ") L) with (@None (list N)).
  unfold L. rewrite consume_str_app. reflexivity.
Qed.

(* -- a header scan that reaches the end of the patch: every line read, none stops it *)
Fixpoint scan_all (strip : Z) (st : hstate) (ls : list (list N)) : option hstate :=
  match ls with
  | [] => Some st
  | l :: r => match header_step strip st l with Ok (inl st') => scan_all strip st' r | _ => None end
  end.

Lemma header_loop_all strip : forall ls st fuel st',
  Forall clean ls -> scan_all strip st ls = Some st' -> length ls < fuel ->
  header_loop fuel strip st (strm (join_lines ls)) = Ok (st', mkStream [] true false).
Proof.
  induction ls as [|l ls IH]; intros st fuel st' HC HS L.
  - destruct fuel as [|fuel]; [cbn in L; lia|]. cbn [join_lines flat_map header_loop]. unfold strm. rewrite sget_line_end.
    cbn [scan_all] in HS. inversion HS; subst. reflexivity.
  - inversion HC as [|? ? C1 C2]; subst. destruct fuel as [|fuel]; [cbn in L; lia|].
    cbn [join_lines flat_map]. rewrite <- !app_assoc. cbn [app header_loop]. unfold strm at 1. rewrite (sget_line_lf _ _ C1).
    cbn [scan_all] in HS. destruct (header_step strip st l) as [[st1|st1]|e]; cbn [rbind]; try discriminate.
    fold (join_lines ls). change (mkStream (join_lines ls) false false) with (strm (join_lines ls)).
    apply IH; [exact C2|exact HS|cbn [length] in L; lia].
Qed.

Theorem header_eof strip p ls st' :
  Forall clean ls -> scan_all strip (st0 p) ls = Some st' -> h_first st' - 1 <= length ls ->
  parse_patch_header_full p strip (strm (join_lines ls)) =
  Ok (h_body st', header_patch st', strm (join_lines (skipn (h_first st' - 1) ls)), negb (Nat.eqb (h_first st') 0)).
Proof.
  intros HC HS L. unfold parse_patch_header_full. cbn [rest strm]. fold (st0 p).
  rewrite (header_loop_all strip ls (st0 p) _ st' HC HS).
  2:{ pose proof (join_lines_length ls). lia. }
  cbn [rbind]. change (sseek (sclear (mkStream [] true false)) (join_lines ls)) with (strm (join_lines ls)).
  set (k := h_first st' - 1) in *.
  assert (Sk : skip_lines k (strm (join_lines ls)) = Ok (strm (join_lines (skipn k ls)))).
  { rewrite <- (firstn_skipn k ls) at 1. rewrite join_lines_app.
    assert (Lk : length (firstn k ls) = k) by (apply firstn_length_le; exact L).
    pose proof (skip_lines_filler (firstn k ls) 0 (join_lines (skipn k ls))) as X.
    rewrite Nat.add_0_r, Lk in X. rewrite X; [reflexivity|].
    rewrite <- (firstn_skipn k ls) in HC. apply Forall_app in HC. apply HC. }
  rewrite Sk. cbn [rbind]. reflexivity.
Qed.
Print Assumptions header_eof.

Lemma scan_all_inl strip st l ls st1 : header_step strip st l = Ok (inl st1) -> scan_all strip st (l :: ls) = scan_all strip st1 ls.
Proof. intros H. cbn [scan_all]. rewrite H. reflexivity. Qed.

Lemma scan_all_fillers strip p : forall fl n ls, Forall (Filler strip p) fl ->
  scan_all strip (hs_at p n) (fl ++ ls) = scan_all strip (hs_at p (length fl + n)) ls.
Proof.
  induction fl as [|l fl IH]; intros n ls HF; [reflexivity|]. inversion HF as [|? ? F1 F2]; subst.
  cbn [app]. rewrite (scan_all_inl _ _ _ _ _ (step_filler strip p n l F1)). rewrite (IH (S n) ls F2). cbn [length].
  replace (length fl + S n) with (S (length fl) + n) by lia. reflexivity.
Qed.

Lemma scan_after_all strip : forall ls st st1 l st2,
  scan_all strip st ls = Some st1 -> header_step strip st1 l = Ok (inr st2) -> scan strip st (ls ++ [l]) = Some st2.
Proof.
  induction ls as [|x ls IH]; intros st st1 l st2 HA HS.
  - cbn [scan_all] in HA. inversion HA; subst. cbn [app scan]. rewrite HS. reflexivity.
  - cbn [scan_all] in HA. cbn [app scan]. destruct (header_step strip st x) as [[st'|st']|e]; try discriminate.
    exact (IH st' st1 l st2 HA HS).
Qed.

(* the four lines of a pure rename, after text: the state the scan is in *)
Definition rename_lines (g sim rfrom rto : list N) : list (list N) :=
  [bs "diff --git " ++ g; bs "similarity index " ++ sim; bs "rename from " ++ rfrom; bs "rename to " ++ rto].

Definition renamed (f : format) (oldn newn : list N) : patch := mkPatch f OpRename [] [] oldn newn [] [] 0 0 [].

Lemma scan_all_rename strip f fl g gn sim rfrom oldn rto newn :
  Forall (Filler strip (empty_patch f)) fl ->
  parse_git_header_name strip g = Ok gn ->
  git_ext_filename strip (bs "a/") rfrom = Ok oldn -> git_ext_filename strip (bs "b/") rto = Ok newn ->
  scan_all strip (st0 (empty_patch f)) (fl ++ rename_lines g sim rfrom rto) =
  Some (gs_at (renamed FUnified oldn newn) (length fl + 4) (S (length fl + 4))).
Proof.
  intros HF Hg Ho Hn. change (st0 (empty_patch f)) with (hs_at (empty_patch f) 0). rewrite (scan_all_fillers _ _ fl 0 _ HF).
  rewrite Nat.add_0_r. unfold rename_lines.
  rewrite (scan_all_inl _ _ _ _ _ (step_git_diff strip _ _ _ _ Hg)).
  rewrite (scan_all_inl _ _ _ _ _ (step_git_similarity strip _ _ _ sim)).
  rewrite (scan_all_inl _ _ _ _ _ (step_rename_from strip _ _ _ _ _ Ho)).
  rewrite (scan_all_inl _ _ _ _ _ (step_rename_to strip _ _ _ _ _ Hn)).
  cbn [scan_all]. replace (length fl + 4) with (S (S (S (S (length fl))))) by lia. reflexivity.
Qed.

Lemma rename_lines_clean g sim rfrom rto :
  clean (bs "diff --git " ++ g) -> clean (bs "similarity index " ++ sim) -> clean (bs "rename from " ++ rfrom) -> clean (bs "rename to " ++ rto) ->
  Forall clean (rename_lines g sim rfrom rto).
Proof. intros K1 K2 K3 K4. unfold rename_lines. constructor; [exact K1|]. constructor; [exact K2|]. constructor; [exact K3|]. constructor; [exact K4|constructor]. Qed.

(* (2b) a pure rename, the last thing in the patch: Rename, from and to names with one component less removed than -p says;
   nothing found to skip to: the stream is at its end, and the (empty) body is still to be parsed *)
Theorem git_rename_scan strip f fl g gn sim rfrom oldn rto newn :
  Forall (Filler strip (empty_patch f)) fl -> Forall clean fl ->
  parse_git_header_name strip g = Ok gn ->
  git_ext_filename strip (bs "a/") rfrom = Ok oldn -> git_ext_filename strip (bs "b/") rto = Ok newn ->
  clean (bs "diff --git " ++ g) -> clean (bs "similarity index " ++ sim) -> clean (bs "rename from " ++ rfrom) -> clean (bs "rename to " ++ rto) ->
  parse_patch_header_full (empty_patch f) strip (strm (join_lines (fl ++ rename_lines g sim rfrom rto))) =
  Ok (true, renamed FGit oldn newn, strm [], true).
Proof.
  intros HF HC Hg Ho Hn C1 C2 C3 C4.
  set (ls := fl ++ rename_lines g sim rfrom rto).
  assert (Len : length ls = length fl + 4) by (unfold ls; rewrite app_length; reflexivity).
  rewrite (header_eof strip (empty_patch f) ls _ ltac:(apply Forall_app; split; [exact HC|apply rename_lines_clean; assumption])
             (scan_all_rename strip f fl g gn sim rfrom oldn rto newn HF Hg Ho Hn)).
  - unfold gs_at. cbn [h_first h_body Nat.sub Nat.eqb negb]. rewrite Nat.sub_0_r, <- Len, skipn_all. reflexivity.
  - unfold gs_at. cbn [h_first]. lia.
Qed.
Print Assumptions git_rename_scan.

(* ... and followed by the next "diff --git" section: the same record, no body, the stream on the next "diff --git" line *)
Theorem git_rename_scan_next strip f fl g gn sim rfrom oldn rto newn g2 more :
  Forall (Filler strip (empty_patch f)) fl -> Forall clean fl ->
  parse_git_header_name strip g = Ok gn ->
  git_ext_filename strip (bs "a/") rfrom = Ok oldn -> git_ext_filename strip (bs "b/") rto = Ok newn ->
  clean (bs "diff --git " ++ g) -> clean (bs "similarity index " ++ sim) -> clean (bs "rename from " ++ rfrom) -> clean (bs "rename to " ++ rto) ->
  clean (bs "diff --git " ++ g2) ->
  parse_patch_header_full (empty_patch f) strip
    (strm (join_lines (fl ++ rename_lines g sim rfrom rto) ++ (bs "diff --git " ++ g2) ++ 10%N :: more)) =
  Ok (false, renamed FGit oldn newn, strm ((bs "diff --git " ++ g2) ++ 10%N :: more), true).
Proof.
  intros HF HC Hg Ho Hn C1 C2 C3 C4 C5.
  set (ls := fl ++ rename_lines g sim rfrom rto).
  assert (Len : length ls = length fl + 4) by (unfold ls; rewrite app_length; reflexivity).
  set (st' := mkHS (renamed FUnified oldn newn) LKUnknown (S (length fl + 4)) true false empty_hunk (S (length fl + 4))).
  assert (T : join_lines ls ++ (bs "diff --git " ++ g2) ++ 10%N :: more = join_lines (ls ++ [bs "diff --git " ++ g2]) ++ more).
  { rewrite join_lines_app. cbn [join_lines flat_map]. rewrite app_nil_r, <- !app_assoc. reflexivity. }
  rewrite T.
  rewrite (header_suffix strip (empty_patch f) (ls ++ [bs "diff --git " ++ g2]) more st').
  - unfold st'. cbn [h_first h_body Nat.sub Nat.eqb negb]. rewrite Nat.sub_0_r, <- Len.
    rewrite skipn_app, skipn_all, Nat.sub_diag. cbn [skipn app join_lines flat_map]. rewrite app_nil_r, <- !app_assoc. reflexivity.
  - apply Forall_app. split; [apply Forall_app; split; [exact HC|apply rename_lines_clean; assumption]|]. constructor; [exact C5|constructor].
  - apply (scan_after_all strip ls _ _ _ _ (scan_all_rename strip f fl g gn sim rfrom oldn rto newn HF Hg Ho Hn)).
    apply step_git_again.
  - unfold st'. cbn [h_first]. rewrite app_length. cbn [length]. lia.
Qed.
Print Assumptions git_rename_scan_next.

(* -- plain names: diff --git a/OLD b/NEW, similarity index .., rename from OLD, rename to NEW *)
Lemma clean_after pfx r : ~ In 10%N pfx -> last_opt pfx <> Some 13%N -> clean r -> clean (pfx ++ r).
Proof.
  intros Hp Hl Hc. destruct r as [|c r]; [rewrite app_nil_r; split; assumption|].
  apply line_clean; [exact Hp|exact Hc|discriminate].
Qed.

Theorem git_rename_plain strip f fl oldn newn sim :
  Forall (Filler strip (empty_patch f)) fl -> Forall clean fl ->
  hd 0%N oldn <> 34%N -> hd 0%N newn <> 34%N -> clean oldn -> clean newn -> clean sim ->
  parse_patch_header_full (empty_patch f) strip
    (strm (join_lines (fl ++ rename_lines ((bs "a/" ++ oldn) ++ bs " b/" ++ newn) sim oldn newn))) =
  Ok (true, renamed FGit (ext_name strip (bs "a/") oldn) (ext_name strip (bs "b/") newn), strm [], true).
Proof.
  intros HF HC Q1 Q2 C1 C2 C3.
  apply (git_rename_scan strip f fl _ _ sim oldn _ newn _ HF HC
           (git_header_name_plain strip ((bs "a/" ++ oldn) ++ bs " b/" ++ newn) ltac:(discriminate))
           (git_ext_filename_plain strip (bs "a/") oldn Q1) (git_ext_filename_plain strip (bs "b/") newn Q2)).
  - apply clean_after; [vm_compute; intuition discriminate|vm_compute; discriminate|]. rewrite <- app_assoc.
    apply clean_after; [vm_compute; intuition discriminate|vm_compute; discriminate|].
    destruct C1 as [C1a C1b]. apply clean_after; [exact C1a|exact C1b|].
    apply clean_after; [vm_compute; intuition discriminate|vm_compute; discriminate|exact C2].
  - apply clean_after; [vm_compute; intuition discriminate|vm_compute; discriminate|exact C3].
  - apply clean_after; [vm_compute; intuition discriminate|vm_compute; discriminate|exact C1].
  - apply clean_after; [vm_compute; intuition discriminate|vm_compute; discriminate|exact C2].
Qed.
Print Assumptions git_rename_plain.

(* -- quoted names: diff --git "a/OLD" "b/NEW", similarity index .., rename from "OLD", rename to "NEW": any bytes *)
Theorem git_rename_quoted strip f fl oldn newn sim :
  Forall (Filler strip (empty_patch f)) fl -> Forall clean fl ->
  bytes oldn -> bytes newn -> clean sim ->
  parse_patch_header_full (empty_patch f) strip
    (strm (join_lines (fl ++ rename_lines (cquote (bs "a/" ++ oldn) ++ bs " " ++ cquote (bs "b/" ++ newn)) sim (cquote oldn) (cquote newn)))) =
  Ok (true, renamed FGit (ext_name strip (bs "a/") oldn) (ext_name strip (bs "b/") newn), strm [], true).
Proof.
  intros HF HC B1 B2 C3.
  assert (Ba : bytes (bs "a/" ++ oldn)) by (repeat constructor; exact B1).
  assert (C0 : clean []) by (split; [intros []|discriminate]).
  assert (Cq : forall x, clean (cquote x)) by (intros x; rewrite <- (app_nil_r (cquote x)); apply cquote_clean; exact C0).
  apply (git_rename_scan strip f fl _ _ sim _ _ _ _ HF HC
           (git_header_name_quoted strip (bs "a/" ++ oldn) _ Ba)
           (git_ext_filename_quoted strip (bs "a/") oldn B1) (git_ext_filename_quoted strip (bs "b/") newn B2)).
  - apply clean_after; [vm_compute; intuition discriminate|vm_compute; discriminate|].
    apply cquote_clean. apply clean_after; [vm_compute; intuition discriminate|vm_compute; discriminate|apply Cq].
  - apply clean_after; [vm_compute; intuition discriminate|vm_compute; discriminate|exact C3].
  - apply clean_after; [vm_compute; intuition discriminate|vm_compute; discriminate|apply Cq].
  - apply clean_after; [vm_compute; intuition discriminate|vm_compute; discriminate|apply Cq].
Qed.
Print Assumptions git_rename_quoted.

(* ================= (3, git) the file a git section names is the file that is patched ================= *)
Theorem right_file_patched_git_gen o f0 fl g gn ix r1 ts1 r2 ts2 h1 hs tail fname A B w data mode :
  plain_options o -> reverse_patch_opt o = false -> format_from_options o = Ok f0 ->
  Forall (Filler (strip_size o) (empty_patch f0)) fl -> Forall clean fl ->
  parse_git_header_name (strip_size o) g = Ok gn -> clean (bs "diff --git " ++ g) -> clean (bs "index " ++ ix) ->
  file_line (strip_size o) r1 fname ts1 -> file_line (strip_size o) r2 fname ts2 ->
  fname <> [] /\ ~ In 47%N fname ->
  Forall wf_hunk (h1 :: hs) -> Conforming A B (h1 :: hs) ->
  rstart (oldr h1) <> 0%Z /\ rstart (newr h1) <> 0%Z ->
  remove_empty_files o <> OBYes \/ lines_bytes (newline_output o) B <> [] ->
  (Z.of_nat (length A) < MAXZ)%Z ->
  tail_ok tail -> ends_here o f0 (after tail) = true ->
  fault w = None -> lookup (fs w) fname = Some (Reg data mode) -> (mode < 4096)%N -> owner_r mode = true -> owner_w mode = true ->
  split_lines data = A ->
  exists w',
    process_patch o (join_lines (fl ++ [bs "diff --git " ++ g; bs "index " ++ ix; bs "--- " ++ r1; bs "+++ " ++ r2]) ++
                     emit_hunks (h1 :: hs) ++ tail) w = (Ok (0, []), w') /\
    lookup (fs w') fname = Some (Reg (lines_bytes (newline_output o) B) mode) /\
    (forall q, q <> fname -> lookup (fs w') q = lookup (fs w) q) /\
    fault w' = None /\ umask w' = umask w.
Proof.
  intros Hplain Hfwd Hfo HF HC Hg Hdc Hic H1 H2 (F1 & F2) Hwf Hconf (S1 & S2) HB HA Htail Hends Fw Lf Hm Hr Hw HS.
  set (p := mkPatch FGit OpChange [] [] fname fname (opt_or ts1 []) (opt_or ts2 []) 0 0 []).
  assert (Dp : fname <> devnull_path) by (intros ->; apply F2; left; reflexivity).
  pose proof (git_header_scan (strip_size o) f0 fl g gn ix r1 fname ts1 r2 fname ts2 h1 hs tail HF HC Hg Hdc Hic H1 H2 Hwf) as Hh.
  rewrite (decide_oper_change h1 fname fname S1 S2 Dp Dp) in Hh. fold p in Hh.
  assert (Hne2 : h1 :: hs <> []) by discriminate.
  assert (E1 : process_section o ds0 true p (strm (emit_hunks (h1 :: hs) ++ tail)) w =
               process_section o ds0 false (set_hunks p (h1 :: hs)) (after tail) w).
  { apply process_section_parsed; [reflexivity|]. intros q Q1 Q2. apply unified_body_fresh; try assumption. right. rewrite Q1. reflexivity. }
  assert (Dn : fname <> Driver.devnull) by (intros ->; apply F2; left; reflexivity).
  pose proof (git_section_defers o (set_hunks p (h1 :: hs)) fname A B ds0 (after tail) w data mode Hplain Hfwd eq_refl eq_refl eq_refl eq_refl
                eq_refl eq_refl Dn F1 F2 Hconf HB HA Fw eq_refl Lf Hm Hr Hw HS) as E2.
  cbn [ds0 had_failure backed_up deferred_removals events app] in E2.
  set (w1 := mkWorld (fs w) (umask w) (trace w ++ [OOpenRead fname]) None (stdout_data w)) in *.
  destruct (finish_one_write o (lines_bytes (newline_output o) B) fname mode w1 data mode eq_refl F1 F2 Lf Hw)
    as (w' & E3 & Fs' & Fa' & Um').
  exists w'. split.
  - set (st1 := mkDS false [] [mkDef (lines_bytes (newline_output o) B) fname false false None (Some mode)] [] []) in *.
    rewrite (process_patch_one_section o f0 _ true p (strm (emit_hunks (h1 :: hs) ++ tail)) true st1 (after tail) w w1 Hfo Hh).
    + exact E3.
    + discriminate.
    + discriminate.
    + rewrite E1. exact E2.
    + exact Hends.
  - rewrite Fs'. destruct (upd_upd_lookup (fs w) fname (Reg (lines_bytes (newline_output o) B) mode) (Reg (lines_bytes (newline_output o) B) mode))
      as [L1 L2].
    split; [exact L1|]. split; [exact L2|]. split; [exact Fa'|exact Um'].
Qed.
Print Assumptions right_file_patched_git_gen.

(* every name C-quoted, as git writes them (core.quotePath): diff --git "a/NAME" "b/NAME", --- "a/NAME", +++ "b/NAME" *)
Theorem right_file_patched_git o f0 fl name ix h1 hs tail fname A B w data mode :
  plain_options o -> reverse_patch_opt o = false -> format_from_options o = Ok f0 ->
  Forall (Filler (strip_size o) (empty_patch f0)) fl -> Forall clean fl ->
  bytes name -> clean (bs "index " ++ ix) ->
  stripped (bs "a/" ++ name) (strip_size o) = fname -> stripped (bs "b/" ++ name) (strip_size o) = fname ->
  fname <> [] /\ ~ In 47%N fname ->
  Forall wf_hunk (h1 :: hs) -> Conforming A B (h1 :: hs) ->
  rstart (oldr h1) <> 0%Z /\ rstart (newr h1) <> 0%Z ->
  remove_empty_files o <> OBYes \/ lines_bytes (newline_output o) B <> [] ->
  (Z.of_nat (length A) < MAXZ)%Z ->
  tail_ok tail -> ends_here o f0 (after tail) = true ->
  fault w = None -> lookup (fs w) fname = Some (Reg data mode) -> (mode < 4096)%N -> owner_r mode = true -> owner_w mode = true ->
  split_lines data = A ->
  exists w',
    process_patch o (join_lines (fl ++ [bs "diff --git " ++ cquote (bs "a/" ++ name) ++ bs " " ++ cquote (bs "b/" ++ name); bs "index " ++ ix;
                                        bs "--- " ++ cquote (bs "a/" ++ name) ++ []; bs "+++ " ++ cquote (bs "b/" ++ name) ++ []]) ++
                     emit_hunks (h1 :: hs) ++ tail) w = (Ok (0, []), w') /\
    lookup (fs w') fname = Some (Reg (lines_bytes (newline_output o) B) mode) /\
    (forall q, q <> fname -> lookup (fs w') q = lookup (fs w) q) /\
    fault w' = None /\ umask w' = umask w.
Proof.
  intros Hplain Hfwd Hfo HF HC Hb Hic S1 S2. intros.
  assert (Ba : bytes (bs "a/" ++ name)) by (repeat constructor; exact Hb).
  assert (Bb : bytes (bs "b/" ++ name)) by (repeat constructor; exact Hb).
  assert (C0 : clean []) by (split; [intros []|discriminate]).
  assert (Cq : forall x, clean (cquote x)) by (intros x; rewrite <- (app_nil_r (cquote x)); apply cquote_clean; exact C0).
  apply (right_file_patched_git_gen o f0 fl _ (strip_path (bs "a/" ++ name) (strip_size o)) ix _ None _ None h1 hs tail fname A B) with (data := data);
    try assumption.
  - apply git_header_name_quoted. exact Ba.
  - apply clean_after; [vm_compute; intuition discriminate|vm_compute; discriminate|].
    apply cquote_clean. apply clean_after; [vm_compute; intuition discriminate|vm_compute; discriminate|apply Cq].
  - rewrite <- S1. exact (file_line_of_quoted (strip_size o) _ [] Ba C0).
  - rewrite <- S2. exact (file_line_of_quoted (strip_size o) _ [] Bb C0).
Qed.
Print Assumptions right_file_patched_git.

(* ================= non-vacuity, continued ================= *)
(* -- (1b)/(3b): a name with blanks, as GNU diff writes it *)
Definition exb_name : list N := bs "my file.txt".
Definition exb_text : list N :=
  bs "--- a/my file.txt" ++ tabb ++ bs "2024-03-01 10:00:00.000000000 +0100" ++ nlb ++
  bs "+++ b/my file.txt" ++ tabb ++ bs "2024-03-02 11:30:00.000000000 +0100" ++ nlb ++
  emit_hunks [ex_hunk1; ex_hunk2].
Definition exb_world : world :=
  mkWorld [(bs "my", Reg (bs "other 1" ++ nlb) 420); (bs "file.txt", Reg (bs "other 2" ++ nlb) 420); (exb_name, Reg ex_dataA 420);
           (bs "a", Dir 493); (bs "a/my", Reg (bs "other 3" ++ nlb) 420)] 18 [] None [].

Example right_file_patched_blanks_nonvacuous :
  exists w',
    process_patch ex_p1 exb_text exb_world = (Ok (0, []), w') /\
    lookup (fs w') exb_name = Some (Reg ex_dataB 420) /\
    (forall q, q <> exb_name -> lookup (fs w') q = lookup (fs exb_world) q) /\
    fault w' = None /\ umask w' = umask exb_world.
Proof.
  assert (E : exb_text = join_lines ([] ++ [bs "--- " ++ bs "a/my file.txt" ++ 9%N :: bs "2024-03-01 10:00:00.000000000 +0100";
                                            bs "+++ " ++ bs "b/my file.txt" ++ 9%N :: bs "2024-03-02 11:30:00.000000000 +0100"]) ++
                          emit_hunks [ex_hunk1; ex_hunk2] ++ []) by (vm_compute; reflexivity).
  assert (EB : ex_dataB = lines_bytes (newline_output ex_p1) ex_B) by (vm_compute; reflexivity).
  rewrite E, EB.
  apply (right_file_patched_blanks ex_p1 FUnknown [] (bs "a/my file.txt") _ (bs "b/my file.txt") _ ex_hunk1 [ex_hunk2] [] exb_name ex_A ex_B
                                   exb_world ex_dataA 420).
  - repeat split; try reflexivity. vm_compute. discriminate.
  - reflexivity.
  - reflexivity.
  - left. reflexivity.
  - constructor.
  - constructor.
  - split; [discriminate|]. split; vm_compute; intuition discriminate.
  - split; [discriminate|]. split; vm_compute; intuition discriminate.
  - split; vm_compute; intuition discriminate.
  - split; vm_compute; intuition discriminate.
  - vm_compute. reflexivity.
  - vm_compute. reflexivity.
  - split; vm_compute; intuition discriminate.
  - constructor; [exact ex_wf1|constructor; [exact ex_wf2|constructor]].
  - exact ex_conf.
  - left. discriminate.
  - vm_compute. reflexivity.
  - left. reflexivity.
  - reflexivity.
  - reflexivity.
  - vm_compute. reflexivity.
  - reflexivity.
  - reflexivity.
  - reflexivity.
  - vm_compute. reflexivity.
Qed.

(* -- (2a): git header, a name with directories, -p2, -p0, no -p *)
Definition exg2_text : list N :=
  bs "diff --git a/src/lib/f.c b/src/lib/f.c" ++ nlb ++ bs "index 8a1218a..5b6e7c6 100644" ++ nlb ++
  bs "--- a/src/lib/f.c" ++ nlb ++ bs "+++ b/src/lib/f.c" ++ nlb ++ emit_hunks [ex_hunk1; ex_hunk2].

Lemma exg2_text_eq : exg2_text = join_lines ([] ++ git_lines (bs "src/lib/f.c") (bs "8a1218a..5b6e7c6 100644")) ++ emit_hunks [ex_hunk1; ex_hunk2] ++ [].
Proof. vm_compute. reflexivity. Qed.

Example git_header_scan_pN_nonvacuous :
  parse_patch_header_full (empty_patch FUnknown) 2 (strm exg2_text) =
  Ok (true, mkPatch FGit OpChange [] [] (bs "lib/f.c") (bs "lib/f.c") [] [] 0 0 [], strm (emit_hunks [ex_hunk1; ex_hunk2] ++ []), true).
Proof.
  rewrite exg2_text_eq. change 2%Z with (1 + 1)%Z.
  rewrite (git_header_scan_pN 1 FUnknown [] (bs "src/lib/f.c") (bs "8a1218a..5b6e7c6 100644") ex_hunk1 [ex_hunk2] []).
  - vm_compute. reflexivity.
  - lia.
  - constructor.
  - constructor.
  - discriminate.
  - vm_compute. discriminate.
  - vm_compute. intuition discriminate.
  - vm_compute. intuition discriminate.
  - split; vm_compute; intuition discriminate.
  - split; vm_compute; intuition discriminate.
  - constructor; [exact ex_wf1|constructor; [exact ex_wf2|constructor]].
Qed.

Example git_header_scan_names_nonvacuous :
  (exists s, parse_patch_header_full (empty_patch FUnknown) 0 (strm exg2_text) =
             Ok (true, mkPatch FGit OpChange [] [] (bs "a/src/lib/f.c") (bs "b/src/lib/f.c") [] [] 0 0 [], s, true)) /\
  (exists s, parse_patch_header_full (empty_patch FUnknown) (-1) (strm exg2_text) =
             Ok (true, mkPatch FGit OpChange [] [] (bs "f.c") (bs "f.c") [] [] 0 0 [], s, true)).
Proof.
  rewrite exg2_text_eq. split; eexists.
  - rewrite (git_header_scan_names 0 FUnknown [] (bs "src/lib/f.c") (bs "8a1218a..5b6e7c6 100644") ex_hunk1 [ex_hunk2] []).
    + vm_compute. reflexivity.
    + constructor.
    + constructor.
    + discriminate.
    + vm_compute. intuition discriminate.
    + vm_compute. intuition discriminate.
    + split; vm_compute; intuition discriminate.
    + split; vm_compute; intuition discriminate.
    + constructor; [exact ex_wf1|constructor; [exact ex_wf2|constructor]].
  - rewrite (git_header_scan_names (-1) FUnknown [] (bs "src/lib/f.c") (bs "8a1218a..5b6e7c6 100644") ex_hunk1 [ex_hunk2] []).
    + vm_compute. reflexivity.
    + constructor.
    + constructor.
    + discriminate.
    + vm_compute. intuition discriminate.
    + vm_compute. intuition discriminate.
    + split; vm_compute; intuition discriminate.
    + split; vm_compute; intuition discriminate.
    + constructor; [exact ex_wf1|constructor; [exact ex_wf2|constructor]].
Qed.

(* -- (2a)/(3, git): git diff for café.txt, names quoted, patch -p1 *)
Definition exgq_text : list N :=
  bs "diff --git ""a/caf\303\251.txt"" ""b/caf\303\251.txt""" ++ nlb ++ bs "index 8a1218a..5b6e7c6 100644" ++ nlb ++
  bs "--- ""a/caf\303\251.txt""" ++ nlb ++ bs "+++ ""b/caf\303\251.txt""" ++ nlb ++ emit_hunks [ex_hunk1; ex_hunk2].

Lemma exgq_text_eq :
  exgq_text = join_lines ([] ++ [bs "diff --git " ++ cquote (bs "a/" ++ cafe) ++ bs " " ++ cquote (bs "b/" ++ cafe);
                                 bs "index " ++ bs "8a1218a..5b6e7c6 100644";
                                 bs "--- " ++ cquote (bs "a/" ++ cafe) ++ []; bs "+++ " ++ cquote (bs "b/" ++ cafe) ++ []]) ++
              emit_hunks [ex_hunk1; ex_hunk2] ++ [].
Proof. vm_compute. reflexivity. Qed.

Example git_header_scan_quoted_nonvacuous :
  parse_patch_header_full (empty_patch FUnknown) 1 (strm exgq_text) =
  Ok (true, mkPatch FGit OpChange [] [] cafe cafe [] [] 0 0 [], strm (emit_hunks [ex_hunk1; ex_hunk2] ++ []), true).
Proof.
  rewrite exgq_text_eq.
  rewrite (git_header_scan_quoted 1 FUnknown [] cafe (bs "8a1218a..5b6e7c6 100644") ex_hunk1 [ex_hunk2] []).
  - vm_compute. reflexivity.
  - constructor.
  - constructor.
  - unfold bytes. repeat constructor.
  - split; vm_compute; intuition discriminate.
  - constructor; [exact ex_wf1|constructor; [exact ex_wf2|constructor]].
Qed.

Example right_file_patched_git_nonvacuous :
  exists w',
    process_patch ex_p1 exgq_text exq_world = (Ok (0, []), w') /\
    lookup (fs w') cafe = Some (Reg ex_dataB 420) /\
    (forall q, q <> cafe -> lookup (fs w') q = lookup (fs exq_world) q) /\
    fault w' = None /\ umask w' = umask exq_world.
Proof.
  assert (EB : ex_dataB = lines_bytes (newline_output ex_p1) ex_B) by (vm_compute; reflexivity).
  rewrite exgq_text_eq, EB.
  apply (right_file_patched_git ex_p1 FUnknown [] cafe (bs "8a1218a..5b6e7c6 100644") ex_hunk1 [ex_hunk2] [] cafe ex_A ex_B exq_world ex_dataA 420).
  - repeat split; try reflexivity. vm_compute. discriminate.
  - reflexivity.
  - reflexivity.
  - constructor.
  - constructor.
  - unfold bytes. repeat constructor.
  - split; vm_compute; intuition discriminate.
  - vm_compute. reflexivity.
  - vm_compute. reflexivity.
  - split; vm_compute; intuition discriminate.
  - constructor; [exact ex_wf1|constructor; [exact ex_wf2|constructor]].
  - exact ex_conf.
  - split; discriminate.
  - left. discriminate.
  - vm_compute. reflexivity.
  - left. reflexivity.
  - reflexivity.
  - reflexivity.
  - vm_compute. reflexivity.
  - reflexivity.
  - reflexivity.
  - reflexivity.
  - vm_compute. reflexivity.
Qed.

(* -- (2b): a pure rename *)
Definition exr_text : list N :=
  bs "diff --git a/dir/sub/old.txt b/dir/sub/new.txt" ++ nlb ++ bs "similarity index 100%" ++ nlb ++
  bs "rename from dir/sub/old.txt" ++ nlb ++ bs "rename to dir/sub/new.txt" ++ nlb.

Lemma exr_text_eq :
  exr_text = join_lines ([] ++ rename_lines ((bs "a/" ++ bs "dir/sub/old.txt") ++ bs " b/" ++ bs "dir/sub/new.txt") (bs "100%")
                                             (bs "dir/sub/old.txt") (bs "dir/sub/new.txt")).
Proof. vm_compute. reflexivity. Qed.

Lemma exr_scan strip :
  parse_patch_header_full (empty_patch FUnknown) strip (strm exr_text) =
  Ok (true, renamed FGit (ext_name strip (bs "a/") (bs "dir/sub/old.txt")) (ext_name strip (bs "b/") (bs "dir/sub/new.txt")), strm [], true).
Proof.
  rewrite exr_text_eq. apply git_rename_plain.
  - constructor.
  - constructor.
  - vm_compute. discriminate.
  - vm_compute. discriminate.
  - split; vm_compute; intuition discriminate.
  - split; vm_compute; intuition discriminate.
  - split; vm_compute; intuition discriminate.
Qed.

(* -p2: one component removed; -p1: the names as written; no -p: the base names; -p0: "a/" and "b/" before the names as written *)
Example git_rename_plain_nonvacuous :
  parse_patch_header_full (empty_patch FUnknown) 2 (strm exr_text) = Ok (true, renamed FGit (bs "sub/old.txt") (bs "sub/new.txt"), strm [], true) /\
  parse_patch_header_full (empty_patch FUnknown) 1 (strm exr_text) = Ok (true, renamed FGit (bs "dir/sub/old.txt") (bs "dir/sub/new.txt"), strm [], true) /\
  parse_patch_header_full (empty_patch FUnknown) (-1) (strm exr_text) = Ok (true, renamed FGit (bs "old.txt") (bs "new.txt"), strm [], true) /\
  parse_patch_header_full (empty_patch FUnknown) 0 (strm exr_text) = Ok (true, renamed FGit (bs "a/dir/sub/old.txt") (bs "b/dir/sub/new.txt"), strm [], true).
Proof. rewrite !exr_scan. vm_compute. repeat split; reflexivity. Qed.

(* the quoted form, and another section behind it *)
Definition exrq_text : list N :=
  bs "diff --git ""a/caf\303\251.txt"" ""b/th\303\251.txt""" ++ nlb ++ bs "similarity index 100%" ++ nlb ++
  bs "rename from ""caf\303\251.txt""" ++ nlb ++ bs "rename to ""th\303\251.txt""" ++ nlb.
Definition the_ : list N := [116; 104; 195; 169; 46; 116; 120; 116]%N.

Example git_rename_quoted_nonvacuous :
  parse_patch_header_full (empty_patch FUnknown) 1 (strm exrq_text) = Ok (true, renamed FGit cafe the_, strm [], true).
Proof.
  assert (E : exrq_text = join_lines ([] ++ rename_lines (cquote (bs "a/" ++ cafe) ++ bs " " ++ cquote (bs "b/" ++ the_)) (bs "100%")
                                                         (cquote cafe) (cquote the_))) by (vm_compute; reflexivity).
  rewrite E, git_rename_quoted.
  - vm_compute. reflexivity.
  - constructor.
  - constructor.
  - unfold bytes. repeat constructor.
  - unfold bytes. repeat constructor.
  - split; vm_compute; intuition discriminate.
Qed.

Example git_rename_scan_next_nonvacuous :
  parse_patch_header_full (empty_patch FUnknown) 1 (strm (exr_text ++ exg_text)) =
  Ok (false, renamed FGit (bs "dir/sub/old.txt") (bs "dir/sub/new.txt"), strm exg_text, true).
Proof.
  assert (E : exr_text ++ exg_text =
              join_lines ([] ++ rename_lines ((bs "a/" ++ bs "dir/sub/old.txt") ++ bs " b/" ++ bs "dir/sub/new.txt") (bs "100%")
                                             (bs "dir/sub/old.txt") (bs "dir/sub/new.txt")) ++
              (bs "diff --git " ++ bs "a/f b/f") ++ 10%N :: skipn 19 exg_text) by (vm_compute; reflexivity).
  rewrite E.
  rewrite (git_rename_scan_next 1 FUnknown [] _ _ (bs "100%") _ _ _ _ (bs "a/f b/f") (skipn 19 exg_text) (Forall_nil _) (Forall_nil _)
             (git_header_name_plain 1 ((bs "a/" ++ bs "dir/sub/old.txt") ++ bs " b/" ++ bs "dir/sub/new.txt") ltac:(vm_compute; discriminate))
             (git_ext_filename_plain 1 (bs "a/") (bs "dir/sub/old.txt") ltac:(vm_compute; discriminate))
             (git_ext_filename_plain 1 (bs "b/") (bs "dir/sub/new.txt") ltac:(vm_compute; discriminate))).
  - vm_compute. reflexivity.
  - split; vm_compute; intuition discriminate.
  - split; vm_compute; intuition discriminate.
  - split; vm_compute; intuition discriminate.
  - split; vm_compute; intuition discriminate.
  - split; vm_compute; intuition discriminate.
Qed.

(* the whole program on the rename: with -p1 the file named is moved, everything else stays *)
Definition exr_world : world :=
  mkWorld [(bs "dir", Dir 493); (bs "dir/sub", Dir 493); (bs "dir/sub/old.txt", Reg (bs "x" ++ nlb) 420);
           (bs "dir/sub/keep", Reg (bs "k" ++ nlb) 420); (bs "old.txt", Reg (bs "y" ++ nlb) 420);
           (bs "a", Dir 493); (bs "b", Dir 493); (bs "a/old.txt", Reg (bs "z" ++ nlb) 420);
           (bs "a/dir", Dir 493); (bs "a/dir/sub", Dir 493); (bs "a/dir/sub/old.txt", Reg (bs "u" ++ nlb) 420)] 18 [] None [].

Example rename_p1_run :
  let r := run_patch (with_strip 1) exr_text exr_world in
  rr_exit r = 0 /\ rr_events r = [] /\
  lookup (fs (rr_world r)) (bs "dir/sub/old.txt") = None /\
  lookup (fs (rr_world r)) (bs "dir/sub/new.txt") = Some (Reg (bs "x" ++ nlb) 420) /\
  lookup (fs (rr_world r)) (bs "old.txt") = Some (Reg (bs "y" ++ nlb) 420) /\
  lookup (fs (rr_world r)) (bs "a/old.txt") = Some (Reg (bs "z" ++ nlb) 420) /\
  lookup (fs (rr_world r)) (bs "a/dir/sub/old.txt") = Some (Reg (bs "u" ++ nlb) 420).
Proof. vm_compute. repeat split; reflexivity. Qed.

(* ... and with -p0 the header names a/dir/sub/old.txt, as GNU patch -p0 reads it (before the fix 8dfe584 of the program the
   directories were lost: a/old.txt was moved to b/new.txt) *)
Example rename_p0_keeps_directories :
  let r := run_patch (with_strip 0) exr_text exr_world in
  rr_exit r = 0 /\ rr_events r = [] /\
  lookup (fs (rr_world r)) (bs "a/dir/sub/old.txt") = None /\
  lookup (fs (rr_world r)) (bs "a/old.txt") = Some (Reg (bs "z" ++ nlb) 420) /\
  lookup (fs (rr_world r)) (bs "b/dir/sub/new.txt") = Some (Reg (bs "u" ++ nlb) 420).
Proof. vm_compute. repeat split; reflexivity. Qed.

(* ================= why the hypotheses are what they are ================= *)
(* a name with a blank and NO tab behind it is cut at the blank (the rest is taken for the time stamp): the TAB of
   blank_name's lines is needed *)
Example blank_without_tab_is_cut :
  parse_file_line 1 (bs "a/my file.txt") = Ok (bs "my", Some (bs "file.txt")).
Proof. vm_compute. reflexivity. Qed.

(* the quoting of Spec_Names writes every control character other than TAB and newline in octal, and that is what the parser
   reads.  git and GNU diff write BEL, BS, VT, FF and CR as \a \b \v \f \r: these escapes are NOT read -- the header line is
   refused with an exception (a suspected defect of the program: such a patch cannot be applied at all) *)
Example mnemonic_escapes_refused :
  parse_quoted_string (bs """a\rb""") = Throw EInvalidArgument /\
  parse_quoted_string (bs """a\ab""") = Throw EInvalidArgument /\
  parse_quoted_string (cquote [97; 13; 98]%N) = Ok ([97; 13; 98]%N, [34%N]) /\
  cquote [97; 13; 98]%N = bs """a\015b""".
Proof. vm_compute. repeat split; reflexivity. Qed.

(* the time stamp kept for a quoted name starts with the TAB, the one kept for an unquoted name does not *)
Example quoted_time_keeps_tab :
  parse_file_line 1 (bs """a/f""" ++ tabb ++ bs "stamp") = Ok (bs "f", Some (tabb ++ bs "stamp")) /\
  parse_file_line 1 (bs "a/f" ++ tabb ++ bs "stamp") = Ok (bs "f", Some (bs "stamp")).
Proof. vm_compute. split; reflexivity. Qed.
