(* Proofs_EndToEnd.v — C01 through the driver: a conforming change section, run by process_section on a tree where the target
   is a readable, writable regular file in the working directory, leaves exactly the new version there and nothing else. *)
From PatchV Require Import Base Lines Hunk Locator Formatter Options Applier LineParser Parser World Driver
     Spec_Locate Spec_Apply Proofs_Base Proofs_Apply Proofs_Conf Proofs_World Proofs_Crash.

Lemma perform_ok_run op w m' :
  fault w = None -> exec_op (fs w) (umask w) op = inl m' ->
  perform op w = (Ok None, mkWorld m' (umask w) (trace w ++ [op]) None (stdout_data w)).
Proof. intros F E. unfold perform. rewrite F, E. reflexivity. Qed.

Lemma checked_ok_run op w m' :
  fault w = None -> exec_op (fs w) (umask w) op = inl m' ->
  checked op w = (Ok tt, mkWorld m' (umask w) (trace w ++ [op]) None (stdout_data w)).
Proof. intros F E. unfold checked. rewrite mbind_eq, (perform_ok_run _ _ _ F E). reflexivity. Qed.

Lemma no_slash_parent_aux : forall s cur best, ~ In 47%N s -> parent_aux s cur best = best.
Proof.
  induction s as [|c r IH]; intros cur best H; [reflexivity|]. cbn [parent_aux].
  destruct (N.eqb_spec c 47) as [->|Hc]; [exfalso; apply H; left; reflexivity|]. apply IH. intros I. apply H. right. exact I.
Qed.

Lemma no_slash_prefixes : forall s cur, ~ In 47%N s -> dir_prefixes s cur = [].
Proof.
  induction s as [|c r IH]; intros cur H; [reflexivity|]. cbn [dir_prefixes].
  destruct (N.eqb_spec c 47) as [->|Hc]; [exfalso; apply H; left; reflexivity|]. apply IH. intros I. apply H. right. exact I.
Qed.

Lemma land_small m : (m < 4096)%N -> N.land m 4095 = m.
Proof. intros H. change 4095%N with (N.ones 12). rewrite N.land_ones. apply N.mod_small. exact H. Qed.

Section OneFile.
Variable o : options.
Variable p : patch.
Variable f : list N.
Variables A B : list line.

Hypothesis o_plain :
  file_to_patch o = [] /\ out_file_path o = [] /\ dry_run o = false /\ save_backup o = false /\ define_macro o = [] /\
  verbose o = false /\ reverse_patch_opt o = false /\ (0 <= max_fuzz o)%Z.
Hypothesis p_plain :
  pfmt p = FUnified /\ poper p = OpChange /\ prereq p = [] /\ old_path p = f /\ new_path p = f /\ new_mode p = 0%N /\
  f <> devnull /\ f <> [] /\ ~ In 47%N f.
Hypothesis p_conf : Conforming A B (hunks p).
Hypothesis B_nonempty : lines_bytes (newline_output o) B <> [].
Hypothesis A_small : (Z.of_nat (length A) < MAXZ)%Z.

(* One section of a unified diff of A to B whose names are a file in the working directory: when that file is a regular file
   holding A, readable and writable, and nothing fails, the section ends with exactly B in it (written with the terminators
   --newline-output asks for), its mode unchanged, every other entry of the tree untouched, no failure recorded. *)
Theorem section_writes_new_version st s w data mode :
  fault w = None -> deferred_writes st = [] ->
  lookup (fs w) f = Some (Reg data mode) -> (mode < 4096)%N -> owner_r mode = true -> owner_w mode = true ->
  N.land mode write_mask <> 0%N ->
  split_lines data = A ->
  exists st' w',
    process_section o st false p s w = (Ok (st', s), w') /\
    lookup (fs w') f = Some (Reg (lines_bytes (newline_output o) B) mode) /\
    (forall q, q <> f -> lookup (fs w') q = lookup (fs w) q) /\
    had_failure st' = had_failure st /\ deferred_writes st' = [] /\ fault w' = None.
Proof.
  destruct o_plain as (O1 & O2 & O3 & O4 & O5 & O6 & O7 & O8).
  destruct p_plain as (P1 & P2 & P3 & P4 & P5 & P6 & P7 & P8 & P9).
  intros Fw Dw Lf Hm Hr Hw2 Hw HA.
  assert (Par : parent f = None) by (unfold parent; apply no_slash_parent_aux; exact P9).
  unfold process_section. rewrite mbind_eq. cbn [get_fs]. rewrite O1. cbn [is_nil].
  assert (St : stat (fs w) f = Some (Reg data mode)).
  { unfold stat, parent_ok. rewrite Par. cbn [negb]. rewrite Lf. reflexivity. }
  assert (Ex : exists_ (fs w) f = true) by (unfold exists_; rewrite St; reflexivity).
  assert (G : guess_filepath (fs w) (map d_dest (deferred_writes st)) p o = f).
  { unfold guess_filepath. rewrite P4. apply str_eqb_neq in P7. rewrite P7. cbn [negb andb]. rewrite Ex. reflexivity. }
  rewrite G. assert (Nn : is_nil f = false) by (destruct f; [congruence|reflexivity]). rewrite Nn.
  assert (Rg : is_regular_file (fs w) f = true) by (unfold is_regular_file; rewrite St; reflexivity).
  rewrite Ex, Rg. cbn [negb andb].
  assert (Out : output_path o p f = f) by (unfold output_path; rewrite O2, P2; reflexivity).
  rewrite Out.
  assert (GP : get_permissions (fs w) f = mode) by (unfold get_permissions; rewrite St; apply land_small; exact Hm).
  assert (EP : effective_perms st (fs w) f = mode) by (unfold effective_perms; rewrite Dw; cbn [rev find]; exact GP).
  rewrite EP.
  assert (Need : N.eqb (N.land mode write_mask) 0 = false) by (apply N.eqb_neq; exact Hw).
  rewrite Need. cbn [andb].
  assert (PC : pending_content st (fs w) f f = None) by (unfold pending_content; rewrite Dw; cbn [rev find]; destruct (str_eqb f f); reflexivity).
  rewrite PC.
  (* read the target *)
  set (w1 := mkWorld (fs w) (umask w) (trace w ++ [OOpenRead f]) None (stdout_data w)).
  assert (Rd : perform (OOpenRead f) w = (Ok None, w1)).
  { apply perform_ok_run; [exact Fw|]. cbn [exec_op]. rewrite St, Hr. reflexivity. }
  rewrite mbind_eq. rewrite mbind_eq. rewrite Rd. rewrite St. cbn [mret]. rewrite HA.
  rewrite mbind_eq. rewrite P3. cbn [is_nil negb andb mret].
  rewrite P2. unfold body_if. rewrite mbind_eq. cbn [mret].
  (* the hunks *)
  assert (Guard : creation_guard p A).
  { intros E. unfold creates_file in E. rewrite P4 in E. apply str_eqb_eq in E. contradiction. }
  assert (p_conf' : Conforming A B (hunks (effective o p))) by (unfold effective; rewrite O7; exact p_conf).
  assert (Guard' : creation_guard (effective o p) A) by (unfold effective; rewrite O7; exact Guard).
  destruct (apply_conforming_gen_full o p A B O5 O6 O8 p_conf' A_small Guard') as (r & Er & Ro & Rf & Rr & Rs & Rp & Rm & hs & Hp3).
  rewrite mbind_eq. unfold mlift. rewrite Er. unfold section_tail.
  unfold effective in Hp3. rewrite O7 in Hp3.
  rewrite Rf, Rm, Rs, Rp, Ro. cbn [Nat.eqb negb].
  rewrite mbind_eq. cbn [mret].
  rewrite O2. change (str_eqb [] (bs "-")) with false. cbv iota.
  rewrite O3, O4. cbn [negb andb orb is_nil].
  assert (Pp : poper (r_patch r) = OpChange) by (rewrite Hp3; exact P2).
  assert (Pn : new_path (r_patch r) = f) by (rewrite Hp3; exact P5).
  assert (Pf : pfmt (r_patch r) = FUnified) by (rewrite Hp3; exact P1).
  assert (Pm : new_mode (r_patch r) = 0%N) by (rewrite Hp3; exact P6).
  rewrite Pp, Pn, Pf, Pm.
  assert (Nb : is_nil (lines_bytes (newline_output o) B) = false) by (destruct (lines_bytes (newline_output o) B); [congruence|reflexivity]).
  rewrite Nb. apply str_eqb_neq in P7. rewrite P7.
  (* both ways through the "does this patch delete the file" test end in: write it *)
  assert (X : (if match remove_empty_files o with
                   | OBYes => match hunks (r_patch r) with
                              | h :: _ => (rstart (newr h) =? 0)%Z && (rcount (newr h) =? 0)%Z
                              | [] => false
                              end
                   | _ => false
                   end
               then mret (add_event st [], true) else mret (add_event st [], true)) w1 = (Ok (add_event st [], true), w1))
    by (destruct (match remove_empty_files o with OBYes => _ | _ => false end); reflexivity).
  rewrite mbind_eq, X. clear X.
  (* write *)
  unfold ensure_parent_directories. rewrite Nn. rewrite (no_slash_prefixes f [] P9). cbn [mkdirs].
  rewrite mbind_eq. rewrite mbind_eq. cbn [mret].
  change (N.eqb 0 0) with true. cbn [negb].
  assert (Unk : N.eqb mode perms_unknown = false) by (apply N.eqb_neq; unfold perms_unknown; lia).
  rewrite Unk. cbn [andb].
  unfold write_now. cbn [d_backup d_dest d_chmod_first d_data d_perm_after].
  rewrite mbind_eq. cbn [mret]. rewrite mbind_eq. cbn [get_fs]. rewrite mbind_eq. cbn [mret].
  set (bytes := lines_bytes (newline_output o) B).
  set (w2 := mkWorld (upd (fs w) f (Reg bytes mode)) (umask w) (trace w1 ++ [OWrite f bytes]) None (stdout_data w)).
  assert (Wr : checked (OWrite f bytes) w1 = (Ok tt, w2)).
  { apply (checked_ok_run _ w1); [reflexivity|]. cbn [exec_op fs w1]. rewrite Lf. unfold parent_ok. rewrite Par, Hw2. reflexivity. }
  rewrite mbind_eq, Wr.
  set (w3 := mkWorld (upd (upd (fs w) f (Reg bytes mode)) f (Reg bytes mode)) (umask w) (trace w2 ++ [OChmod f mode]) None (stdout_data w)).
  assert (Ch : checked (OChmod f mode) w2 = (Ok tt, w3)).
  { apply (checked_ok_run _ w2); [reflexivity|]. cbn [exec_op fs w2]. unfold parent_ok. rewrite Par. cbn [negb]. rewrite lookup_upd_same. reflexivity. }
  rewrite ?Unk. rewrite mbind_eq, Ch. cbn [mret].
  rewrite mbind_eq. cbn [mret].
  eexists. exists w3. split; [reflexivity|]. cbn [fs w3]. split; [apply lookup_upd_same|]. split; [|split; [reflexivity|split; [exact Dw|reflexivity]]].
  intros q Hq. rewrite !lookup_upd_other by (intros E; apply Hq; symmetry; exact E). reflexivity.
Qed.
End OneFile.
