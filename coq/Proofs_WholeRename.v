(* Proofs_WholeRename.v — C12 / C05 / C09 for a PURE git rename ("diff --git a/X b/Y", "similarity index N%", "rename from X",
   "rename to Y", no hunk), from the bytes of the patch to the tree the run leaves, names with any number of directories:
   (0) the whole run IS one fixed sequence of system operations (rename_prog): open the old name for reading, make the
       directories of the new name (twice: once in the section, once when the deferred write is carried out), write the new
       name, set its permissions, unlink the old name, remove the directories the old name leaves empty;
   (1) without an injected failure, and when these operations are permitted, the new name holds the bytes and the mode of the
       old one, the old name is gone, and every other entry is as it was -- but for directories of the new name that had to be
       made and directories of the old name that became empty;
   (2) whatever operation fails (an injected failure at ANY place, a missing permission anywhere), the bytes are never lost:
       the old name still holds them with its mode, or the new name does;
   (3) the same patch under -R, on the tree where only the new name exists, moves the file back. *)
From PatchV Require Import Base Lines Hunk Locator Formatter Options Applier LineParser Parser World Driver
     Spec_Locate Spec_Apply Spec_Names Proofs_Base Proofs_Lines Proofs_Fuel Proofs_Unified Proofs_Filler Proofs_Progress
     Proofs_Names Proofs_Conf Proofs_World Proofs_Crash Proofs_EndToEnd Proofs_Reverse Proofs_Sections Proofs_Sections_Unified
     Proofs_Touch Proofs_Whole Proofs_WholeSections Proofs_WholeGit Proofs_WholeNames.

(* ================= the bytes a rename writes ================= *)
(* a rename is carried out as: read the old name, cut it in lines, write the lines to the new name with the line ends
   --newline-output asks for *)
Definition rewritten (o : options) (data : list N) : list N := lines_bytes (newline_output o) (split_lines data).

Lemma rewritten_keep o data : newline_output o = MKeep -> rewritten o data = data.
Proof. intros H. unfold rewritten. rewrite H. apply split_lines_roundtrip. Qed.

Lemma rewritten_no_crlf o data : newline_output o <> MCRLF -> no_crlf (split_lines data) -> rewritten o data = data.
Proof. intros H1 H2. unfold rewritten. rewrite (lines_bytes_no_crlf _ _ H1 H2). apply split_lines_roundtrip. Qed.

(* ================= apply_patch on a patch without hunks ================= *)
Lemma apply_no_hunks o X p :
  hunks p = [] -> apply_patch o X p = Ok (mkAR X [] 0 false true [] (set_hunks (effective o p) [])).
Proof.
  intros H. unfold apply_patch, effective. destruct (reverse_patch_opt o).
  - cbn [reverse_patch hunks]. rewrite H. reflexivity.
  - rewrite H. reflexivity.
Qed.

(* ================= (0) the section ================= *)
(* what the section of a pure rename does: one open for reading; the directories of the new name; everything else is put
   off to the end of the run *)
Definition rename_section (st : dstate) (src dst out : list N) (mode : N) (s2 : stream) : M (dstate * stream) :=
  let! r := perform (OOpenRead src) in
  match r with
  | None => let! _ := ensure_parent_directories dst in mret (rename_state st out src dst mode, s2)
  | Some _ => mthrow ESystem
  end.

Lemma tail_rename_gen o st src dst mode (ar : aresult) s2 w :
  out_file_path o = [] -> dry_run o = false -> save_backup o = false ->
  r_failed ar = 0 -> r_skipped ar = false -> r_perfect ar = true -> r_msgs ar = [] ->
  pfmt (r_patch ar) = FGit -> poper (r_patch ar) = OpRename -> new_mode (r_patch ar) = 0%N ->
  (mode < 4096)%N ->
  section_tail o st src dst perms_unknown mode false ar s2 w =
  (let! _ := ensure_parent_directories dst in
   mret (rename_state st (lines_bytes (newline_output o) (r_out ar)) src dst mode, s2)) w.
Proof.
  intros O2 O3 O4 Rf Rs Rp Rm Pf Pop Pm Hm.
  unfold section_tail. rewrite Rf, Rs, Rp, Rm, Pm, O2, O3, O4, Pf, Pop.
  cbn [Nat.eqb negb andb orb is_nil].
  change (str_eqb [] (bs "-")) with false. cbv iota.
  rewrite mbind_eq. cbn [mret].
  assert (X : match remove_empty_files o with OBYes => false | _ => false end = false) by (destruct (remove_empty_files o); reflexivity).
  rewrite X. rewrite mbind_eq. cbn [mret].
  assert (Unk : N.eqb mode perms_unknown = false) by (apply N.eqb_neq; unfold perms_unknown; lia).
  change (is_symlink_mode 0) with false. change (negb (0 =? 0)%N) with false. cbv iota. rewrite Unk.
  rewrite mbind_eq. rewrite (mbind_eq (ensure_parent_directories dst)).
  rewrite (mbind_eq (ensure_parent_directories dst) _ w).
  destruct (ensure_parent_directories dst w) as [[[]|e] w1]; [|reflexivity].
  cbn [mret]. rewrite mbind_eq. cbn [andb deferred_writes add_event].
  rewrite existsb_app. cbn [existsb d_dest]. rewrite str_eqb_refl, orb_true_r. cbn [mret].
  reflexivity.
Qed.

(* the head of the section: src is seen (its directory can be searched) and is a regular file; dst is another name, which is
   not there.  Any number of directories in both names. *)
Lemma head_rename_gen o st p s w src dst data mode :
  file_to_patch o = [] ->
  guess_filepath (fs w) (map d_dest (deferred_writes st)) p o = src -> output_path o p src = dst ->
  deferred_writes st = [] ->
  lookup (fs w) src = Some (Reg data mode) -> parent_ok (fs w) src false = true -> (mode < 4096)%N ->
  lookup (fs w) dst = None -> src <> dst ->
  prereq p = [] -> poper p = OpRename -> src <> [] ->
  process_section o st false p s w =
  (let! r := perform (OOpenRead src) in
   match r with
   | None => let! ar := mlift (apply_patch o (split_lines data) p) in
             section_tail o st src dst perms_unknown mode false ar s
   | Some _ => mthrow ESystem
   end) w.
Proof.
  intros O1 G Out Dw Lf Pk Hm Lg Hne P3 Pop Hn.
  assert (St : stat (fs w) src = Some (Reg data mode)) by (unfold stat; rewrite Pk, Lf; reflexivity).
  pose proof (stat_absent _ _ Lg) as Sg.
  assert (Ex : exists_ (fs w) src = true) by (unfold exists_; rewrite St; reflexivity).
  assert (Rg : is_regular_file (fs w) src = true) by (unfold is_regular_file; rewrite St; reflexivity).
  unfold process_section. rewrite mbind_eq. cbn [get_fs]. rewrite O1. cbn [is_nil]. rewrite G.
  assert (Nn : is_nil src = false) by (destruct src; [congruence|reflexivity]). rewrite Nn.
  rewrite Ex, Rg. cbn [negb andb]. rewrite Out.
  assert (GP : get_permissions (fs w) src = mode) by (unfold get_permissions; rewrite St; apply land_small; exact Hm).
  assert (GQ : get_permissions (fs w) dst = perms_unknown) by (unfold get_permissions; rewrite Sg; reflexivity).
  assert (EP : effective_perms st (fs w) dst = perms_unknown) by (unfold effective_perms; rewrite Dw; cbn [rev find]; exact GQ).
  rewrite EP, unknown_not_needed. cbn [andb]. rewrite Pop. change (N.eqb perms_unknown perms_unknown) with true. cbn [andb].
  rewrite GP.
  assert (Ne : str_eqb src dst = false) by (apply str_eqb_neq; exact Hne).
  assert (PC : pending_content st (fs w) src dst = None) by (unfold pending_content; rewrite Ne; reflexivity).
  rewrite PC, Ne.
  assert (Ad : is_adding_file p o = false) by (unfold is_adding_file; rewrite Pop; reflexivity).
  rewrite Ad, St.
  rewrite mbind_eq. rewrite (mbind_eq (perform (OOpenRead src))). rewrite (mbind_eq (perform (OOpenRead src)) _ w).
  destruct (perform (OOpenRead src) w) as [[[e|]|ex] w1]; [| |reflexivity].
  - destruct e; reflexivity.
  - cbn [mret]. rewrite mbind_eq. rewrite P3. cbn [is_nil negb andb mret].
    unfold body_if. rewrite mbind_eq. cbn [mret]. reflexivity.
Qed.

(* the section of a pure rename, as apply_patch sees the record (effective o p: names and modes change places under -R) *)
Theorem section_pure_rename o p src dst st s w data mode :
  plain_options o ->
  pfmt p = FGit -> poper p = OpRename -> prereq p = [] -> hunks p = [] ->
  old_path (effective o p) = src -> new_path (effective o p) = dst -> new_mode (effective o p) = 0%N ->
  src <> dst -> src <> devnull -> src <> [] ->
  deferred_writes st = [] ->
  lookup (fs w) src = Some (Reg data mode) -> parent_ok (fs w) src false = true -> (mode < 4096)%N ->
  lookup (fs w) dst = None ->
  process_section o st false p s w = rename_section st src dst (rewritten o data) mode s w.
Proof.
  intros (O1 & O2 & O3 & O4 & O5 & O6 & O8) Pf Pop P3 Ph Po Pn Pm Hne Hd Hn Dw Lf Pk Hm Lg.
  assert (St : stat (fs w) src = Some (Reg data mode)) by (unfold stat; rewrite Pk, Lf; reflexivity).
  assert (Ex : exists_ (fs w) src = true) by (unfold exists_; rewrite St; reflexivity).
  assert (Eg : exists_ (fs w) dst = false) by (apply exists_none; exact Lg).
  assert (G : guess_filepath (fs w) (map d_dest (deferred_writes st)) p o = src).
  { rewrite Dw. cbn [map]. unfold guess_filepath. cbn [existsb]. rewrite !orb_false_r. apply str_eqb_neq in Hd.
    unfold effective in Po, Pn. destruct (reverse_patch_opt o); cbn [reverse_patch old_path new_path] in Po, Pn; rewrite Po, Pn.
    - rewrite Eg, andb_false_r, Hd, Ex. reflexivity.
    - rewrite Hd, Ex. reflexivity. }
  assert (Out : output_path o p src = dst).
  { unfold output_path. rewrite O2, Pop. cbn [is_nil negb]. unfold effective in Pn. destruct (reverse_patch_opt o); exact Pn. }
  rewrite (head_rename_gen o st p s w src dst data mode O1 G Out Dw Lf Pk Hm Lg Hne P3 Pop Hn).
  unfold rename_section. rewrite !(mbind_eq (perform (OOpenRead src))).
  destruct (perform (OOpenRead src) w) as [[[e|]|ex] w1]; [reflexivity| |reflexivity].
  rewrite mbind_eq. unfold mlift. rewrite (apply_no_hunks o _ p Ph).
  set (ar := mkAR (split_lines data) [] 0 false true [] (set_hunks (effective o p) [])).
  assert (Q1 : pfmt (r_patch ar) = FGit) by (unfold ar; cbn [r_patch set_hunks pfmt]; rewrite eff_pfmt; exact Pf).
  assert (Q2 : poper (r_patch ar) = OpRename).
  { unfold ar. cbn [r_patch set_hunks poper]. unfold effective. destruct (reverse_patch_opt o); cbn [reverse_patch poper]; rewrite Pop; reflexivity. }
  assert (Q3 : new_mode (r_patch ar) = 0%N) by exact Pm.
  rewrite (tail_rename_gen o st src dst mode ar s w1 O2 O3 O4 eq_refl eq_refl eq_refl eq_refl Q1 Q2 Q3 Hm).
  reflexivity.
Qed.
Print Assumptions section_pure_rename.

(* ================= (0) the end of the run ================= *)
Definition rename_finish (src dst out : list N) (mode : N) : M (nat * list N) :=
  let! _ := ensure_parent_directories dst in
  let! _ := checked (OWrite dst out) in
  let! _ := checked (OChmod dst mode) in
  let! _ := checked (OUnlink src) in
  let! _ := rmdir_parents (length src) src in
  mret (0, []).

Lemma finish_rename o src dst out mode w :
  src <> dst -> finish o (rename_state ds0 out src dst mode) w = rename_finish src dst out mode w.
Proof.
  intros Hne. unfold finish, rename_finish, rename_state, ds0.
  cbn [deferred_writes deferred_removals had_failure backed_up events app].
  unfold finalize_writes. cbn [finalize_writes_from d_dest finalize_removals existsb].
  assert (WB : with_backup_of [mkDef out dst true false None (Some mode)] (mkDef out dst true false None (Some mode)) =
               mkDef out dst true false None (Some mode)).
  { unfold with_backup_of. cbn [d_data d_dest d_newname d_backup d_chmod_first d_perm_after existsb orb]. rewrite andb_false_r. reflexivity. }
  rewrite WB.
  assert (Ne : str_eqb dst src = false) by (apply str_eqb_neq; intros E; apply Hne; symmetry; exact E).
  rewrite Ne. cbn [orb].
  unfold write_now. cbn [d_backup d_dest d_chmod_first d_data d_perm_after].
  unfold remove_file_and_empty_parent_folders.
  unfold mbind, mret, get_fs.
  destruct (ensure_parent_directories dst w) as [[[]|e] w1]; [|reflexivity].
  destruct (checked (OWrite dst out) w1) as [[[]|e] w2]; [|reflexivity].
  destruct (checked (OChmod dst mode) w2) as [[[]|e] w3]; [|reflexivity].
  destruct (checked (OUnlink src) w3) as [[[]|e] w4]; [|reflexivity].
  destruct (rmdir_parents (length src) src w4) as [[[]|e] w5]; reflexivity.
Qed.

(* ================= (0) the whole run ================= *)
Definition rename_prog (src dst out : list N) (mode : N) : M (nat * list N) :=
  let! r := perform (OOpenRead src) in
  match r with
  | None => let! _ := ensure_parent_directories dst in rename_finish src dst out mode
  | Some _ => mthrow ESystem
  end.

Definition eofs : stream := mkStream [] true false.

(* ---------- text after the four lines: what git format-patch appends ("-- ", the version, an empty line), or anything
   else that the header scan passes over and that is not the range line of a hunk ---------- *)
Definition Trailing (strip : Z) (line : list N) : Prop :=
  clean line /\
  (forall oldn newn n first, header_step strip (gs_at (renamed FUnified oldn newn) n first) line =
                             Ok (inl (gs_at (renamed FUnified oldn newn) (S n) first))) /\
  (forall h0, fst (parse_unified_range h0 line) = false).

(* how to check it for a given line: the second part is a computation *)
Lemma trailing_check strip line :
  clean line -> consume_str (bs "@@ -") line = None ->
  (forall oldn newn n first, header_step strip (gs_at (renamed FUnified oldn newn) n first) line =
                             Ok (inl (gs_at (renamed FUnified oldn newn) (S n) first))) -> Trailing strip line.
Proof. intros H1 H2 H3. split; [exact H1|]. split; [exact H3|]. apply not_range_line. exact H2. Qed.

Lemma scan_all_app strip : forall a b st,
  scan_all strip st (a ++ b) = match scan_all strip st a with Some st1 => scan_all strip st1 b | None => None end.
Proof.
  induction a as [|l a IH]; intros b st; cbn [app scan_all]; [reflexivity|].
  destruct (header_step strip st l) as [[st1|st1]|e]; try reflexivity. apply IH.
Qed.

Lemma scan_all_trailing strip oldn newn : forall tl n first, Forall (Trailing strip) tl ->
  scan_all strip (gs_at (renamed FUnified oldn newn) n first) tl = Some (gs_at (renamed FUnified oldn newn) (length tl + n) first).
Proof.
  induction tl as [|l tl IH]; intros n first HT; [reflexivity|]. inversion HT as [|? ? (_ & T1 & _) T2]; subst.
  cbn [scan_all]. rewrite T1. rewrite (IH (S n) first T2). cbn [length]. replace (length tl + S n) with (S (length tl) + n) by lia. reflexivity.
Qed.

Lemma trailing_loop strip : forall tl fuel le, Forall (Trailing strip) tl -> length tl < fuel ->
  unified_loop fuel (strm (join_lines tl)) [] None le = Ok ([], eofs).
Proof.
  induction tl as [|l tl IH]; intros fuel le HT L; (destruct fuel as [|fuel]; [cbn [length] in L; lia|]).
  - cbn [join_lines flat_map unified_loop]. unfold strm. rewrite sget_line_end. reflexivity.
  - inversion HT as [|? ? (C1 & _ & T3) T2]; subst.
    cbn [join_lines flat_map]. rewrite <- app_assoc. cbn [app unified_loop]. unfold strm at 1. rewrite (sget_line_lf _ _ C1).
    specialize (T3 empty_hunk). destruct (parse_unified_range empty_hunk l) as [ok h]. cbn [fst] in T3. subst ok.
    fold (join_lines tl). change (mkStream (join_lines tl) false false) with (strm (join_lines tl)).
    apply IH; [exact T2|cbn [length] in L; lia].
Qed.

Lemma trailing_body strip tl q :
  Forall (Trailing strip) tl -> pfmt q = FGit -> hunks q = [] -> parse_patch_body q (strm (join_lines tl)) = Ok (set_hunks q [], eofs).
Proof.
  intros HT H1 H2. unfold parse_patch_body, parse_unified_patch. rewrite H1, H2.
  rewrite (trailing_loop strip tl _ _ HT); [reflexivity|]. cbn [rest strm]. pose proof (join_lines_length tl). lia.
Qed.

(* the header scan of a pure rename with such text after it: the same record; the body (no hunk) is still to be parsed, and
   the stream is left on the text *)
Theorem git_rename_scan_trailing strip f fl tl g gn sim rfrom oldn rto newn :
  Forall (Filler strip (empty_patch f)) fl -> Forall clean fl -> Forall (Trailing strip) tl ->
  parse_git_header_name strip g = Ok gn ->
  git_ext_filename strip (bs "a/") rfrom = Ok oldn -> git_ext_filename strip (bs "b/") rto = Ok newn ->
  clean (bs "diff --git " ++ g) -> clean (bs "similarity index " ++ sim) -> clean (bs "rename from " ++ rfrom) -> clean (bs "rename to " ++ rto) ->
  parse_patch_header_full (empty_patch f) strip (strm (join_lines (fl ++ rename_lines g sim rfrom rto ++ tl))) =
  Ok (true, renamed FGit oldn newn, strm (join_lines tl), true).
Proof.
  intros HF HC HT Hg Ho Hn C1 C2 C3 C4.
  set (ls := fl ++ rename_lines g sim rfrom rto ++ tl).
  assert (Len : length (fl ++ rename_lines g sim rfrom rto) = length fl + 4) by (rewrite app_length; reflexivity).
  assert (Cl : Forall clean ls).
  { unfold ls. apply Forall_app. split; [exact HC|]. apply Forall_app. split; [apply rename_lines_clean; assumption|].
    apply Forall_forall. intros l I. rewrite Forall_forall in HT. apply (HT l I). }
  assert (Sc : scan_all strip (st0 (empty_patch f)) ls =
               Some (gs_at (renamed FUnified oldn newn) (length tl + (length fl + 4)) (S (length fl + 4)))).
  { unfold ls. rewrite app_assoc, scan_all_app.
    rewrite (scan_all_rename strip f fl g gn sim rfrom oldn rto newn HF Hg Ho Hn). apply scan_all_trailing. exact HT. }
  rewrite (header_eof strip (empty_patch f) ls _ Cl Sc).
  - unfold gs_at. cbn [h_first h_body Nat.sub Nat.eqb negb]. rewrite Nat.sub_0_r.
    unfold ls. rewrite app_assoc, <- Len, skipn_app, skipn_all, Nat.sub_diag. cbn [skipn app]. reflexivity.
  - unfold gs_at. cbn [h_first]. unfold ls. rewrite !app_length. cbn [length rename_lines]. lia.
Qed.
Print Assumptions git_rename_scan_trailing.

(* the names the run reads and writes: under -R the two names of the header change places *)
Definition rename_src (o : options) (oldn newn : list N) : list N := if reverse_patch_opt o then newn else oldn.
Definition rename_dst (o : options) (oldn newn : list N) : list N := if reverse_patch_opt o then oldn else newn.

(* what is asked of the tree for the run to BE rename_prog: the file to move is a regular file that can be seen, the name
   it is to get is not there *)
Definition rename_ready (m : fsmap) (src dst data : list N) (mode : N) : Prop :=
  src <> dst /\ src <> devnull /\ src <> [] /\
  lookup m src = Some (Reg data mode) /\ parent_ok m src false = true /\ (mode < 4096)%N /\ lookup m dst = None.

Theorem pure_rename_program_gen o f0 fl tl g gn sim rfrom oldn rto newn w data mode :
  plain_options o -> format_from_options o = Ok f0 ->
  Forall (Filler (strip_size o) (empty_patch f0)) fl -> Forall clean fl -> Forall (Trailing (strip_size o)) tl ->
  parse_git_header_name (strip_size o) g = Ok gn ->
  git_ext_filename (strip_size o) (bs "a/") rfrom = Ok oldn -> git_ext_filename (strip_size o) (bs "b/") rto = Ok newn ->
  clean (bs "diff --git " ++ g) -> clean (bs "similarity index " ++ sim) -> clean (bs "rename from " ++ rfrom) -> clean (bs "rename to " ++ rto) ->
  rename_ready (fs w) (rename_src o oldn newn) (rename_dst o oldn newn) data mode ->
  process_patch o (join_lines (fl ++ rename_lines g sim rfrom rto ++ tl)) w =
  rename_prog (rename_src o oldn newn) (rename_dst o oldn newn) (rewritten o data) mode w.
Proof.
  intros Hplain Hfo HF HC HT Hg Ho Hn C1 C2 C3 C4 (Hne & Hd & Hnn & Lf & Pk & Hm & Lg).
  set (src := rename_src o oldn newn) in *. set (dst := rename_dst o oldn newn) in *.
  set (p := renamed FGit oldn newn). set (out := rewritten o data).
  set (text := join_lines (fl ++ rename_lines g sim rfrom rto ++ tl)).
  set (s1 := strm (join_lines tl)).
  assert (Hh : parse_patch_header_full (empty_patch f0) (strip_size o) (stream_of text) = Ok (true, p, s1, true)).
  { change (stream_of text) with (strm text). unfold text.
    exact (git_rename_scan_trailing (strip_size o) f0 fl tl g gn sim rfrom oldn rto newn HF HC HT Hg Ho Hn C1 C2 C3 C4). }
  assert (E1 : process_section o ds0 true p s1 w = process_section o ds0 false p eofs w).
  { change p with (set_hunks p []) at 2. apply process_section_parsed; [reflexivity|]. intros q Q1 Q2.
    apply (trailing_body (strip_size o)); assumption. }
  assert (ES : process_section o ds0 true p s1 w = rename_section ds0 src dst out mode eofs w).
  { rewrite E1. apply section_pure_rename; try assumption; try reflexivity.
    - unfold effective, src, rename_src. destruct (reverse_patch_opt o); reflexivity.
    - unfold effective, dst, rename_dst. destruct (reverse_patch_opt o); reflexivity.
    - unfold effective. destruct (reverse_patch_opt o); reflexivity. }
  assert (Nf : (if negb true && true then FUnknown else pfmt p) <> FUnknown) by (cbn; discriminate).
  assert (Nb : poper p <> OpBinary) by (cbn; discriminate).
  unfold rename_prog. unfold rename_section in ES. rewrite mbind_eq in ES. rewrite mbind_eq.
  destruct (perform (OOpenRead src) w) as [[[e|]|ex] w1].
  - exact (process_patch_first_throws o f0 text true p s1 true ESystem w w1 Hfo Hh Nf Nb ES).
  - rewrite mbind_eq in ES. rewrite mbind_eq.
    destruct (ensure_parent_directories dst w1) as [[[]|e] w2].
    + cbn [mret] in ES.
      rewrite (process_patch_one_section o f0 text true p s1 true _ eofs w w2 Hfo Hh Nf Nb ES eq_refl).
      apply finish_rename. exact Hne.
    + exact (process_patch_first_throws o f0 text true p s1 true e w w2 Hfo Hh Nf Nb ES).
  - exact (process_patch_first_throws o f0 text true p s1 true ex w w1 Hfo Hh Nf Nb ES).
Qed.
Print Assumptions pure_rename_program_gen.

(* ================= the tree: making and removing directories ================= *)
Definition dir_mode (um : N) : N := N.land 511 (N.lxor 4095 (N.land um 4095)).

(* ensure_parent_directories on the tree: a directory that is there is left alone (whatever it is), one that is not is made
   when the directory it goes in can be searched and written; otherwise the run stops *)
Fixpoint mkdirs_fs (m : fsmap) (um : N) (ds : list (list N)) : option fsmap :=
  match ds with
  | [] => Some m
  | d :: r => match lookup m d with
              | Some _ => mkdirs_fs m um r
              | None => if parent_ok m d true then mkdirs_fs (upd m d (Dir (dir_mode um))) um r else None
              end
  end.

(* remove_file_and_empty_parent_folders after the unlink: the directory the file was in is removed when nothing is left in
   it, then the one above, and so on; the first that is not empty stops the walk, and so does "." (never given to rmdir).
   rmdir is refused (and the run stops with
   an exception) when the directory ABOVE the one looked at cannot be written -- even when the one looked at is not empty *)
Fixpoint rmdirs_fs (fuel : nat) (m : fsmap) (p : list N) : option fsmap :=
  match fuel with
  | O => Some m
  | S f =>
      match parent p with
      | None => Some m
      | Some [] => Some m
      | Some d => if str_eqb d [46%N] then Some m       (* "." is where the run stands: the walk stops there *)
                  else if parent_ok m d true then
                    match lookup m d with
                    | Some (Dir _) => if has_children m d then Some m else rmdirs_fs f (remove_key m d) d
                    | _ => None
                    end
                  else None
      end
  end.

Lemma perform_err_run op w e :
  fault w = None -> exec_op (fs w) (umask w) op = inr e ->
  perform op w = (Ok (Some e), mkWorld (fs w) (umask w) (trace w ++ [op]) None (stdout_data w)).
Proof. intros F E. unfold perform. rewrite F, E. reflexivity. Qed.

Lemma mkdirs_run : forall ds w m1,
  fault w = None -> mkdirs_fs (fs w) (umask w) ds = Some m1 ->
  exists w', mkdirs ds w = (Ok tt, w') /\ fs w' = m1 /\ fault w' = None /\ umask w' = umask w.
Proof.
  induction ds as [|d r IH]; intros w m1 Fw H; cbn [mkdirs_fs mkdirs] in *.
  - inversion H; subst. exists w. repeat split; assumption.
  - rewrite mbind_eq. destruct (lookup (fs w) d) as [n|] eqn:L.
    + rewrite (perform_err_run (OMkdir d) w EEXIST Fw) by (cbn [exec_op]; rewrite L; reflexivity).
      match goal with |- context [mkdirs r ?w2] => destruct (IH w2 m1 eq_refl H) as (w' & E & F1 & F2 & F3) end.
      exists w'. split; [exact E|]. split; [exact F1|]. split; [exact F2|exact F3].
    + destruct (parent_ok (fs w) d true) eqn:P; [|discriminate].
      rewrite (perform_ok_run (OMkdir d) w (upd (fs w) d (Dir (dir_mode (umask w)))) Fw) by (cbn [exec_op]; rewrite L, P; reflexivity).
      match goal with |- context [mkdirs r ?w2] => destruct (IH w2 m1 eq_refl H) as (w' & E & F1 & F2 & F3) end.
      exists w'. split; [exact E|]. split; [exact F1|]. split; [exact F2|exact F3].
Qed.

Lemma ensure_run dst w m1 :
  dst <> [] -> fault w = None -> mkdirs_fs (fs w) (umask w) (dir_prefixes dst []) = Some m1 ->
  exists w', ensure_parent_directories dst w = (Ok tt, w') /\ fs w' = m1 /\ fault w' = None /\ umask w' = umask w.
Proof.
  intros Hn Fw H. unfold ensure_parent_directories. destruct dst as [|c r]; [congruence|]. cbn [is_nil].
  apply mkdirs_run; assumption.
Qed.

Lemma rmdirs_run : forall fuel w p m',
  fault w = None -> rmdirs_fs fuel (fs w) p = Some m' ->
  exists w', rmdir_parents fuel p w = (Ok tt, w') /\ fs w' = m' /\ fault w' = None /\ umask w' = umask w.
Proof.
  induction fuel as [|f IH]; intros w p m' Fw H; cbn [rmdirs_fs rmdir_parents] in *.
  - inversion H; subst. exists w. repeat split; assumption.
  - destruct (parent p) as [[|c d]|].
    + inversion H; subst. exists w. repeat split; assumption.
    + destruct (str_eqb (c :: d) [46%N]); [inversion H; subst; exists w; repeat split; assumption|].
      destruct (parent_ok (fs w) (c :: d) true) eqn:P; [|discriminate].
      destruct (lookup (fs w) (c :: d)) as [[x y|y|t|y]|] eqn:L; try discriminate.
      rewrite mbind_eq. destruct (has_children (fs w) (c :: d)) eqn:Hc.
      * inversion H; subst.
        rewrite (perform_err_run (ORmdir (c :: d)) w ENOTEMPTY Fw) by (cbn [exec_op]; rewrite P, L, Hc; reflexivity).
        eexists. split; [reflexivity|]. repeat split; reflexivity.
      * rewrite (perform_ok_run (ORmdir (c :: d)) w (remove_key (fs w) (c :: d)) Fw) by (cbn [exec_op]; rewrite P, L, Hc; reflexivity).
        match goal with |- context [rmdir_parents f _ ?w2] => destruct (IH w2 (c :: d) m' eq_refl H) as (w' & E & F1 & F2 & F3) end.
        exists w'. split; [exact E|]. split; [exact F1|]. split; [exact F2|exact F3].
    + inversion H; subst. exists w. repeat split; assumption.
Qed.

(* ---------- facts about the tree ---------- *)
Lemma parent_ok_write_search m p : parent_ok m p true = true -> parent_ok m p false = true.
Proof.
  unfold parent_ok. destruct (parent p) as [[|c d]|]; auto.
  destruct (lookup m (c :: d)) as [[x y|y|t|y]|]; try discriminate.
  intros H. apply andb_true_iff in H. destruct H as [H _]. rewrite H. reflexivity.
Qed.

Lemma extends_upd_absent m q n : lookup m q = None -> extends m (upd m q n).
Proof.
  intros H k x L. destruct (str_eqb q k) eqn:E.
  - apply str_eqb_eq in E. subst. congruence.
  - apply str_eqb_neq in E. rewrite lookup_upd_other by exact E. exact L.
Qed.

Lemma lookup_upd_upd m p a b q : lookup (upd (upd m p a) p b) q = lookup (upd m p b) q.
Proof.
  destruct (str_eqb p q) eqn:E.
  - apply str_eqb_eq in E. subst. rewrite !lookup_upd_same. reflexivity.
  - apply str_eqb_neq in E. rewrite !lookup_upd_other by exact E. reflexivity.
Qed.

Lemma parent_ok_same m m' p nw : (forall q, lookup m q = lookup m' q) -> parent_ok m p nw = parent_ok m' p nw.
Proof. intros H. unfold parent_ok. destruct (parent p) as [[|c d]|]; auto. rewrite H. reflexivity. Qed.

Lemma is_ancestor_neq d p : is_ancestor d p -> d <> p.
Proof. intros (r & E) ->. apply (f_equal (@length N)) in E. rewrite app_length in E. cbn [length] in E. lia. Qed.

(* -- mkdirs_fs -- *)
Lemma mkdirs_fs_extends : forall ds m um m1, mkdirs_fs m um ds = Some m1 -> extends m m1.
Proof.
  induction ds as [|d r IH]; intros m um m1 H; cbn [mkdirs_fs] in H.
  - inversion H; subst. apply extends_refl.
  - destruct (lookup m d) as [n|] eqn:L; [exact (IH _ _ _ H)|].
    destruct (parent_ok m d true); [|discriminate].
    eapply extends_trans; [apply (extends_upd_absent m d (Dir (dir_mode um)) L)|exact (IH _ _ _ H)].
Qed.

Lemma mkdirs_fs_other : forall ds m um m1 q, mkdirs_fs m um ds = Some m1 -> ~ In q ds -> lookup m1 q = lookup m q.
Proof.
  induction ds as [|d r IH]; intros m um m1 q H Hq; cbn [mkdirs_fs] in H.
  - inversion H; subst. reflexivity.
  - assert (Hq1 : d <> q) by (intros ->; apply Hq; left; reflexivity).
    assert (Hq2 : ~ In q r) by (intros I; apply Hq; right; exact I).
    destruct (lookup m d) as [n|] eqn:L; [exact (IH _ _ _ _ H Hq2)|].
    destruct (parent_ok m d true); [|discriminate].
    rewrite (IH _ _ _ _ H Hq2). apply lookup_upd_other. exact Hq1.
Qed.

(* what is at a directory name of the list afterwards: what was there, or a new directory *)
Definition or_made (um : N) (x : option node) : option node := match x with Some n => Some n | None => Some (Dir (dir_mode um)) end.

Lemma mkdirs_fs_made : forall ds m um m1 q, mkdirs_fs m um ds = Some m1 -> In q ds -> lookup m1 q = or_made um (lookup m q).
Proof.
  induction ds as [|d r IH]; intros m um m1 q H Hq; cbn [mkdirs_fs] in H; [destruct Hq|].
  assert (Step : forall m', mkdirs_fs m' um r = Some m1 -> lookup m' d = or_made um (lookup m d) ->
                 (d <> q -> lookup m' q = lookup m q) -> lookup m1 q = or_made um (lookup m q)).
  { intros m' H' Ld Lo. destruct (str_eqb d q) eqn:E.
    - apply str_eqb_eq in E. subst q.
      assert (X : exists n, or_made um (lookup m d) = Some n) by (clear; destruct (lookup m d); eexists; reflexivity).
      destruct X as [n Hn]. rewrite Hn in Ld |- *. exact (mkdirs_fs_extends _ _ _ _ H' _ _ Ld).
    - apply str_eqb_neq in E. destruct Hq as [Hq|Hq]; [contradiction|].
      rewrite (IH _ _ _ _ H' Hq). rewrite (Lo E). reflexivity. }
  destruct (lookup m d) as [n|] eqn:L.
  - apply (Step m H); [rewrite L; reflexivity|reflexivity].
  - destruct (parent_ok m d true); [|discriminate].
    apply (Step _ H); [rewrite lookup_upd_same; reflexivity|intros E; apply lookup_upd_other; exact E].
Qed.

Lemma mkdirs_fs_present : forall ds m um, (forall d, In d ds -> lookup m d <> None) -> mkdirs_fs m um ds = Some m.
Proof.
  induction ds as [|d r IH]; intros m um H; cbn [mkdirs_fs]; [reflexivity|].
  destruct (lookup m d) eqn:L; [|exfalso; apply (H d); [left; reflexivity|exact L]].
  apply IH. intros x I. apply H. right. exact I.
Qed.

Lemma mkdirs_fs_again ds m um m1 : mkdirs_fs m um ds = Some m1 -> mkdirs_fs m1 um ds = Some m1.
Proof.
  intros H. apply mkdirs_fs_present. intros d I. rewrite (mkdirs_fs_made _ _ _ _ _ H I).
  destruct (lookup m d); discriminate.
Qed.

(* -- has_children -- *)
Lemma starts_with_prefix : forall p x, starts_with (p ++ x) p = true.
Proof. induction p as [|c p IH]; intros x; cbn [app starts_with]; [apply starts_with_nil|]. rewrite N.eqb_refl, IH. reflexivity. Qed.

Lemma has_children_remove : forall m d q, has_children m q = false -> has_children (remove_key m d) q = false.
Proof.
  unfold has_children. induction m as [|[k n] r IH]; intros d q H; [reflexivity|].
  cbn [existsb fst] in H. apply orb_false_iff in H. destruct H as [H1 H2].
  cbn [remove_key]. destruct (str_eqb k d); [exact (IH _ _ H2)|].
  cbn [existsb fst]. rewrite H1, (IH _ _ H2). reflexivity.
Qed.

Lemma has_children_lookup : forall m d p n, lookup m p = Some n -> is_ancestor d p -> has_children m d = true.
Proof.
  unfold has_children. induction m as [|[k x] r IH]; intros d p n L A; [discriminate|].
  cbn [lookup] in L. cbn [existsb fst]. destruct (str_eqb k p) eqn:E.
  - apply str_eqb_eq in E. subst k. destruct A as (t & ->).
    change (d ++ 47%N :: t) with (d ++ [47%N] ++ t). rewrite app_assoc, starts_with_prefix. reflexivity.
  - rewrite (IH _ _ _ L A). apply orb_true_r.
Qed.

(* -- rmdirs_fs -- *)
Lemma rmdirs_fs_children : forall fuel m p m' q, rmdirs_fs fuel m p = Some m' -> has_children m q = false -> has_children m' q = false.
Proof.
  induction fuel as [|f IH]; intros m p m' q H Hc; cbn [rmdirs_fs] in H; [inversion H; subst; exact Hc|].
  destruct (parent p) as [[|c d]|]; try (inversion H; subst; exact Hc).
  destruct (str_eqb (c :: d) [46%N]); [inversion H; subst; exact Hc|].
  destruct (parent_ok m (c :: d) true); [|discriminate].
  destruct (lookup m (c :: d)) as [[x y|y|t|y]|]; try discriminate.
  destruct (has_children m (c :: d)); [inversion H; subst; exact Hc|].
  apply (IH _ _ _ _ H). apply has_children_remove. exact Hc.
Qed.

(* every entry is as it was, or it was a directory above p that is now gone, nothing being left in it *)
Lemma rmdirs_fs_lookup : forall fuel m p m' q, rmdirs_fs fuel m p = Some m' ->
  lookup m' q = lookup m q \/
  (lookup m' q = None /\ (exists md, lookup m q = Some (Dir md)) /\ is_ancestor q p /\ has_children m' q = false).
Proof.
  induction fuel as [|f IH]; intros m p m' q H; cbn [rmdirs_fs] in H; [inversion H; subst; left; reflexivity|].
  destruct (parent p) as [[|c d]|] eqn:Par; try (inversion H; subst; left; reflexivity).
  destruct (str_eqb (c :: d) [46%N]); [inversion H; subst; left; reflexivity|].
  destruct (parent_ok m (c :: d) true); [|discriminate].
  destruct (lookup m (c :: d)) as [[x y|y|t|y]|] eqn:L; try discriminate.
  destruct (has_children m (c :: d)) eqn:Hc; [inversion H; subst; left; reflexivity|].
  pose proof (parent_ancestor _ _ Par) as Anc.
  destruct (IH _ _ _ q H) as [E|(E1 & (md & E2) & E3 & E4)].
  - destruct (str_eqb (c :: d) q) eqn:Eq.
    + apply str_eqb_eq in Eq. subst q. right. rewrite E, lookup_remove_same. split; [reflexivity|]. split; [exists y; exact L|].
      split; [exact Anc|]. apply (rmdirs_fs_children _ _ _ _ _ H). apply has_children_remove. exact Hc.
    + apply str_eqb_neq in Eq. left. rewrite E. apply lookup_remove_other. exact Eq.
  - destruct (str_eqb (c :: d) q) eqn:Eq.
    + apply str_eqb_eq in Eq. subst q. rewrite lookup_remove_same in E2. discriminate.
    + apply str_eqb_neq in Eq. rewrite lookup_remove_other in E2 by exact Eq. right. split; [exact E1|]. split; [exists md; exact E2|].
      split; [exact (is_ancestor_trans _ _ _ E3 Anc)|exact E4].
Qed.

Lemma rmdirs_fs_other fuel m p m' q : rmdirs_fs fuel m p = Some m' -> ~ is_ancestor q p -> lookup m' q = lookup m q.
Proof. intros H Hq. destruct (rmdirs_fs_lookup _ _ _ _ q H) as [E|(_ & _ & A & _)]; [exact E|contradiction]. Qed.

Lemma rmdirs_fs_file fuel m p m' q d mode : rmdirs_fs fuel m p = Some m' -> lookup m q = Some (Reg d mode) -> lookup m' q = Some (Reg d mode).
Proof. intros H L. destruct (rmdirs_fs_lookup _ _ _ _ q H) as [E|(_ & (md & E) & _)]; [rewrite E; exact L|congruence]. Qed.

(* a directory that still holds something stays *)
Lemma rmdirs_fs_above fuel m p m' q x n : rmdirs_fs fuel m p = Some m' -> lookup m' x = Some n -> is_ancestor q x -> lookup m' q = lookup m q.
Proof.
  intros H L A. destruct (rmdirs_fs_lookup _ _ _ _ q H) as [E|(_ & _ & _ & Hc)]; [exact E|].
  rewrite (has_children_lookup _ _ _ _ L A) in Hc. discriminate.
Qed.

(* ================= (1) the run without a failure ================= *)
Lemma prefixes_above dst d : In d (dir_prefixes dst []) -> is_ancestor d dst.
Proof. intros I. destruct (dir_prefixes_ancestor _ _ _ I) as (r & E). exists r. exact E. Qed.

Lemma not_own_prefix dst : ~ In dst (dir_prefixes dst []).
Proof. intros I. exact (is_ancestor_neq _ _ (prefixes_above _ _ I) eq_refl). Qed.

(* the tree once the new name is written and the old one unlinked, m1 being the tree with the directories of the new name *)
Definition moved (m1 : fsmap) (um : N) (src dst out : list N) (mode : N) : fsmap :=
  remove_key (upd (upd m1 dst (Reg out (created_mode um))) dst (Reg out mode)) src.

Theorem rename_prog_runs src dst out mode w data m1 m4 :
  fault w = None -> src <> dst -> dst <> [] ->
  lookup (fs w) src = Some (Reg data mode) -> parent_ok (fs w) src true = true -> owner_r mode = true ->
  lookup (fs w) dst = None ->
  mkdirs_fs (fs w) (umask w) (dir_prefixes dst []) = Some m1 ->
  parent_ok m1 dst true = true ->
  rmdirs_fs (length src) (moved m1 (umask w) src dst out mode) src = Some m4 ->
  exists w', rename_prog src dst out mode w = (Ok (0, []), w') /\ fs w' = m4 /\ fault w' = None /\ umask w' = umask w.
Proof.
  intros Fw Hne Hn Lf Pk Hr Lg Hmk Pd Hrm.
  pose proof (parent_ok_write_search _ _ Pk) as Pk0.
  assert (St : stat (fs w) src = Some (Reg data mode)) by (unfold stat; rewrite Pk0, Lf; reflexivity).
  pose proof (mkdirs_fs_extends _ _ _ _ Hmk) as Ext.
  assert (Lg1 : lookup m1 dst = None) by (rewrite (mkdirs_fs_other _ _ _ _ dst Hmk (not_own_prefix dst)); exact Lg).
  unfold rename_prog. rewrite mbind_eq.
  rewrite (perform_ok_run (OOpenRead src) w (fs w) Fw) by (cbn [exec_op]; rewrite St, Hr; reflexivity).
  set (w1 := mkWorld (fs w) (umask w) (trace w ++ [OOpenRead src]) None (stdout_data w)).
  destruct (ensure_run dst w1 m1 Hn eq_refl Hmk) as (w2 & E2 & F2 & A2 & U2).
  rewrite mbind_eq, E2. unfold rename_finish.
  assert (Hmk2 : mkdirs_fs (fs w2) (umask w2) (dir_prefixes dst []) = Some m1).
  { rewrite F2, U2. exact (mkdirs_fs_again _ _ _ _ Hmk). }
  destruct (ensure_run dst w2 m1 Hn A2 Hmk2) as (w3 & E3 & F3 & A3 & U3).
  rewrite mbind_eq, E3.
  (* the write *)
  set (ma := upd m1 dst (Reg out (created_mode (umask w)))).
  assert (E4 : exec_op (fs w3) (umask w3) (OWrite dst out) = inl ma).
  { cbn [exec_op]. rewrite F3, Lg1, Pd, U3, U2. reflexivity. }
  rewrite mbind_eq, (checked_ok_run _ w3 ma A3 E4).
  set (w4 := mkWorld ma (umask w3) (trace w3 ++ [OWrite dst out]) None (stdout_data w3)).
  (* the permissions *)
  set (mb := upd ma dst (Reg out mode)).
  assert (Exa : extends m1 ma) by (apply extends_upd_absent; exact Lg1).
  assert (E5 : exec_op (fs w4) (umask w4) (OChmod dst mode) = inl mb).
  { cbn [exec_op fs w4]. rewrite (parent_ok_extends _ _ _ _ Exa (parent_ok_write_search _ _ Pd)). cbn [negb].
    unfold ma at 1. rewrite lookup_upd_same. reflexivity. }
  rewrite mbind_eq, (checked_ok_run _ w4 mb eq_refl E5).
  set (w5 := mkWorld mb (umask w4) (trace w4 ++ [OChmod dst mode]) None (stdout_data w4)).
  (* the unlink *)
  assert (Lb : forall q, q <> dst -> lookup mb q = lookup m1 q).
  { intros q Hq. unfold mb, ma. rewrite !lookup_upd_other by (intros E; apply Hq; symmetry; exact E). reflexivity. }
  assert (Pb : parent_ok mb src true = true).
  { assert (Exb : extends m1 (upd m1 dst (Reg out mode))) by (apply extends_upd_absent; exact Lg1).
    rewrite (parent_ok_same mb (upd m1 dst (Reg out mode))) by (intros q; apply lookup_upd_upd).
    apply (parent_ok_extends _ _ _ _ Exb). apply (parent_ok_extends _ _ _ _ Ext). exact Pk. }
  assert (Ls : lookup mb src = Some (Reg data mode)) by (rewrite (Lb src Hne); apply Ext; exact Lf).
  assert (E6 : exec_op (fs w5) (umask w5) (OUnlink src) = inl (remove_key mb src)).
  { cbn [exec_op fs w5]. rewrite Pb, Ls. reflexivity. }
  rewrite mbind_eq, (checked_ok_run _ w5 _ eq_refl E6).
  set (w6 := mkWorld (remove_key mb src) (umask w5) (trace w5 ++ [OUnlink src]) None (stdout_data w5)).
  (* the directories *)
  assert (Hrm6 : rmdirs_fs (length src) (fs w6) src = Some m4) by exact Hrm.
  destruct (rmdirs_run (length src) w6 src m4 eq_refl Hrm6) as (w7 & E7 & F7 & A7 & U7).
  rewrite mbind_eq, E7. cbn [mret].
  exists w7. split; [reflexivity|]. split; [exact F7|]. split; [exact A7|].
  rewrite U7. cbn [umask w6 w5 w4]. rewrite U3, U2. reflexivity.
Qed.
Print Assumptions rename_prog_runs.

(* what the tree is afterwards, entry by entry *)
Definition untouched_or_emptied (m m4 : fsmap) (q : list N) : Prop :=
  lookup m4 q = lookup m q \/
  (lookup m4 q = None /\ (exists md, lookup m q = Some (Dir md)) /\ has_children m4 q = false).

Theorem moved_tree m um src dst out mode m1 m4 :
  src <> dst -> lookup m dst = None ->
  mkdirs_fs m um (dir_prefixes dst []) = Some m1 ->
  rmdirs_fs (length src) (moved m1 um src dst out mode) src = Some m4 ->
  lookup m4 dst = Some (Reg out mode) /\
  lookup m4 src = None /\
  (forall q, In q (dir_prefixes dst []) -> q <> src -> lookup m4 q = or_made um (lookup m q)) /\
  (forall q, q <> src -> q <> dst -> ~ In q (dir_prefixes dst []) -> ~ is_ancestor q src -> lookup m4 q = lookup m q) /\
  (forall q, q <> dst -> ~ In q (dir_prefixes dst []) -> is_ancestor q src -> untouched_or_emptied m m4 q).
Proof.
  intros Hne Lg Hmk Hrm.
  assert (Lm : forall q, q <> src -> q <> dst -> lookup (moved m1 um src dst out mode) q = lookup m1 q).
  { intros q H1 H2. unfold moved. rewrite lookup_remove_other by (intros E; apply H1; symmetry; exact E).
    rewrite !lookup_upd_other by (intros E; apply H2; symmetry; exact E). reflexivity. }
  assert (Ld : lookup (moved m1 um src dst out mode) dst = Some (Reg out mode)).
  { unfold moved. rewrite lookup_remove_other by exact Hne. apply lookup_upd_same. }
  assert (A : lookup m4 dst = Some (Reg out mode)) by exact (rmdirs_fs_file _ _ _ _ _ _ _ Hrm Ld).
  split; [exact A|]. split.
  { destruct (rmdirs_fs_lookup _ _ _ _ src Hrm) as [E|(E & _)]; [|exact E]. rewrite E. unfold moved. apply lookup_remove_same. }
  split.
  { intros q I Hs. assert (Hd : q <> dst) by (intros ->; exact (not_own_prefix dst I)).
    rewrite (rmdirs_fs_above _ _ _ _ q dst _ Hrm A (prefixes_above _ _ I)). rewrite (Lm q Hs Hd).
    exact (mkdirs_fs_made _ _ _ _ _ Hmk I). }
  split.
  { intros q H1 H2 H3 H4. rewrite (rmdirs_fs_other _ _ _ _ q Hrm H4), (Lm q H1 H2). exact (mkdirs_fs_other _ _ _ _ q Hmk H3). }
  intros q H2 H3 H4. assert (H1 : q <> src) by exact (is_ancestor_neq _ _ H4).
  assert (E0 : lookup (moved m1 um src dst out mode) q = lookup m q) by (rewrite (Lm q H1 H2); exact (mkdirs_fs_other _ _ _ _ q Hmk H3)).
  destruct (rmdirs_fs_lookup _ _ _ _ q Hrm) as [E|(E1 & (md & E2) & _ & E4)].
  - left. rewrite E. exact E0.
  - right. split; [exact E1|]. split; [exists md; rewrite <- E0; exact E2|exact E4].
Qed.
Print Assumptions moved_tree.

(* ================= (2) whatever fails ================= *)
(* triples over the tree alone: from a tree in P, m ends normally in a tree in Q or with an exception in a tree in E --
   whatever failure is pending in the world (none, or the k-th operation from now, any k) *)
Definition Tri {A} (P : fsmap -> Prop) (m : M A) (Q : A -> fsmap -> Prop) (E : fsmap -> Prop) : Prop :=
  forall w, P (fs w) -> match m w with (Ok a, w') => Q a (fs w') | (Throw _, w') => E (fs w') end.

Lemma Tri_ret {A} (P : fsmap -> Prop) (a : A) (Q : A -> fsmap -> Prop) E : (forall m, P m -> Q a m) -> Tri P (mret a) Q E.
Proof. intros H w Pw. cbn. apply H. exact Pw. Qed.

Lemma Tri_throw {A} (P : fsmap -> Prop) e (Q : A -> fsmap -> Prop) (E : fsmap -> Prop) : (forall m, P m -> E m) -> Tri P (mthrow e) Q E.
Proof. intros H w Pw. cbn. apply H. exact Pw. Qed.

Lemma Tri_bind {A B} (P : fsmap -> Prop) (m : M A) (f : A -> M B) (Q : A -> fsmap -> Prop) (R : B -> fsmap -> Prop) E :
  Tri P m Q E -> (forall a, Tri (Q a) (f a) R E) -> Tri P (mbind m f) R E.
Proof.
  intros Hm Hf w Pw. unfold mbind. specialize (Hm w Pw). destruct (m w) as [[a|e] w1]; [|exact Hm].
  exact (Hf a w1 Hm).
Qed.

Lemma Tri_perform (P : fsmap -> Prop) op (Q : option errno -> fsmap -> Prop) E :
  (forall m um m', P m -> exec_op m um op = inl m' -> Q None m') -> (forall e m, P m -> Q (Some e) m) ->
  Tri P (perform op) Q E.
Proof.
  intros H1 H2 w Pw. destruct (perform op w) as [r w'] eqn:Ep.
  destruct (perform_ok _ _ _ _ Ep) as [[-> Hx]|(e & -> & Hx)].
  - exact (H1 _ _ _ Pw Hx).
  - rewrite Hx. apply H2. exact Pw.
Qed.

Lemma Tri_checked (P : fsmap -> Prop) op (Q : unit -> fsmap -> Prop) (E : fsmap -> Prop) :
  (forall m um m', P m -> exec_op m um op = inl m' -> Q tt m') -> (forall m, P m -> E m) -> Tri P (checked op) Q E.
Proof.
  intros H1 H2. unfold checked.
  apply (Tri_bind P _ _ (fun r m => match r with None => Q tt m | Some _ => E m end)).
  - apply Tri_perform; [exact H1|intros e m Pm; apply H2; exact Pm].
  - intros [e|]; [apply Tri_throw|apply Tri_ret]; auto.
Qed.

Lemma Tri_mkdirs (P : fsmap -> Prop) : forall ds,
  (forall d m um m', In d ds -> P m -> exec_op m um (OMkdir d) = inl m' -> P m') -> Tri P (mkdirs ds) (fun _ => P) P.
Proof.
  induction ds as [|d r IH]; intros H; cbn [mkdirs]; [apply Tri_ret; auto|].
  apply (Tri_bind P _ _ (fun _ => P)).
  - apply Tri_perform; [intros m um m' Pm Ex; exact (H d m um m' (or_introl eq_refl) Pm Ex)|auto].
  - assert (Hr : Tri P (mkdirs r) (fun _ => P) P) by (apply IH; intros d0 m um m' I; apply H; right; exact I).
    intros [e|]; [|exact Hr]. destruct e; try exact Hr; apply Tri_throw; auto.
Qed.

Lemma Tri_ensure (P : fsmap -> Prop) p :
  (forall d m um m', In d (dir_prefixes p []) -> P m -> exec_op m um (OMkdir d) = inl m' -> P m') ->
  Tri P (ensure_parent_directories p) (fun _ => P) P.
Proof. intros H. unfold ensure_parent_directories. destruct (is_nil p); [apply Tri_throw; auto|apply Tri_mkdirs; exact H]. Qed.

Lemma Tri_rmdir_parents (P : fsmap -> Prop) : forall fuel p,
  (forall d m um m', P m -> exec_op m um (ORmdir d) = inl m' -> P m') -> Tri P (rmdir_parents fuel p) (fun _ => P) P.
Proof.
  induction fuel as [|f IH]; intros p H; cbn [rmdir_parents]; [apply Tri_ret; auto|].
  destruct (parent p) as [[|c d]|]; try (apply Tri_ret; auto).
  destruct (str_eqb (c :: d) [46%N]); [apply Tri_ret; auto|].
  apply (Tri_bind P _ _ (fun _ => P)).
  - apply Tri_perform; [intros m um m' Pm Ex; exact (H _ m um m' Pm Ex)|auto].
  - intros [e|]; [|apply IH; exact H]. destruct e; try (apply Tri_throw; auto); apply Tri_ret; auto.
Qed.

Lemma Tri_weaken {A} (P P' : fsmap -> Prop) (m : M A) (Q Q' : A -> fsmap -> Prop) (E E' : fsmap -> Prop) :
  Tri P m Q E -> (forall x, P' x -> P x) -> (forall a x, Q a x -> Q' a x) -> (forall x, E x -> E' x) -> Tri P' m Q' E'.
Proof. intros H H1 H2 H3 w Pw. specialize (H w (H1 _ Pw)). destruct (m w) as [[a|e] w1]; auto. Qed.

(* what a successful operation makes of the tree *)
Lemma mkdir_result m um d m' : exec_op m um (OMkdir d) = inl m' -> lookup m d = None /\ m' = upd m d (Dir (dir_mode um)).
Proof.
  cbn [exec_op]. destruct (lookup m d); [discriminate|]. destruct (parent_ok m d true); [|discriminate].
  intros [= <-]. split; reflexivity.
Qed.

Lemma rmdir_result m um d m' : exec_op m um (ORmdir d) = inl m' -> (exists md, lookup m d = Some (Dir md)) /\ m' = remove_key m d.
Proof.
  cbn [exec_op]. destruct (negb (parent_ok m d true)); [discriminate|].
  destruct (lookup m d) as [[x y|y|t|y]|]; try discriminate. destruct (has_children m d); [discriminate|].
  intros [= <-]. split; [exists y|]; reflexivity.
Qed.

Lemma unlink_result m um p m' : exec_op m um (OUnlink p) = inl m' -> m' = remove_key m p.
Proof.
  cbn [exec_op]. destruct (negb (parent_ok m p true)); [discriminate|].
  destruct (lookup m p) as [[x y|y|t|y]|]; try discriminate; try (intros [= <-]; reflexivity).
  destruct (has_children m p); [discriminate|]. intros [= <-]; reflexivity.
Qed.

Section Safety.
Variables (src dst data out : list N) (mode : N).
Hypothesis Hne : src <> dst.

Definition held : fsmap -> Prop := fun m => lookup m src = Some (Reg data mode) /\ lookup m dst = None.
Definition written : fsmap -> Prop := fun m => lookup m src = Some (Reg data mode) /\ exists x, lookup m dst = Some (Reg out x).
Definition both : fsmap -> Prop := fun m => lookup m src = Some (Reg data mode) /\ lookup m dst = Some (Reg out mode).
Definition arrived : fsmap -> Prop := fun m => lookup m src = None /\ lookup m dst = Some (Reg out mode).
(* never neither *)
Definition not_lost : fsmap -> Prop := fun m => lookup m src = Some (Reg data mode) \/ lookup m dst = Some (Reg out mode).

Lemma held_mkdir d m um m' : In d (dir_prefixes dst []) -> held m -> exec_op m um (OMkdir d) = inl m' -> held m'.
Proof.
  intros I (H1 & H2) Ex. destruct (mkdir_result _ _ _ _ Ex) as (L & ->).
  assert (D1 : d <> src) by (intros ->; congruence).
  assert (D2 : d <> dst) by (intros ->; exact (not_own_prefix dst I)).
  split; rewrite lookup_upd_other by assumption; assumption.
Qed.

Lemma arrived_rmdir d m um m' : arrived m -> exec_op m um (ORmdir d) = inl m' -> arrived m'.
Proof.
  intros (H1 & H2) Ex. destruct (rmdir_result _ _ _ _ Ex) as ((md & L) & ->).
  assert (D2 : d <> dst) by (intros ->; congruence). split.
  - destruct (str_eqb d src) eqn:E.
    + apply str_eqb_eq in E. subst. apply lookup_remove_same.
    + apply str_eqb_neq in E. rewrite lookup_remove_other by exact E. exact H1.
  - rewrite lookup_remove_other by exact D2. exact H2.
Qed.

Theorem rename_finish_safe : Tri held (rename_finish src dst out mode) (fun _ => arrived) not_lost.
Proof.
  unfold rename_finish.
  apply (Tri_bind held _ _ (fun _ => held)).
  { eapply Tri_weaken; [apply (Tri_ensure held dst); intros d m um m' I; apply held_mkdir; exact I|auto|auto|].
    intros x (H1 & _). left. exact H1. }
  intros _. apply (Tri_bind held _ _ (fun _ => written)).
  { apply Tri_checked; [|intros m (H1 & _); left; exact H1].
    intros m um m' (H1 & H2) Ex. cbn [exec_op] in Ex. rewrite H2 in Ex. destruct (parent_ok m dst true); [|discriminate].
    inversion Ex; subst. split; [rewrite lookup_upd_other by (intros E; apply Hne; symmetry; exact E); exact H1|].
    eexists. apply lookup_upd_same. }
  intros _. apply (Tri_bind written _ _ (fun _ => both)).
  { apply Tri_checked; [|intros m (H1 & _); left; exact H1].
    intros m um m' (H1 & (x & H2)) Ex. cbn [exec_op] in Ex. destruct (negb (parent_ok m dst false)); [discriminate|].
    rewrite H2 in Ex. inversion Ex; subst.
    split; [rewrite lookup_upd_other by (intros E; apply Hne; symmetry; exact E); exact H1|apply lookup_upd_same]. }
  intros _. apply (Tri_bind both _ _ (fun _ => arrived)).
  { apply Tri_checked; [|intros m (H1 & _); left; exact H1].
    intros m um m' (H1 & H2) Ex. rewrite (unlink_result _ _ _ _ Ex). split; [apply lookup_remove_same|].
    rewrite lookup_remove_other by exact Hne. exact H2. }
  intros _. apply (Tri_bind arrived _ _ (fun _ => arrived)).
  { eapply Tri_weaken; [apply (Tri_rmdir_parents arrived); intros d m um m'; apply arrived_rmdir|auto|auto|].
    intros x (_ & H2). right. exact H2. }
  intros _. apply Tri_ret. auto.
Qed.

Theorem rename_prog_safe : Tri held (rename_prog src dst out mode) (fun _ => arrived) not_lost.
Proof.
  unfold rename_prog.
  apply (Tri_bind held _ _ (fun _ => held)).
  { apply Tri_perform; [|auto]. intros m um m' H Ex. cbn [exec_op] in Ex.
    destruct (stat m src) as [[x y|y|t|y]|]; try discriminate; try (inversion Ex; subst; exact H).
    destruct (owner_r y); [inversion Ex; subst; exact H|discriminate]. }
  intros [e|]; [apply Tri_throw; intros m (H1 & _); left; exact H1|].
  apply (Tri_bind held _ _ (fun _ => held)).
  { eapply Tri_weaken; [apply (Tri_ensure held dst); intros d m um m' I; apply held_mkdir; exact I|auto|auto|].
    intros x (H1 & _). left. exact H1. }
  intros _. apply rename_finish_safe.
Qed.
End Safety.
Print Assumptions rename_prog_safe.

(* ================= the text of a pure rename ================= *)
(* g: what follows "diff --git "; rfrom / rto: what follows "rename from " / "rename to "; oldn / newn: the two names the
   header scan makes of them under -p strip *)
Definition rename_text (strip : Z) (g sim rfrom rto oldn newn : list N) : Prop :=
  (exists gn, parse_git_header_name strip g = Ok gn) /\
  git_ext_filename strip (bs "a/") rfrom = Ok oldn /\ git_ext_filename strip (bs "b/") rto = Ok newn /\
  clean (bs "diff --git " ++ g) /\ clean (bs "similarity index " ++ sim) /\ clean (bs "rename from " ++ rfrom) /\
  clean (bs "rename to " ++ rto).

(* names written as they are: diff --git a/OLD b/NEW, rename from OLD, rename to NEW *)
Lemma rename_text_plain strip oldn newn sim :
  hd 0%N oldn <> 34%N -> hd 0%N newn <> 34%N -> clean oldn -> clean newn -> clean sim ->
  rename_text strip ((bs "a/" ++ oldn) ++ bs " b/" ++ newn) sim oldn newn (ext_name strip (bs "a/") oldn) (ext_name strip (bs "b/") newn).
Proof.
  intros Q1 Q2 C1 C2 C3. split; [eexists; apply git_header_name_plain; discriminate|].
  split; [apply git_ext_filename_plain; exact Q1|]. split; [apply git_ext_filename_plain; exact Q2|].
  split.
  { apply clean_after; [vm_compute; intuition discriminate|vm_compute; discriminate|]. rewrite <- app_assoc.
    apply clean_after; [vm_compute; intuition discriminate|vm_compute; discriminate|].
    destruct C1 as [C1a C1b]. apply clean_after; [exact C1a|exact C1b|].
    apply clean_after; [vm_compute; intuition discriminate|vm_compute; discriminate|exact C2]. }
  split; [apply clean_after; [vm_compute; intuition discriminate|vm_compute; discriminate|exact C3]|].
  split; apply clean_after; try assumption; try (vm_compute; intuition discriminate); vm_compute; discriminate.
Qed.

(* names C-quoted, any bytes: diff --git "a/OLD" "b/NEW", rename from "OLD", rename to "NEW" *)
Lemma rename_text_quoted strip oldn newn sim :
  bytes oldn -> bytes newn -> clean sim ->
  rename_text strip (cquote (bs "a/" ++ oldn) ++ bs " " ++ cquote (bs "b/" ++ newn)) sim (cquote oldn) (cquote newn)
              (ext_name strip (bs "a/") oldn) (ext_name strip (bs "b/") newn).
Proof.
  intros B1 B2 C3.
  assert (Ba : bytes (bs "a/" ++ oldn)) by (repeat constructor; exact B1).
  assert (C0 : clean []) by (split; [intros []|discriminate]).
  assert (Cq : forall x, clean (cquote x)) by (intros x; rewrite <- (app_nil_r (cquote x)); apply cquote_clean; exact C0).
  split; [eexists; apply git_header_name_quoted; exact Ba|].
  split; [apply git_ext_filename_quoted; exact B1|]. split; [apply git_ext_filename_quoted; exact B2|].
  split.
  { apply clean_after; [vm_compute; intuition discriminate|vm_compute; discriminate|].
    apply cquote_clean. apply clean_after; [vm_compute; intuition discriminate|vm_compute; discriminate|apply Cq]. }
  split; [apply clean_after; [vm_compute; intuition discriminate|vm_compute; discriminate|exact C3]|].
  split; apply clean_after; try apply Cq; try (vm_compute; intuition discriminate); vm_compute; discriminate.
Qed.

(* (0) the run on a pure rename is rename_prog *)
Theorem pure_rename_program o f0 fl tl g sim rfrom rto oldn newn w data mode :
  plain_options o -> format_from_options o = Ok f0 ->
  Forall (Filler (strip_size o) (empty_patch f0)) fl -> Forall clean fl -> Forall (Trailing (strip_size o)) tl ->
  rename_text (strip_size o) g sim rfrom rto oldn newn ->
  rename_ready (fs w) (rename_src o oldn newn) (rename_dst o oldn newn) data mode ->
  process_patch o (join_lines (fl ++ rename_lines g sim rfrom rto ++ tl)) w =
  rename_prog (rename_src o oldn newn) (rename_dst o oldn newn) (rewritten o data) mode w.
Proof.
  intros Hplain Hfo HF HC HT ((gn & Hg) & Ho & Hn & C1 & C2 & C3 & C4) Hr.
  exact (pure_rename_program_gen o f0 fl tl g gn sim rfrom oldn rto newn w data mode Hplain Hfo HF HC HT Hg Ho Hn C1 C2 C3 C4 Hr).
Qed.
Print Assumptions pure_rename_program.

(* ================= (1) end to end ================= *)
(* what the operations need: the directory of the old name can be searched and written, the file read; the directories of
   the new name that are missing can be made (m1: the tree with them), the directory the new name goes in can be searched and
   written; the walk that removes the directories the old name leaves empty meets no refusal (m4: the tree after it) *)
Definition rename_permitted (m : fsmap) (um : N) (src dst out : list N) (mode : N) (m1 m4 : fsmap) : Prop :=
  parent_ok m src true = true /\ owner_r mode = true /\ dst <> [] /\
  mkdirs_fs m um (dir_prefixes dst []) = Some m1 /\ parent_ok m1 dst true = true /\
  rmdirs_fs (length src) (moved m1 um src dst out mode) src = Some m4.

(* the tree m' is the tree m with the file moved from src to dst *)
Definition moved_to (m : fsmap) (um : N) (src dst out : list N) (mode : N) (m' : fsmap) : Prop :=
  lookup m' dst = Some (Reg out mode) /\
  lookup m' src = None /\
  (forall q, In q (dir_prefixes dst []) -> q <> src -> lookup m' q = or_made um (lookup m q)) /\
  (forall q, q <> src -> q <> dst -> ~ In q (dir_prefixes dst []) -> ~ is_ancestor q src -> lookup m' q = lookup m q) /\
  (forall q, q <> dst -> ~ In q (dir_prefixes dst []) -> is_ancestor q src -> untouched_or_emptied m m' q).

Theorem pure_rename_end_to_end_gen o f0 fl tl g sim rfrom rto oldn newn w data mode m1 m4 :
  plain_options o -> format_from_options o = Ok f0 ->
  Forall (Filler (strip_size o) (empty_patch f0)) fl -> Forall clean fl -> Forall (Trailing (strip_size o)) tl ->
  rename_text (strip_size o) g sim rfrom rto oldn newn ->
  fault w = None ->
  rename_ready (fs w) (rename_src o oldn newn) (rename_dst o oldn newn) data mode ->
  rename_permitted (fs w) (umask w) (rename_src o oldn newn) (rename_dst o oldn newn) (rewritten o data) mode m1 m4 ->
  exists w',
    process_patch o (join_lines (fl ++ rename_lines g sim rfrom rto ++ tl)) w = (Ok (0, []), w') /\
    fs w' = m4 /\ fault w' = None /\ umask w' = umask w /\
    moved_to (fs w) (umask w) (rename_src o oldn newn) (rename_dst o oldn newn) (rewritten o data) mode (fs w').
Proof.
  intros Hplain Hfo HF HC HT Ht Fw Hr (Pk & Ho & Hn & Hmk & Pd & Hrm).
  rewrite (pure_rename_program o f0 fl tl g sim rfrom rto oldn newn w data mode Hplain Hfo HF HC HT Ht Hr).
  destruct Hr as (Hne & Hd & Hnn & Lf & Pk0 & Hm & Lg).
  destruct (rename_prog_runs _ _ _ _ w data m1 m4 Fw Hne Hn Lf Pk Ho Lg Hmk Pd Hrm) as (w' & E & F1 & F2 & F3).
  exists w'. split; [exact E|]. split; [exact F1|]. split; [exact F2|]. split; [exact F3|].
  rewrite F1. exact (moved_tree _ _ _ _ _ _ _ _ Hne Lg Hmk Hrm).
Qed.
Print Assumptions pure_rename_end_to_end_gen.

(* (1) as git writes it, names plain, applied forward: the old name is  ext_name s "a/" OLD,  the new one  ext_name s "b/" NEW
   (Proofs_WholeNames.ext_name_spec: -pN, N >= 1, removes N-1 leading components of the names of the rename lines; -p0 puts
   "a/" / "b/" in front; without -p the base names are taken) *)
Theorem pure_rename_end_to_end o f0 fl tl oldn newn sim w data mode m1 m4 :
  plain_options o -> reverse_patch_opt o = false -> format_from_options o = Ok f0 ->
  Forall (Filler (strip_size o) (empty_patch f0)) fl -> Forall clean fl -> Forall (Trailing (strip_size o)) tl ->
  hd 0%N oldn <> 34%N -> hd 0%N newn <> 34%N -> clean oldn -> clean newn -> clean sim ->
  fault w = None ->
  rename_ready (fs w) (ext_name (strip_size o) (bs "a/") oldn) (ext_name (strip_size o) (bs "b/") newn) data mode ->
  rename_permitted (fs w) (umask w) (ext_name (strip_size o) (bs "a/") oldn) (ext_name (strip_size o) (bs "b/") newn) data mode m1 m4 ->
  rewritten o data = data ->
  exists w',
    process_patch o (join_lines (fl ++ rename_lines ((bs "a/" ++ oldn) ++ bs " b/" ++ newn) sim oldn newn ++ tl)) w = (Ok (0, []), w') /\
    fs w' = m4 /\ fault w' = None /\ umask w' = umask w /\
    moved_to (fs w) (umask w) (ext_name (strip_size o) (bs "a/") oldn) (ext_name (strip_size o) (bs "b/") newn) data mode (fs w').
Proof.
  intros Hplain Hfwd Hfo HF HC HT Q1 Q2 C1 C2 C3 Fw Hr Hp Hk.
  pose proof (pure_rename_end_to_end_gen o f0 fl tl _ sim oldn newn _ _ w data mode m1 m4 Hplain Hfo HF HC HT
                (rename_text_plain (strip_size o) oldn newn sim Q1 Q2 C1 C2 C3) Fw) as X.
  unfold rename_src, rename_dst in X. rewrite Hfwd, Hk in X. exact (X Hr Hp).
Qed.
Print Assumptions pure_rename_end_to_end.

(* ... names C-quoted, any bytes *)
Theorem pure_rename_end_to_end_quoted o f0 fl tl oldn newn sim w data mode m1 m4 :
  plain_options o -> reverse_patch_opt o = false -> format_from_options o = Ok f0 ->
  Forall (Filler (strip_size o) (empty_patch f0)) fl -> Forall clean fl -> Forall (Trailing (strip_size o)) tl ->
  bytes oldn -> bytes newn -> clean sim ->
  fault w = None ->
  rename_ready (fs w) (ext_name (strip_size o) (bs "a/") oldn) (ext_name (strip_size o) (bs "b/") newn) data mode ->
  rename_permitted (fs w) (umask w) (ext_name (strip_size o) (bs "a/") oldn) (ext_name (strip_size o) (bs "b/") newn) data mode m1 m4 ->
  rewritten o data = data ->
  exists w',
    process_patch o (join_lines (fl ++ rename_lines (cquote (bs "a/" ++ oldn) ++ bs " " ++ cquote (bs "b/" ++ newn)) sim
                                                     (cquote oldn) (cquote newn) ++ tl)) w = (Ok (0, []), w') /\
    fs w' = m4 /\ fault w' = None /\ umask w' = umask w /\
    moved_to (fs w) (umask w) (ext_name (strip_size o) (bs "a/") oldn) (ext_name (strip_size o) (bs "b/") newn) data mode (fs w').
Proof.
  intros Hplain Hfwd Hfo HF HC HT B1 B2 C3 Fw Hr Hp Hk.
  pose proof (pure_rename_end_to_end_gen o f0 fl tl _ sim (cquote oldn) (cquote newn) _ _ w data mode m1 m4 Hplain Hfo HF HC HT
                (rename_text_quoted (strip_size o) oldn newn sim B1 B2 C3) Fw) as X.
  unfold rename_src, rename_dst in X. rewrite Hfwd, Hk in X. exact (X Hr Hp).
Qed.
Print Assumptions pure_rename_end_to_end_quoted.

(* ================= (3) the same patch with -R ================= *)
(* the tree holds the NEW name (and not the old one): the file is moved back *)
Theorem pure_rename_reverse o f0 fl tl oldn newn sim w data mode m1 m4 :
  plain_options o -> reverse_patch_opt o = true -> format_from_options o = Ok f0 ->
  Forall (Filler (strip_size o) (empty_patch f0)) fl -> Forall clean fl -> Forall (Trailing (strip_size o)) tl ->
  hd 0%N oldn <> 34%N -> hd 0%N newn <> 34%N -> clean oldn -> clean newn -> clean sim ->
  fault w = None ->
  rename_ready (fs w) (ext_name (strip_size o) (bs "b/") newn) (ext_name (strip_size o) (bs "a/") oldn) data mode ->
  rename_permitted (fs w) (umask w) (ext_name (strip_size o) (bs "b/") newn) (ext_name (strip_size o) (bs "a/") oldn) data mode m1 m4 ->
  rewritten o data = data ->
  exists w',
    process_patch o (join_lines (fl ++ rename_lines ((bs "a/" ++ oldn) ++ bs " b/" ++ newn) sim oldn newn ++ tl)) w = (Ok (0, []), w') /\
    fs w' = m4 /\ fault w' = None /\ umask w' = umask w /\
    moved_to (fs w) (umask w) (ext_name (strip_size o) (bs "b/") newn) (ext_name (strip_size o) (bs "a/") oldn) data mode (fs w').
Proof.
  intros Hplain Hrev Hfo HF HC HT Q1 Q2 C1 C2 C3 Fw Hr Hp Hk.
  pose proof (pure_rename_end_to_end_gen o f0 fl tl _ sim oldn newn _ _ w data mode m1 m4 Hplain Hfo HF HC HT
                (rename_text_plain (strip_size o) oldn newn sim Q1 Q2 C1 C2 C3) Fw) as X.
  unfold rename_src, rename_dst in X. rewrite Hrev, Hk in X. exact (X Hr Hp).
Qed.
Print Assumptions pure_rename_reverse.

Theorem pure_rename_reverse_quoted o f0 fl tl oldn newn sim w data mode m1 m4 :
  plain_options o -> reverse_patch_opt o = true -> format_from_options o = Ok f0 ->
  Forall (Filler (strip_size o) (empty_patch f0)) fl -> Forall clean fl -> Forall (Trailing (strip_size o)) tl ->
  bytes oldn -> bytes newn -> clean sim ->
  fault w = None ->
  rename_ready (fs w) (ext_name (strip_size o) (bs "b/") newn) (ext_name (strip_size o) (bs "a/") oldn) data mode ->
  rename_permitted (fs w) (umask w) (ext_name (strip_size o) (bs "b/") newn) (ext_name (strip_size o) (bs "a/") oldn) data mode m1 m4 ->
  rewritten o data = data ->
  exists w',
    process_patch o (join_lines (fl ++ rename_lines (cquote (bs "a/" ++ oldn) ++ bs " " ++ cquote (bs "b/" ++ newn)) sim
                                                     (cquote oldn) (cquote newn) ++ tl)) w = (Ok (0, []), w') /\
    fs w' = m4 /\ fault w' = None /\ umask w' = umask w /\
    moved_to (fs w) (umask w) (ext_name (strip_size o) (bs "b/") newn) (ext_name (strip_size o) (bs "a/") oldn) data mode (fs w').
Proof.
  intros Hplain Hrev Hfo HF HC HT B1 B2 C3 Fw Hr Hp Hk.
  pose proof (pure_rename_end_to_end_gen o f0 fl tl _ sim (cquote oldn) (cquote newn) _ _ w data mode m1 m4 Hplain Hfo HF HC HT
                (rename_text_quoted (strip_size o) oldn newn sim B1 B2 C3) Fw) as X.
  unfold rename_src, rename_dst in X. rewrite Hrev, Hk in X. exact (X Hr Hp).
Qed.
Print Assumptions pure_rename_reverse_quoted.

(* ================= (2) end to end ================= *)
(* No hypothesis on the failure pending in the world (none, or the k-th operation from now for ANY k) and none on
   permissions: whichever operation is refused or fails -- the open, a mkdir, the write, the chmod, the unlink, a rmdir --
   the run ends with the bytes and the mode at the old name or at the new one; and when it ends normally the file is moved *)
Theorem pure_rename_never_lost_gen o f0 fl tl g sim rfrom rto oldn newn w data mode :
  plain_options o -> format_from_options o = Ok f0 ->
  Forall (Filler (strip_size o) (empty_patch f0)) fl -> Forall clean fl -> Forall (Trailing (strip_size o)) tl ->
  rename_text (strip_size o) g sim rfrom rto oldn newn ->
  rename_ready (fs w) (rename_src o oldn newn) (rename_dst o oldn newn) data mode ->
  match process_patch o (join_lines (fl ++ rename_lines g sim rfrom rto ++ tl)) w with
  | (Ok _, w') => lookup (fs w') (rename_src o oldn newn) = None /\
                  lookup (fs w') (rename_dst o oldn newn) = Some (Reg (rewritten o data) mode)
  | (Throw _, w') => lookup (fs w') (rename_src o oldn newn) = Some (Reg data mode) \/
                     lookup (fs w') (rename_dst o oldn newn) = Some (Reg (rewritten o data) mode)
  end.
Proof.
  intros Hplain Hfo HF HC HT Ht Hr.
  rewrite (pure_rename_program o f0 fl tl g sim rfrom rto oldn newn w data mode Hplain Hfo HF HC HT Ht Hr).
  destruct Hr as (Hne & Hd & Hnn & Lf & Pk0 & Hm & Lg).
  apply (rename_prog_safe _ _ data (rewritten o data) mode Hne w). split; assumption.
Qed.
Print Assumptions pure_rename_never_lost_gen.

Theorem pure_rename_never_lost o f0 fl tl oldn newn sim w data mode :
  plain_options o -> reverse_patch_opt o = false -> format_from_options o = Ok f0 ->
  Forall (Filler (strip_size o) (empty_patch f0)) fl -> Forall clean fl -> Forall (Trailing (strip_size o)) tl ->
  hd 0%N oldn <> 34%N -> hd 0%N newn <> 34%N -> clean oldn -> clean newn -> clean sim ->
  rename_ready (fs w) (ext_name (strip_size o) (bs "a/") oldn) (ext_name (strip_size o) (bs "b/") newn) data mode ->
  rewritten o data = data ->
  forall r w', process_patch o (join_lines (fl ++ rename_lines ((bs "a/" ++ oldn) ++ bs " b/" ++ newn) sim oldn newn ++ tl)) w = (r, w') ->
  lookup (fs w') (ext_name (strip_size o) (bs "a/") oldn) = Some (Reg data mode) \/
  lookup (fs w') (ext_name (strip_size o) (bs "b/") newn) = Some (Reg data mode).
Proof.
  intros Hplain Hfwd Hfo HF HC HT Q1 Q2 C1 C2 C3 Hr Hk r w' E.
  pose proof (pure_rename_never_lost_gen o f0 fl tl _ sim oldn newn _ _ w data mode Hplain Hfo HF HC HT
                (rename_text_plain (strip_size o) oldn newn sim Q1 Q2 C1 C2 C3)) as X.
  unfold rename_src, rename_dst in X. rewrite Hfwd, Hk in X. specialize (X Hr). rewrite E in X.
  destruct r as [a|e]; [right; apply X|exact X].
Qed.
Print Assumptions pure_rename_never_lost.

(* the letter of C09: a failure injected at the k-th operation, for every k *)
Corollary pure_rename_fault_at_any_operation o f0 fl tl oldn newn sim w data mode k :
  plain_options o -> reverse_patch_opt o = false -> format_from_options o = Ok f0 ->
  Forall (Filler (strip_size o) (empty_patch f0)) fl -> Forall clean fl -> Forall (Trailing (strip_size o)) tl ->
  hd 0%N oldn <> 34%N -> hd 0%N newn <> 34%N -> clean oldn -> clean newn -> clean sim ->
  fault w = Some k ->
  rename_ready (fs w) (ext_name (strip_size o) (bs "a/") oldn) (ext_name (strip_size o) (bs "b/") newn) data mode ->
  rewritten o data = data ->
  let w' := snd (process_patch o (join_lines (fl ++ rename_lines ((bs "a/" ++ oldn) ++ bs " b/" ++ newn) sim oldn newn ++ tl)) w) in
  lookup (fs w') (ext_name (strip_size o) (bs "a/") oldn) = Some (Reg data mode) \/
  lookup (fs w') (ext_name (strip_size o) (bs "b/") newn) = Some (Reg data mode).
Proof.
  intros Hplain Hfwd Hfo HF HC HT Q1 Q2 C1 C2 C3 _ Hr Hk w'.
  apply (pure_rename_never_lost o f0 fl tl oldn newn sim w data mode Hplain Hfwd Hfo HF HC HT Q1 Q2 C1 C2 C3 Hr Hk
           (fst (process_patch o (join_lines (fl ++ rename_lines ((bs "a/" ++ oldn) ++ bs " b/" ++ newn) sim oldn newn ++ tl)) w)) w').
  unfold w'. apply surjective_pairing.
Qed.
Print Assumptions pure_rename_fault_at_any_operation.

(* ... and under -R *)
Theorem pure_rename_reverse_never_lost o f0 fl tl oldn newn sim w data mode :
  plain_options o -> reverse_patch_opt o = true -> format_from_options o = Ok f0 ->
  Forall (Filler (strip_size o) (empty_patch f0)) fl -> Forall clean fl -> Forall (Trailing (strip_size o)) tl ->
  hd 0%N oldn <> 34%N -> hd 0%N newn <> 34%N -> clean oldn -> clean newn -> clean sim ->
  rename_ready (fs w) (ext_name (strip_size o) (bs "b/") newn) (ext_name (strip_size o) (bs "a/") oldn) data mode ->
  rewritten o data = data ->
  forall r w', process_patch o (join_lines (fl ++ rename_lines ((bs "a/" ++ oldn) ++ bs " b/" ++ newn) sim oldn newn ++ tl)) w = (r, w') ->
  lookup (fs w') (ext_name (strip_size o) (bs "b/") newn) = Some (Reg data mode) \/
  lookup (fs w') (ext_name (strip_size o) (bs "a/") oldn) = Some (Reg data mode).
Proof.
  intros Hplain Hrev Hfo HF HC HT Q1 Q2 C1 C2 C3 Hr Hk r w' E.
  pose proof (pure_rename_never_lost_gen o f0 fl tl _ sim oldn newn _ _ w data mode Hplain Hfo HF HC HT
                (rename_text_plain (strip_size o) oldn newn sim Q1 Q2 C1 C2 C3)) as X.
  unfold rename_src, rename_dst in X. rewrite Hrev, Hk in X. specialize (X Hr). rewrite E in X.
  destruct r as [a|e]; [right; apply X|exact X].
Qed.
Print Assumptions pure_rename_reverse_never_lost.

(* ================= the usual case: nothing to make, nothing to remove ================= *)
Lemma parent_ok_at m m' p nw : (forall d, parent p = Some d -> lookup m d = lookup m' d) -> parent_ok m p nw = parent_ok m' p nw.
Proof. intros H. unfold parent_ok. destruct (parent p) as [[|c d]|]; auto. rewrite (H _ eq_refl). reflexivity. Qed.

Lemma moved_lookup m1 um src dst out mode q : q <> src -> q <> dst -> lookup (moved m1 um src dst out mode) q = lookup m1 q.
Proof.
  intros H1 H2. unfold moved. rewrite lookup_remove_other by (intros E; apply H1; symmetry; exact E).
  rewrite !lookup_upd_other by (intros E; apply H2; symmetry; exact E). reflexivity.
Qed.

(* old and new name in the same directory (or both in the working directory), every directory on the way to it there, the
   directory and the one above it searchable and writable: no directory is made, none removed *)
Theorem permitted_same_dir m um src dst out mode :
  src <> dst -> src <> [] -> dst <> [] -> lookup m dst = None ->
  parent src = parent dst ->
  parent_ok m src true = true -> owner_r mode = true ->
  (forall d, In d (dir_prefixes dst []) -> lookup m d <> None) ->
  (forall d, parent src = Some d -> parent_ok m d true = true) ->
  rename_permitted m um src dst out mode m (moved m um src dst out mode).
Proof.
  intros Hne Hn Hn2 Lg Hp Pk Hr Hall Hup.
  split; [exact Pk|]. split; [exact Hr|]. split; [exact Hn2|]. split; [apply mkdirs_fs_present; exact Hall|].
  split.
  { unfold parent_ok in *. rewrite <- Hp. exact Pk. }
  destruct src as [|c0 s0]; [congruence|]. cbn [length rmdirs_fs].
  destruct (parent (c0 :: s0)) as [[|c d]|] eqn:Par; try reflexivity.
  destruct (str_eqb (c :: d) [46%N]); [reflexivity|].
  pose proof (parent_ancestor _ _ Par) as As.
  assert (Ad : is_ancestor (c :: d) dst) by (apply parent_ancestor; rewrite <- Hp; reflexivity).
  assert (Ld : exists md, lookup m (c :: d) = Some (Dir md)).
  { unfold parent_ok in Pk. rewrite Par in Pk. destruct (lookup m (c :: d)) as [[x y|y|t|y]|]; try discriminate. exists y. reflexivity. }
  destruct Ld as (md & Ld).
  set (mm := moved m um (c0 :: s0) dst out mode).
  assert (P1 : parent_ok mm (c :: d) true = true).
  { rewrite (parent_ok_at mm m); [exact (Hup _ eq_refl)|]. intros e Pe. pose proof (parent_ancestor _ _ Pe) as Ae.
    apply moved_lookup; apply is_ancestor_neq; eapply is_ancestor_trans; eauto. }
  assert (L1 : lookup mm (c :: d) = Some (Dir md)).
  { unfold mm. rewrite moved_lookup by (apply is_ancestor_neq; assumption). exact Ld. }
  assert (C1 : has_children mm (c :: d) = true).
  { apply (has_children_lookup mm (c :: d) dst (Reg out mode)); [|exact Ad].
    unfold mm, moved. rewrite lookup_remove_other by exact Hne. apply lookup_upd_same. }
  rewrite P1, L1, C1. reflexivity.
Qed.

(* then every entry other than the two names is as it was *)
Theorem pure_rename_same_dir o f0 fl tl oldn newn sim w data mode :
  plain_options o -> reverse_patch_opt o = false -> format_from_options o = Ok f0 ->
  Forall (Filler (strip_size o) (empty_patch f0)) fl -> Forall clean fl -> Forall (Trailing (strip_size o)) tl ->
  hd 0%N oldn <> 34%N -> hd 0%N newn <> 34%N -> clean oldn -> clean newn -> clean sim ->
  let src := ext_name (strip_size o) (bs "a/") oldn in
  let dst := ext_name (strip_size o) (bs "b/") newn in
  fault w = None ->
  rename_ready (fs w) src dst data mode ->
  dst <> [] -> parent src = parent dst ->
  parent_ok (fs w) src true = true -> owner_r mode = true ->
  (forall d, In d (dir_prefixes dst []) -> lookup (fs w) d <> None) ->
  (forall d, parent src = Some d -> parent_ok (fs w) d true = true) ->
  rewritten o data = data ->
  exists w',
    process_patch o (join_lines (fl ++ rename_lines ((bs "a/" ++ oldn) ++ bs " b/" ++ newn) sim oldn newn ++ tl)) w = (Ok (0, []), w') /\
    lookup (fs w') dst = Some (Reg data mode) /\ lookup (fs w') src = None /\
    (forall q, q <> src -> q <> dst -> lookup (fs w') q = lookup (fs w) q) /\
    fault w' = None /\ umask w' = umask w.
Proof.
  intros Hplain Hfwd Hfo HF HC HT Q1 Q2 C1 C2 C3 src dst Fw Hr Hn2 Hp Pk Ho Hall Hup Hk.
  pose proof Hr as (Hne & Hd & Hnn & Lf & Pk0 & Hm & Lg).
  pose proof (permitted_same_dir (fs w) (umask w) src dst data mode Hne Hnn Hn2 Lg Hp Pk Ho Hall Hup) as Hperm.
  destruct (pure_rename_end_to_end o f0 fl tl oldn newn sim w data mode _ _ Hplain Hfwd Hfo HF HC HT Q1 Q2 C1 C2 C3 Fw Hr Hperm Hk)
    as (w' & E & F1 & F2 & F3 & (M1 & M2 & _)).
  exists w'. split; [exact E|]. split; [exact M1|]. split; [exact M2|]. split; [|split; assumption].
  intros q H1 H2. rewrite F1. apply moved_lookup; assumption.
Qed.
Print Assumptions pure_rename_same_dir.

(* ================= a pure rename followed by another "diff --git" section ================= *)
(* the loop over the sections does the section of the rename (one open, the directories of the new name) and goes on with
   the next section in the state that holds the write and the removal put off (rename_state) *)
Theorem pure_rename_then_next o f0 fl g sim rfrom rto oldn newn g2 more st first k w data mode :
  plain_options o ->
  Forall (Filler (strip_size o) (empty_patch f0)) fl -> Forall clean fl ->
  rename_text (strip_size o) g sim rfrom rto oldn newn -> clean (bs "diff --git " ++ g2) ->
  deferred_writes st = [] ->
  rename_ready (fs w) (rename_src o oldn newn) (rename_dst o oldn newn) data mode ->
  section_loop (S k) o f0 st (strm (join_lines (fl ++ rename_lines g sim rfrom rto) ++ (bs "diff --git " ++ g2) ++ 10%N :: more)) first w =
  (let! y := rename_section st (rename_src o oldn newn) (rename_dst o oldn newn) (rewritten o data) mode
                            (strm ((bs "diff --git " ++ g2) ++ 10%N :: more)) in
   section_loop k o f0 (fst y) (snd y) false) w.
Proof.
  intros Hplain HF HC ((gn & Hg) & Ho & Hn & C1 & C2 & C3 & C4) C5 Dw (Hne & Hd & Hnn & Lf & Pk & Hm & Lg).
  cbn [section_loop]. change (seof (strm _)) with false. cbv iota. rewrite bind_lift.
  rewrite (git_rename_scan_next (strip_size o) f0 fl g gn sim rfrom oldn rto newn g2 more HF HC Hg Ho Hn C1 C2 C3 C4 C5).
  cbn [negb andb pfmt renamed poper]. unfold mbind.
  rewrite (section_pure_rename o (renamed FGit oldn newn) (rename_src o oldn newn) (rename_dst o oldn newn) st _ w data mode Hplain);
    try assumption; try reflexivity.
  - unfold effective, rename_src. destruct (reverse_patch_opt o); reflexivity.
  - unfold effective, rename_dst. destruct (reverse_patch_opt o); reflexivity.
  - unfold effective. destruct (reverse_patch_opt o); reflexivity.
Qed.
Print Assumptions pure_rename_then_next.

(* ================= non-vacuity ================= *)
Local Open Scope string_scope.
Ltac trailing_tac := apply trailing_check; [split; vm_compute; intuition discriminate|reflexivity|intros; reflexivity].

(* ---------- (1), the usual case: Proofs_WholeNames.exr_text under -p1 on exr_world, which also holds old.txt, a/old.txt and
   a/dir/sub/old.txt (the names a wrong count of components would hit) and another file next to the one moved ---------- *)
Lemma exr_text_eq' :
  exr_text = join_lines ([] ++ rename_lines ((bs "a/" ++ bs "dir/sub/old.txt") ++ bs " b/" ++ bs "dir/sub/new.txt") (bs "100%")
                                             (bs "dir/sub/old.txt") (bs "dir/sub/new.txt") ++ []).
Proof. vm_compute. reflexivity. Qed.

Example pure_rename_same_dir_nonvacuous :
  exists w',
    process_patch ex_p1 exr_text exr_world = (Ok (0, []), w') /\
    lookup (fs w') (bs "dir/sub/new.txt") = Some (Reg (bs "x" ++ nlb) 420) /\ lookup (fs w') (bs "dir/sub/old.txt") = None /\
    (forall q, q <> bs "dir/sub/old.txt" -> q <> bs "dir/sub/new.txt" -> lookup (fs w') q = lookup (fs exr_world) q) /\
    fault w' = None /\ umask w' = umask exr_world.
Proof.
  rewrite exr_text_eq'.
  apply (pure_rename_same_dir ex_p1 FUnknown [] [] (bs "dir/sub/old.txt") (bs "dir/sub/new.txt") (bs "100%") exr_world (bs "x" ++ nlb) 420).
  - repeat split; try reflexivity. vm_compute. discriminate.
  - reflexivity.
  - reflexivity.
  - constructor.
  - constructor.
  - constructor.
  - vm_compute. discriminate.
  - vm_compute. discriminate.
  - split; vm_compute; intuition discriminate.
  - split; vm_compute; intuition discriminate.
  - split; vm_compute; intuition discriminate.
  - reflexivity.
  - repeat split; try (vm_compute; reflexivity); vm_compute; discriminate.
  - vm_compute. discriminate.
  - vm_compute. reflexivity.
  - vm_compute. reflexivity.
  - vm_compute. reflexivity.
  - intros d I. vm_compute in I. destruct I as [<-|[<-|[]]]; vm_compute; discriminate.
  - intros d H. vm_compute in H. inversion H; subst. vm_compute. reflexivity.
  - vm_compute. reflexivity.
Qed.

(* the whole program on the same data: same tree; the bystanders are as they were *)
Example pure_rename_same_dir_run :
  let r := run_patch ex_p1 exr_text exr_world in
  rr_exit r = 0 /\ rr_events r = [] /\ rr_world r = snd (process_patch ex_p1 exr_text exr_world) /\
  fs (rr_world r) =
    [(bs "dir/sub/new.txt", Reg (bs "x" ++ nlb) 420);
     (bs "dir", Dir 493); (bs "dir/sub", Dir 493); (bs "dir/sub/keep", Reg (bs "k" ++ nlb) 420);
     (bs "old.txt", Reg (bs "y" ++ nlb) 420); (bs "a", Dir 493); (bs "b", Dir 493); (bs "a/old.txt", Reg (bs "z" ++ nlb) 420);
     (bs "a/dir", Dir 493); (bs "a/dir/sub", Dir 493); (bs "a/dir/sub/old.txt", Reg (bs "u" ++ nlb) 420)] /\
  trace (rr_world r) =
    [OOpenRead (bs "dir/sub/old.txt"); OMkdir (bs "dir"); OMkdir (bs "dir/sub"); OMkdir (bs "dir"); OMkdir (bs "dir/sub");
     OWrite (bs "dir/sub/new.txt") (bs "x" ++ nlb); OChmod (bs "dir/sub/new.txt") 420; OUnlink (bs "dir/sub/old.txt");
     ORmdir (bs "dir/sub")].
Proof. vm_compute. repeat split; reflexivity. Qed.

(* ---------- (1), the general case, as git format-patch writes it (text in front, the signature behind): the directories of
   the new name are made, the directory the old name leaves empty is removed, the one above it (not empty) stays.  The file
   is private (0600).  Bystanders: f.txt, a/old/deep/f.txt ---------- *)
Definition exm_front : list (list N) :=
  [bs "From 1234 Mon Sep 17 00:00:00 2001"; bs "Subject: [PATCH] move f"; []; bs "---";
   bs " old/deep/f.txt => new/place/f.txt | 0"; bs " 1 file changed, 0 insertions(+), 0 deletions(-)";
   bs " rename old/deep/f.txt => new/place/f.txt (100%)"; []].
Definition exm_back : list (list N) := [bs "-- "; bs "2.39.0"; []].
Definition exm_text : list N :=
  bs "From 1234 Mon Sep 17 00:00:00 2001" ++ nlb ++ bs "Subject: [PATCH] move f" ++ nlb ++ nlb ++ bs "---" ++ nlb ++
  bs " old/deep/f.txt => new/place/f.txt | 0" ++ nlb ++ bs " 1 file changed, 0 insertions(+), 0 deletions(-)" ++ nlb ++
  bs " rename old/deep/f.txt => new/place/f.txt (100%)" ++ nlb ++ nlb ++
  bs "diff --git a/old/deep/f.txt b/new/place/f.txt" ++ nlb ++ bs "similarity index 100%" ++ nlb ++
  bs "rename from old/deep/f.txt" ++ nlb ++ bs "rename to new/place/f.txt" ++ nlb ++
  bs "-- " ++ nlb ++ bs "2.39.0" ++ nlb ++ nlb.
Definition exm_data : list N := bs "hello" ++ nlb.
Definition exm_fs : fsmap :=
  [(bs "old", Dir 493); (bs "old/deep", Dir 493); (bs "old/deep/f.txt", Reg exm_data 384);
   (bs "old/keep.txt", Reg (bs "k" ++ nlb) 420); (bs "f.txt", Reg (bs "y" ++ nlb) 420);
   (bs "a", Dir 493); (bs "a/old", Dir 493); (bs "a/old/deep", Dir 493); (bs "a/old/deep/f.txt", Reg (bs "z" ++ nlb) 420)].
Definition exm_world (f : option nat) : world := mkWorld exm_fs 18 [] f [].
(* the tree with the directories of the new name, and the tree at the end *)
Definition exm_m1 : fsmap := (bs "new/place", Dir 493) :: (bs "new", Dir 493) :: exm_fs.
Definition exm_m4 : fsmap :=
  [(bs "new/place/f.txt", Reg exm_data 384); (bs "new/place", Dir 493); (bs "new", Dir 493);
   (bs "old", Dir 493); (bs "old/keep.txt", Reg (bs "k" ++ nlb) 420); (bs "f.txt", Reg (bs "y" ++ nlb) 420);
   (bs "a", Dir 493); (bs "a/old", Dir 493); (bs "a/old/deep", Dir 493); (bs "a/old/deep/f.txt", Reg (bs "z" ++ nlb) 420)].

Lemma exm_text_eq :
  exm_text = join_lines (exm_front ++ rename_lines ((bs "a/" ++ bs "old/deep/f.txt") ++ bs " b/" ++ bs "new/place/f.txt") (bs "100%")
                                                   (bs "old/deep/f.txt") (bs "new/place/f.txt") ++ exm_back).
Proof. vm_compute. reflexivity. Qed.

Lemma exm_front_ok : Forall (Filler 1 (empty_patch FUnknown)) exm_front /\ Forall clean exm_front.
Proof. split; [repeat constructor; vm_compute; reflexivity|repeat constructor; vm_compute; intuition discriminate]. Qed.

Lemma exm_back_ok : Forall (Trailing 1) exm_back.
Proof. unfold exm_back. constructor; [trailing_tac|]. constructor; [trailing_tac|]. constructor; [trailing_tac|constructor]. Qed.

Example pure_rename_end_to_end_nonvacuous :
  exists w',
    process_patch ex_p1 exm_text (exm_world None) = (Ok (0, []), w') /\
    fs w' = exm_m4 /\ fault w' = None /\ umask w' = 18%N /\
    moved_to exm_fs 18 (bs "old/deep/f.txt") (bs "new/place/f.txt") exm_data 384 (fs w').
Proof.
  rewrite exm_text_eq.
  apply (pure_rename_end_to_end ex_p1 FUnknown exm_front exm_back (bs "old/deep/f.txt") (bs "new/place/f.txt") (bs "100%")
                                (exm_world None) exm_data 384 exm_m1 exm_m4).
  - repeat split; try reflexivity. vm_compute. discriminate.
  - reflexivity.
  - reflexivity.
  - apply exm_front_ok.
  - apply exm_front_ok.
  - apply exm_back_ok.
  - vm_compute. discriminate.
  - vm_compute. discriminate.
  - split; vm_compute; intuition discriminate.
  - split; vm_compute; intuition discriminate.
  - split; vm_compute; intuition discriminate.
  - reflexivity.
  - repeat split; try (vm_compute; reflexivity); vm_compute; discriminate.
  - repeat split; try (vm_compute; reflexivity); vm_compute; discriminate.
  - vm_compute. reflexivity.
Qed.

(* the whole program on the same data: the same tree, by computation *)
Example pure_rename_end_to_end_run :
  let r := run_patch ex_p1 exm_text (exm_world None) in
  rr_exit r = 0 /\ rr_events r = [] /\ fs (rr_world r) = exm_m4 /\
  trace (rr_world r) =
    [OOpenRead (bs "old/deep/f.txt"); OMkdir (bs "new"); OMkdir (bs "new/place"); OMkdir (bs "new"); OMkdir (bs "new/place");
     OWrite (bs "new/place/f.txt") exm_data; OChmod (bs "new/place/f.txt") 384; OUnlink (bs "old/deep/f.txt");
     ORmdir (bs "old/deep"); ORmdir (bs "old")].
Proof. vm_compute. repeat split; reflexivity. Qed.

(* ---------- (2): the same run with a failure injected at the k-th operation, for EVERY k: never neither ---------- *)
Example pure_rename_fault_nonvacuous : forall k,
  let w' := snd (process_patch ex_p1 exm_text (exm_world (Some k))) in
  lookup (fs w') (bs "old/deep/f.txt") = Some (Reg exm_data 384) \/ lookup (fs w') (bs "new/place/f.txt") = Some (Reg exm_data 384).
Proof.
  intros k. rewrite exm_text_eq.
  apply (pure_rename_fault_at_any_operation ex_p1 FUnknown exm_front exm_back (bs "old/deep/f.txt") (bs "new/place/f.txt") (bs "100%")
                                            (exm_world (Some k)) exm_data 384 k).
  - repeat split; try reflexivity. vm_compute. discriminate.
  - reflexivity.
  - reflexivity.
  - apply exm_front_ok.
  - apply exm_front_ok.
  - apply exm_back_ok.
  - vm_compute. discriminate.
  - vm_compute. discriminate.
  - split; vm_compute; intuition discriminate.
  - split; vm_compute; intuition discriminate.
  - split; vm_compute; intuition discriminate.
  - reflexivity.
  - repeat split; try (vm_compute; reflexivity); vm_compute; discriminate.
  - vm_compute. reflexivity.
Qed.

(* what each of the ten operations leaves when it is the one that fails (exit status, old name, new name): by computation.
   0: the open; 1-4: the four mkdir; 5: the write; 6: the chmod -- BOTH names hold the bytes, the new one with the
   permissions 0666 & ~umask = 0644 although the file was private (0600); 7: the unlink; 8, 9: the two rmdir -- the file is
   moved, the status is 2; from 10 on the failure is never reached *)
Definition exm_outcome (k : nat) : nat * option node * option node :=
  let r := run_patch ex_p1 exm_text (exm_world (Some k)) in
  (rr_exit r, lookup (fs (rr_world r)) (bs "old/deep/f.txt"), lookup (fs (rr_world r)) (bs "new/place/f.txt")).

Example pure_rename_fault_table :
  map exm_outcome [0; 1; 2; 3; 4; 5] = repeat (2, Some (Reg exm_data 384), None) 6 /\
  exm_outcome 6 = (2, Some (Reg exm_data 384), Some (Reg exm_data 420)) /\
  exm_outcome 7 = (2, Some (Reg exm_data 384), Some (Reg exm_data 384)) /\
  exm_outcome 8 = (2, None, Some (Reg exm_data 384)) /\
  exm_outcome 9 = (2, None, Some (Reg exm_data 384)) /\
  exm_outcome 10 = (0, None, Some (Reg exm_data 384)).
Proof. vm_compute. repeat split; reflexivity. Qed.

(* (2) asks nothing of the permissions: here the working directory's subdirectory "ro" cannot be written, the write of
   ro/new.txt is refused (EACCES, no injected failure): the run stops with status 2 and ro/old.txt is as it was *)
Definition exn_text : list N :=
  bs "diff --git a/ro/old.txt b/ro/new.txt" ++ nlb ++ bs "similarity index 100%" ++ nlb ++
  bs "rename from ro/old.txt" ++ nlb ++ bs "rename to ro/new.txt" ++ nlb.
Definition exn_world : world := mkWorld [(bs "ro", Dir 365); (bs "ro/old.txt", Reg exm_data 420)] 18 [] None [].

Example pure_rename_never_lost_nonvacuous :
  forall r w', process_patch ex_p1 exn_text exn_world = (r, w') ->
  lookup (fs w') (bs "ro/old.txt") = Some (Reg exm_data 420) \/ lookup (fs w') (bs "ro/new.txt") = Some (Reg exm_data 420).
Proof.
  assert (E : exn_text = join_lines ([] ++ rename_lines ((bs "a/" ++ bs "ro/old.txt") ++ bs " b/" ++ bs "ro/new.txt") (bs "100%")
                                                        (bs "ro/old.txt") (bs "ro/new.txt") ++ [])) by (vm_compute; reflexivity).
  rewrite E.
  apply (pure_rename_never_lost ex_p1 FUnknown [] [] (bs "ro/old.txt") (bs "ro/new.txt") (bs "100%") exn_world exm_data 420).
  - repeat split; try reflexivity. vm_compute. discriminate.
  - reflexivity.
  - reflexivity.
  - constructor.
  - constructor.
  - constructor.
  - vm_compute. discriminate.
  - vm_compute. discriminate.
  - split; vm_compute; intuition discriminate.
  - split; vm_compute; intuition discriminate.
  - split; vm_compute; intuition discriminate.
  - repeat split; try (vm_compute; reflexivity); vm_compute; discriminate.
  - vm_compute. reflexivity.
Qed.

Example pure_rename_refused_run :
  let r := run_patch ex_p1 exn_text exn_world in
  rr_exit r = 2 /\ fs (rr_world r) = fs exn_world /\
  trace (rr_world r) = [OOpenRead (bs "ro/old.txt"); OMkdir (bs "ro"); OMkdir (bs "ro"); OWrite (bs "ro/new.txt") exm_data].
Proof. vm_compute. repeat split; reflexivity. Qed.

(* ---------- (3): the patch of the general case with -R on the tree it left: the file is moved back, new/place and new go,
   old/deep is made again ---------- *)
Definition ex_p1R : options :=
  mkOptions false false [] [] false [] false false false [] 1%Z 2%Z true [] []
            false false false false false false false false OBUnset OBUnset MNative RFDefault ROWarn QSUnset [] [].
Definition exm_back_fs : fsmap :=
  [(bs "old/deep/f.txt", Reg exm_data 384); (bs "old/deep", Dir 493);
   (bs "old", Dir 493); (bs "old/keep.txt", Reg (bs "k" ++ nlb) 420); (bs "f.txt", Reg (bs "y" ++ nlb) 420);
   (bs "a", Dir 493); (bs "a/old", Dir 493); (bs "a/old/deep", Dir 493); (bs "a/old/deep/f.txt", Reg (bs "z" ++ nlb) 420)].

Example pure_rename_reverse_nonvacuous :
  exists w',
    process_patch ex_p1R exm_text (mkWorld exm_m4 18 [] None []) = (Ok (0, []), w') /\
    fs w' = exm_back_fs /\ fault w' = None /\ umask w' = 18%N /\
    moved_to exm_m4 18 (bs "new/place/f.txt") (bs "old/deep/f.txt") exm_data 384 (fs w').
Proof.
  rewrite exm_text_eq.
  apply (pure_rename_reverse ex_p1R FUnknown exm_front exm_back (bs "old/deep/f.txt") (bs "new/place/f.txt") (bs "100%")
                             (mkWorld exm_m4 18 [] None []) exm_data 384 ((bs "old/deep", Dir 493) :: exm_m4) exm_back_fs).
  - repeat split; try reflexivity. vm_compute. discriminate.
  - reflexivity.
  - reflexivity.
  - apply exm_front_ok.
  - apply exm_front_ok.
  - apply exm_back_ok.
  - vm_compute. discriminate.
  - vm_compute. discriminate.
  - split; vm_compute; intuition discriminate.
  - split; vm_compute; intuition discriminate.
  - split; vm_compute; intuition discriminate.
  - reflexivity.
  - repeat split; try (vm_compute; reflexivity); vm_compute; discriminate.
  - repeat split; try (vm_compute; reflexivity); vm_compute; discriminate.
  - vm_compute. reflexivity.
Qed.

(* forward, then -R: every entry is back (the order of the association list apart) *)
Example pure_rename_roundtrip_run :
  let r1 := run_patch ex_p1 exm_text (exm_world None) in
  let r2 := run_patch ex_p1R exm_text (mkWorld (fs (rr_world r1)) 18 [] None []) in
  rr_exit r1 = 0 /\ rr_exit r2 = 0 /\ fs (rr_world r2) = exm_back_fs /\
  forall q, In q (map fst exm_fs) -> lookup (fs (rr_world r2)) q = lookup exm_fs q.
Proof.
  vm_compute. split; [reflexivity|]. split; [reflexivity|]. split; [reflexivity|].
  intros q I. repeat (destruct I as [<-|I]; [reflexivity|]). destruct I.
Qed.

(* ---------- (1), names C-quoted: café.txt to thé.txt (Proofs_WholeNames.exrq_text), -p1; bystanders: the quoted spelling
   taken literally and the name cut at the first byte above 127 ---------- *)
Definition exq_fs : fsmap :=
  [(cafe, Reg exm_data 420); (bs "caf", Reg (bs "other 1" ++ nlb) 420); (bs "caf\303\251.txt", Reg (bs "other 2" ++ nlb) 420);
   (bs """caf\303\251.txt""", Reg (bs "other 3" ++ nlb) 420)].

Example pure_rename_quoted_nonvacuous :
  exists w',
    process_patch ex_p1 exrq_text (mkWorld exq_fs 18 [] None []) = (Ok (0, []), w') /\
    lookup (fs w') the_ = Some (Reg exm_data 420) /\ lookup (fs w') cafe = None /\
    (forall q, q <> cafe -> q <> the_ -> lookup (fs w') q = lookup exq_fs q).
Proof.
  assert (E : exrq_text = join_lines ([] ++ rename_lines (cquote (bs "a/" ++ cafe) ++ bs " " ++ cquote (bs "b/" ++ the_)) (bs "100%")
                                                         (cquote cafe) (cquote the_) ++ [])) by (vm_compute; reflexivity).
  rewrite E.
  set (w := mkWorld exq_fs 18 [] None []).
  destruct (pure_rename_end_to_end_quoted ex_p1 FUnknown [] [] cafe the_ (bs "100%") w exm_data 420 exq_fs
              (moved exq_fs 18 cafe the_ exm_data 420)) as (w' & E1 & F1 & _ & _ & (M1 & M2 & _)).
  - repeat split; try reflexivity. vm_compute. discriminate.
  - reflexivity.
  - reflexivity.
  - constructor.
  - constructor.
  - constructor.
  - unfold bytes. repeat constructor.
  - unfold bytes. repeat constructor.
  - split; vm_compute; intuition discriminate.
  - reflexivity.
  - repeat split; try (vm_compute; reflexivity); vm_compute; discriminate.
  - repeat split; try (vm_compute; reflexivity); vm_compute; discriminate.
  - vm_compute. reflexivity.
  - exists w'. split; [exact E1|]. split; [exact M1|]. split; [exact M2|].
    intros q H1 H2. rewrite F1. apply moved_lookup.
    + intros ->. apply H1. vm_compute. reflexivity.
    + intros ->. apply H2. vm_compute. reflexivity.
Qed.

(* ---------- a rename followed by a change section of another file (Proofs_WholeGit.exg_text): the loop step, and the whole
   program by computation: both are carried out at the end of the run, the write of the change first ---------- *)
Definition exs_world : world :=
  mkWorld [(bs "dir", Dir 493); (bs "dir/sub", Dir 493); (bs "dir/sub/old.txt", Reg (bs "x" ++ nlb) 420);
           (bs "f", Reg ex_dataA 420); (bs "old.txt", Reg (bs "y" ++ nlb) 420)] 18 [] None [].

Example pure_rename_then_next_nonvacuous : forall k,
  section_loop (S k) ex_p1 FUnknown ds0 (strm (exr_text ++ exg_text)) true exs_world =
  (let! y := rename_section ds0 (bs "dir/sub/old.txt") (bs "dir/sub/new.txt") (bs "x" ++ nlb) 420 (strm exg_text) in
   section_loop k ex_p1 FUnknown (fst y) (snd y) false) exs_world.
Proof.
  intros k.
  assert (E : exr_text ++ exg_text =
              join_lines ([] ++ rename_lines ((bs "a/" ++ bs "dir/sub/old.txt") ++ bs " b/" ++ bs "dir/sub/new.txt") (bs "100%")
                                             (bs "dir/sub/old.txt") (bs "dir/sub/new.txt")) ++
              (bs "diff --git " ++ bs "a/f b/f") ++ 10%N :: skipn 19 exg_text) by (vm_compute; reflexivity).
  assert (E2 : exg_text = (bs "diff --git " ++ bs "a/f b/f") ++ 10%N :: skipn 19 exg_text) by (vm_compute; reflexivity).
  rewrite E. rewrite E2 at 2.
  apply (pure_rename_then_next ex_p1 FUnknown [] _ (bs "100%") (bs "dir/sub/old.txt") (bs "dir/sub/new.txt")
                               (bs "dir/sub/old.txt") (bs "dir/sub/new.txt") (bs "a/f b/f") (skipn 19 exg_text) ds0 true k exs_world
                               (bs "x" ++ nlb) 420).
  - repeat split; try reflexivity. vm_compute. discriminate.
  - constructor.
  - constructor.
  - apply (rename_text_plain 1 (bs "dir/sub/old.txt") (bs "dir/sub/new.txt") (bs "100%")).
    + vm_compute. discriminate.
    + vm_compute. discriminate.
    + split; vm_compute; intuition discriminate.
    + split; vm_compute; intuition discriminate.
    + split; vm_compute; intuition discriminate.
  - split; vm_compute; intuition discriminate.
  - reflexivity.
  - repeat split; try (vm_compute; reflexivity); vm_compute; discriminate.
Qed.

Example pure_rename_then_change_run :
  let r := run_patch ex_p1 (exr_text ++ exg_text) exs_world in
  rr_exit r = 0 /\ rr_events r = [] /\
  lookup (fs (rr_world r)) (bs "dir/sub/new.txt") = Some (Reg (bs "x" ++ nlb) 420) /\
  lookup (fs (rr_world r)) (bs "dir/sub/old.txt") = None /\
  lookup (fs (rr_world r)) (bs "f") = Some (Reg ex_dataB 420) /\
  lookup (fs (rr_world r)) (bs "old.txt") = Some (Reg (bs "y" ++ nlb) 420) /\
  trace (rr_world r) =
    [OOpenRead (bs "dir/sub/old.txt"); OMkdir (bs "dir"); OMkdir (bs "dir/sub"); OOpenRead (bs "f");
     OMkdir (bs "dir"); OMkdir (bs "dir/sub"); OWrite (bs "dir/sub/new.txt") (bs "x" ++ nlb); OChmod (bs "dir/sub/new.txt") 420;
     OWrite (bs "f") ex_dataB; OChmod (bs "f") 420; OUnlink (bs "dir/sub/old.txt"); ORmdir (bs "dir/sub")].
Proof. vm_compute. repeat split; reflexivity. Qed.

(* ================= why the hypotheses are what they are (and what they show of the program) ================= *)
(* -- "rewritten o data = data".  The rename is a read / split in lines / write: under the default --newline-output (native)
   a file with CRLF line ends comes out with LF line ends although the patch says "similarity index 100%"; only
   --newline-output=preserve keeps every file as it is *)
Definition exc_data : list N := bs "x" ++ [13; 10]%N ++ bs "y" ++ [13; 10]%N.
Definition exc_text : list N :=
  bs "diff --git a/old.txt b/new.txt" ++ nlb ++ bs "similarity index 100%" ++ nlb ++ bs "rename from old.txt" ++ nlb ++ bs "rename to new.txt" ++ nlb.
Definition ex_p1_keep : options :=
  mkOptions false false [] [] false [] false false false [] 1%Z 2%Z false [] []
            false false false false false false false false OBUnset OBUnset MKeep RFDefault ROWarn QSUnset [] [].

Example rename_rewrites_crlf :
  rewritten ex_p1 exc_data = bs "x" ++ nlb ++ bs "y" ++ nlb /\ rewritten ex_p1_keep exc_data = exc_data /\
  let r := run_patch ex_p1 exc_text (mkWorld [(bs "old.txt", Reg exc_data 420)] 18 [] None []) in
  rr_exit r = 0 /\ fs (rr_world r) = [(bs "new.txt", Reg (bs "x" ++ nlb ++ bs "y" ++ nlb) 420)].
Proof. vm_compute. repeat split; reflexivity. Qed.

(* -- the directory the old name was in is given to rmdir even when it is known not to be empty (the new name has just been
   written into it); when the directory ABOVE it cannot be written, rmdir answers EACCES instead of ENOTEMPTY.  Since the
   repair of the program (EACCES ends the walk like ENOTEMPTY does) the run, which has moved the file, ends with status 0;
   before it threw an exception there (status 2) *)
Definition exd_text : list N :=
  bs "diff --git a/top/d/old.txt b/top/d/new.txt" ++ nlb ++ bs "similarity index 100%" ++ nlb ++
  bs "rename from top/d/old.txt" ++ nlb ++ bs "rename to top/d/new.txt" ++ nlb.
Definition exd_fs : fsmap :=
  [(bs "top", Dir 365); (bs "top/d", Dir 493); (bs "top/d/old.txt", Reg exm_data 420); (bs "top/d/keep", Reg (bs "k" ++ nlb) 420)].

Example rename_done_and_status_0 :
  let r := run_patch ex_p1 exd_text (mkWorld exd_fs 18 [] None []) in
  rr_exit r = 0 /\
  lookup (fs (rr_world r)) (bs "top/d/new.txt") = Some (Reg exm_data 420) /\ lookup (fs (rr_world r)) (bs "top/d/old.txt") = None /\
  trace (rr_world r) =
    [OOpenRead (bs "top/d/old.txt"); OMkdir (bs "top"); OMkdir (bs "top/d"); OMkdir (bs "top"); OMkdir (bs "top/d");
     OWrite (bs "top/d/new.txt") exm_data; OChmod (bs "top/d/new.txt") 420; OUnlink (bs "top/d/old.txt"); ORmdir (bs "top/d")].
Proof. vm_compute. repeat split; reflexivity. Qed.

(* -- "lookup m dst = None" (rename_ready).  When the new name exists the run is NOT rename_prog: the existing file is
   overwritten with the bytes of the old one (no refusal, no backup without -b) and keeps ITS permissions *)
Example rename_over_existing_run :
  let r := run_patch ex_p1 exc_text (mkWorld [(bs "old.txt", Reg exm_data 420); (bs "new.txt", Reg (bs "precious" ++ nlb) 384)] 18 [] None []) in
  rr_exit r = 0 /\ fs (rr_world r) = [(bs "new.txt", Reg exm_data 384)].
Proof. vm_compute. repeat split; reflexivity. Qed.

(* ================= names written with a leading "./" ================= *)
(* "rename from ./OLD" / "rename to ./NEW" under -p1 name ./OLD and ./NEW (ext_name 1): the directory the old name leaves is
   ".", where the run stands.  The walk that removes emptied directories stops there without giving it to rmdir (the program
   used to call rmdir(".") after the unlink, got EINVAL and ended with status 2, the file already moved): whatever the tree
   holds, the walk after the unlink of ./OLD changes nothing and is never refused *)
Definition dot_name (a : list N) : list N := 46%N :: 47%N :: a.

Lemma parent_dot a : ~ In 47%N a -> parent (dot_name a) = Some [46%N].
Proof.
  intros H. unfold parent, dot_name. cbn [parent_aux N.eqb Pos.eqb app]. apply no_slash_parent_aux. exact H.
Qed.

Lemma prefixes_dot a : ~ In 47%N a -> dir_prefixes (dot_name a) [] = [[46%N]].
Proof.
  intros H. unfold dot_name. cbn [dir_prefixes N.eqb Pos.eqb app is_nil]. rewrite (no_slash_prefixes a _ H). reflexivity.
Qed.

Lemma rmdirs_fs_dot m a : ~ In 47%N a -> rmdirs_fs (length (dot_name a)) m (dot_name a) = Some m.
Proof. intros H. cbn [length dot_name rmdirs_fs]. fold (dot_name a). rewrite (parent_dot a H). reflexivity. Qed.

Theorem rename_prog_dot a b out mode w data md :
  fault w = None -> a <> b -> ~ In 47%N a -> ~ In 47%N b ->
  lookup (fs w) (dot_name a) = Some (Reg data mode) -> owner_r mode = true -> lookup (fs w) (dot_name b) = None ->
  lookup (fs w) [46%N] = Some (Dir md) -> owner_x md = true -> owner_w md = true ->
  exists w',
    rename_prog (dot_name a) (dot_name b) out mode w = (Ok (0, []), w') /\
    fs w' = moved (fs w) (umask w) (dot_name a) (dot_name b) out mode /\
    lookup (fs w') (dot_name b) = Some (Reg out mode) /\ lookup (fs w') (dot_name a) = None /\
    (forall q, q <> dot_name a -> q <> dot_name b -> lookup (fs w') q = lookup (fs w) q) /\
    fault w' = None /\ umask w' = umask w.
Proof.
  intros Fw Hab Ha Hb Lf Hr Lg Ld Hx Hw.
  assert (Hne : dot_name a <> dot_name b) by (intros E; inversion E; contradiction).
  assert (Pk : forall c, ~ In 47%N c -> parent_ok (fs w) (dot_name c) true = true).
  { intros c Hc. unfold parent_ok. rewrite (parent_dot c Hc), Ld, Hx, Hw. reflexivity. }
  destruct (rename_prog_runs (dot_name a) (dot_name b) out mode w data (fs w)
              (moved (fs w) (umask w) (dot_name a) (dot_name b) out mode) Fw Hne ltac:(discriminate) Lf (Pk a Ha) Hr Lg)
    as (w' & E & F1 & F2 & F3).
  - rewrite (prefixes_dot b Hb). cbn [mkdirs_fs]. rewrite Ld. reflexivity.
  - exact (Pk b Hb).
  - apply rmdirs_fs_dot. exact Ha.
  - exists w'. split; [exact E|]. split; [exact F1|]. rewrite F1.
    split; [unfold moved; rewrite lookup_remove_other by exact Hne; apply lookup_upd_same|].
    split; [unfold moved; apply lookup_remove_same|].
    split; [intros q H1 H2; apply moved_lookup; assumption|]. split; assumption.
Qed.
Print Assumptions rename_prog_dot.

(* the whole program: patch -p1 on "rename from ./old.txt" / "rename to ./new.txt": status 0, the file moved, and "." is not
   given to rmdir at all (see the trace).  Bystander: old.txt, which is another entry of the tree than ./old.txt *)
Definition exdot_text : list N :=
  bs "diff --git a/./old.txt b/./new.txt" ++ nlb ++ bs "similarity index 100%" ++ nlb ++
  bs "rename from ./old.txt" ++ nlb ++ bs "rename to ./new.txt" ++ nlb.
Definition exdot_world : world := mkWorld [(bs ".", Dir 493); (bs "./old.txt", Reg exm_data 420); (bs "old.txt", Reg (bs "y" ++ nlb) 420)] 18 [] None [].

Example rename_prog_dot_nonvacuous :
  exists w',
    process_patch ex_p1 exdot_text exdot_world = (Ok (0, []), w') /\
    lookup (fs w') (bs "./new.txt") = Some (Reg exm_data 420) /\ lookup (fs w') (bs "./old.txt") = None /\
    (forall q, q <> bs "./old.txt" -> q <> bs "./new.txt" -> lookup (fs w') q = lookup (fs exdot_world) q) /\
    fault w' = None.
Proof.
  assert (E : exdot_text = join_lines ([] ++ rename_lines ((bs "a/" ++ bs "./old.txt") ++ bs " b/" ++ bs "./new.txt") (bs "100%")
                                                          (bs "./old.txt") (bs "./new.txt") ++ [])) by (vm_compute; reflexivity).
  rewrite E.
  rewrite (pure_rename_program ex_p1 FUnknown [] [] _ (bs "100%") (bs "./old.txt") (bs "./new.txt")
             (dot_name (bs "old.txt")) (dot_name (bs "new.txt")) exdot_world exm_data 420).
  - destruct (rename_prog_dot (bs "old.txt") (bs "new.txt") (rewritten ex_p1 exm_data) 420 exdot_world exm_data 493)
      as (w' & E1 & _ & L1 & L2 & L3 & F & _); try reflexivity; try (vm_compute; intuition discriminate).
    exists w'. split; [exact E1|]. split; [exact L1|]. split; [exact L2|]. split; [exact L3|exact F].
  - repeat split; try reflexivity. vm_compute. discriminate.
  - reflexivity.
  - constructor.
  - constructor.
  - constructor.
  - apply (rename_text_plain 1 (bs "./old.txt") (bs "./new.txt") (bs "100%")).
    + vm_compute. discriminate.
    + vm_compute. discriminate.
    + split; vm_compute; intuition discriminate.
    + split; vm_compute; intuition discriminate.
    + split; vm_compute; intuition discriminate.
  - repeat split; try (vm_compute; reflexivity); vm_compute; discriminate.
Qed.

Example rename_dot_run :
  let r := run_patch ex_p1 exdot_text exdot_world in
  rr_exit r = 0 /\ rr_events r = [] /\
  fs (rr_world r) = [(bs "./new.txt", Reg exm_data 420); (bs ".", Dir 493); (bs "old.txt", Reg (bs "y" ++ nlb) 420)] /\
  trace (rr_world r) =
    [OOpenRead (bs "./old.txt"); OMkdir (bs "."); OMkdir (bs "."); OWrite (bs "./new.txt") exm_data; OChmod (bs "./new.txt") 420;
     OUnlink (bs "./old.txt")].
Proof. vm_compute. repeat split; reflexivity. Qed.
