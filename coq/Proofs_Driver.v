(* Proofs_Driver.v — theorems about the driver model (Driver.v over World.v): --dry-run is pure (C15). *)
From PatchV Require Import Base Lines Hunk Locator Formatter Options Applier LineParser Parser World Driver Proofs_Base.

(* ---------- a read-only computation: the tree, the umask and the fault budget aside, nothing changes; every operation
   recorded is a non-mutating one; a result, when there is one, satisfies Q ---------- *)
Definition only_reads (old new : list sysop) : Prop := exists ext, new = old ++ ext /\ Forall (fun o => is_mutating o = false) ext.

Definition RO {A} (m : M A) (Q : A -> Prop) : Prop :=
  forall w, fs (snd (m w)) = fs w /\ umask (snd (m w)) = umask w /\ only_reads (trace w) (trace (snd (m w))) /\
            match fst (m w) with Ok a => Q a | Throw _ => True end.

Lemma only_reads_refl t : only_reads t t.
Proof. exists []. rewrite app_nil_r. auto. Qed.

Lemma only_reads_trans a b c : only_reads a b -> only_reads b c -> only_reads a c.
Proof.
  intros (x & -> & Hx) (y & -> & Hy). exists (x ++ y). rewrite app_assoc. split; [reflexivity|]. apply Forall_app. auto.
Qed.

Lemma RO_ret {A} (a : A) (Q : A -> Prop) : Q a -> RO (mret a) Q.
Proof. intros H w. cbn. repeat split; auto. apply only_reads_refl. Qed.

Lemma RO_throw {A} e (Q : A -> Prop) : RO (mthrow e) Q.
Proof. intros w. cbn. repeat split; auto. apply only_reads_refl. Qed.

Lemma RO_lift {A} (r : res A) (Q : A -> Prop) : (forall a, r = Ok a -> Q a) -> RO (mlift r) Q.
Proof. intros H w. cbn. repeat split; auto; [apply only_reads_refl|]. destruct r; auto. Qed.

Lemma RO_getfs (Q : fsmap -> Prop) : (forall m, Q m) -> RO get_fs Q.
Proof. intros H w. cbn. repeat split; auto. apply only_reads_refl. Qed.

Lemma RO_bind {A B} (m : M A) (f : A -> M B) (Q : A -> Prop) (R : B -> Prop) :
  RO m Q -> (forall a, Q a -> RO (f a) R) -> RO (mbind m f) R.
Proof.
  intros Hm Hf w. unfold mbind. specialize (Hm w). destruct (m w) as [[a|e] w1]; cbn [fst snd] in *.
  - destruct Hm as (F & U & T & Qa). specialize (Hf a Qa w1). destruct (f a w1) as [r w2]. cbn [fst snd] in *.
    destruct Hf as (F2 & U2 & T2 & Rr). repeat split; try congruence. eapply only_reads_trans; eauto.
  - destruct Hm as (F & U & T & _). repeat split; auto.
Qed.

Lemma RO_weaken {A} (m : M A) (Q R : A -> Prop) : RO m Q -> (forall a, Q a -> R a) -> RO m R.
Proof.
  intros H I w. destruct (H w) as (F & U & T & Qa). repeat split; auto. destruct (fst (m w)); auto.
Qed.

Lemma RO_open_read p : RO (perform (OOpenRead p)) (fun _ => True).
Proof.
  intros w. unfold perform.
  assert (T : only_reads (trace w) (trace w ++ [OOpenRead p])) by (exists [OOpenRead p]; split; [reflexivity|repeat constructor]).
  destruct (fault w) as [[|k]|]; cbn [fst snd fs umask trace]; [repeat split; auto| |].
  - cbn [exec_op]. destruct (stat (fs w) p) as [[d mode|mode|t|mode]|]; try destruct (owner_r mode); cbn [fst snd fs umask trace]; repeat split; auto.
  - cbn [exec_op]. destruct (stat (fs w) p) as [[d mode|mode|t|mode]|]; try destruct (owner_r mode); cbn [fst snd fs umask trace]; repeat split; auto.
Qed.

(* ---------- --dry-run ---------- *)
Definition DQ (st st' : dstate) : Prop :=
  deferred_writes st' = deferred_writes st /\ deferred_removals st' = deferred_removals st.

Lemma DQ_refl st : DQ st st. Proof. split; reflexivity. Qed.
Lemma DQ_trans a b c : DQ a b -> DQ b c -> DQ a c. Proof. intros [A B] [C D]. split; congruence. Qed.
Lemma DQ_event st e : DQ st (add_event st e). Proof. split; reflexivity. Qed.
Lemma DQ_fail st : DQ st (set_failure st). Proof. split; reflexivity. Qed.

Section DryRun.
Variable o : options.
Hypothesis Hdry : dry_run o = true.

Lemma RO_refuse st out p : RO (refuse_to_patch o st out p) (DQ st).
Proof. unfold refuse_to_patch. rewrite Hdry. apply RO_ret. eapply DQ_trans; [apply DQ_event|apply DQ_fail]. Qed.

Lemma RO_body_if should p s : RO (body_if should p s) (fun _ => True).
Proof. unfold body_if. destruct should; [apply RO_lift|apply RO_ret]; auto. Qed.

Lemma RO_stdout {A} (a : A) (Q : A -> Prop) data :
  Q a -> RO (fun w => (Ok a, mkWorld (fs w) (umask w) (trace w) (fault w) (stdout_data w ++ data))) Q.
Proof. intros H w. cbn. repeat split; auto. apply only_reads_refl. Qed.

Lemma RO_process_section st should p s :
  RO (process_section o st should p s) (fun y => DQ st (fst y)).
Proof.
  unfold process_section.
  eapply RO_bind; [apply RO_getfs; intros; exact I|intros m _].
  set (ftp := if is_nil (file_to_patch o) then guess_filepath m (map d_dest (deferred_writes st)) p o else file_to_patch o).
  destruct (is_nil ftp); [apply RO_throw|].
  set (outf := output_path o p ftp).
  destruct (exists_ m ftp && negb (is_regular_file m ftp)).
  { eapply RO_bind; [apply RO_body_if|intros ps _].
    eapply RO_bind; [apply RO_refuse|intros st' H]. apply RO_ret. exact H. }
  destruct (N.eqb (N.land (effective_perms st m outf) write_mask) 0 && match read_only o with ROFail => true | _ => false end).
  { eapply RO_bind; [apply RO_body_if|intros ps _].
    eapply RO_bind; [apply RO_refuse|intros st' H]. apply RO_ret. exact H. }
  eapply RO_bind with (Q := fun _ => True).
  { destruct (pending_content st m ftp outf).
    - apply RO_ret; exact I.
    - eapply RO_bind; [apply RO_open_read|intros r _].
      destruct r as [e|].
      + destruct e; try apply RO_throw. destruct (is_adding_file p o); [apply RO_ret; exact I|apply RO_throw].
      + destruct (stat m ftp) as [[d md|md|t|md]|]; try apply RO_throw. apply RO_ret; exact I. }
  intros input_lines _.
  eapply RO_bind with (Q := fun _ => True).
  { destruct (negb (is_nil (prereq p)) && negb (has_prerequisite input_lines (prereq p))); [|apply RO_ret; exact I].
    destruct (batch o); [apply RO_throw|]. destruct (force o); [apply RO_ret; exact I|apply RO_throw]. }
  intros _ _.
  eapply RO_bind; [apply RO_body_if|intros [p2 s2] _].
  eapply RO_bind; [apply RO_lift; intros; exact I|intros ar _].
  eapply RO_bind with (Q := DQ st).
  { destruct (negb (Nat.eqb (r_failed ar) 0)).
    - rewrite Hdry. apply RO_ret. eapply DQ_trans; [apply DQ_event|]. eapply DQ_trans; [apply DQ_event|apply DQ_fail].
    - apply RO_ret. apply DQ_event. }
  intros st2 H2.
  destruct (str_eqb (out_file_path o) (bs "-")); [apply RO_stdout; exact H2|].
  rewrite Hdry. cbn [negb andb].
  eapply RO_bind with (Q := fun x => DQ st (fst x) /\ snd x = false).
  { match goal with |- RO (if ?c then _ else _) _ => destruct c end.
    - destruct (is_nil (lines_bytes (newline_output o) (r_out ar))).
      + apply RO_ret. split; [exact H2|reflexivity].
      + apply RO_ret. split; [|reflexivity]. cbn [fst]. destruct (str_eqb _ devnull); [eapply DQ_trans; [exact H2|apply DQ_fail]|exact H2].
    - apply RO_ret. split; [exact H2|reflexivity]. }
  intros [st4 wtf] [H4 Hw]. cbn [fst snd] in H4, Hw. subst wtf.
  eapply RO_bind with (Q := DQ st); [apply RO_ret; exact H4|intros st5 H5].
  rewrite andb_false_r. cbn [andb].
  eapply RO_bind with (Q := DQ st); [apply RO_ret; exact H5|intros st6 H6].
  apply RO_ret. exact H6.
Qed.

Lemma RO_section_loop : forall fuel f st s first,
  RO (section_loop fuel o f st s first) (DQ st).
Proof.
  induction fuel as [|k IH]; intros f st s first; cbn [section_loop]; [apply RO_throw|].
  destruct (seof s); [apply RO_ret; apply DQ_refl|].
  eapply RO_bind; [apply RO_lift; intros; exact I|intros [[[should p] s1] found] _].
  assert (A : RO (let! y := process_section o st should p s1 in section_loop k o f (fst y) (snd y) false) (DQ st)).
  { eapply RO_bind; [apply RO_process_section|intros y Hy]. eapply RO_weaken; [apply IH|intros a Ha; eapply DQ_trans; [exact Hy|exact Ha]]. }
  assert (Go : RO (match poper p with
                   | OpBinary => section_loop k o f (set_failure st) s1 false
                   | _ => let! y := process_section o st should p s1 in section_loop k o f (fst y) (snd y) false
                   end) (DQ st)).
  { destruct (poper p); try exact A. eapply RO_weaken; [apply IH|intros a Ha; eapply DQ_trans; [apply DQ_fail|exact Ha]]. }
  destruct (if negb found && should then FUnknown else pfmt p); try exact Go.
  destruct first; [apply RO_throw|apply RO_ret; apply DQ_refl].
Qed.

Lemma RO_patch_file_bytes stdin : RO (patch_file_bytes o stdin) (fun _ => True).
Proof.
  unfold patch_file_bytes. destruct (_ || _); [apply RO_ret; exact I|].
  eapply RO_bind; [apply RO_open_read|intros r _].
  eapply RO_bind; [apply RO_getfs; intros; exact I|intros m _].
  destruct r; [apply RO_throw|]. destruct (stat m (patch_file_path o)) as [[d md|md|t|md]|]; try apply RO_throw. apply RO_ret; exact I.
Qed.

Lemma RO_process_patch bytes : RO (process_patch o bytes) (fun _ => True).
Proof.
  unfold process_patch.
  eapply RO_bind; [apply RO_lift; intros; exact I|intros f _].
  eapply RO_bind; [apply RO_section_loop|intros st [Hw Hr]]. cbn [deferred_writes deferred_removals] in Hw, Hr.
  rewrite Hw, Hr. cbn [finalize_writes finalize_removals].
  eapply RO_bind with (Q := fun _ => True); [apply RO_ret; exact I|intros st1 _].
  eapply RO_bind with (Q := fun _ => True); [apply RO_ret; exact I|intros _ _].
  apply RO_ret; exact I.
Qed.

(* --dry-run: whatever the patch does, the tree is left exactly as it was: same files, bytes, modes, links; nothing is
   created; every system operation performed is the opening of a file for reading *)
Theorem dry_run_pure stdin w :
  fs (rr_world (run_patch o stdin w)) = fs w /\
  only_reads (trace w) (trace (rr_world (run_patch o stdin w))).
Proof.
  unfold run_patch.
  assert (H : RO (let! b := patch_file_bytes o stdin in process_patch o b) (fun _ => True)).
  { eapply RO_bind; [apply RO_patch_file_bytes|intros b _; apply RO_process_patch]. }
  destruct (H w) as (F & _ & T & _).
  destruct ((let! b := patch_file_bytes o stdin in process_patch o b) w) as [[[code ev]|e] w']; cbn [fst snd rr_world] in *; auto.
Qed.

End DryRun.
