(* Proofs_Filler.v — C11: text in front of a section that does not look like part of a diff changes nothing. *)
From PatchV Require Import Base Lines Hunk LineParser Parser Proofs_Base Proofs_Lines Proofs_Unified Proofs_Fuel.

(* the same scan state, k lines further down *)
Definition shift (k : nat) (st : hstate) : hstate :=
  mkHS (h_patch st) (h_looks st) (h_lines st + k) (h_git st) (h_body st) (h_hunk st)
       (match h_first st with O => O | S n => S n + k end).

Definition shift_r (k : nat) (r : res (hstate + hstate)) : res (hstate + hstate) :=
  match r with
  | Ok (inl s) => Ok (inl (shift k s))
  | Ok (inr s) => Ok (inr (shift k s))
  | Throw e => Throw e
  end.

Lemma header_step_shift k strip st line : header_step strip (shift k st) line = shift_r k (header_step strip st line).
Proof.
  unfold header_step, shift. cbn [h_patch h_looks h_lines h_git h_body h_hunk h_first].
  repeat match goal with
         | |- context [match ?x with Some _ => _ | None => _ end] => destruct x
         | |- context [if ?c then _ else _] => destruct c
         | |- context [let '(_, _) := ?x in _] => destruct x
         | |- context [rbind ?m _] => destruct m; cbn [rbind]
         end; cbn [shift_r shift h_patch h_looks h_lines h_git h_body h_hunk h_first Nat.add]; try reflexivity.
Qed.

Lemma shift_shift a b st : shift a (shift b st) = shift (b + a) st.
Proof.
  unfold shift. cbn [h_patch h_looks h_lines h_git h_body h_hunk h_first]. f_equal; [lia|].
  destruct (h_first st); [reflexivity|]. cbn [Nat.add]. f_equal. lia.
Qed.

Lemma header_loop_shift k : forall fuel strip st s,
  header_loop fuel strip (shift k st) s =
  match header_loop fuel strip st s with Ok (st', s') => Ok (shift k st', s') | Throw e => Throw e end.
Proof.
  induction fuel as [|f IH]; intros strip st s; [reflexivity|]. cbn [header_loop].
  destruct (sget_line s) as [[[line n]|] s1]; [|reflexivity].
  rewrite header_step_shift. destruct (header_step strip st line) as [[st1|st1]|e]; cbn [shift_r rbind]; [apply IH|reflexivity|reflexivity].
Qed.

Lemma header_loop_fuel : forall f1 f2 strip st s,
  length (rest s) < f1 -> length (rest s) < f2 -> header_loop f1 strip st s = header_loop f2 strip st s.
Proof.
  induction f1 as [|f1 IH]; intros f2 strip st s L1 L2; [lia|]. destruct f2 as [|f2]; [lia|]. cbn [header_loop].
  destruct (sget_line s) as [[[line n]|] s1] eqn:G; [|reflexivity].
  pose proof (Proofs_Fuel.sget_line_some _ _ _ G).
  destruct (header_step strip st line) as [[st1|st1]|e]; cbn [rbind]; try reflexivity. apply IH; lia.
Qed.

(* a line on which the scan, having seen nothing yet, does nothing but count *)
Definition st0 (p : patch) : hstate := mkHS p LKUnknown 0 false true empty_hunk 0.
Definition Filler (strip : Z) (p : patch) (line : list N) : Prop := header_step strip (st0 p) line = Ok (inl (shift 1 (st0 p))).

Definition join_lines (ls : list (list N)) : list N := flat_map (fun l => l ++ [10%N]) ls.

Lemma header_loop_filler strip p : forall ls k fuel rest_,
  Forall (Filler strip p) ls -> Forall clean ls ->
  length (join_lines ls ++ rest_) < fuel ->
  header_loop fuel strip (shift k (st0 p)) (strm (join_lines ls ++ rest_)) =
  header_loop (fuel - length ls) strip (shift (k + length ls) (st0 p)) (strm rest_).
Proof.
  induction ls as [|l ls IH]; intros k fuel rest_ HF HC L.
  - cbn [join_lines flat_map app length]. rewrite Nat.sub_0_r, Nat.add_0_r. reflexivity.
  - inversion HF as [|? ? F1 F2]; inversion HC as [|? ? C1 C2]; subst.
    destruct fuel as [|fuel]; [lia|]. cbn [join_lines flat_map]. rewrite <- !app_assoc. cbn [app header_loop].
    unfold strm at 1. rewrite (sget_line_lf _ _ C1).
    rewrite header_step_shift. unfold Filler in F1. rewrite F1. cbn [shift_r rbind]. rewrite shift_shift.
    fold (join_lines ls). change (mkStream (join_lines ls ++ rest_) false false) with (strm (join_lines ls ++ rest_)).
    rewrite (IH (1 + k) fuel rest_ F2 C2).
    + cbn [length Nat.sub]. replace (1 + k + length ls) with (k + S (length ls)) by lia. reflexivity.
    + cbn [join_lines flat_map] in L. rewrite !app_length in L. cbn [length] in L. unfold join_lines. rewrite app_length. lia.
Qed.

Lemma skip_lines_filler : forall ls m rest_, Forall clean ls ->
  skip_lines (length ls + m) (strm (join_lines ls ++ rest_)) = skip_lines m (strm rest_).
Proof.
  induction ls as [|l ls IH]; intros m rest_ HC; [reflexivity|]. inversion HC as [|? ? C1 C2]; subst.
  cbn [length Nat.add skip_lines join_lines flat_map]. rewrite <- !app_assoc. cbn [app]. unfold strm at 1. rewrite (sget_line_lf _ _ C1).
  apply IH. exact C2.
Qed.

(* Text in front of a section: when the lines before it are filler for this scan, the header scan of "filler + section"
   finds the same patch record, the same decision about the body, and leaves the stream at the same place as the scan of the
   section alone. *)
Theorem filler_prefix strip p ls rest_ should p' s1 :
  Forall (Filler strip p) ls -> Forall clean ls ->
  parse_patch_header_full p strip (strm rest_) = Ok (should, p', s1, true) ->
  parse_patch_header_full p strip (strm (join_lines ls ++ rest_)) = Ok (should, p', s1, true).
Proof.
  intros HF HC. unfold parse_patch_header_full. cbn [rest strm].
  fold (st0 p).
  assert (E : header_loop (S (length (join_lines ls ++ rest_))) strip (st0 p) (strm (join_lines ls ++ rest_)) =
              match header_loop (S (length rest_)) strip (st0 p) (strm rest_) with Ok (st', s') => Ok (shift (length ls) st', s') | Throw e => Throw e end).
  { pose proof (header_loop_filler strip p ls 0 (S (length (join_lines ls ++ rest_))) rest_ HF HC ltac:(lia)) as X.
    assert (S0 : shift 0 (st0 p) = st0 p) by reflexivity. rewrite S0 in X. rewrite X. cbn [Nat.add].
    rewrite header_loop_shift.
    assert (Ln : length ls <= length (join_lines ls)).
    { clear. induction ls as [|l ls IH]; [cbn; lia|]. cbn [join_lines flat_map length]. rewrite app_length, app_length. cbn. unfold join_lines in IH. lia. }
    rewrite (header_loop_fuel (S (length (join_lines ls ++ rest_)) - length ls) (S (length rest_))); [reflexivity| |]; cbn [rest strm]; rewrite ?app_length; lia. }
  rewrite E. destruct (header_loop (S (length rest_)) strip (st0 p) (strm rest_)) as [[st s0]|e]; cbn [rbind]; [|discriminate].
  cbn [shift h_git h_patch h_first h_body h_hunk].
  destruct (h_first st) as [|n] eqn:Hf.
  - (* nothing found in the section alone: excluded by the hypothesis *)
    cbn [Nat.sub skip_lines rbind Nat.eqb negb]. discriminate.
  - cbn [Nat.sub]. rewrite Nat.sub_0_r.
    assert (Sk : skip_lines (S n + length ls - 1) (sseek (sclear s0) (join_lines ls ++ rest_)) = skip_lines n (sseek (sclear s0) rest_)).
    { replace (S n + length ls - 1) with (length ls + n) by lia. apply (skip_lines_filler ls n rest_ HC). }
    rewrite Sk. destruct (skip_lines n (sseek (sclear s0) rest_)) as [s3|e]; cbn [rbind]; [|discriminate].
    intros H. inversion H; subst. reflexivity.
Qed.
