(* Spec_Define.v — a tiny C preprocessor evaluator for the four directives -D writes (C20).  Does not mention the model. *)
From PatchV Require Import Base Lines.

Inductive dkind := KIfdef | KIfndef | KElse | KEndif | KText.

Definition classify (sym : list N) (l : line) : dkind :=
  if str_eqb (txt l) (bs "#ifdef " ++ sym) then KIfdef
  else if str_eqb (txt l) (bs "#ifndef " ++ sym) then KIfndef
  else if str_eqb (txt l) (bs "#else") then KElse
  else if str_eqb (txt l) (bs "#endif") then KEndif
  else KText.

Definition all_active (stack : list bool) : bool := forallb (fun b => b) stack.

(* Runs over the lines with a stack of "this branch is active" flags; returns the lines that survive and the stack left
   open, or None for an #else / #endif without an opening directive. *)
Fixpoint cpp_run (sym : list N) (defined : bool) (stack : list bool) (ls : list line) : option (list line * list bool) :=
  match ls with
  | [] => Some ([], stack)
  | l :: r =>
      match classify sym l with
      | KIfdef => cpp_run sym defined (defined :: stack) r
      | KIfndef => cpp_run sym defined (negb defined :: stack) r
      | KElse => match stack with [] => None | b :: s => cpp_run sym defined (negb b :: s) r end
      | KEndif => match stack with [] => None | _ :: s => cpp_run sym defined s r end
      | KText =>
          match cpp_run sym defined stack r with
          | Some (o, s) => Some (if all_active stack then l :: o else o, s)
          | None => None
          end
      end
  end.

(* the file as the preprocessor sees it: every conditional opened is closed *)
Definition cpp_eval (sym : list N) (defined : bool) (ls : list line) : option (list line) :=
  match cpp_run sym defined [] ls with
  | Some (o, []) => Some o
  | _ => None
  end.
