(* Properties_C08.v — C08 over the parser model: every loop over the patch stream consumes input at each pass.
   In the model each loop carries a fuel equal to the number of bytes left in the stream plus one and answers EOutOfFuel
   when it is used up.  [fueled r] says r is not that answer: the loop ended on its own within (bytes left + 1) passes,
   whatever line numbers, counts or names the text contains.  Statements only; proofs in Proofs_Fuel.v. *)
From PatchV Require Import Base Lines Hunk Options LineParser Parser World Driver Proofs_Fuel Proofs_Progress.

(* reading a line consumes at least one byte *)
Theorem sget_line_some : forall s x s', sget_line s = (Some x, s') -> length (rest s') < length (rest s).
Proof. exact Proofs_Fuel.sget_line_some. Qed.
Print Assumptions sget_line_some.

(* the three body parsers *)
Theorem parse_unified_fueled : forall s, fueled (parse_unified_patch s).
Proof. exact Proofs_Fuel.parse_unified_fueled. Qed.
Print Assumptions parse_unified_fueled.

Theorem parse_normal_fueled : forall s, fueled (parse_normal_patch s).
Proof. exact Proofs_Fuel.parse_normal_fueled. Qed.
Print Assumptions parse_normal_fueled.

Theorem parse_context_fueled : forall s, fueled (parse_context_patch s).
Proof. exact Proofs_Fuel.parse_context_fueled. Qed.
Print Assumptions parse_context_fueled.

(* one context hunk consumes at least one line *)
Theorem parse_context_hunk_spec : forall s,
  fueled (parse_context_hunk s) /\
  (forall x, parse_context_hunk s = Ok x -> length (rest (snd x)) < length (rest s)).
Proof. exact Proofs_Fuel.parse_context_hunk_spec. Qed.
Print Assumptions parse_context_hunk_spec.

Theorem parse_patch_body_fueled : forall p s, fueled (parse_patch_body p s).
Proof. exact Proofs_Fuel.parse_patch_body_fueled. Qed.
Print Assumptions parse_patch_body_fueled.

(* the header scan, including C-quoted names *)
Theorem parse_quoted_string_fueled : forall s, fueled (parse_quoted_string s).
Proof. exact Proofs_Fuel.parse_quoted_string_fueled. Qed.
Print Assumptions parse_quoted_string_fueled.

Theorem parse_patch_header_fueled : forall p strip s, fueled (parse_patch_header_full p strip s).
Proof. exact Proofs_Fuel.parse_patch_header_fueled. Qed.
Print Assumptions parse_patch_header_fueled.

(* a body parser that succeeds on a stream with something left to read has consumed at least one line *)
Theorem body_progress : forall p s p' s',
  parse_patch_body p s = Ok (p', s') -> seof s = false -> sbad s = false -> rest s <> [] ->
  length (rest s') < length (rest s).
Proof. exact Proofs_Progress.body_progress. Qed.
Print Assumptions body_progress.

(* what the header scan hands to the loop over sections: never more input than it got; when a hunk start was found, either
   strictly less input, or the hunk is on the very first line, the body is still to be parsed and the patch is not binary *)
Theorem header_full_spec : forall f strip s should p s1 found,
  parse_patch_header_full (empty_patch f) strip s = Ok (should, p, s1, found) ->
  length (rest s1) <= length (rest s) /\
  (found = false -> should = true) /\
  (found = true -> length (rest s1) < length (rest s) \/ (should = true /\ poper p <> OpBinary /\ s1 = mkStream (rest s) false false)) /\
  (found = true -> should = false -> length (rest s1) < length (rest s)) /\
  (found = true -> poper p = OpBinary -> length (rest s1) < length (rest s)).
Proof. exact Proofs_Progress.header_full_spec. Qed.
Print Assumptions header_full_spec.

(* each pass of the loop over the sections ends the loop or goes on with strictly less input: with "bytes + 2" passes
   allowed the loop is never cut short (Never m: m does not answer EOutOfFuel, in any world) *)
Theorem section_loop_fueled : forall o f fuel st s first,
  length (rest s) + 1 < fuel -> Never (section_loop fuel o f st s first).
Proof. exact Proofs_Progress.section_loop_fueled. Qed.
Print Assumptions section_loop_fueled.

(* the whole run, for every option record, patch text and tree *)
Theorem process_patch_fueled : forall o bytes, Never (process_patch o bytes).
Proof. exact Proofs_Progress.process_patch_fueled. Qed.
Print Assumptions process_patch_fueled.

Local Open Scope string_scope.
(* the input that used to take 2^63 iterations in the implementation: the model answers (a rejected hunk), not EOutOfFuel *)
Example huge_numbers_nonvacuous :
  match parse_unified_patch (stream_of (bs "@@ -9223372036854775807,1 +9223372036854775807,1 @@" ++ [10%N] ++ bs "-zz" ++ [10%N] ++ bs "+yy" ++ [10%N])) with
  | Ok (hs, _) => length hs = 1
  | Throw _ => False
  end.
Proof. vm_compute. reflexivity. Qed.
