(* Properties_C08.v — C08 over the parser model: every loop over the patch stream consumes input at each pass.
   In the model each loop carries a fuel equal to the number of bytes left in the stream plus one and answers EOutOfFuel
   when it is used up.  [fueled r] says r is not that answer: the loop ended on its own within (bytes left + 1) passes,
   whatever line numbers, counts or names the text contains.  Statements only; proofs in Proofs_Fuel.v. *)
From PatchV Require Import Base Lines Hunk LineParser Parser Proofs_Fuel.

(* reading a line consumes at least one byte *)
Theorem sget_line_some : forall s x s', sget_line s = (Some x, s') -> length (rest s') < length (rest s).
Proof. exact Proofs_Fuel.sget_line_some. Qed.
Print Assumptions sget_line_some.

(* the three body parsers *)
Theorem parse_unified_fueled : forall s, fueled (parse_unified_patch s).
Proof. exact Proofs_Fuel.parse_unified_fueled. Qed.
Print Assumptions parse_unified_fueled.

Theorem parse_normal_fueled : forall s, fueled (parse_normal_patch s).
Proof. exact Proofs_Fuel.parse_normal_fueled. Qed.
Print Assumptions parse_normal_fueled.

Theorem parse_context_fueled : forall s, fueled (parse_context_patch s).
Proof. exact Proofs_Fuel.parse_context_fueled. Qed.
Print Assumptions parse_context_fueled.

(* one context hunk consumes at least one line *)
Theorem parse_context_hunk_spec : forall s,
  fueled (parse_context_hunk s) /\
  (forall x, parse_context_hunk s = Ok x -> length (rest (snd x)) < length (rest s)).
Proof. exact Proofs_Fuel.parse_context_hunk_spec. Qed.
Print Assumptions parse_context_hunk_spec.

Theorem parse_patch_body_fueled : forall p s, fueled (parse_patch_body p s).
Proof. exact Proofs_Fuel.parse_patch_body_fueled. Qed.
Print Assumptions parse_patch_body_fueled.

(* the header scan, including C-quoted names *)
Theorem parse_quoted_string_fueled : forall s, fueled (parse_quoted_string s).
Proof. exact Proofs_Fuel.parse_quoted_string_fueled. Qed.
Print Assumptions parse_quoted_string_fueled.

Theorem parse_patch_header_fueled : forall p strip s, fueled (parse_patch_header_full p strip s).
Proof. exact Proofs_Fuel.parse_patch_header_fueled. Qed.
Print Assumptions parse_patch_header_fueled.

Local Open Scope string_scope.
(* the input that used to take 2^63 iterations in the implementation: the model answers (a rejected hunk), not EOutOfFuel *)
Example huge_numbers_nonvacuous :
  match parse_unified_patch (stream_of (bs "@@ -9223372036854775807,1 +9223372036854775807,1 @@" ++ [10%N] ++ bs "-zz" ++ [10%N] ++ bs "+yy" ++ [10%N])) with
  | Ok (hs, _) => length hs = 1
  | Throw _ => False
  end.
Proof. vm_compute. reflexivity. Qed.
