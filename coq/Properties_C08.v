(* Properties_C08.v — C08 over the parser model: every loop over the patch stream consumes input at each pass.
   In the model each loop carries a fuel equal to the number of bytes left in the stream plus one and answers EOutOfFuel
   when it is used up.  [fueled r] says r is not that answer: the loop ended on its own within (bytes left + 1) passes,
   whatever line numbers, counts or names the text contains.  Statements only; proofs in Proofs_Fuel.v. *)
From PatchV Require Import Base Lines Hunk Locator Options Applier LineParser Parser World Driver Proofs_Fuel Proofs_Progress
     Cost_Locate Cost_Matches.

(* reading a line consumes at least one byte *)
Theorem sget_line_some : forall s x s', sget_line s = (Some x, s') -> length (rest s') < length (rest s).
Proof. exact Proofs_Fuel.sget_line_some. Qed.
Print Assumptions sget_line_some.

(* the three body parsers *)
Theorem parse_unified_fueled : forall s, fueled (parse_unified_patch s).
Proof. exact Proofs_Fuel.parse_unified_fueled. Qed.
Print Assumptions parse_unified_fueled.

Theorem parse_normal_fueled : forall s, fueled (parse_normal_patch s).
Proof. exact Proofs_Fuel.parse_normal_fueled. Qed.
Print Assumptions parse_normal_fueled.

Theorem parse_context_fueled : forall s, fueled (parse_context_patch s).
Proof. exact Proofs_Fuel.parse_context_fueled. Qed.
Print Assumptions parse_context_fueled.

(* one context hunk consumes at least one line *)
Theorem parse_context_hunk_spec : forall s,
  fueled (parse_context_hunk s) /\
  (forall x, parse_context_hunk s = Ok x -> length (rest (snd x)) < length (rest s)).
Proof. exact Proofs_Fuel.parse_context_hunk_spec. Qed.
Print Assumptions parse_context_hunk_spec.

Theorem parse_patch_body_fueled : forall p s, fueled (parse_patch_body p s).
Proof. exact Proofs_Fuel.parse_patch_body_fueled. Qed.
Print Assumptions parse_patch_body_fueled.

(* the header scan, including C-quoted names *)
Theorem parse_quoted_string_fueled : forall s, fueled (parse_quoted_string s).
Proof. exact Proofs_Fuel.parse_quoted_string_fueled. Qed.
Print Assumptions parse_quoted_string_fueled.

Theorem parse_patch_header_fueled : forall p strip s, fueled (parse_patch_header_full p strip s).
Proof. exact Proofs_Fuel.parse_patch_header_fueled. Qed.
Print Assumptions parse_patch_header_fueled.

(* a body parser that succeeds on a stream with something left to read has consumed at least one line *)
Theorem body_progress : forall p s p' s',
  parse_patch_body p s = Ok (p', s') -> seof s = false -> sbad s = false -> rest s <> [] ->
  length (rest s') < length (rest s).
Proof. exact Proofs_Progress.body_progress. Qed.
Print Assumptions body_progress.

(* what the header scan hands to the loop over sections: never more input than it got; when a hunk start was found, either
   strictly less input, or the hunk is on the very first line, the body is still to be parsed and the patch is not binary *)
Theorem header_full_spec : forall f strip s should p s1 found,
  parse_patch_header_full (empty_patch f) strip s = Ok (should, p, s1, found) ->
  length (rest s1) <= length (rest s) /\
  (found = false -> should = true) /\
  (found = true -> length (rest s1) < length (rest s) \/ (should = true /\ poper p <> OpBinary /\ s1 = mkStream (rest s) false false)) /\
  (found = true -> should = false -> length (rest s1) < length (rest s)) /\
  (found = true -> poper p = OpBinary -> length (rest s1) < length (rest s)).
Proof. exact Proofs_Progress.header_full_spec. Qed.
Print Assumptions header_full_spec.

(* each pass of the loop over the sections ends the loop or goes on with strictly less input: with "bytes + 2" passes
   allowed the loop is never cut short (Never m: m does not answer EOutOfFuel, in any world) *)
Theorem section_loop_fueled : forall o f fuel st s first,
  length (rest s) + 1 < fuel -> Never (section_loop fuel o f st s first).
Proof. exact Proofs_Progress.section_loop_fueled. Qed.
Print Assumptions section_loop_fueled.

(* the whole run, for every option record, patch text and tree *)
Theorem process_patch_fueled : forall o bytes, Never (process_patch o bytes).
Proof. exact Proofs_Progress.process_patch_fueled. Qed.
Print Assumptions process_patch_fueled.

Local Open Scope string_scope.
(* the input that used to take 2^63 iterations in the implementation: the model answers (a rejected hunk), not EOutOfFuel *)
Example huge_numbers_nonvacuous :
  match parse_unified_patch (stream_of (bs "@@ -9223372036854775807,1 +9223372036854775807,1 @@" ++ [10%N] ++ bs "-zz" ++ [10%N] ++ bs "+yy" ++ [10%N])) with
  | Ok (hs, _) => length hs = 1
  | Throw _ => False
  end.
Proof. vm_compute. reflexivity. Qed.

(* ---------------------------------------------------------------------------------------------------------------
C08, the cost of the hunk locator (proofs in Cost_Locate.v, Cost_Matches.v).

   [locate_hunk_cost], [apply_patch_cost] (Cost_Locate.v) are copies of [Locator.locate_hunk] and of the loop of
   [Applier.apply_patch] over the hunks that also return the number of line comparisons made: one tick per call of
   [Locator.matches] on a (file line, hunk line) pair.  The first component is the model's own result (theorems
   [.._same]), the second is bounded by a polynomial in the number of lines of the file and of the hunk(s):
   no stated line number, no accumulated offset, no cursor occurs in any bound, and -F only through
   [fuzz_levels h F <= min(F, context lines of h) + 1].

   Vocabulary:
     ctx_lines h        = max (leading context lines of h) (trailing context lines of h)
     fuzz_levels h F    = Z.to_nat (Z.min F (ctx_lines h) + 1)     the passes of the fuzz loop locate_hunk allows
     old_side (body h)  = the context and '-' lines of h
     total_lines hs     = sum of the numbers of lines of the hunks hs;  first_lines hs = lines of the first hunk
     hunk_weight F h    = min (F+1) (lines of h + 1) * (lines of h)

   Section (4) refines the unit: [matches_cost] is a copy of [Locator.matches] that counts character steps (1 for the
   terminators, 1 per pair of characters compared, and under -l 1 per pass of the loop of matches_ignoring_whitespace
   and 1 per character its whitespace skipping looks at); [locate_hunk_chars], [apply_patch_chars] charge each line
   comparison that many steps.
     maxlen ls          = length of the longest line of ls;  maxlen_body, maxlen_hunks: the same over hunk lines
     char_bound A B     = 2 * (A + B) + 2                          what comparing a line of A with one of B characters costs *)

(* ---------------------------------------------------------------------------------------------------------------- *)
(* (1) the instrumented functions compute what the model computes                                                    *)
(* ---------------------------------------------------------------------------------------------------------------- *)
Theorem locate_hunk_cost_same : forall lines h ws offset max_fuzz min_line,
  fst (locate_hunk_cost lines h ws offset max_fuzz min_line) = locate_hunk lines h ws offset max_fuzz min_line.
Proof. exact Cost_Locate.locate_hunk_cost_fst. Qed.
Print Assumptions locate_hunk_cost_same.

Theorem apply_patch_cost_same : forall o lines p,
  fst (apply_patch_cost o lines p) = apply_patch o lines p.
Proof. exact Cost_Locate.apply_patch_cost_fst. Qed.
Print Assumptions apply_patch_cost_same.

(* ---------------------------------------------------------------------------------------------------------------- *)
(* (2) one hunk.  All inputs: any Z for the stated line (inside h), the offset and max_fuzz.                         *)
(* ---------------------------------------------------------------------------------------------------------------- *)

(* the number of passes of the fuzz loop *)
Theorem fuzz_levels_bound : forall h max_fuzz,
  fuzz_levels h max_fuzz <= Nat.min (Z.to_nat max_fuzz) (ctx_lines h) + 1 /\
  ctx_lines h <= length (body h) /\
  ((max_fuzz < 0)%Z -> fuzz_levels h max_fuzz = 0).
Proof.
  intros h F. split; [apply fuzz_levels_le|]. split; [apply ctx_lines_le|apply fuzz_levels_neg].
Qed.
Print Assumptions fuzz_levels_bound.

(* the bound in the form of the task *)
Theorem locate_hunk_cost_bound : forall lines h ws offset max_fuzz min_line,
  snd (locate_hunk_cost lines h ws offset max_fuzz min_line)
  <= fuzz_levels h max_fuzz * (2 * length lines + 2) * length (body h).
Proof. exact Cost_Locate.locate_hunk_cost_le. Qed.
Print Assumptions locate_hunk_cost_bound.

(* what the model's scans really give: at one level the forward range [max(guess,min_line) capped at the size, size)
   and the backward range [min_line, min(guess,size)) are disjoint, so every position from min_line on is tested
   at most once per level; '+' lines are not compared *)
Theorem locate_hunk_cost_bound_sharp : forall lines h ws offset max_fuzz min_line,
  snd (locate_hunk_cost lines h ws offset max_fuzz min_line)
  <= fuzz_levels h max_fuzz * ((length lines - min_line) * length (old_side (body h))).
Proof. exact Cost_Locate.locate_hunk_cost_le_sharp. Qed.
Print Assumptions locate_hunk_cost_bound_sharp.

(* in terms of the option value: (F+1) * |file| * |hunk| *)
Theorem locate_hunk_cost_bound_F : forall lines h ws offset max_fuzz min_line,
  snd (locate_hunk_cost lines h ws offset max_fuzz min_line)
  <= Z.to_nat (max_fuzz + 1)%Z * (length lines * length (body h)).
Proof. exact Cost_Locate.locate_hunk_cost_le_F. Qed.
Print Assumptions locate_hunk_cost_bound_F.

(* whatever -F says *)
Theorem locate_hunk_cost_bound_anyF : forall lines h ws offset max_fuzz min_line,
  snd (locate_hunk_cost lines h ws offset max_fuzz min_line)
  <= (length (body h) + 1) * (length lines * length (body h)).
Proof. exact Cost_Locate.locate_hunk_cost_le_anyF. Qed.
Print Assumptions locate_hunk_cost_bound_anyF.

(* a hunk with an empty old range is placed by arithmetic alone *)
Theorem locate_hunk_cost_insertion : forall lines h ws offset max_fuzz min_line,
  rcount (oldr h) = 0%Z -> snd (locate_hunk_cost lines h ws offset max_fuzz min_line) = 0.
Proof. exact Cost_Locate.locate_hunk_cost_insertion. Qed.
Print Assumptions locate_hunk_cost_insertion.

(* one test of a position: never more ticks than old-side lines compared, nor than file lines left *)
Theorem position_test_cost : forall ws content h pf sf pos,
  snd (hunk_matches_at_cost ws content h pf sf pos) <= length (body h) - pf - sf /\
  snd (hunk_matches_at_cost ws content h pf sf pos) <= length content - (pos + pf).
Proof.
  intros ws content h pf sf pos. split; [apply hunk_matches_at_cost_le_trim|apply hunk_matches_at_cost_le_content].
Qed.
Print Assumptions position_test_cost.

(* ---------------------------------------------------------------------------------------------------------------- *)
(* (3) all the hunks of a patch, as apply_patch locates them (the first one possibly twice: as written and reversed) *)
(* ---------------------------------------------------------------------------------------------------------------- *)
Theorem apply_patch_cost_bound : forall o lines p,
  snd (apply_patch_cost o lines p)
  <= Z.to_nat (max_fuzz o + 1)%Z * (2 * length lines + 2) * total_lines (hunks p).
Proof. exact Cost_Locate.apply_patch_cost_le. Qed.
Print Assumptions apply_patch_cost_bound.

Theorem apply_patch_cost_bound_sharp : forall o lines p,
  snd (apply_patch_cost o lines p)
  <= Z.to_nat (max_fuzz o + 1)%Z * length lines * (first_lines (hunks p) + total_lines (hunks p)).
Proof. exact Cost_Locate.apply_patch_cost_le_sharp. Qed.
Print Assumptions apply_patch_cost_bound_sharp.

Theorem apply_patch_cost_bound_weight : forall o lines p,
  snd (apply_patch_cost o lines p)
  <= length lines * (first_weight (max_fuzz o) (hunks p) + total_weight (max_fuzz o) (hunks p)).
Proof. exact Cost_Locate.apply_patch_cost_le_weight. Qed.
Print Assumptions apply_patch_cost_bound_weight.

(* (number of hunks) * (F+1) * (2*|file|+2) * (longest hunk) *)
Theorem apply_patch_cost_bound_max : forall o lines p m,
  (forall h, In h (hunks p) -> length (body h) <= m) ->
  snd (apply_patch_cost o lines p)
  <= length (hunks p) * Z.to_nat (max_fuzz o + 1)%Z * (2 * length lines + 2) * m.
Proof. exact Cost_Locate.apply_patch_cost_le_max. Qed.
Print Assumptions apply_patch_cost_bound_max.

(* whatever -F says *)
Theorem apply_patch_cost_bound_anyF : forall o lines p,
  snd (apply_patch_cost o lines p)
  <= length lines * (2 * ((total_lines (hunks p) + 1) * total_lines (hunks p))).
Proof. exact Cost_Locate.apply_patch_cost_le_anyF. Qed.
Print Assumptions apply_patch_cost_bound_anyF.

(* ---------------------------------------------------------------------------------------------------------------- *)
(* (4) in character steps                                                                                            *)
(* ---------------------------------------------------------------------------------------------------------------- *)
Theorem matches_cost_same : forall c p ws, fst (matches_cost c p ws) = matches c p ws.
Proof. exact Cost_Matches.matches_cost_fst. Qed.
Print Assumptions matches_cost_same.

Theorem matches_cost_bound : forall c p ws,
  snd (matches_cost c p ws) <= 2 * (length (txt c) + length (txt p)) + 2.
Proof. exact Cost_Matches.matches_cost_le. Qed.
Print Assumptions matches_cost_bound.

Theorem locate_hunk_chars_same : forall lines h ws offset max_fuzz min_line,
  fst (locate_hunk_chars lines h ws offset max_fuzz min_line) = locate_hunk lines h ws offset max_fuzz min_line.
Proof. exact Cost_Matches.locate_hunk_chars_fst. Qed.
Print Assumptions locate_hunk_chars_same.

Theorem locate_hunk_chars_bound : forall lines h ws offset max_fuzz min_line,
  snd (locate_hunk_chars lines h ws offset max_fuzz min_line)
  <= fuzz_levels h max_fuzz *
     ((length lines - min_line) * (length (old_side (body h)) * char_bound (maxlen lines) (maxlen_body (body h)))).
Proof. exact Cost_Matches.locate_hunk_chars_le. Qed.
Print Assumptions locate_hunk_chars_bound.

Theorem locate_hunk_chars_bound_anyF : forall lines h ws offset max_fuzz min_line,
  snd (locate_hunk_chars lines h ws offset max_fuzz min_line)
  <= char_bound (maxlen lines) (maxlen_body (body h)) * (length lines * ((length (body h) + 1) * length (body h))).
Proof. exact Cost_Matches.locate_hunk_chars_le_anyF. Qed.
Print Assumptions locate_hunk_chars_bound_anyF.

Theorem apply_patch_chars_same : forall o lines p, fst (apply_patch_chars o lines p) = apply_patch o lines p.
Proof. exact Cost_Matches.apply_patch_chars_fst. Qed.
Print Assumptions apply_patch_chars_same.

Theorem apply_patch_chars_bound : forall o lines p,
  snd (apply_patch_chars o lines p)
  <= char_bound (maxlen lines) (maxlen_hunks (hunks p))
     * (Z.to_nat (max_fuzz o + 1)%Z * (2 * length lines + 2) * total_lines (hunks p)).
Proof. exact Cost_Matches.apply_patch_chars_le. Qed.
Print Assumptions apply_patch_chars_bound.

Theorem apply_patch_chars_bound_anyF : forall o lines p,
  snd (apply_patch_chars o lines p)
  <= char_bound (maxlen lines) (maxlen_hunks (hunks p))
     * (length lines * (2 * ((total_lines (hunks p) + 1) * total_lines (hunks p)))).
Proof. exact Cost_Matches.apply_patch_chars_le_anyF. Qed.
Print Assumptions apply_patch_chars_bound_anyF.

(* a file read from n bytes has at most n lines, none longer than n *)
Theorem split_lines_sizes : forall bytes,
  length (split_lines bytes) <= length bytes /\ maxlen (split_lines bytes) <= length bytes.
Proof. exact Cost_Matches.split_lines_sizes. Qed.
Print Assumptions split_lines_sizes.

(* so, against the bytes of the file and the lines of the patch *)
Theorem locate_hunk_chars_bound_bytes : forall bytes h ws offset max_fuzz min_line,
  snd (locate_hunk_chars (split_lines bytes) h ws offset max_fuzz min_line)
  <= fuzz_levels h max_fuzz *
     (length bytes * (length (body h) * char_bound (length bytes) (maxlen_body (body h)))).
Proof. exact Cost_Matches.locate_hunk_chars_bytes. Qed.
Print Assumptions locate_hunk_chars_bound_bytes.

Theorem apply_patch_chars_bound_bytes : forall o bytes p,
  snd (apply_patch_chars o (split_lines bytes) p)
  <= char_bound (length bytes) (maxlen_hunks (hunks p))
     * (Z.to_nat (max_fuzz o + 1)%Z * (2 * length bytes + 2) * total_lines (hunks p)).
Proof. exact Cost_Matches.apply_patch_chars_bytes. Qed.
Print Assumptions apply_patch_chars_bound_bytes.

(* ---------------------------------------------------------------------------------------------------------------- *)
(* Examples                                                                                                          *)
(* ---------------------------------------------------------------------------------------------------------------- *)
Local Open Scope string_scope.
Definition L (s : String.string) : line := mkLine (bs s) LF.
Definition file5 : list line := [L "a"; L "b"; L "c"; L "d"; L "e"].
Definition two62 : Z := 4611686018427387904%Z.   (* 2^62 *)

(* " b", "-c", "+X", " d" stated at line 2^62 *)
Definition hunk_far : hunk :=
  mkHunk (mkRange two62 3) (mkRange two62 3)
         [mkPL Ctx (L "b"); mkPL Del (L "c"); mkPL Add (L "X"); mkPL Ctx (L "d")].

(* stated line 2^62, 5-line file: found at line 2 (0-based 1), six comparisons: the forward scan is empty, the backward
   scan tests positions 4, 3, 2 (one comparison each) and 1 (three) *)
Example far_hunk_is_cheap :
  locate_hunk_cost file5 hunk_far false 0 2 0 = (Some (mkLoc 1 0 (ssub 1 (two62 - 1))), 6).
Proof. vm_compute. reflexivity. Qed.

(* the same with a huge negative offset and a huge -F: the guess is below the file, the forward scan finds it at once *)
Example far_hunk_is_cheap_2 :
  snd (locate_hunk_cost file5 hunk_far false (- two62 - two62) (two62 * 2) 0) = 4.
Proof. vm_compute. reflexivity. Qed.

(* a hunk that fits nowhere, -F 2^63, stated line 2^62: one context line on each side, so two passes;
   the bound of the theorem for this instance is 2 * (2*5+2) * 4 = 96, the sharp one 2 * (5 * 3) = 30 *)
Definition hunk_nowhere : hunk :=
  mkHunk (mkRange two62 3) (mkRange two62 3)
         [mkPL Ctx (L "b"); mkPL Del (L "zz"); mkPL Add (L "X"); mkPL Ctx (L "d")].
Example nowhere_hunk_is_cheap :
  locate_hunk_cost file5 hunk_nowhere false 0 (two62 * 2) 0 = (None, 10) /\
  fuzz_levels hunk_nowhere (two62 * 2) = 2 /\
  fuzz_levels hunk_nowhere (two62 * 2) * (2 * length file5 + 2) * length (body hunk_nowhere) = 96 /\
  fuzz_levels hunk_nowhere (two62 * 2) * ((length file5 - 0) * length (old_side (body hunk_nowhere))) = 30.
Proof. vm_compute. repeat split; reflexivity. Qed.

(* the sharp bound is met: a file of five equal lines, a hunk of two such lines and a third that differs, no context,
   stated in the middle: every one of the five positions is tested once; 2+2+2+2+1 comparisons (the last position has
   only one file line under it), against 1 * (5 * 3) = 15 *)
Definition file_same : list line := [L "a"; L "a"; L "a"; L "a"; L "a"].
Definition hunk_same : hunk :=
  mkHunk (mkRange 3 3) (mkRange 3 0) [mkPL Del (L "a"); mkPL Del (L "a"); mkPL Del (L "q")].
Example same_lines_cost :
  locate_hunk_cost file_same hunk_same false 0 2 0 = (None, 12).
Proof. vm_compute. reflexivity. Qed.

(* apply_patch over two hunks with stated lines 2^62 and -F 2^62.  Without -f the first hunk, not found where it says,
   is also looked for reversed (10 more comparisons); the second hunk has one position left to try *)
Definition opts_bigF (force : bool) : options :=
  mkOptions false false [] [] false [] false false false [] (-1)%Z two62 false [] []
            force true false false false false false false OBUnset OBUnset MNative RFDefault ROWarn QSUnset [] [].
Definition patch_far : patch :=
  mkPatch FUnified OpChange [] [] (bs "f") (bs "f") [] [] 0 0 [hunk_far; hunk_nowhere].
Example apply_patch_far_is_cheap :
  snd (apply_patch_cost (opts_bigF true) file5 patch_far) = 7 /\
  snd (apply_patch_cost (opts_bigF false) file5 patch_far) = 17 /\
  match fst (apply_patch_cost (opts_bigF false) file5 patch_far) with
  | Ok r => r_out r = [L "a"; L "b"; L "X"; L "d"; L "e"] /\ r_failed r = 1
  | Throw _ => False
  end.
Proof. vm_compute. repeat split; reflexivity. Qed.

(* in character steps: the far hunk again (without and with -l), and a comparison that needs -l *)
Example far_hunk_is_cheap_chars :
  snd (locate_hunk_chars file5 hunk_far false 0 2 0) = 12 /\
  snd (locate_hunk_chars file5 hunk_far true 0 2 0) = 15.
Proof. vm_compute. split; reflexivity. Qed.

Definition file_ws : list line := [L "a"; L "x   y  z"; L "c"].
Definition hunk_ws : hunk := mkHunk (mkRange two62 1) (mkRange two62 0) [mkPL Del (L "x y z  ")].
Example whitespace_chars :
  matches_cost (L "x   y  z") (L "x y z  ") true = (true, 18) /\
  2 * (length (txt (L "x   y  z")) + length (txt (L "x y z  "))) + 2 = 32 /\
  locate_hunk_chars file_ws hunk_ws true 0 2 0 = (Some (mkLoc 1 0 (ssub 1 (two62 - 1))), 21) /\
  locate_hunk_chars file_ws hunk_ws false 0 2 0 = (None, 8).
Proof. vm_compute. repeat split; reflexivity. Qed.
