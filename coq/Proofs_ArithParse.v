(* Proofs_ArithParse.v — C07 (arithmetic part), parser side: what the parser guarantees about the numbers it
   hands to the rest of the program.
     - every number read by string_to_line_number / consume_line_number lies in [0, MAXZ], and the two plain
       operations of string_to_line_number (output *= 10, output += c) stay below the limit;
     - the range grammars: unified ranges are four numbers in [0, MAXZ]; a normal range gives starts in [0, MAXZ]
       and counts in [0, MAXZ] (end - start + 1 is negative when the end line is written smaller than the start
       line; parse_normal_range clamps it at zero: "a range which ends before it starts holds no lines"; before
       that repair the negative count overflowed applier.cpp:377, see Proofs_Arith.v); context ranges are in [0, MAXZ];
     - the body parsers: every hunk of an Ok result of parse_unified_patch / parse_context_patch has its counts equal
       to the number of old / new lines of its body (hence bounded by the number of lines read from the input);
       the same holds for parse_normal_patch (it reads max(0, count) lines and the counts are not negative).
   The site lemmas for the plain operations of the parser (--expected counters, ++i of append_content, end - start,
   --number_of_lines) are here as well. *)
From PatchV Require Import Base Lines Hunk LineParser Parser Proofs_Base Proofs_Decimal Proofs_Unified Proofs_Fuel.
Local Open Scope Z_scope.

Definition in64 (z : Z) : Prop := MINZ <= z <= MAXZ.

Lemma MAXZ_val : MAXZ = 9223372036854775807. Proof. reflexivity. Qed.
Lemma MINZ_val : MINZ = -9223372036854775808. Proof. reflexivity. Qed.

Lemma sat64_in64 z : in64 (sat64 z).
Proof. unfold in64, sat64. rewrite MAXZ_val, MINZ_val. lia. Qed.
Lemma sat64_id z : in64 z -> sat64 z = z.
Proof. unfold in64, sat64. rewrite MAXZ_val, MINZ_val. lia. Qed.
Lemma sadd_in64 a b : in64 (sadd a b). Proof. apply sat64_in64. Qed.
Lemma ssub_in64 a b : in64 (ssub a b). Proof. apply sat64_in64. Qed.
Lemma sadd_exact a b : in64 (a + b) -> sadd a b = a + b. Proof. apply sat64_id. Qed.
Lemma ssub_exact a b : in64 (a - b) -> ssub a b = a - b. Proof. apply sat64_id. Qed.

(* ---------- string_to_line_number ---------- *)
Lemma digit_val_le c : is_digit c = true -> (digit_val c <= 9)%N.
Proof. unfold is_digit, digit_val. intros H. apply andb_true_iff in H. destruct H as [H1 H2]. apply N.leb_le in H1, H2. lia. Qed.

Lemma MAXLN_div10 : (MAXLN / 10 = 922337203685477580)%N. Proof. reflexivity. Qed.

(* the two plain operations: they are executed only after their guard, and then stay within the limit *)
Lemma s2n_sites acc c :
  is_digit c = true -> N.ltb (MAXLN / 10) acc = false ->
  (acc * 10 <= MAXLN)%N /\
  (N.ltb (MAXLN - digit_val c) (acc * 10) = false -> (acc * 10 + digit_val c <= MAXLN)%N).
Proof.
  intros D G. apply N.ltb_ge in G. rewrite MAXLN_div10 in G. pose proof (digit_val_le c D) as Hd.
  rewrite MAXLN_val. split; [lia|]. intros G2. apply N.ltb_ge in G2. lia.
Qed.

Lemma s2n_out_le : forall s acc, (acc <= MAXLN)%N -> (snd (s2n_out s acc) <= MAXLN)%N.
Proof.
  induction s as [|c r IH]; intros acc H; cbn [s2n_out]; [exact H|].
  destruct (is_digit c) eqn:D; cbn [negb]; [|exact H].
  destruct (N.ltb (MAXLN / 10) acc) eqn:G; [exact H|].
  destruct (s2n_sites acc c D G) as [S1 S2]. cbv zeta.
  destruct (N.ltb (MAXLN - digit_val c) (acc * 10)) eqn:G2; [exact S1|].
  apply IH. apply S2. reflexivity.
Qed.

Lemma s2n_loop_le : forall s acc v, (acc <= MAXLN)%N -> s2n_loop s acc = Some v -> (v <= MAXLN)%N.
Proof.
  induction s as [|c r IH]; intros acc v H; cbn [s2n_loop]; [intros [= <-]; exact H|].
  destruct (is_digit c) eqn:D; cbn [negb]; [|discriminate].
  destruct (N.ltb (MAXLN / 10) acc) eqn:G; [discriminate|].
  destruct (s2n_sites acc c D G) as [S1 S2]. cbv zeta.
  destruct (N.ltb (MAXLN - digit_val c) (acc * 10)) eqn:G2; [discriminate|].
  apply IH. apply S2. reflexivity.
Qed.

Theorem string_to_line_number_range s v : string_to_line_number s = Some v -> (0 <= Z.of_N v <= MAXZ)%Z.
Proof.
  unfold string_to_line_number. destruct s as [|c r]; [discriminate|]. intros H.
  apply s2n_loop_le in H; [|rewrite MAXLN_val; lia]. rewrite MAXLN_val in H. rewrite MAXZ_val. lia.
Qed.

Theorem consume_line_number_range s ok v r : consume_line_number s = Some (ok, v, r) -> 0 <= v <= MAXZ.
Proof.
  unfold consume_line_number. destruct (span_digits s) as [d t]. destruct d as [|c d']; [discriminate|].
  destruct (s2n_out (c :: d') 0) as [ok' v'] eqn:E. intros [= _ <- _].
  pose proof (s2n_out_le (c :: d') 0%N) as H. rewrite E in H. cbn [snd] in H.
  rewrite MAXLN_val in H. specialize (H ltac:(lia)). rewrite MAXZ_val. lia.
Qed.

(* ---------- the range grammars ---------- *)
Lemma consume_urange_ok rg s r rg' : consume_urange rg s = (Some r, rg') -> wf_range rg'.
Proof.
  unfold consume_urange. destruct (consume_line_number s) as [[[ok v] r1]|] eqn:E1; [|discriminate].
  pose proof (consume_line_number_range _ _ _ _ E1) as B1.
  destruct ok; cbn [negb]; [|discriminate].
  destruct (consume_char 44 r1) as [r2|].
  - destruct (consume_line_number r2) as [[[ok2 v2] r3]|] eqn:E2; [|discriminate].
    pose proof (consume_line_number_range _ _ _ _ E2) as B2.
    destruct ok2; [|discriminate]. intros [= _ <-]. split; cbn [rstart rcount]; assumption.
  - intros [= _ <-]. split; cbn [rstart rcount]; [assumption|rewrite MAXZ_val; lia].
Qed.

Theorem parse_unified_range_ok h line h' :
  parse_unified_range h line = (true, h') -> wf_range (oldr h') /\ wf_range (newr h') /\ body h' = body h.
Proof.
  unfold parse_unified_range. destruct (consume_str (bs "@@ -") line) as [s1|]; [|discriminate].
  destruct (consume_urange (oldr h) s1) as [r1 o] eqn:E1. destruct r1 as [s2|]; [|discriminate].
  destruct (consume_str (bs " +") s2) as [s3|]; [|discriminate]. cbn [newr].
  destruct (consume_urange (newr h) s3) as [r2 n] eqn:E2. destruct r2 as [s4|]; [|discriminate].
  intros [= _ <-]. cbn [oldr newr body].
  split; [exact (consume_urange_ok _ _ _ _ E1)|]. split; [exact (consume_urange_ok _ _ _ _ E2)|reflexivity].
Qed.

(* parse_normal_range, src/parser.cpp:316,336,338: 'end - start' is a plain subtraction of two numbers of
   [0, MAXZ]; the '+ 1' is saturating; '--number_of_lines' (d command) is plain again; both counts are then
   clamped at zero (std::max, no arithmetic) *)
Lemma normal_count_sites a b :
  0 <= a <= MAXZ -> 0 <= b <= MAXZ ->
  in64 (b - a) /\ - (MAXZ - 1) <= sadd (b - a) 1 <= MAXZ /\ in64 (sadd (b - a) 1 - 1).
Proof.
  unfold in64, sadd, sat64. rewrite MAXZ_val, MINZ_val. lia.
Qed.

(* the shape of a successfully parsed normal range: where the counts come from *)
Theorem parse_normal_range_shape h line h' :
  parse_normal_range h line = (true, h') ->
  body h' = body h /\
  0 <= rstart (oldr h') <= MAXZ /\ 0 <= rstart (newr h') <= MAXZ /\
  exists oend nend, 0 <= oend <= MAXZ /\ 0 <= nend <= MAXZ /\
    (rcount (oldr h') = 0 \/ rcount (oldr h') = Z.max (sadd (oend - rstart (oldr h')) 1) 0) /\
    (rcount (newr h') = Z.max (sadd (nend - rstart (newr h')) 1) 0 \/
     rcount (newr h') = Z.max (sadd (nend - rstart (newr h')) 1 - 1) 0).
Proof.
  unfold parse_normal_range.
  destruct (consume_line_number line) as [[[ok ostart] s1]|] eqn:E1; [|discriminate].
  pose proof (consume_line_number_range _ _ _ _ E1) as B1.
  destruct ok; cbn [negb]; [|discriminate].
  assert (F : exists has_comma oend s4, 0 <= oend <= MAXZ /\
     match consume_char 44 s1 with
     | Some s2 => match consume_line_number s2 with
                  | None => inl tt
                  | Some (ok2, e, s3) => if ok2 then inr (true, e, s3) else inl tt
                  end
     | None => inr (false, ostart, s1)
     end = inr (has_comma, oend, s4) \/
     match consume_char 44 s1 with
     | Some s2 => match consume_line_number s2 with
                  | None => inl tt
                  | Some (ok2, e, s3) => if ok2 then inr (true, e, s3) else inl tt
                  end
     | None => inr (false, ostart, s1)
     end = @inl unit (bool * Z * list N) tt).
  { destruct (consume_char 44 s1) as [s2|].
    - destruct (consume_line_number s2) as [[[ok2 e] s3]|] eqn:E2.
      + pose proof (consume_line_number_range _ _ _ _ E2) as B2. destruct ok2.
        * exists true, e, s3. left. split; [exact B2|reflexivity].
        * exists true, 0, s3. right. reflexivity.
      + exists true, 0, s2. right. reflexivity.
    - exists false, ostart, s1. left. split; [exact B1|reflexivity]. }
  destruct F as (has_comma & oend & s4 & [[Boe ->]| ->]); [|discriminate].
  destruct s4 as [|cmd s5]; [discriminate|].
  destruct (negb (N.eqb cmd 99 || N.eqb cmd 97 || N.eqb cmd 100)); [discriminate|].
  destruct (consume_line_number s5) as [[[ok3 nstart] s6]|] eqn:E3; [|discriminate].
  pose proof (consume_line_number_range _ _ _ _ E3) as B3.
  destruct ok3; cbn [negb]; [|discriminate].
  assert (G : (exists nend s9, 0 <= nend <= MAXZ /\
     match consume_char 44 s6 with
     | Some s7 =>
         if has_comma && negb (N.eqb cmd 99) then inl tt
         else match consume_line_number s7 with
              | None => inl tt
              | Some (ok4, e, s8) => if ok4 then inr (e, s8) else inl tt
              end
     | None => inr (nstart, s6)
     end = inr (nend, s9)) \/
     match consume_char 44 s6 with
     | Some s7 =>
         if has_comma && negb (N.eqb cmd 99) then inl tt
         else match consume_line_number s7 with
              | None => inl tt
              | Some (ok4, e, s8) => if ok4 then inr (e, s8) else inl tt
              end
     | None => inr (nstart, s6)
     end = @inl unit (Z * list N) tt).
  { destruct (consume_char 44 s6) as [s7|].
    - destruct (has_comma && negb (N.eqb cmd 99)); [right; reflexivity|].
      destruct (consume_line_number s7) as [[[ok4 e] s8]|] eqn:E4; [|right; reflexivity].
      pose proof (consume_line_number_range _ _ _ _ E4) as B4. destruct ok4; [|right; reflexivity].
      left. exists e, s8. split; [exact B4|reflexivity].
    - left. exists nstart, s6. split; [exact B3|reflexivity]. }
  destruct G as [(nend & s9 & Bne & ->)| ->]; [|discriminate].
  intros [= _ <-]. cbn [oldr newr body rstart rcount].
  split; [reflexivity|]. split; [exact B1|]. split; [exact B3|].
  exists oend, nend. split; [exact Boe|]. split; [exact Bne|]. split.
  - destruct (negb has_comma && N.eqb cmd 97); [left|right]; reflexivity.
  - destruct (N.eqb cmd 100); [right|left]; reflexivity.
Qed.

Definition normal_range_ok (h : hunk) : Prop :=
  0 <= rstart (oldr h) <= MAXZ /\ 0 <= rstart (newr h) <= MAXZ /\
  0 <= rcount (oldr h) <= MAXZ /\ 0 <= rcount (newr h) <= MAXZ.

Theorem parse_normal_range_ok h line h' :
  parse_normal_range h line = (true, h') -> normal_range_ok h' /\ body h' = body h.
Proof.
  intros H. apply parse_normal_range_shape in H.
  destruct H as (Hb & Bo & Bn & oend & nend & Boe & Bne & Co & Cn).
  split; [|exact Hb]. unfold normal_range_ok. split; [exact Bo|]. split; [exact Bn|].
  destruct (normal_count_sites _ _ Bo Boe) as (_ & S2 & _).
  destruct (normal_count_sites _ _ Bn Bne) as (_ & T2 & T3).
  unfold in64 in T3. rewrite MAXZ_val, MINZ_val in *. split.
  - destruct Co as [-> | ->]; lia.
  - destruct Cn as [-> | ->]; lia.
Qed.

Theorem parse_context_range_ok st en s ok st' en' :
  parse_context_range st en s = (ok, st', en') -> 0 <= st <= MAXZ -> 0 <= en <= MAXZ ->
  0 <= st' <= MAXZ /\ 0 <= en' <= MAXZ.
Proof.
  unfold parse_context_range. intros H Bs Be.
  destruct (consume_line_number s) as [[[ok1 v] r]|] eqn:E1; [|inversion H; subst; auto].
  pose proof (consume_line_number_range _ _ _ _ E1) as B1.
  destruct ok1; cbn [negb] in H; [|inversion H; subst; auto].
  destruct (consume_char 44 r) as [r2|]; [|inversion H; subst; auto].
  destruct (consume_line_number r2) as [[[ok2 e] r3]|] eqn:E2; [|inversion H; subst; auto].
  pose proof (consume_line_number_range _ _ _ _ E2) as B2. inversion H; subst; auto.
Qed.

(* ---------- counting the lines of a body ---------- *)
Lemma n_old_app a b : n_old (a ++ b) = n_old a + n_old b.
Proof. unfold n_old. rewrite filter_app, app_length. lia. Qed.
Lemma n_new_app a b : n_new (a ++ b) = n_new a + n_new b.
Proof. unfold n_new. rewrite filter_app, app_length. lia. Qed.

Lemma n_old_le b : n_old b <= Z.of_nat (length b).
Proof. induction b as [|p r IH]; [cbn; lia|]. rewrite n_old_cons. cbn [length]. destruct (is_old p); lia. Qed.
Lemma n_new_le b : n_new b <= Z.of_nat (length b).
Proof. induction b as [|p r IH]; [cbn; lia|]. rewrite n_new_cons. cbn [length]. destruct (is_new p); lia. Qed.

Lemma n_old_one o l : n_old [mkPL o l] = match o with Add => 0 | _ => 1 end.
Proof. destruct o; reflexivity. Qed.
Lemma n_new_one o l : n_new [mkPL o l] = match o with Del => 0 | _ => 1 end.
Proof. destruct o; reflexivity. Qed.

Lemma set_last_nonl_counts l :
  n_old (set_last_nonl l) = n_old l /\ n_new (set_last_nonl l) = n_new l /\ length (set_last_nonl l) = length l.
Proof.
  unfold set_last_nonl. destruct (rev l) as [|p r] eqn:E.
  - apply (f_equal (@rev pline)) in E. rewrite rev_involutive in E. subst l. cbn. auto.
  - assert (L : l = rev r ++ [p]) by (rewrite <- (rev_involutive l), E; reflexivity). subst l. cbn [rev].
    rewrite !n_old_app, !n_new_app, !app_length. destruct p as [o x]. cbn [pop pl].
    rewrite !n_old_one, !n_new_one. cbn [length]. auto.
Qed.

Lemma eat_marker_counts hit ls s :
  n_old (fst (eat_marker hit ls s)) = n_old ls /\ n_new (fst (eat_marker hit ls s)) = n_new ls /\
  length (fst (eat_marker hit ls s)) = length ls.
Proof.
  unfold eat_marker. destruct (hit && peek_is s 92); cbn [fst]; [apply set_last_nonl_counts|auto].
Qed.

(* ---------- parse_unified_patch ---------- *)
(* a hunk whose numbers are line numbers and whose counts are the numbers of old / new lines of its body *)
Definition good_hunk (h : hunk) : Prop :=
  0 <= rstart (oldr h) <= MAXZ /\ 0 <= rstart (newr h) <= MAXZ /\
  rcount (oldr h) = n_old (body h) /\ rcount (newr h) = n_new (body h).

(* the state of the loop: the counters old_lines_expected / new_lines_expected are the stated counts minus the lines
   of each side read so far (they DO go below zero when a hunk says ',0' and lines follow; parser.cpp:936,945) *)
Definition ucur_ok (cur : option (hunk * Z * Z)) : Prop :=
  match cur with
  | None => True
  | Some (h, oe, ne) =>
      wf_range (oldr h) /\ wf_range (newr h) /\
      oe = rcount (oldr h) - n_old (body h) /\ ne = rcount (newr h) - n_new (body h)
  end.

(* the plain decrements of the counters: bounded below by the number of lines read, above by the stated count *)
Lemma unified_counter_sites h oe ne :
  ucur_ok (Some (h, oe, ne)) ->
  - Z.of_nat (length (body h)) - 1 <= oe - 1 <= MAXZ /\ - Z.of_nat (length (body h)) - 1 <= ne - 1 <= MAXZ.
Proof.
  intros (Wo & Wn & -> & ->). destruct Wo as [_ Co]. destruct Wn as [_ Cn].
  pose proof (n_old_le (body h)). pose proof (n_new_le (body h)).
  pose proof (n_old_nonneg (body h)). pose proof (n_new_nonneg (body h)). lia.
Qed.

Lemma ucur_ok_start h : wf_range (oldr h) -> wf_range (newr h) ->
  ucur_ok (Some (mkHunk (oldr h) (newr h) [], rcount (oldr h), rcount (newr h))).
Proof. intros Wo Wn. cbn. repeat split; try apply Wo; try apply Wn; lia. Qed.

Lemma unified_loop_good : forall fuel s acc cur le hs s',
  unified_loop fuel s acc cur le = Ok (hs, s') -> Forall good_hunk acc -> ucur_ok cur -> Forall good_hunk hs.
Proof.
  induction fuel as [|f IH]; intros s acc cur le hs s' H Ha Hc; [discriminate|]. cbn [unified_loop] in H.
  destruct (sget_line s) as [[[line n]|] s1] eqn:G.
  - destruct cur as [[[h oe] ne]|].
    + destruct (match line with [] => [32%N] | _ :: _ => line end) as [|what content]; [discriminate|].
      destruct (op_of_char what) as [o|]; [|discriminate].
      destruct Hc as (Wo & Wn & Eo & En).
      set (ls0 := body h ++ [mkPL o (mkLine content n)]) in *.
      set (ne1 := match o with Del => ne | _ => (ne - 1)%Z end) in *.
      destruct (match o with Del => (ls0, s1) | _ => eat_marker (ne1 =? 0)%Z ls0 s1 end) as [ls1 s2] eqn:E1.
      assert (C1 : n_old ls1 = n_old ls0 /\ n_new ls1 = n_new ls0).
      { destruct o; try (inversion E1; subst; auto);
          pose proof (eat_marker_counts (ne1 =? 0)%Z ls0 s1) as X; rewrite E1 in X; cbn [fst] in X; tauto. }
      set (oe1 := match o with Add => oe | _ => (oe - 1)%Z end) in *.
      destruct (match o with Add => (ls1, s2) | _ => eat_marker (oe1 =? 0)%Z ls1 s2 end) as [ls2 s3] eqn:E2.
      assert (C2 : n_old ls2 = n_old ls1 /\ n_new ls2 = n_new ls1).
      { destruct o; try (inversion E2; subst; auto);
          pose proof (eat_marker_counts (oe1 =? 0)%Z ls1 s2) as X; rewrite E2 in X; cbn [fst] in X; tauto. }
      assert (C0 : n_old ls0 = n_old (body h) + match o with Add => 0 | _ => 1 end /\
                   n_new ls0 = n_new (body h) + match o with Del => 0 | _ => 1 end).
      { unfold ls0. rewrite n_old_app, n_new_app, n_old_one, n_new_one. auto. }
      assert (K : oe1 = rcount (oldr h) - n_old ls2 /\ ne1 = rcount (newr h) - n_new ls2).
      { destruct C0 as [A0 B0]. destruct C1 as [A1 B1]. destruct C2 as [A2 B2].
        rewrite A2, A1, A0, B2, B1, B0. unfold oe1, ne1. subst oe ne. destruct o; lia. }
      destruct ((oe1 =? 0)%Z && (ne1 =? 0)%Z) eqn:Z0.
      * apply andb_true_iff in Z0. destruct Z0 as [Z1 Z2]. apply Z.eqb_eq in Z1, Z2.
        assert (Hg : Forall good_hunk (acc ++ [mkHunk (oldr h) (newr h) ls2])).
        { apply Forall_app. split; [exact Ha|]. constructor; [|constructor].
          unfold good_hunk. cbn [oldr newr body]. destruct K as [K1 K2].
          split; [apply Wo|]. split; [apply Wn|]. split; lia. }
        destruct (sget_line s3) as [[[l2 n2]|] s4] eqn:G2.
        -- destruct (parse_unified_range (mkHunk (oldr h) (newr h) []) l2) as [ok h2] eqn:P. destruct ok.
           ++ apply parse_unified_range_ok in P. destruct P as (P1 & P2 & _).
              eapply IH; [exact H|exact Hg|]. apply ucur_ok_start; assumption.
           ++ inversion H; subst. exact Hg.
        -- inversion H; subst. exact Hg.
      * eapply IH; [exact H|exact Ha|]. cbn [ucur_ok oldr newr body]. destruct K as [K1 K2]. auto.
    + destruct (parse_unified_range empty_hunk line) as [ok h] eqn:P. destruct ok.
      * apply parse_unified_range_ok in P. destruct P as (P1 & P2 & _).
        eapply IH; [exact H|exact Ha|]. apply ucur_ok_start; assumption.
      * eapply IH; [exact H|exact Ha|exact I].
  - destruct cur as [[[h oe] ne]|].
    + destruct (negb (ne =? 0)%Z); [discriminate|]. destruct (negb (oe =? 0)%Z); [discriminate|]. inversion H; subst. exact Ha.
    + destruct (is_nil acc); [inversion H; subst; exact Ha|]. destruct (negb (snd le =? 0)%Z); [discriminate|].
      destruct (negb (fst le =? 0)%Z); [discriminate|]. inversion H; subst. exact Ha.
Qed.

Theorem parse_unified_patch_good s hs s' : parse_unified_patch s = Ok (hs, s') -> Forall good_hunk hs.
Proof. intros H. eapply unified_loop_good; [exact H|constructor|exact I]. Qed.

(* ---------- parse_normal_patch ---------- *)
(* the loops 'for (i = 0; i < number_of_lines; ++i)' (parser.cpp:1021,1046): exactly max(0, n) lines are read,
   so the counter i stays within [0, n] *)
Lemma normal_read_counts : forall fuel n marker o s acc x,
  normal_read fuel n marker o s acc = Ok x ->
  exists added, fst x = acc ++ added /\ Forall (fun p => pop p = o) added /\ Z.of_nat (length added) = Z.max 0 n.
Proof.
  induction fuel as [|f IH]; intros n marker o s acc x H; [discriminate|]. cbn [normal_read] in H.
  destruct (Z.leb n 0) eqn:L.
  - apply Z.leb_le in L. inversion H; subst. exists []. cbn [fst length]. rewrite app_nil_r. split; [reflexivity|]. split; [constructor|lia].
  - apply Z.leb_gt in L.
    destruct (sget_line s) as [[[line nl_]|] s1]; [|discriminate].
    destruct line as [|c0 [|c1 r]]; try discriminate.
    destruct (N.eqb c0 marker && is_whitespace c1); [|discriminate].
    apply IH in H. destruct H as (added & E & F & Len).
    exists (mkPL o (mkLine r nl_) :: added). split; [rewrite E, <- app_assoc; reflexivity|].
    split; [constructor; [reflexivity|exact F]|]. cbn [length]. lia.
Qed.

Lemma n_counts_all o added : Forall (fun p => pop p = o) added ->
  n_old added = (match o with Add => 0 | _ => Z.of_nat (length added) end) /\
  n_new added = (match o with Del => 0 | _ => Z.of_nat (length added) end).
Proof.
  induction 1 as [|p r Hp _ IH]; [destruct o; auto|].
  rewrite n_old_cons, n_new_cons. unfold is_old, is_new. rewrite Hp. cbn [length]. destruct IH as [I1 I2].
  rewrite I1, I2. destruct o; lia.
Qed.

Lemma normal_check_nonl_counts ls s :
  n_old (fst (normal_check_nonl ls s)) = n_old ls /\ n_new (fst (normal_check_nonl ls s)) = n_new ls /\
  length (fst (normal_check_nonl ls s)) = length ls.
Proof.
  unfold normal_check_nonl. destruct (negb (is_nil ls) && peek_is s 92); cbn [fst]; [apply set_last_nonl_counts|auto].
Qed.

(* what holds of a hunk of a normal diff: the numbers of old / new lines read are max(0, count), and count >= 0 *)
Definition normal_hunk_ok (h : hunk) : Prop :=
  normal_range_ok h /\ n_old (body h) = Z.max 0 (rcount (oldr h)) /\ n_new (body h) = Z.max 0 (rcount (newr h)).

Lemma normal_loop_ok : forall fuel s acc hs s',
  normal_loop fuel s acc = Ok (hs, s') -> Forall normal_hunk_ok acc -> Forall normal_hunk_ok hs.
Proof.
  induction fuel as [|f IH]; intros s acc hs s' H Ha; [discriminate|]. cbn [normal_loop] in H.
  destruct (sget_line s) as [[[line n]|] s1] eqn:G; [|inversion H; subst; exact Ha].
  destruct (seof s1 || is_nil line); [inversion H; subst; exact Ha|].
  destruct (parse_normal_range empty_hunk line) as [ok h] eqn:P. destruct ok; cbn [negb] in H.
  - apply parse_normal_range_ok in P. destruct P as [P _].
    destruct (normal_read (S (length (rest s1))) (rcount (oldr h)) 60 Del s1 []) as [x|e] eqn:R1; cbn [rbind] in H; [|discriminate].
    apply normal_read_counts in R1. destruct R1 as (olds & E1 & F1 & Len1). cbn [app] in E1.
    destruct (normal_check_nonl (fst x) (snd x)) as [ls1 s2] eqn:K1.
    pose proof (normal_check_nonl_counts (fst x) (snd x)) as C1. rewrite K1 in C1. cbn [fst] in C1.
    match type of H with context [normal_read _ _ 62%N Add ?ss ls1] => set (s3 := ss) in * end.
    destruct (normal_read (S (length (rest s1))) (rcount (newr h)) 62 Add s3 ls1) as [y|e] eqn:R2; cbn [rbind] in H; [|discriminate].
    apply normal_read_counts in R2. destruct R2 as (news & E2 & F2 & Len2).
    destruct (normal_check_nonl (fst y) (snd y)) as [ls2 s4] eqn:K2.
    pose proof (normal_check_nonl_counts (fst y) (snd y)) as C2. rewrite K2 in C2. cbn [fst] in C2.
    eapply IH; [exact H|]. apply Forall_app. split; [exact Ha|]. constructor; [|constructor].
    unfold normal_hunk_ok. cbn [oldr newr body]. split; [exact P|].
    destruct C1 as (A1 & B1 & _). destruct C2 as (A2 & B2 & _).
    destruct (n_counts_all _ _ F1) as [O1 N1]. destruct (n_counts_all _ _ F2) as [O2 N2].
    rewrite A2, B2, E2, n_old_app, n_new_app, A1, B1, E1, O1, N1, O2, N2. lia.
  - destruct (is_nil acc); [discriminate|]. inversion H; subst. exact Ha.
Qed.

Theorem parse_normal_patch_ok s hs s' : parse_normal_patch s = Ok (hs, s') -> Forall normal_hunk_ok hs.
Proof. intros H. eapply normal_loop_ok; [exact H|constructor]. Qed.

(* a hunk of a normal diff is a good hunk (since parse_normal_range clamps its counts at zero) *)
Lemma normal_hunk_good h : normal_hunk_ok h -> good_hunk h.
Proof.
  intros ((Bo & Bn & Co & Cn) & No & Nn). unfold good_hunk.
  split; [exact Bo|]. split; [exact Bn|]. lia.
Qed.

Theorem parse_normal_patch_good s hs s' : parse_normal_patch s = Ok (hs, s') -> Forall good_hunk hs.
Proof.
  intros H. apply parse_normal_patch_ok in H. induction H; constructor; [apply normal_hunk_good|]; assumption.
Qed.

(* the counts never exceed the number of lines read *)
Lemma normal_hunk_counts_le h : normal_hunk_ok h ->
  rcount (oldr h) <= Z.of_nat (length (body h)) /\ rcount (newr h) <= Z.of_nat (length (body h)).
Proof.
  intros (_ & No & Nn). pose proof (n_old_le (body h)). pose proof (n_new_le (body h)). lia.
Qed.

(* ---------- parse_context_patch ---------- *)
Lemma zero_in_range : 0 <= 0 <= MAXZ. Proof. rewrite MAXZ_val. lia. Qed.

Lemma ctx_find_old_range_ok : forall fuel s a b s',
  ctx_find_old_range fuel s = (a, b, s') -> 0 <= a <= MAXZ /\ 0 <= b <= MAXZ.
Proof.
  induction fuel as [|f IH]; intros s a b s' H; cbn [ctx_find_old_range] in H;
    [inversion H; subst; split; apply zero_in_range|].
  destruct (sget_line s) as [[[line n]|] s1]; [|inversion H; subst; split; apply zero_in_range].
  destruct (is_old_range_line line); [|eapply IH; exact H].
  destruct (parse_context_range 0 0 (range_substr line)) as [[ok st] en] eqn:P. inversion H; subst.
  exact (parse_context_range_ok _ _ _ _ _ _ P zero_in_range zero_in_range).
Qed.

Lemma ctx_parse_new_range_ok line a b : ctx_parse_new_range line = Some (Ok (a, b)) -> 0 <= a <= MAXZ /\ 0 <= b <= MAXZ.
Proof.
  unfold ctx_parse_new_range. destruct (negb (is_new_range_line line)); [discriminate|].
  destruct (parse_context_range 0 0 (range_substr line)) as [[ok st] en] eqn:P. destruct ok; [|discriminate].
  intros [= <- <-]. exact (parse_context_range_ok _ _ _ _ _ _ P zero_in_range zero_in_range).
Qed.

(* append_content (parser.cpp:779): 'i' starts at a saturated sum and is incremented only while i < end_line *)
Lemma ctx_append_content_site i en :
  in64 i -> en <= MAXZ -> Z.ltb en i = false -> Z.eqb i en = false -> in64 (i + 1) /\ i + 1 <= en.
Proof.
  unfold in64. intros Hi He L E. apply Z.ltb_ge in L. apply Z.eqb_neq in E. rewrite MAXZ_val, MINZ_val in *. lia.
Qed.

Theorem parse_context_hunk_starts s ol ostart nl_ nstart s' :
  parse_context_hunk s = Ok (ol, ostart, nl_, nstart, s') -> 0 <= ostart <= MAXZ /\ 0 <= nstart <= MAXZ.
Proof.
  unfold parse_context_hunk.
  destruct (ctx_find_old_range (S (length (rest s))) s) as [[os oend] s1] eqn:F.
  destruct (ctx_find_old_range_ok _ _ _ _ _ F) as [Bo _].
  destruct (sget_line s1) as [[[line n]|] s2]; [|discriminate].
  destruct (ctx_parse_new_range line) as [[[ns nend]|e]|] eqn:E.
  - destruct (ctx_parse_new_range_ok _ _ _ E) as [Bn _].
    destruct (ctx_append_content _ [] (sadd ns 0) nend s2) as [x|e]; cbn [rbind]; [|discriminate].
    destruct (ctx_check_nonl (fst x) (snd x)) as [nl2 s3]. intros [= _ <- _ <- _]. auto.
  - discriminate.
  - destruct (ctx_append_line [] line n) as [ol1|e]; cbn [rbind]; [|discriminate].
    destruct (ctx_append_content _ ol1 _ oend s2) as [x|e]; cbn [rbind]; [|discriminate].
    destruct (ctx_check_nonl (fst x) (snd x)) as [ol2 s3].
    destruct (sget_line s3) as [l2 s4].
    destruct (ctx_parse_new_range (fst (line_or_empty l2))) as [[[ns nend]|e]|] eqn:E2; try discriminate.
    destruct (ctx_parse_new_range_ok _ _ _ E2) as [Bn _].
    destruct (sget_line s4) as [l3 s5]. destruct (line_or_empty l3) as [line3 n3].
    destruct (seof s5); [intros [= _ <- _ <- _]; auto|].
    destruct (starts_with line3 (bs "**********")); [intros [= _ <- _ <- _]; auto|].
    destruct (negb (looks_like_new_line line3)); [intros [= _ <- _ <- _]; auto|].
    destruct (ctx_append_line [] line3 n3) as [nl1|e]; cbn [rbind]; [|discriminate].
    destruct (ctx_append_content _ nl1 _ nend s5) as [y|e]; cbn [rbind]; [|discriminate].
    destruct (ctx_check_nonl (fst y) (snd y)) as [nl2 s6]. intros [= _ <- _ <- _]. auto.
Qed.

(* hunk_from_context_parts: number_of_lines++ (parser.cpp:693-723) counts the lines appended *)
Lemma from_context_parts_counts : forall fuel ol nl_ acc oc nc b oc' nc',
  from_context_parts fuel ol nl_ acc oc nc = Ok (b, oc', nc') -> oc = n_old acc -> nc = n_new acc ->
  oc' = n_old b /\ nc' = n_new b.
Proof.
  induction fuel as [|f IH]; intros ol nl_ acc oc nc b oc' nc' H Ho Hn; [discriminate|]. cbn [from_context_parts] in H.
  destruct ol as [|[[| | |] lo] ol']; destruct nl_ as [|[[| | |] ln] nl']; cbn [tl] in H;
    try discriminate;
    try (inversion H; subst; auto; fail);
    try (apply IH in H; [exact H|rewrite n_old_app, n_old_one; lia|rewrite n_new_app, n_new_one; lia]).
  destruct (negb (str_eqb (txt lo) (txt ln))); [discriminate|].
  apply IH in H; [exact H|rewrite n_old_app, n_old_one; lia|rewrite n_new_app, n_new_one; lia].
Qed.

Lemma hunk_from_context_parts_good ostart ol nstart nl_ h :
  hunk_from_context_parts ostart ol nstart nl_ = Ok h -> 0 <= ostart <= MAXZ -> 0 <= nstart <= MAXZ -> good_hunk h.
Proof.
  unfold hunk_from_context_parts. destruct (_ || _); [discriminate|].
  destruct (from_context_parts _ ol nl_ [] 0 0) as [[[b oc] nc]|e] eqn:F; cbn [rbind]; [|discriminate].
  intros [= <-] Bo Bn. apply from_context_parts_counts in F; [|reflexivity|reflexivity]. destruct F as [-> ->].
  unfold good_hunk. cbn [oldr newr body rstart rcount]. tauto.
Qed.

Lemma context_loop_good : forall fuel s acc hs s',
  context_loop fuel s acc = Ok (hs, s') -> Forall good_hunk acc -> Forall good_hunk hs.
Proof.
  induction fuel as [|f IH]; intros s acc hs s' H Ha; [discriminate|]. cbn [context_loop] in H.
  destruct (parse_context_hunk s) as [[[[[ol ostart] nl_] nstart] s1]|e] eqn:P; cbn [rbind] in H; [|discriminate].
  destruct (parse_context_hunk_starts _ _ _ _ _ _ P) as [Bo Bn].
  destruct (hunk_from_context_parts ostart ol nstart nl_) as [h|e] eqn:Hh; cbn [rbind] in H; [|discriminate].
  pose proof (hunk_from_context_parts_good _ _ _ _ _ Hh Bo Bn) as Hg.
  assert (Ha' : Forall good_hunk (acc ++ [h])) by (apply Forall_app; split; [exact Ha|constructor; [exact Hg|constructor]]).
  destruct (sget_line s1) as [l s2].
  destruct (starts_with (fst (line_or_empty l)) (bs "***************") || is_old_range_line (fst (line_or_empty l))).
  - eapply IH; [exact H|exact Ha'].
  - inversion H; subst. exact Ha'.
Qed.

Theorem parse_context_patch_good s hs s' : parse_context_patch s = Ok (hs, s') -> Forall good_hunk hs.
Proof. intros H. eapply context_loop_good; [exact H|constructor]. Qed.

(* ---------- summary for the three formats ---------- *)
(* counts of a good hunk: between 0 and the number of lines of the body *)
Lemma good_hunk_counts h : good_hunk h ->
  0 <= rcount (oldr h) <= Z.of_nat (length (body h)) /\ 0 <= rcount (newr h) <= Z.of_nat (length (body h)).
Proof.
  intros (_ & _ & -> & ->). pose proof (n_old_le (body h)). pose proof (n_new_le (body h)).
  pose proof (n_old_nonneg (body h)). pose proof (n_new_nonneg (body h)). lia.
Qed.

(* parse_patch_body: the hunks appended to a patch, whatever the format *)
Theorem parse_patch_body_good p s p' s' :
  parse_patch_body p s = Ok (p', s') -> Forall good_hunk (hunks p) -> Forall good_hunk (hunks p').
Proof.
  unfold parse_patch_body. intros H Hp.
  destruct (pfmt p) eqn:F; try discriminate.
  - destruct (parse_context_patch s) as [[hs s1]|e] eqn:P; cbn [rbind] in H; [|discriminate].
    inversion H; subst. cbn [hunks set_hunks fst]. apply Forall_app. split; [exact Hp|exact (parse_context_patch_good _ _ _ P)].
  - destruct (parse_unified_patch s) as [[hs s1]|e] eqn:P; cbn [rbind] in H; [|discriminate].
    inversion H; subst. cbn [hunks set_hunks fst]. apply Forall_app. split; [exact Hp|exact (parse_unified_patch_good _ _ _ P)].
  - destruct (parse_unified_patch s) as [[hs s1]|e] eqn:P; cbn [rbind] in H; [|discriminate].
    inversion H; subst. cbn [hunks set_hunks fst]. apply Forall_app. split; [exact Hp|exact (parse_unified_patch_good _ _ _ P)].
  - destruct (parse_normal_patch s) as [[hs s1]|e] eqn:P; cbn [rbind] in H; [|discriminate].
    inversion H; subst. cbn [hunks set_hunks fst]. apply Forall_app. split; [exact Hp|exact (parse_normal_patch_good _ _ _ P)].
Qed.

(* ---------- the weaker fact used for the sites which do not involve offset_old_lines_to_new ---------- *)
Definition starts_ok (h : hunk) : Prop := 0 <= rstart (oldr h) <= MAXZ /\ 0 <= rstart (newr h) <= MAXZ.

Lemma good_hunk_starts h : good_hunk h -> starts_ok h.
Proof. intros (A & B & _). split; assumption. Qed.
Lemma normal_hunk_starts h : normal_hunk_ok h -> starts_ok h.
Proof. intros ((A & B & _) & _). split; assumption. Qed.

Lemma Forall_impl' {A} (P Q : A -> Prop) l : (forall x, P x -> Q x) -> Forall P l -> Forall Q l.
Proof. intros H. induction 1; constructor; auto. Qed.

Theorem parse_patch_body_starts p s p' s' :
  parse_patch_body p s = Ok (p', s') -> Forall starts_ok (hunks p) -> Forall starts_ok (hunks p').
Proof.
  unfold parse_patch_body. intros H Hp.
  destruct (pfmt p) eqn:F; try discriminate.
  - destruct (parse_context_patch s) as [[hs s1]|e] eqn:P; cbn [rbind] in H; [|discriminate].
    inversion H; subst. cbn [hunks set_hunks fst]. apply Forall_app. split; [exact Hp|].
    exact (Forall_impl' _ _ _ good_hunk_starts (parse_context_patch_good _ _ _ P)).
  - destruct (parse_unified_patch s) as [[hs s1]|e] eqn:P; cbn [rbind] in H; [|discriminate].
    inversion H; subst. cbn [hunks set_hunks fst]. apply Forall_app. split; [exact Hp|].
    exact (Forall_impl' _ _ _ good_hunk_starts (parse_unified_patch_good _ _ _ P)).
  - destruct (parse_unified_patch s) as [[hs s1]|e] eqn:P; cbn [rbind] in H; [|discriminate].
    inversion H; subst. cbn [hunks set_hunks fst]. apply Forall_app. split; [exact Hp|].
    exact (Forall_impl' _ _ _ good_hunk_starts (parse_unified_patch_good _ _ _ P)).
  - destruct (parse_normal_patch s) as [[hs s1]|e] eqn:P; cbn [rbind] in H; [|discriminate].
    inversion H; subst. cbn [hunks set_hunks fst]. apply Forall_app. split; [exact Hp|].
    exact (Forall_impl' _ _ _ normal_hunk_starts (parse_normal_patch_ok _ _ _ P)).
Qed.
