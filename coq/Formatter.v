(* Formatter.v — src/formatter.cpp.  Definitions only. *)
From PatchV Require Import Base Lines Hunk.

Definition nonl_marker : list N := bs "\ No newline at end of file" ++ [10%N].

Definition is_nonl (l : line) : bool := match nl l with NoNL => true | _ => false end.

Definition fmt_range_unified (r : range) : list N :=
  print_Z (rstart r) ++ (if Z.eqb (rcount r) 1 then [] else 44%N :: print_Z (rcount r)).

Definition fmt_pline_unified (p : pline) : list N :=
  op_char (pop p) :: txt (pl p) ++ [10%N] ++ (if is_nonl (pl p) then nonl_marker else []).

Definition write_hunk_as_unified (h : hunk) : list N :=
  bs "@@ -" ++ fmt_range_unified (oldr h) ++ bs " +" ++ fmt_range_unified (newr h) ++ bs " @@" ++ [10%N]
  ++ flat_map fmt_pline_unified (body h).

(* ---- context ---- *)
Inductive cop := CSp | CPlus | CMinus | CBang.
Definition cop_char (c : cop) : N := match c with CSp => 32 | CPlus => 43 | CMinus => 45 | CBang => 33 end%N.
Definition cop_eqb (a b : cop) : bool :=
  match a, b with CSp, CSp | CPlus, CPlus | CMinus, CMinus | CBang, CBang => true | _, _ => false end.

Record cstate := mkCS {
  cs_old_done : list (cop * line); cs_old_pend : list (cop * line);
  cs_new_done : list (cop * line); cs_new_pend : list (cop * line);
  cs_op : cop; cs_all_ins : bool; cs_all_del : bool }.

Definition bang (l : list (cop * line)) := map (fun x => (CBang, snd x)) l.

Definition cs_old_size (s : cstate) := (length (cs_old_done s) + length (cs_old_pend s))%nat.
Definition cs_new_size (s : cstate) := (length (cs_new_done s) + length (cs_new_pend s))%nat.

(* make_change_command_on_operation *)
Definition make_change (s : cstate) (o : cop) : cstate :=
  if cop_eqb (cs_op s) o then s
  else mkCS (cs_old_done s) (bang (cs_old_pend s)) (cs_new_done s) (bang (cs_new_pend s))
            CBang (cs_all_ins s) (cs_all_del s).

Definition ctx_step (oc nc : Z) (s : cstate) (p : pline) : res cstate :=
  match pop p with
  | Ctx =>
      if Z.eqb (Z.of_nat (cs_old_size s)) oc then Throw ERuntime
      else if Z.eqb (Z.of_nat (cs_new_size s)) nc then Throw ERuntime
      else Ok (mkCS (cs_old_done s ++ cs_old_pend s ++ [(CSp, pl p)]) []
                    (cs_new_done s ++ cs_new_pend s ++ [(CSp, pl p)]) []
                    CSp (cs_all_ins s) (cs_all_del s))
  | Add =>
      if Z.eqb (Z.of_nat (cs_new_size s)) nc then Throw ERuntime
      else let s1 := if cop_eqb (cs_op s) CSp
                     then mkCS (cs_old_done s) (cs_old_pend s) (cs_new_done s) (cs_new_pend s) CPlus (cs_all_ins s) (cs_all_del s)
                     else make_change s CPlus in
           Ok (mkCS (cs_old_done s1) (cs_old_pend s1) (cs_new_done s1) (cs_new_pend s1 ++ [(cs_op s1, pl p)])
                    (cs_op s1) (cs_all_ins s1) false)
  | Del =>
      if Z.eqb (Z.of_nat (cs_old_size s)) oc then Throw ERuntime
      else let s1 := if cop_eqb (cs_op s) CSp
                     then mkCS (cs_old_done s) (cs_old_pend s) (cs_new_done s) (cs_new_pend s) CMinus (cs_all_ins s) (cs_all_del s)
                     else make_change s CMinus in
           Ok (mkCS (cs_old_done s1) (cs_old_pend s1 ++ [(cs_op s1, pl p)]) (cs_new_done s1) (cs_new_pend s1)
                    (cs_op s1) false (cs_all_del s1))
  end.

Fixpoint ctx_fold (oc nc : Z) (s : cstate) (b : list pline) : res cstate :=
  match b with
  | [] => Ok s
  | p :: r => do s' <- ctx_step oc nc s p; ctx_fold oc nc s' r
  end.

Definition fmt_cline (x : cop * line) : list N := cop_char (fst x) :: 32%N :: txt (snd x) ++ [10%N].

Definition fmt_cside (ls : list (cop * line)) : list N :=
  match last_opt ls with
  | None => []
  | Some lst => flat_map fmt_cline ls ++ (if is_nonl (snd lst) then nonl_marker else [])
  end.

Definition fmt_crange (r : range) : list N :=
  print_Z (rstart r) ++ (if Z.ltb 1 (rcount r) then 44%N :: print_Z (ssub (sadd (rstart r) (rcount r)) 1) else []).

Definition write_context_parts (ol : list (cop * line)) (orng : range) (nl_ : list (cop * line)) (nrng : range) : list N :=
  bs "*** " ++ fmt_crange orng ++ bs " ****" ++ [10%N] ++ fmt_cside ol
  ++ bs "--- " ++ fmt_crange nrng ++ bs " ----" ++ [10%N] ++ fmt_cside nl_.

Definition write_hunk_as_context (h : hunk) : res (list N) :=
  do s <- ctx_fold (rcount (oldr h)) (rcount (newr h)) (mkCS [] [] [] [] CSp true true) (body h);
  let ol := cs_old_done s ++ cs_old_pend s in
  let nl_ := cs_new_done s ++ cs_new_pend s in
  if negb (Z.eqb (Z.of_nat (length nl_)) (rcount (newr h))) && negb (Z.eqb (Z.of_nat (length ol)) (rcount (oldr h)))
  then Throw ERuntime
  else if cs_all_ins s then Ok (write_context_parts [] (oldr h) nl_ (newr h))
  else if cs_all_del s then Ok (write_context_parts ol (oldr h) [] (newr h))
  else Ok (write_context_parts ol (oldr h) nl_ (newr h)).

Definition devnull : list N := bs "/dev/null".

Definition fmt_header_line (prefix path time : list N) : list N :=
  prefix ++ path ++ (if negb (is_nil time) && negb (str_eqb path devnull) then 9%N :: time else []) ++ [10%N].

Definition write_patch_header_as_unified (p : patch) : list N :=
  fmt_header_line (bs "--- ") (old_path p) (old_time p) ++ fmt_header_line (bs "+++ ") (new_path p) (new_time p).

Definition write_patch_header_as_context (p : patch) : list N :=
  fmt_header_line (bs "*** ") (old_path p) (old_time p) ++ fmt_header_line (bs "--- ") (new_path p) (new_time p)
  ++ bs "***************" ++ [10%N].
