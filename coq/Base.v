(* Base.v — characters, byte strings, decimal printing/parsing, result type.
   Model file: definitions only (proofs live in Proofs_*.v so the model still
   builds and extracts when a proof breaks). *)
From Coq Require Export List ZArith NArith Arith Bool Lia.
From Coq Require String Ascii.
Export ListNotations.
Export Coq.Strings.String.StringSyntax.
Delimit Scope string_scope with string.

(* A C++ char is modelled by its unsigned value 0..255 in N; a std::string by list N. *)
Notation char := N (only parsing).
Notation str := (list N) (only parsing).

Definition bs (s : String.string) : list N := map Ascii.N_of_ascii (String.list_ascii_of_string s).
Arguments bs s%string.

Fixpoint str_eqb (a b : list N) : bool :=
  match a, b with
  | [], [] => true
  | x :: a', y :: b' => N.eqb x y && str_eqb a' b'
  | _, _ => false
  end.

Fixpoint starts_with (s p : list N) : bool :=
  match p with
  | [] => true
  | y :: p' => match s with [] => false | x :: s' => N.eqb x y && starts_with s' p' end
  end.

Definition ends_with (s p : list N) : bool :=
  Nat.leb (length p) (length s) && str_eqb (skipn (length s - length p) s) p.

Definition is_digit (c : N) : bool := N.leb 48 c && N.leb c 57.
Definition is_octal (c : N) : bool := N.leb 48 c && N.leb c 55.
Definition is_whitespace (c : N) : bool := N.eqb c 32 || N.eqb c 9.

(* ---------- results ---------- *)
Inductive exn :=
| EOutOfRange        (* std::out_of_range from .at() / substr *)
| EInvalidArgument   (* std::invalid_argument *)
| ERuntime           (* std::runtime_error (incl. parser_error) *)
| ESystem            (* std::system_error *)
| ECmdline           (* cmdline_parse_error *)
| EOutOfFuel.        (* model artefact; excluded by theorems, a mismatch in correspondence *)

Inductive res (A : Type) :=
| Ok (a : A)
| Throw (e : exn).
Arguments Ok {A} a.
Arguments Throw {A} e.

Definition rbind {A B} (m : res A) (f : A -> res B) : res B :=
  match m with Ok a => f a | Throw e => Throw e end.
Notation "'do' x <- m ; f" := (rbind m (fun x => f)) (at level 200, x pattern, m at level 100, f at level 200).

(* ---------- decimal ---------- *)
Definition MAXLN : N := 9223372036854775807.   (* std::numeric_limits<int64_t>::max() *)

Definition digit_val (c : N) : N := c - 48.
Definition digit_of (d : N) : N := 48 + d.

(* string_to_line_number (parser.cpp:222-243): left fold with the two overflow guards *)
Fixpoint s2n_loop (s : list N) (acc : N) : option N :=
  match s with
  | [] => Some acc
  | c :: r =>
      if negb (is_digit c) then None
      else if N.ltb (MAXLN / 10) acc then None
      else let acc10 := (acc * 10)%N in
           let d := digit_val c in
           if N.ltb (MAXLN - d) acc10 then None
           else s2n_loop r (acc10 + d)%N
  end.
Definition string_to_line_number (s : list N) : option N :=
  match s with [] => None | _ => s2n_loop s 0%N end.

(* fprintf("%ld") for a non-negative number; fuel = number of binary digits + 1 *)
Fixpoint print_loop (fuel : nat) (n : N) (acc : list N) : list N :=
  match fuel with
  | O => acc
  | S f => let acc' := digit_of (n mod 10) :: acc in
           if N.ltb n 10 then acc' else print_loop f (n / 10) acc'
  end.
Definition print_N (n : N) : list N := print_loop (S (N.to_nat (N.log2 n))) n [].
Definition print_Z (z : Z) : list N :=
  match z with
  | Z0 => print_N 0
  | Zpos p => print_N (Npos p)
  | Zneg p => 45%N :: print_N (Npos p)
  end.
Definition print_nat (n : nat) : list N := print_N (N.of_nat n).

(* saturating int64 arithmetic on line numbers (include/patch/hunk.h: saturating_add / saturating_sub);
   for operands inside the int64 range these are exactly the C++ functions *)
Definition MINZ : Z := (-9223372036854775808)%Z.
Definition MAXZ : Z := 9223372036854775807%Z.
Definition sat64 (z : Z) : Z := Z.max MINZ (Z.min MAXZ z).
Definition sadd (a b : Z) : Z := sat64 (a + b).
Definition ssub (a b : Z) : Z := sat64 (a - b).

(* list helpers *)
Definition is_nil {A} (l : list A) : bool := match l with [] => true | _ => false end.

Fixpoint nth_opt {A} (l : list A) (n : nat) : option A :=
  match l, n with
  | [], _ => None
  | x :: _, O => Some x
  | _ :: r, S k => nth_opt r k
  end.

Fixpoint last_opt {A} (l : list A) : option A :=
  match l with [] => None | [x] => Some x | _ :: r => last_opt r end.
