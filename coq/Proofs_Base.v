(* Proofs_Base.v — lemmas about Base.v / Lines.v definitions. *)
From PatchV Require Import Base Lines.

Lemma str_eqb_eq a b : str_eqb a b = true <-> a = b.
Proof.
  revert b; induction a as [|x a IH]; intros [|y b]; cbn; split; try discriminate; try reflexivity.
  - rewrite andb_true_iff, N.eqb_eq, IH. intros [-> ->]; reflexivity.
  - intros [= -> ->]. rewrite N.eqb_refl. cbn. apply IH; reflexivity.
Qed.

Lemma str_eqb_refl a : str_eqb a a = true.
Proof. apply str_eqb_eq; reflexivity. Qed.

Lemma str_eqb_neq a b : str_eqb a b = false <-> a <> b.
Proof.
  split.
  - intros H E. apply str_eqb_eq in E. congruence.
  - intros H. destruct (str_eqb a b) eqn:E; [|reflexivity]. apply str_eqb_eq in E. contradiction.
Qed.

Lemma newline_eqb_eq a b : newline_eqb a b = true <-> a = b.
Proof. destruct a, b; cbn; split; congruence. Qed.

Lemma is_nil_true {A} (l : list A) : is_nil l = true <-> l = [].
Proof. destruct l; cbn; split; congruence. Qed.

Lemma nth_opt_nth_error {A} (l : list A) n : nth_opt l n = nth_error l n.
Proof. revert n; induction l as [|x l IH]; intros [|n]; cbn; auto. Qed.

Lemma last_opt_app {A} (l : list A) x : last_opt (l ++ [x]) = Some x.
Proof.
  induction l as [|y l IH]; cbn; [reflexivity|].
  destruct (l ++ [x]) eqn:E; [destruct l; discriminate|]. exact IH.
Qed.
