(* Proofs_CtxLines.v — C13, context format, byte level: range lines ("*** a,b ****", "--- a,b ----") and hunk lines
   ("! text") written by formatter.cpp are read back by the pieces of parser.cpp's context parser. *)
From PatchV Require Import Base Lines Hunk Formatter LineParser Parser Proofs_Base Proofs_Decimal Proofs_Lines Proofs_Unified.

(* ---------- numbers ---------- *)
Lemma MAXZ_val : MAXZ = 9223372036854775807%Z. Proof. reflexivity. Qed.
Lemma MINZ_val : MINZ = (-9223372036854775808)%Z. Proof. reflexivity. Qed.

Lemma sat64_id z : (MINZ <= z <= MAXZ)%Z -> sat64 z = z.
Proof. intros H. unfold sat64. lia. Qed.

(* a range whose line can be written and read: the start is a line number, the count is not negative *)
Definition wf_crange0 (r : range) : Prop := (0 <= rstart r <= MAXZ)%Z /\ (0 <= rcount r)%Z.
(* ... and whose end is printed faithfully: start + count stays inside int64 (no saturation in the writer) *)
Definition range_fits (r : range) : Prop := (rstart r + rcount r <= MAXZ)%Z.
Definition wf_crange (r : range) : Prop := (0 <= rstart r)%Z /\ (0 <= rcount r)%Z /\ (rstart r + rcount r <= MAXZ)%Z.

Lemma wf_crange_0 r : wf_crange r -> wf_crange0 r /\ range_fits r.
Proof. unfold wf_crange, wf_crange0, range_fits. intros (A & B & C). repeat split; lia. Qed.

(* the second number of "start,end" as the writer prints it and the reader sees it (end = start when there is no comma) *)
Definition cend (r : range) : Z := if Z.ltb 1 (rcount r) then ssub (sadd (rstart r) (rcount r)) 1 else rstart r.

Lemma fmt_crange_eq r :
  fmt_crange r = print_Z (rstart r) ++ (if Z.ltb 1 (rcount r) then 44%N :: print_Z (cend r) else []).
Proof. unfold fmt_crange, cend. destruct (Z.ltb 1 (rcount r)); reflexivity. Qed.

Lemma cend_bounds r : wf_crange0 r -> (0 <= cend r <= MAXZ)%Z.
Proof.
  intros ((Hs & Hm) & Hc). unfold cend. destruct (Z.ltb_spec 1 (rcount r)) as [L|L]; [|lia].
  pose proof MAXZ_val as MX. pose proof MINZ_val as MN. unfold ssub, sadd, sat64. lia.
Qed.

(* without saturation the end is start + count - 1 *)
Lemma cend_exact r : wf_crange0 r -> (1 <= rcount r)%Z -> ((2 <= rcount r)%Z -> range_fits r) ->
  cend r = (rstart r + rcount r - 1)%Z.
Proof.
  intros ((Hs & Hm) & Hc) H1 Hf. unfold cend, range_fits in *. destruct (Z.ltb_spec 1 (rcount r)) as [L|L]; [|lia].
  pose proof MAXZ_val as MX. pose proof MINZ_val as MN. specialize (Hf ltac:(lia)).
  unfold sadd, ssub. rewrite (sat64_id (rstart r + rcount r)) by lia. rewrite sat64_id by lia. reflexivity.
Qed.

Lemma parse_context_range_fmt a b r : wf_crange0 r ->
  parse_context_range a b (fmt_crange r) = (true, rstart r, cend r).
Proof.
  intros W. pose proof (cend_bounds r W) as Hb. rewrite (fmt_crange_eq r). destruct W as ((Hs & Hm) & Hc).
  unfold parse_context_range. destruct (Z.ltb 1 (rcount r)) eqn:E.
  - rewrite consume_printed_Z; [|lia|reflexivity]. cbn [negb consume_char]. change (N.eqb 44 44) with true. cbv iota.
    rewrite <- (app_nil_r (print_Z (cend r))). rewrite consume_printed_Z; [|exact Hb|exact I]. reflexivity.
  - unfold cend in *. rewrite E in *. rewrite consume_printed_Z; [|lia|exact I]. reflexivity.
Qed.

Lemma fmt_crange_chars r c : wf_crange0 r -> In c (fmt_crange r) -> c = 44%N \/ is_digit c = true.
Proof.
  intros W I. pose proof (cend_bounds r W) as Hb. rewrite (fmt_crange_eq r) in I. destruct W as ((Hs & Hm) & Hc).
  apply in_app_or in I. destruct I as [I|I].
  - rewrite print_Z_nonneg in I by lia. right. destruct (print_N_digits (Z.to_N (rstart r))) as [D _]. rewrite Forall_forall in D. auto.
  - destruct (Z.ltb 1 (rcount r)); [|destruct I]. destruct I as [<-|I]; [left; reflexivity|].
    rewrite print_Z_nonneg in I by lia. right. destruct (print_N_digits (Z.to_N (cend r))) as [D _]. rewrite Forall_forall in D. auto.
Qed.

(* ---------- the two range lines ---------- *)
Definition orange_line (r : range) : list N := bs "*** " ++ fmt_crange r ++ bs " ****".
Definition nrange_line (r : range) : list N := bs "--- " ++ fmt_crange r ++ bs " ----".

Lemma starts_with_app : forall p x, starts_with (p ++ x) p = true.
Proof. induction p as [|c p IH]; intros x; [destruct x; reflexivity|]. cbn [app starts_with]. rewrite N.eqb_refl. apply IH. Qed.

Lemma ends_with_app a p : ends_with (a ++ p) p = true.
Proof.
  unfold ends_with. rewrite app_length. apply andb_true_intro. split; [apply Nat.leb_le; lia|].
  replace (length a + length p - length p) with (length a + 0) by lia. rewrite skipn_app.
  rewrite skipn_all2 by lia. replace (length a + 0 - length a) with 0 by lia. cbn [skipn app]. apply str_eqb_refl.
Qed.

Lemma range_substr_wrap p x q : length p = 4 -> length q = 5 -> range_substr (p ++ x ++ q) = x.
Proof.
  intros Hp Hq. unfold range_substr. rewrite !app_length, Hp, Hq.
  replace (Nat.leb 9 (4 + (length x + 5))) with true by (symmetry; apply Nat.leb_le; lia).
  replace (4 + (length x + 5) - 9) with (length x + 0) by lia.
  replace 4 with (length p + 0) at 1 by lia. rewrite skipn_app. rewrite skipn_all2 by lia.
  replace (length p + 0 - length p) with 0 by lia. cbn [skipn app]. rewrite firstn_app.
  replace (length x + 0 - length x) with 0 by lia. cbn [firstn]. rewrite app_nil_r. apply firstn_all2. lia.
Qed.

Lemma range_substr_orange r : range_substr (orange_line r) = fmt_crange r.
Proof. apply range_substr_wrap; reflexivity. Qed.
Lemma range_substr_nrange r : range_substr (nrange_line r) = fmt_crange r.
Proof. apply range_substr_wrap; reflexivity. Qed.

Lemma is_old_range_orange r : is_old_range_line (orange_line r) = true.
Proof.
  unfold is_old_range_line, orange_line. rewrite starts_with_app. rewrite app_assoc, ends_with_app. reflexivity.
Qed.
Lemma is_new_range_nrange r : is_new_range_line (nrange_line r) = true.
Proof.
  unfold is_new_range_line, nrange_line. rewrite starts_with_app. rewrite app_assoc, ends_with_app. reflexivity.
Qed.

Lemma wrap_clean p q r : wf_crange0 r ->
  ~ In 10%N p -> ~ In 10%N q -> (exists q0 c, q = q0 ++ [c] /\ c <> 13%N) ->
  clean (p ++ fmt_crange r ++ q).
Proof.
  intros W Hp Hq (q0 & c & -> & Hc). split.
  - intros I. apply in_app_or in I. destruct I as [I|I]; [exact (Hp I)|].
    apply in_app_or in I. destruct I as [I|I]; [|exact (Hq I)].
    destruct (fmt_crange_chars _ _ W I) as [E|E]; [discriminate|vm_compute in E; discriminate].
  - rewrite !app_assoc, last_opt_snoc. intros [= E]. exact (Hc E).
Qed.

Lemma orange_clean r : wf_crange0 r -> clean (orange_line r).
Proof.
  intros W. unfold orange_line. apply wrap_clean; [exact W| | |].
  - vm_compute. intuition discriminate.
  - vm_compute. intuition discriminate.
  - exists (bs " ***"), 42%N. split; [reflexivity|discriminate].
Qed.
Lemma nrange_clean r : wf_crange0 r -> clean (nrange_line r).
Proof.
  intros W. unfold nrange_line. apply wrap_clean; [exact W| | |].
  - vm_compute. intuition discriminate.
  - vm_compute. intuition discriminate.
  - exists (bs " ---"), 45%N. split; [reflexivity|discriminate].
Qed.

Lemma ctx_parse_new_range_nrange r : wf_crange0 r ->
  ctx_parse_new_range (nrange_line r) = Some (Ok (rstart r, cend r)).
Proof.
  intros W. unfold ctx_parse_new_range. rewrite is_new_range_nrange. cbn [negb].
  rewrite range_substr_nrange, (parse_context_range_fmt 0 0 r W). reflexivity.
Qed.

(* the separator line written between (and before) context hunks *)
Definition stars : list N := bs "***************".
Definition sep : list N := stars ++ [10%N].
Lemma stars_clean : clean stars. Proof. split; [vm_compute; intuition discriminate|vm_compute; discriminate]. Qed.

(* the first loop of parse_context_hunk: skip to the old range line *)
Lemma find_old_here f r bytes : wf_crange0 r ->
  ctx_find_old_range (S f) (strm (orange_line r ++ 10%N :: bytes)) = (rstart r, cend r, strm bytes).
Proof.
  intros W. cbn [ctx_find_old_range]. unfold strm. rewrite (sget_line_lf _ _ (orange_clean r W)).
  rewrite is_old_range_orange, range_substr_orange, (parse_context_range_fmt 0 0 r W). reflexivity.
Qed.

Lemma find_old_sep f r bytes : wf_crange0 r ->
  ctx_find_old_range (S (S f)) (strm (sep ++ orange_line r ++ 10%N :: bytes)) = (rstart r, cend r, strm bytes).
Proof.
  intros W. unfold sep. rewrite <- app_assoc. cbn [app].
  change (ctx_find_old_range (S (S f)) (strm (stars ++ 10%N :: orange_line r ++ 10%N :: bytes)))
    with (match sget_line (strm (stars ++ 10%N :: orange_line r ++ 10%N :: bytes)) with
          | (None, s') => (0%Z, 0%Z, s')
          | (Some (line, _), s') =>
              if is_old_range_line line then
                let '(_, st, en) := parse_context_range 0 0 (range_substr line) in (st, en, s')
              else ctx_find_old_range (S f) s'
          end).
  unfold strm at 1. rewrite (sget_line_lf _ _ stars_clean).
  change (is_old_range_line stars) with false. cbv iota.
  apply (find_old_here f r bytes W).
Qed.

(* ---------- hunk lines ---------- *)
Definition cx (c : cop) : cxop := match c with CSp => XSp | CPlus => XPlus | CMinus => XMinus | CBang => XBang end.

Lemma cxop_of_cop_char c : cxop_of_char (cop_char c) = Some (cx c).
Proof. destruct c; reflexivity. Qed.

(* a side as the reader builds it from the printed lines (every line ends in LF), and as it should be *)
Definition rd1 (x : cop * line) : cxop * line := (cx (fst x), mkLine (txt (snd x)) LF).
Definition rd (ls : list (cop * line)) : list (cxop * line) := map rd1 ls.
Definition cxs (ls : list (cop * line)) : list (cxop * line) := map (fun x => (cx (fst x), snd x)) ls.

Lemma cline_shape x rest : fmt_cline x ++ rest = (cop_char (fst x) :: 32%N :: txt (snd x)) ++ 10%N :: rest.
Proof. unfold fmt_cline. cbn [app]. rewrite <- app_assoc. reflexivity. Qed.

Lemma clean_cline c t : clean t -> clean (cop_char c :: 32%N :: t).
Proof.
  intros [H1 H2]. split.
  - intros [E|[E|I]]; [destruct c; discriminate|discriminate|exact (H1 I)].
  - destruct t as [|d t']; [cbn; discriminate|exact H2].
Qed.

Lemma append_line_cline acc c t n : ctx_append_line acc (cop_char c :: 32%N :: t) n = Ok (acc ++ [(cx c, mkLine t n)]).
Proof. unfold ctx_append_line. change (N.eqb 32 45) with false. cbv iota. rewrite cxop_of_cop_char. reflexivity. Qed.

Lemma append_content_lines : forall ls fuel acc i rest,
  Forall (fun x => clean (txt (snd x))) ls -> length ls < fuel ->
  ctx_append_content fuel acc i (i + Z.of_nat (length ls) - 1) (strm (flat_map fmt_cline ls ++ rest))
  = Ok (acc ++ rd ls, strm rest).
Proof.
  induction ls as [|x ls IH]; intros fuel acc i rest Hc Hf.
  - destruct fuel as [|f]; [cbn in Hf; lia|]. cbn [ctx_append_content length flat_map app rd map].
    replace (Z.ltb (i + Z.of_nat 0 - 1) i) with true by (symmetry; apply Z.ltb_lt; lia).
    rewrite app_nil_r. reflexivity.
  - destruct fuel as [|f]; [cbn in Hf; lia|]. inversion Hc as [|? ? Hx Hls]; subst.
    cbn [length] in Hf. cbn [ctx_append_content].
    replace (Z.ltb (i + Z.of_nat (length (x :: ls)) - 1) i) with false by (symmetry; apply Z.ltb_ge; cbn [length]; lia).
    cbn [flat_map]. rewrite <- app_assoc, cline_shape. unfold strm at 1.
    rewrite (sget_line_lf _ _ (clean_cline (fst x) _ Hx)). rewrite append_line_cline. cbn [rbind].
    destruct (Z.eqb_spec i (i + Z.of_nat (length (x :: ls)) - 1)) as [E|E].
    + cbn [length] in E. destruct ls as [|y ls']; [|cbn [length] in E; lia].
      cbn [flat_map app rd map]. reflexivity.
    + replace (i + Z.of_nat (length (x :: ls)) - 1)%Z with ((i + 1) + Z.of_nat (length ls) - 1)%Z by (cbn [length]; lia).
      change (mkStream (flat_map fmt_cline ls ++ rest) false false) with (strm (flat_map fmt_cline ls ++ rest)).
      rewrite IH; [|exact Hls|lia]. rewrite <- app_assoc. reflexivity.
Qed.

(* ---------- the "\ No newline at end of file" line after a side ---------- *)
Lemma set_last_nonl_c_snoc l o x : set_last_nonl_c (l ++ [(o, x)]) = l ++ [(o, mkLine (txt x) NoNL)].
Proof. unfold set_last_nonl_c. rewrite rev_app_distr. cbn [rev app]. rewrite rev_involutive. reflexivity. Qed.

Lemma check_nonl_marker ls rest : ls <> [] ->
  ctx_check_nonl ls (strm (nonl_marker ++ rest)) = (set_last_nonl_c ls, strm rest).
Proof.
  intros Hne. unfold ctx_check_nonl. rewrite peek_is_strm. destruct ls as [|a l]; [congruence|]. cbn [is_nil negb andb].
  change (starts92 (nonl_marker ++ rest)) with true. cbv iota.
  rewrite nonl_marker_eq, <- app_assoc. cbn [app]. unfold strm. rewrite (sget_line_lf _ _ marker_clean). reflexivity.
Qed.

Lemma check_nonl_none ls rest : starts92 rest = false -> ctx_check_nonl ls (strm rest) = (ls, strm rest).
Proof. intros H. unfold ctx_check_nonl. rewrite peek_is_strm, H, andb_false_r. reflexivity. Qed.

(* a printed side: clean texts, every line ends in LF except that the last one may have no newline *)
Fixpoint side_ok (ls : list line) : Prop :=
  match ls with
  | [] => True
  | l :: r => clean (txt l) /\ (nl l = LF \/ (nl l = NoNL /\ r = [])) /\ side_ok r
  end.

Lemma side_ok_clean ls : side_ok ls -> Forall (fun l => clean (txt l)) ls.
Proof. induction ls as [|l r IH]; intros H; [constructor|]. destruct H as (A & _ & C). constructor; auto. Qed.

Lemma side_ok_snoc : forall a l, side_ok (a ++ [l]) ->
  Forall (fun x => nl x = LF) a /\ (nl l = LF \/ nl l = NoNL).
Proof.
  induction a as [|x a IH]; intros l H; cbn [app side_ok] in H.
  - destruct H as (_ & [E|[E _]] & _); split; auto.
  - destruct H as (_ & [E|[_ E]] & R); [|destruct a; discriminate].
    destruct (IH l R) as [F L]. split; [constructor; assumption|exact L].
Qed.

Lemma line_eta l : mkLine (txt l) (nl l) = l. Proof. destruct l; reflexivity. Qed.

Lemma rd_all_lf a : Forall (fun x => nl x = LF) (map snd a) -> rd a = cxs a.
Proof.
  induction a as [|x a IH]; intros H; [reflexivity|]. cbn [map] in H. inversion H as [|? ? Hx Ha]; subst.
  cbn [rd cxs map]. fold (rd a). fold (cxs a). rewrite IH by exact Ha. unfold rd1. rewrite <- Hx, line_eta. reflexivity.
Qed.

(* the marker printed after a side *)
Definition side_mark (ls : list (cop * line)) : list N :=
  match last_opt ls with Some lst => if is_nonl (snd lst) then nonl_marker else [] | None => [] end.

Lemma fmt_cside_shape ls : fmt_cside ls = flat_map fmt_cline ls ++ side_mark ls.
Proof.
  unfold fmt_cside, side_mark. destruct (last_opt ls) eqn:E; [reflexivity|].
  destruct ls as [|x l] using rev_ind; [reflexivity|]. rewrite last_opt_snoc in E. discriminate.
Qed.

Lemma check_nonl_rd ls rest : ls <> [] -> side_ok (map snd ls) -> starts92 rest = false ->
  ctx_check_nonl (rd ls) (strm (side_mark ls ++ rest)) = (cxs ls, strm rest).
Proof.
  intros Hne Hok Hr. destruct ls as [|x a] using rev_ind; [congruence|]. clear IHa.
  rewrite map_app in Hok. cbn [map] in Hok. destruct (side_ok_snoc _ _ Hok) as [Ha Hx].
  unfold side_mark. rewrite last_opt_snoc. unfold rd, cxs. rewrite !map_app. cbn [map]. fold (rd a). fold (cxs a).
  rewrite (rd_all_lf a Ha). unfold is_nonl. destruct Hx as [E|E]; rewrite E.
  - cbn [app]. rewrite check_nonl_none by exact Hr. unfold rd1. rewrite <- E, line_eta. reflexivity.
  - rewrite check_nonl_marker by (destruct (cxs a); discriminate). unfold rd1. rewrite set_last_nonl_c_snoc. cbn [txt].
    rewrite <- E, line_eta. reflexivity.
Qed.

Lemma flat_map_cline_length ls : length ls <= length (flat_map fmt_cline ls).
Proof.
  induction ls as [|x r IH]; [cbn; lia|]. cbn [flat_map length]. rewrite app_length. unfold fmt_cline at 1. cbn [length]. lia.
Qed.

(* ---------- a side read back without assuming where its lines without newline are ---------- *)
(* every line is read with LF; the last one is marked when the marker line follows *)
Definition rdside (ls : list (cop * line)) : list (cxop * line) :=
  match last_opt ls with
  | Some lst => if is_nonl (snd lst) then set_last_nonl_c (rd ls) else rd ls
  | None => []
  end.

Lemma check_nonl_rdside ls rest : ls <> [] -> starts92 rest = false ->
  ctx_check_nonl (rd ls) (strm (side_mark ls ++ rest)) = (rdside ls, strm rest).
Proof.
  intros Hne Hr. destruct ls as [|x a] using rev_ind; [congruence|]. clear IHa.
  unfold side_mark, rdside. rewrite last_opt_snoc. destruct (is_nonl (snd x)).
  - apply check_nonl_marker. unfold rd. rewrite map_app. destruct (map rd1 a); discriminate.
  - cbn [app]. apply check_nonl_none. exact Hr.
Qed.

(* two read sides that differ at most in the newline class of context lines *)
Definition sp_rel (a b : cxop * line) : Prop :=
  fst a = fst b /\ txt (snd a) = txt (snd b) /\ (fst a <> XSp -> snd a = snd b).
Definition sp_equiv : list (cxop * line) -> list (cxop * line) -> Prop := Forall2 sp_rel.

Lemma sp_rel_refl a : sp_rel a a.
Proof. unfold sp_rel. auto. Qed.
Lemma sp_equiv_refl l : sp_equiv l l.
Proof. induction l as [|a l IH]; constructor; [apply sp_rel_refl|exact IH]. Qed.

(* a printed side whose lines without newline are the last one or context lines *)
Fixpoint side_okr (ls : list (cop * line)) : Prop :=
  match ls with
  | [] => True
  | x :: r => clean (txt (snd x)) /\
              (nl (snd x) = LF \/ (nl (snd x) = NoNL /\ (r = [] \/ fst x = CSp))) /\ side_okr r
  end.

Lemma side_okr_clean ls : side_okr ls -> Forall (fun x : cop * line => clean (txt (snd x))) ls.
Proof. induction ls as [|l r IH]; intros H; [constructor|]. destruct H as (A & _ & C). constructor; auto. Qed.

Lemma side_okr_snoc : forall a x, side_okr (a ++ [x]) ->
  Forall (fun y : cop * line => nl (snd y) = LF \/ (nl (snd y) = NoNL /\ fst y = CSp)) a /\
  (nl (snd x) = LF \/ nl (snd x) = NoNL).
Proof.
  induction a as [|y a IH]; intros x H; cbn [app side_okr] in H.
  - destruct H as (_ & [E|[E _]] & _); split; auto.
  - destruct H as (_ & B & R). destruct (IH x R) as [F L]. split; [|exact L]. constructor; [|exact F].
    destruct B as [E|[E [E2|E2]]]; [left; exact E|destruct a; discriminate|right; auto].
Qed.

Lemma rdside_equiv ls : side_okr ls -> sp_equiv (cxs ls) (rdside ls).
Proof.
  intros Hok. destruct ls as [|x a] using rev_ind; [constructor|]. clear IHa.
  destruct (side_okr_snoc _ _ Hok) as [Ha Hx]. unfold rdside. rewrite last_opt_snoc.
  assert (A : sp_equiv (cxs a) (rd a)).
  { clear Hok Hx. induction a as [|y a IH]; [constructor|]. inversion Ha as [|? ? Hy Hr]; subst.
    cbn [cxs rd map]. constructor; [|apply IH; exact Hr]. unfold sp_rel, rd1. cbn [fst snd txt]. split; [reflexivity|]. split; [reflexivity|].
    intros Hn. destruct Hy as [E|[_ E]].
    - rewrite <- E, line_eta. reflexivity.
    - rewrite E in Hn. exfalso. apply Hn. reflexivity. }
  unfold cxs, rd. rewrite !map_app. cbn [map]. fold (cxs a). fold (rd a). unfold is_nonl. destruct Hx as [E|E]; rewrite E.
  - apply Forall2_app; [exact A|]. constructor; [|constructor]. unfold rd1. rewrite <- E, line_eta. apply sp_rel_refl.
  - unfold rd1. rewrite set_last_nonl_c_snoc. cbn [txt]. apply Forall2_app; [exact A|]. constructor; [|constructor].
    rewrite <- E, line_eta. apply sp_rel_refl.
Qed.

Lemma side_ok_okr ls : side_ok (map snd ls) -> side_okr ls.
Proof.
  induction ls as [|x r IH]; intros H; [exact I|]. cbn [map side_ok side_okr] in *. destruct H as (A & B & C).
  split; [exact A|]. split; [|apply IH; exact C]. destruct B as [E|[E E2]]; [left; exact E|]. right. split; [exact E|].
  left. destruct r; [reflexivity|discriminate].
Qed.
