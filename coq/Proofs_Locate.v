(* Proofs_Locate.v — soundness, completeness, minimal fuzz and exactness of locate_hunk. *)
From PatchV Require Import Base Lines Hunk Locator Spec_Locate Proofs_Base Proofs_Ws.

(* ---------- the model's context counters are the specification's ---------- *)
Lemma prefix_ctx_lead b : prefix_ctx b = lead_ctx b.
Proof. induction b as [|p r IH]; cbn; [reflexivity|]. unfold is_ctx. destruct (pop p); cbn; congruence. Qed.

Lemma suffix_ctx_trail b : suffix_ctx b = trail_ctx b.
Proof. unfold suffix_ctx, trail_ctx. apply prefix_ctx_lead. Qed.

Lemma trim_middle pf sf (b : list pline) : trim pf sf b = middle pf sf b.
Proof. reflexivity. Qed.

(* ---------- match_from ---------- *)
Lemma match_from_spec ws : forall hl content,
  match_from ws content hl = true <->
  Forall2 (lmatch ws) (firstn (length (old_side hl)) content) (old_side hl).
Proof.
  induction hl as [|p r IH]; intros content.
  - cbn. split; [constructor|reflexivity].
  - cbn [match_from]. unfold old_side. cbn [filter]. fold (old_side r).
    destruct (is_add p) eqn:Ha; cbn [negb map].
    + fold (old_side r). apply IH.
    + fold (old_side r). destruct content as [|c cr].
      * cbn. split; [discriminate|]. intros H; inversion H.
      * cbn [length firstn]. destruct (matches c (pl p) ws) eqn:Em.
        -- rewrite IH. apply matches_spec in Em. split.
           ++ intros H. constructor; assumption.
           ++ intros H. inversion H; subst. assumption.
        -- split; [discriminate|]. intros H. inversion H; subst.
           match goal with Hm : lmatch _ _ _ |- _ => apply matches_spec in Hm end. congruence.
Qed.

(* ---------- scans ---------- *)
Lemma scan_fwd_some test pos fuel r : scan_fwd test pos fuel = Some r -> test r = true /\ pos <= r < pos + fuel.
Proof.
  revert pos; induction fuel as [|f IH]; intros pos; cbn; [discriminate|].
  destruct (test pos) eqn:E; [intros [= <-]; split; auto; lia|]. intros H; apply IH in H. intuition lia.
Qed.

Lemma scan_fwd_none test pos fuel : scan_fwd test pos fuel = None -> forall r, pos <= r < pos + fuel -> test r = false.
Proof.
  revert pos; induction fuel as [|f IH]; intros pos; cbn; [intros; lia|].
  destruct (test pos) eqn:E; [discriminate|]. intros H r Hr.
  destruct (Nat.eq_dec r pos) as [->|Hne]; [auto|]. apply (IH _ H); lia.
Qed.

Lemma scan_bwd_some test lo cnt r : scan_bwd test lo cnt = Some r -> test r = true /\ lo <= r < lo + cnt.
Proof.
  induction cnt as [|c IH]; cbn; [discriminate|]. destruct (test (lo + c)) eqn:E.
  - intros [= <-]; split; auto; lia.
  - intros H; apply IH in H; intuition lia.
Qed.

Lemma scan_bwd_none test lo cnt : scan_bwd test lo cnt = None -> forall r, lo <= r < lo + cnt -> test r = false.
Proof.
  induction cnt as [|c IH]; cbn; [intros; lia|]. destruct (test (lo + c)) eqn:E; [discriminate|].
  intros H r Hr. destruct (Nat.eq_dec r (lo + c)) as [->|Hne]; [auto|]. apply (IH H); lia.
Qed.

Lemma search_level_some test size guess lo p :
  search_level test size guess lo = Some p -> test p = true /\ lo <= p < size.
Proof.
  unfold search_level.
  destruct (scan_fwd test _ _) as [q|] eqn:F.
  - intros [= <-]. apply scan_fwd_some in F. destruct F as [T R]. split; [exact T|]. lia.
  - intros B. apply scan_bwd_some in B. destruct B as [T R]. split; [exact T|]. lia.
Qed.

Lemma search_level_none test size guess lo :
  search_level test size guess lo = None -> forall p, lo <= p < size -> test p = false.
Proof.
  unfold search_level.
  destruct (scan_fwd test _ _) as [q|] eqn:F; [discriminate|].
  intros B p Hp.
  destruct (le_lt_dec (Z.to_nat (Z.min (Z.max guess (Z.of_nat lo)) (Z.of_nat size))) p) as [Hge|Hlt].
  - apply (scan_fwd_none _ _ _ F). lia.
  - apply (scan_bwd_none _ _ _ B). lia.
Qed.

Lemma search_level_exact test size guess lo g :
  test g = true -> guess = Z.of_nat g -> lo <= g < size -> search_level test size guess lo = Some g.
Proof.
  intros T -> R. unfold search_level.
  replace (Z.to_nat (Z.min (Z.max (Z.of_nat g) (Z.of_nat lo)) (Z.of_nat size))) with g by lia.
  destruct (size - g) as [|k] eqn:E; [lia|]. cbn [scan_fwd]. rewrite T. reflexivity.
Qed.

(* ---------- the fuzz loop ---------- *)
Section FuzzLoop.
Variables (ws : bool) (content : list line) (h : hunk) (guess : Z) (lo : nat).
Let b := body h.
Let pc := prefix_ctx b.
Let sc := suffix_ctx b.
Let ctx := Nat.max pc sc.
Let pf (fz : nat) := fz + pc - ctx.
Let sf (fz : nat) := fz + sc - ctx.
Let guard (fz : nat) := pf fz + sf fz < length b.
Let test (fz : nat) := hunk_matches_at ws content h (pf fz) (sf fz).

Lemma guard_mono fz fz' : fz <= fz' -> guard fz' -> guard fz.
Proof. unfold guard, pf, sf. lia. Qed.

Lemma fuzz_loop_some : forall n fz loc,
  fuzz_loop ws content h guess lo pc sc ctx n fz = Some loc ->
  fz <= lfuzz loc < fz + n /\ guard (lfuzz loc) /\ test (lfuzz loc) (lline loc) = true /\
  lo <= lline loc < length content /\ loffset loc = ssub (Z.of_nat (lline loc)) guess /\
  (forall fz', fz <= fz' < lfuzz loc -> guard fz' /\ forall p, lo <= p < length content -> test fz' p = false).
Proof.
  induction n as [|n IH]; intros fz loc; cbn [fuzz_loop]; [discriminate|].
  destruct (Nat.leb (length (body h)) (fz + sc - ctx + (fz + pc - ctx))) eqn:G; [discriminate|].
  apply Nat.leb_gt in G.
  destruct (search_level _ _ _ _) as [p|] eqn:S.
  - intros [= <-]. cbn [lfuzz lline loffset]. apply search_level_some in S. destruct S as [T R].
    split; [lia|]. split; [unfold guard, pf, sf, b; lia|]. split; [exact T|]. split; [exact R|].
    split; [reflexivity|]. intros fz' Hfz'. lia.
  - intros H. apply IH in H. destruct H as (Hr & Hg & Ht & Hl & Ho & Hmin).
    split; [lia|]. split; [exact Hg|]. split; [exact Ht|]. split; [exact Hl|]. split; [exact Ho|].
    intros fz' Hfz'. destruct (Nat.eq_dec fz' fz) as [->|Hne].
    + split; [unfold guard, pf, sf, b; lia|]. intros p Hp. exact (search_level_none _ _ _ _ S p Hp).
    + apply Hmin. lia.
Qed.

Lemma fuzz_loop_none : forall n fz,
  fuzz_loop ws content h guess lo pc sc ctx n fz = None ->
  forall fz', fz <= fz' < fz + n -> guard fz' -> forall p, lo <= p < length content -> test fz' p = false.
Proof.
  induction n as [|n IH]; intros fz; cbn [fuzz_loop]; [intros; lia|].
  destruct (Nat.leb (length (body h)) (fz + sc - ctx + (fz + pc - ctx))) eqn:G.
  - apply Nat.leb_le in G. intros _ fz' Hfz' Hg. exfalso.
    apply (guard_mono fz fz') in Hg; [|lia]. unfold guard, pf, sf, b in Hg. lia.
  - destruct (search_level _ _ _ _) as [p|] eqn:S; [discriminate|].
    intros H fz' Hfz' Hg p Hp. destruct (Nat.eq_dec fz' fz) as [->|Hne].
    + exact (search_level_none _ _ _ _ S p Hp).
    + apply (IH _ H fz'); [lia|exact Hg|exact Hp].
Qed.

Lemma fuzz_loop_exact n g :
  0 < n -> guard 0 -> test 0 g = true -> guess = Z.of_nat g -> lo <= g < length content ->
  fuzz_loop ws content h guess lo pc sc ctx n 0 = Some (mkLoc g 0 0).
Proof.
  intros Hn Hg Ht Hgu Hr. destruct n as [|n]; [lia|]. cbn [fuzz_loop].
  unfold guard, pf, sf, b in Hg.
  destruct (Nat.leb (length (body h)) (0 + sc - ctx + (0 + pc - ctx))) eqn:G; [apply Nat.leb_le in G; lia|].
  unfold test, pf, sf in Ht. rewrite (search_level_exact _ _ _ _ g Ht Hgu Hr). f_equal. f_equal. rewrite Hgu. unfold ssub, sat64, MINZ, MAXZ. lia.
Qed.
End FuzzLoop.

(* ---------- the model's trims are the specification's ---------- *)
Lemma pf_pfz b fz : fz + prefix_ctx b - Nat.max (prefix_ctx b) (suffix_ctx b) = pfz b fz.
Proof. unfold pfz, ctx_of. rewrite prefix_ctx_lead, suffix_ctx_trail. lia. Qed.

Lemma sf_sfz b fz : fz + suffix_ctx b - Nat.max (prefix_ctx b) (suffix_ctx b) = sfz b fz.
Proof. unfold sfz, ctx_of. rewrite prefix_ctx_lead, suffix_ctx_trail. lia. Qed.

Lemma hunk_matches_at_spec ws f h fz pos :
  hunk_matches_at ws f h (pfz (body h) fz) (sfz (body h) fz) pos = true <->
  Forall2 (lmatch ws) (firstn (length (old_side (middle (pfz (body h) fz) (sfz (body h) fz) (body h))))
                              (skipn (pos + pfz (body h) fz) f))
          (old_side (middle (pfz (body h) fz) (sfz (body h) fz) (body h))).
Proof. unfold hunk_matches_at. rewrite trim_middle. apply match_from_spec. Qed.

(* ---------- main theorems ---------- *)
Theorem locate_sound f h ws off F lo loc :
  locate_hunk f h ws off F lo = Some loc -> rcount (oldr h) <> 0%Z ->
  Admissible ws f (body h) lo (lline loc) (lfuzz loc) /\
  (Z.of_nat (lfuzz loc) <= F)%Z /\ lline loc < length f /\
  loffset loc = ssub (Z.of_nat (lline loc)) (stated_pos h off).
Proof.
  unfold locate_hunk. intros H Hc. apply Z.eqb_neq in Hc. rewrite Hc in H.
  apply fuzz_loop_some in H. destruct H as (Hr & Hg & Ht & Hl & Ho & _).
  rewrite pf_pfz, sf_sfz in Hg, Ht.
  split; [|split; [|split]].
  - unfold Admissible. split; [lia|]. split.
    + unfold ctx_of. rewrite <- prefix_ctx_lead, <- suffix_ctx_trail. lia.
    + split; [exact Hg|]. cbv zeta. apply hunk_matches_at_spec. exact Ht.
  - lia.
  - lia.
  - rewrite Ho. unfold stated_pos, expected_line_number. rewrite Hc. reflexivity.
Qed.

Theorem locate_insertion f h ws off F lo loc :
  locate_hunk f h ws off F lo = Some loc -> rcount (oldr h) = 0%Z ->
  lo <= lline loc <= length f /\ lfuzz loc = 0 /\ loffset loc = 0%Z /\
  Z.of_nat (lline loc) = stated_pos h off.
Proof.
  unfold locate_hunk. intros H Hc. apply Z.eqb_eq in Hc. rewrite Hc in H.
  destruct (_ || _) eqn:E; [discriminate|]. apply orb_false_iff in E. destruct E as [E1 E2].
  apply Z.ltb_ge in E1, E2. injection H as <-. cbn [lline lfuzz loffset].
  unfold stated_pos, expected_line_number in *. rewrite Hc in *. repeat split; lia.
Qed.

Theorem locate_insertion_complete f h ws off F lo :
  rcount (oldr h) = 0%Z ->
  (Z.of_nat lo <= stated_pos h off <= Z.of_nat (length f))%Z ->
  locate_hunk f h ws off F lo = Some (mkLoc (Z.to_nat (stated_pos h off)) 0 0).
Proof.
  unfold locate_hunk, stated_pos, expected_line_number. intros Hc Hr. apply Z.eqb_eq in Hc. rewrite Hc in *.
  destruct (_ || _) eqn:E2; [|reflexivity]. exfalso.
  apply orb_true_iff in E2. destruct E2 as [E2|E2]; apply Z.ltb_lt in E2; lia.
Qed.

Theorem locate_min_fuzz f h ws off F lo loc pos fz :
  locate_hunk f h ws off F lo = Some loc -> rcount (oldr h) <> 0%Z ->
  Admissible ws f (body h) lo pos fz -> pos < length f -> lfuzz loc <= fz.
Proof.
  unfold locate_hunk. intros H Hc A Hp. apply Z.eqb_neq in Hc. rewrite Hc in H.
  apply fuzz_loop_some in H. destruct H as (_ & _ & _ & _ & _ & Hmin).
  destruct (le_lt_dec (lfuzz loc) fz) as [|Hlt]; [assumption|exfalso].
  destruct (Hmin fz ltac:(lia)) as [_ Hn].
  destruct A as (Hlo & _ & _ & Hm). cbv zeta in Hm.
  apply hunk_matches_at_spec in Hm. rewrite pf_pfz, sf_sfz in Hn. rewrite (Hn pos) in Hm; [discriminate|lia].
Qed.

Theorem locate_complete f h ws off F lo pos fz :
  rcount (oldr h) <> 0%Z -> Admissible ws f (body h) lo pos fz -> (Z.of_nat fz <= F)%Z -> pos < length f ->
  locate_hunk f h ws off F lo <> None.
Proof.
  unfold locate_hunk. intros Hc A HF Hp E. apply Z.eqb_neq in Hc. rewrite Hc in E.
  destruct A as (Hlo & Hctx & Hg & Hm). cbv zeta in Hm. apply hunk_matches_at_spec in Hm.
  pose proof (fuzz_loop_none _ _ _ _ _ _ _ E fz) as N. cbv beta in N.
  rewrite pf_pfz, sf_sfz in N. rewrite N in Hm; [discriminate| |exact Hg|lia].
  unfold ctx_of in Hctx. rewrite <- prefix_ctx_lead, <- suffix_ctx_trail in Hctx. lia.
Qed.

Theorem locate_exact_at_stated f h ws off F lo g :
  rcount (oldr h) <> 0%Z -> Admissible ws f (body h) lo g 0 -> g < length f -> (0 <= F)%Z ->
  stated_pos h off = Z.of_nat g ->
  locate_hunk f h ws off F lo = Some (mkLoc g 0 0).
Proof.
  unfold locate_hunk. intros Hc A Hg HF Hs. apply Z.eqb_neq in Hc. rewrite Hc.
  destruct A as (Hlo & _ & Hgd & Hm). cbv zeta in Hm. apply hunk_matches_at_spec in Hm.
  apply fuzz_loop_exact.
  - lia.
  - rewrite pf_pfz, sf_sfz. exact Hgd.
  - rewrite pf_pfz, sf_sfz. exact Hm.
  - unfold stated_pos, expected_line_number in *. rewrite Hc in *. exact Hs.
  - lia.
Qed.

(* the lines fuzz ignores are pure context lines *)
Lemma lead_ctx_firstn b n : n <= lead_ctx b -> Forall (fun p => pop p = Ctx) (firstn n b).
Proof.
  revert n; induction b as [|p r IH]; intros n Hn; [destruct n; constructor|].
  destruct n as [|n]; [constructor|]. cbn in Hn. destruct (pop p) eqn:E; try lia.
  cbn. constructor; [exact E|]. apply IH. lia.
Qed.

Theorem ignored_lines_are_context b fz : fz <= ctx_of b ->
  Forall (fun p => pop p = Ctx) (firstn (pfz b fz) b) /\
  Forall (fun p => pop p = Ctx) (firstn (sfz b fz) (rev b)).
Proof.
  intros H. split; apply lead_ctx_firstn; unfold pfz, sfz, ctx_of, trail_ctx in *; lia.
Qed.

Lemma forall2b_spec {A B} (t : A -> B -> bool) (P : A -> B -> Prop) :
  (forall x y, t x y = true <-> P x y) -> forall l m, forall2b t l m = true <-> Forall2 P l m.
Proof.
  intros Ht. induction l as [|x l IH]; intros [|y m]; cbn; split; try discriminate; try constructor;
    try (intros H; inversion H; fail).
  - apply andb_true_iff in H. apply Ht, H.
  - apply andb_true_iff in H. apply IH, H.
  - intros H. inversion H; subst. apply andb_true_iff. split; [apply Ht|apply IH]; assumption.
Qed.

Theorem admissibleb_spec ws f b lo pos fz : admissibleb ws f b lo pos fz = true <-> Admissible ws f b lo pos fz.
Proof.
  unfold admissibleb, Admissible. cbv zeta.
  rewrite !andb_true_iff, Nat.leb_le, Nat.leb_le, Nat.ltb_lt.
  rewrite (forall2b_spec (lmatchb ws) (lmatch ws) (lmatchb_spec ws)). tauto.
Qed.
