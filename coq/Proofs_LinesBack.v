(* Proofs_LinesBack.v — C14 at the level of bytes: what LineWriter writes under --newline-output=preserve, read again by
   File::get_line, is exactly the list of lines written, every one with the terminator class it was written with. *)
From PatchV Require Import Base Lines Hunk Locator Formatter Options Applier Spec_Locate Spec_Apply Proofs_Base Proofs_Apply
     Proofs_Lines.

(* an LF-terminated line whose content ends in a carriage return is the one thing that reads back differently (as CRLF) *)
Definition nocr (l : line) : Prop := nl l = LF -> forall a, rev (txt l) <> 13%N :: a.

Lemma gla_term : forall t acc n rest,
  no_lf t -> n <> NoNL -> (n = LF -> forall a, rev t ++ acc <> 13%N :: a) ->
  get_line_aux (t ++ nl_bytes MKeep n ++ rest) acc = Some (rev (rev t ++ acc), n, rest, false).
Proof.
  induction t as [|c t IH]; intros acc n rest Hlf Hn Hcr.
  - cbn [app rev]. destruct n; [| |contradiction].
    + cbn [nl_bytes app get_line_aux]. change (N.eqb 10 10) with true. cbn iota.
      destruct acc as [|a acc']; [reflexivity|].
      destruct (N.eq_dec a 13) as [->|Ha]; [exfalso; apply (Hcr eq_refl acc'); reflexivity|].
      destruct a as [|p]; [reflexivity|].
      do 4 (destruct p as [p|p|]; try reflexivity). all: exfalso; apply Ha; reflexivity.
    + reflexivity.
  - assert (Hc : c <> 10%N) by (intros ->; apply Hlf; left; reflexivity).
    assert (Ht : no_lf t) by (intros I; apply Hlf; right; exact I).
    cbn [app get_line_aux]. destruct (N.eqb_spec c 10) as [E|_]; [contradiction|].
    rewrite (IH (c :: acc) n rest Ht Hn).
    + cbn [rev]. rewrite <- app_assoc. reflexivity.
    + intros E a. specialize (Hcr E a). cbn [rev] in Hcr. rewrite <- app_assoc in Hcr. exact Hcr.
Qed.

Lemma gla_last : forall t acc,
  no_lf t -> rev t ++ acc <> [] -> get_line_aux t acc = Some (rev (rev t ++ acc), NoNL, [], true).
Proof.
  induction t as [|c t IH]; intros acc Hlf Hne.
  - cbn [rev app] in *. destruct acc; [contradiction|reflexivity].
  - assert (Hc : c <> 10%N) by (intros ->; apply Hlf; left; reflexivity).
    assert (Ht : no_lf t) by (intros I; apply Hlf; right; exact I).
    cbn [get_line_aux]. destruct (N.eqb_spec c 10) as [E|_]; [contradiction|].
    rewrite (IH (c :: acc) Ht).
    + cbn [rev]. rewrite <- app_assoc. reflexivity.
    + cbn [rev] in Hne. rewrite <- app_assoc in Hne. exact Hne.
Qed.

Lemma line_eta l : mkLine (txt l) (nl l) = l.
Proof. destruct l; reflexivity. Qed.

Lemma split_fuel_nil fuel : split_lines_fuel fuel [] = [].
Proof. destruct fuel; reflexivity. Qed.

Lemma split_write : forall ls, WfLines ls -> Forall nocr ls ->
  forall fuel, length ls < fuel -> split_lines_fuel fuel (lines_bytes MKeep ls) = ls.
Proof.
  induction 1 as [|l Hlf Hne|l l' r Hlf Hn _ IH]; intros Hcr fuel Hf.
  - apply split_fuel_nil.
  - destruct fuel as [|fuel]; [cbn in Hf; lia|]. cbn [split_lines_fuel]. unfold get_line.
    inversion Hcr as [|? ? Hc _]; subst.
    rewrite lines_bytes_cons. change (lines_bytes MKeep []) with (@nil N). unfold line_bytes.
    destruct (nl l) eqn:En.
    + rewrite <- app_assoc, (gla_term (txt l) [] LF []); [|exact Hlf|discriminate|].
      * rewrite app_nil_r, rev_involutive, split_fuel_nil, <- En, line_eta. reflexivity.
      * intros _ a. rewrite app_nil_r. apply Hc. exact En.
    + rewrite <- app_assoc, (gla_term (txt l) [] CRLF []); [|exact Hlf|discriminate|discriminate].
      rewrite app_nil_r, rev_involutive, split_fuel_nil, <- En, line_eta. reflexivity.
    + cbn [nl_bytes]. rewrite !app_nil_r. rewrite (gla_last (txt l) [] Hlf).
      * rewrite app_nil_r, rev_involutive, <- En, line_eta. reflexivity.
      * rewrite app_nil_r. intros E. apply (Hne eq_refl). apply (f_equal (@rev N)) in E. rewrite rev_involutive in E. exact E.
  - destruct fuel as [|fuel]; [cbn in Hf; lia|]. cbn [split_lines_fuel]. unfold get_line.
    inversion Hcr as [|? ? Hc Hcr']; subst.
    rewrite lines_bytes_cons. unfold line_bytes at 1. rewrite <- app_assoc.
    rewrite (gla_term (txt l) [] (nl l) _ Hlf Hn).
    + rewrite app_nil_r, rev_involutive, line_eta. f_equal. apply IH; [exact Hcr'|]. cbn [length] in *. lia.
    + intros E a. rewrite app_nil_r. apply Hc. exact E.
Qed.

(* --newline-output=preserve: the bytes written, read again, are the lines written, terminator classes included *)
Lemma write_read_keep ls : WfLines ls -> Forall nocr ls -> exists fuel, split_lines_fuel fuel (lines_bytes MKeep ls) = ls.
Proof. intros W C. exists (S (length ls)). apply split_write; auto. Qed.

Lemma wf_bytes_length : forall ls, WfLines ls -> length ls <= length (lines_bytes MKeep ls).
Proof.
  assert (P : forall l, (nl l = NoNL -> txt l <> []) -> 1 <= length (line_bytes MKeep l)).
  { intros l H. unfold line_bytes. rewrite app_length. destruct (nl l) eqn:E; cbn [nl_bytes length]; try lia.
    destruct (txt l); [exfalso; apply H; reflexivity|cbn [length]; lia]. }
  induction 1 as [|l Hlf Hne|l l' r Hlf Hn _ IH].
  - cbn. lia.
  - rewrite lines_bytes_cons, app_length. specialize (P l Hne). cbn [length]. lia.
  - rewrite lines_bytes_cons, app_length. assert (Q : nl l = NoNL -> txt l <> []) by (intros E; contradiction).
    specialize (P l Q). cbn [length] in *. lia.
Qed.

Theorem split_lines_of_written ls : WfLines ls -> Forall nocr ls -> split_lines (lines_bytes MKeep ls) = ls.
Proof.
  intros W C. unfold split_lines. apply split_write; auto. pose proof (wf_bytes_length ls W). lia.
Qed.

(* ---------- the converting modes, through preserve ---------- *)
Definition with_nl (n : newline) (l : line) : line := mkLine (txt l) (match nl l with NoNL => NoNL | _ => n end).

(* no terminated line has content ending in a carriage return *)
Definition nocr_any (l : line) : Prop := nl l <> NoNL -> forall a, rev (txt l) <> 13%N :: a.

Lemma line_bytes_conv m n l :
  (m = MLF \/ m = MNative) /\ n = LF \/ m = MCRLF /\ n = CRLF ->
  line_bytes m l = line_bytes MKeep (with_nl n l).
Proof.
  unfold line_bytes, with_nl. cbn [txt nl].
  intros [[[-> | ->] ->] | [-> ->]]; destruct (nl l); reflexivity.
Qed.

Lemma lines_bytes_conv m n :
  (m = MLF \/ m = MNative) /\ n = LF \/ m = MCRLF /\ n = CRLF ->
  forall ls, lines_bytes m ls = lines_bytes MKeep (map (with_nl n) ls).
Proof.
  intros H. induction ls as [|l ls IH]; [reflexivity|].
  cbn [map]. rewrite !lines_bytes_cons, IH, (line_bytes_conv m n l H). reflexivity.
Qed.

Lemma wf_with_nl n : n <> NoNL -> forall ls, WfLines ls -> WfLines (map (with_nl n) ls).
Proof.
  intros Hn. induction 1 as [|l Hlf Hne|l l' r Hlf Hnl _ IH]; cbn [map].
  - constructor.
  - apply Wf_last; cbn [with_nl txt nl]; [exact Hlf|]. intros E. apply Hne. destruct (nl l); [contradiction|contradiction|reflexivity].
  - cbn [map] in IH. apply Wf_cons; cbn [with_nl txt nl]; [exact Hlf| |exact IH].
    destruct (nl l); [exact Hn|exact Hn|contradiction].
Qed.

(* lf and native: the bytes written read back as the same contents, every terminated line LF *)
Theorem written_lf m ls : m = MLF \/ m = MNative ->
  WfLines ls -> Forall nocr_any ls -> split_lines (lines_bytes m ls) = map (with_nl LF) ls.
Proof.
  intros Hm W C. rewrite (lines_bytes_conv m LF (or_introl (conj Hm eq_refl))).
  apply split_lines_of_written; [apply wf_with_nl; [discriminate|exact W]|].
  apply Forall_map. eapply Forall_impl; [|exact C]. intros l H. unfold nocr, with_nl. cbn [txt nl].
  intros E a. apply H. intros E'. rewrite E' in E. discriminate.
Qed.

(* crlf: the bytes written read back as the same contents, every terminated line CRLF; no condition on the contents *)
Theorem written_crlf ls :
  WfLines ls -> split_lines (lines_bytes MCRLF ls) = map (with_nl CRLF) ls.
Proof.
  intros W. rewrite (lines_bytes_conv MCRLF CRLF (or_intror (conj eq_refl eq_refl))).
  apply split_lines_of_written; [apply wf_with_nl; [discriminate|exact W]|].
  apply Forall_map. apply Forall_forall. intros l _. unfold nocr, with_nl. cbn [txt nl].
  destruct (nl l); discriminate.
Qed.
Lemma gla_nocr : forall s acc t n r e,
  get_line_aux s acc = Some (t, n, r, e) -> n = LF -> forall a, rev t <> 13%N :: a.
Proof.
  induction s as [|c s IH]; intros acc t n r e H Hn a; cbn [get_line_aux] in H.
  - destruct acc; [discriminate|]. inversion H; subst. discriminate.
  - destruct (N.eqb c 10).
    + destruct acc as [|x acc].
      * inversion H; subst. cbn. discriminate.
      * destruct (N.eq_dec x 13) as [->|Hx].
        -- inversion H; subst. discriminate.
        -- assert (E : Some (rev (x :: acc), LF, s, false) = Some (t, n, r, e)).
           { destruct x as [|p]; [exact H|]. do 4 (destruct p as [p|p|]; try exact H). all: try (exfalso; apply Hx; reflexivity). }
           inversion E; subst. change (rev (rev (x :: acc)) <> 13%N :: a). rewrite rev_involutive. intros [= ->]. apply Hx. reflexivity.
    + apply (IH _ _ _ _ _ H Hn a).
Qed.

Lemma split_fuel_nocr : forall fuel s, Forall nocr (split_lines_fuel fuel s).
Proof.
  induction fuel as [|f IH]; intros s; [constructor|]. cbn [split_lines_fuel]. unfold get_line.
  destruct (get_line_aux s []) as [[[[t n] r] e]|] eqn:G; [|constructor].
  constructor.
  - unfold nocr. cbn [txt nl]. intros En a. apply (gla_nocr _ _ _ _ _ _ G En a).
  - destruct e; [constructor|apply IH].
Qed.

(* every file read meets the hypotheses of split_lines_of_written *)
Theorem split_lines_nocr s : Forall nocr (split_lines s).
Proof. apply split_fuel_nocr. Qed.
