(* Proofs_Lines.v — reading a file into lines and writing lines back (C14). *)
From PatchV Require Import Base Lines Hunk Locator Formatter Options Applier Spec_Locate Spec_Apply Proofs_Base Proofs_Apply.

(* ---------- get_line / split_lines ---------- *)
Lemma get_line_aux_some : forall s acc t n r e,
  get_line_aux s acc = Some (t, n, r, e) ->
  rev acc ++ s = t ++ nl_bytes MKeep n ++ r /\ length r <= length s /\ (s <> [] -> e = false -> length r < length s)
  /\ (e = true -> r = [] /\ n = NoNL) /\ (e = false -> n <> NoNL).
Proof.
  induction s as [|c s IH]; intros acc t n r e H; cbn [get_line_aux] in H.
  - destruct acc as [|a acc]; [discriminate|]. inversion H; subst. cbn [nl_bytes]. rewrite !app_nil_r.
    repeat split; auto; try congruence.
  - destruct (N.eqb_spec c 10) as [->|Hc].
    + destruct acc as [|a acc].
      * inversion H; subst. cbn. repeat split; auto; try lia; try congruence.
      * destruct (N.eq_dec a 13) as [->|Ha].
        -- inversion H; subst. cbn [rev nl_bytes length]. rewrite <- !app_assoc. cbn [app].
           repeat split; auto; try lia; try congruence.
        -- assert (E : Some (rev (a :: acc), LF, s, false) = Some (t, n, r, e)).
           { destruct a as [|p]; [exact H|]. do 4 (destruct p as [p|p|]; try exact H). all: try (exfalso; apply Ha; reflexivity). }
           inversion E; subst. cbn [nl_bytes length app]. repeat split; auto; try lia; try congruence.
    + apply IH in H. destruct H as (E & L & L' & Ee & En). cbn [rev] in E. rewrite <- app_assoc in E. cbn [app] in E.
      cbn [length]. repeat split; auto; try lia; intros; apply Ee; auto.
Qed.

Lemma get_line_aux_none : forall s acc, get_line_aux s acc = None -> s = [] /\ acc = [].
Proof.
  induction s as [|c s IH]; intros acc H; cbn [get_line_aux] in H.
  - destruct acc; [auto|discriminate].
  - destruct (N.eqb c 10).
    + destruct acc as [|a acc]; [discriminate|]. destruct a as [|p]; [discriminate|]. do 4 (destruct p as [p|p|]; try discriminate).
    + apply IH in H. destruct H as [_ H]. discriminate.
Qed.

Lemma lines_bytes_cons m l ls : lines_bytes m (l :: ls) = line_bytes m l ++ lines_bytes m ls.
Proof. reflexivity. Qed.

Lemma lines_bytes_app m a b : lines_bytes m (a ++ b) = lines_bytes m a ++ lines_bytes m b.
Proof. unfold lines_bytes. apply flat_map_app. Qed.

Lemma split_lines_fuel_bytes : forall fuel s, length s < fuel -> lines_bytes MKeep (split_lines_fuel fuel s) = s.
Proof.
  induction fuel as [|f IH]; intros s L; [lia|]. cbn [split_lines_fuel]. unfold get_line.
  destruct s as [|c0 s0]; [reflexivity|]. remember (c0 :: s0) as s eqn:Es.
  destruct (get_line_aux s []) as [[[[t n] r] e]|] eqn:G.
  - apply get_line_aux_some in G. destruct G as (E & L1 & L2 & Ee & En). cbn [rev app] in E.
    rewrite lines_bytes_cons. unfold line_bytes. cbn [txt nl]. destruct e.
    + destruct (Ee eq_refl) as [-> ->]. cbn. cbn in E. rewrite !app_nil_r in *. auto.
    + rewrite IH.
      * rewrite E, app_assoc. reflexivity.
      * assert (length r < length s) by (apply L2; [subst; discriminate|reflexivity]). lia.
  - apply get_line_aux_none in G. destruct G as [-> _]. reflexivity.
Qed.

(* Reading a file and writing the lines back with their own terminators gives the same bytes. *)
Theorem split_lines_roundtrip s : lines_bytes MKeep (split_lines s) = s.
Proof. apply split_lines_fuel_bytes. lia. Qed.

(* the lines a file is read into: no line feed inside a line; only the last line can lack a terminator and then
   it is not empty *)
Definition no_lf (t : list N) : Prop := ~ In 10%N t.

Lemma get_line_aux_no_lf : forall s acc t n r e,
  get_line_aux s acc = Some (t, n, r, e) -> no_lf acc -> no_lf t /\ (n = NoNL -> t <> []).
Proof.
  induction s as [|c s IH]; intros acc t n r e H A; cbn [get_line_aux] in H.
  - destruct acc as [|a acc]; [discriminate|]. inversion H; subst. split.
    + intro I. apply (proj2 (in_rev (a :: acc) 10%N)) in I. exact (A I).
    + intros _ E. apply (f_equal (@length _)) in E. change (length (rev (a :: acc)) = 0) in E. rewrite rev_length in E. discriminate.
  - destruct (N.eqb_spec c 10) as [->|Hc].
    + destruct acc as [|a acc].
      * inversion H; subst. split; [intros []|discriminate].
      * assert (E : (t = rev acc /\ n = CRLF) \/ (t = rev (a :: acc) /\ n = LF)).
        { destruct a as [|p]; [right; inversion H; auto|]. do 4 (destruct p as [p|p|]; try (right; inversion H; auto; fail)). left; inversion H; auto. }
        destruct E as [[-> ->]|[-> ->]]; (split; [|discriminate]); intro I; apply in_rev in I; apply A; [right; exact I|exact I].
    + apply IH in H; [exact H|]. intros [I|I]; [congruence|exact (A I)].
Qed.

Inductive WfLines : list line -> Prop :=
| Wf_nil : WfLines []
| Wf_last l : no_lf (txt l) -> (nl l = NoNL -> txt l <> []) -> WfLines [l]
| Wf_cons l l' r : no_lf (txt l) -> nl l <> NoNL -> WfLines (l' :: r) -> WfLines (l :: l' :: r).

Lemma WfLines_cons_any l r : no_lf (txt l) -> nl l <> NoNL -> WfLines r -> WfLines (l :: r).
Proof. intros A B C. destruct r; [apply Wf_last; [auto|congruence]|apply Wf_cons; auto]. Qed.

Lemma split_lines_fuel_wf : forall fuel s, WfLines (split_lines_fuel fuel s).
Proof.
  induction fuel as [|f IH]; intros s; [constructor|]. cbn [split_lines_fuel]. unfold get_line.
  destruct (get_line_aux s []) as [[[[t n] r] e]|] eqn:G; [|constructor].
  pose proof (get_line_aux_no_lf _ _ _ _ _ _ G (fun x => x)) as [A B].
  apply get_line_aux_some in G. destruct G as (_ & _ & _ & Ee & En). destruct e.
  - apply Wf_last; auto.
  - apply WfLines_cons_any; auto.
Qed.

Theorem split_lines_wf s : WfLines (split_lines s).
Proof. apply split_lines_fuel_wf. Qed.

(* ---------- terminators written ---------- *)
Definition has_nl (l : line) : bool := match nl l with NoNL => false | _ => true end.

Theorem terminator_keep l :
  line_bytes MKeep l = txt l ++ match nl l with LF => [10%N] | CRLF => [13%N; 10%N] | NoNL => [] end.
Proof. unfold line_bytes. destruct (nl l); reflexivity. Qed.

Theorem terminator_lf l : line_bytes MLF l = txt l ++ (if has_nl l then [10%N] else []) /\
                          line_bytes MNative l = txt l ++ (if has_nl l then [10%N] else []).
Proof. unfold line_bytes, has_nl. destruct (nl l); split; reflexivity. Qed.

Theorem terminator_crlf l : line_bytes MCRLF l = txt l ++ (if has_nl l then [13%N; 10%N] else []).
Proof. unfold line_bytes, has_nl. destruct (nl l); reflexivity. Qed.

(* ---------- final newline ---------- *)
Definition ends_with_lf (s : list N) : bool := match last_opt s with Some 10%N => true | _ => false end.

Lemma last_opt_app_ne {A} (a b : list A) : b <> [] -> last_opt (a ++ b) = last_opt b.
Proof.
  intros Hb. induction a as [|x a IH]; [reflexivity|]. cbn [app]. cbn [last_opt].
  destruct (a ++ b) eqn:E; [|exact IH]. apply app_eq_nil in E. destruct E as [_ E]. contradiction.
Qed.

Lemma last_opt_snoc {A} (a : list A) x : last_opt (a ++ [x]) = Some x.
Proof. rewrite last_opt_app_ne; [reflexivity|discriminate]. Qed.

Lemma last_opt_decomp {A} (l : list A) x : last_opt l = Some x -> exists a, l = a ++ [x].
Proof.
  induction l as [|y l IH]; [discriminate|]. cbn [last_opt]. destruct l as [|z l].
  - intros E; inversion E; subst. exists []. reflexivity.
  - intros E. destruct (IH E) as [a ->]. exists (y :: a). reflexivity.
Qed.

(* The bytes written end in a line feed exactly when the last line written carries a terminator: the file ends without a
   newline iff its last line is one that has none (an original line that had none, or an added line marked so). *)
Theorem final_newline_iff m ls l :
  last_opt ls = Some l ->
  (nl l = NoNL -> txt l <> [] /\ no_lf (txt l)) ->
  ends_with_lf (lines_bytes m ls) = has_nl l.
Proof.
  intros L W. destruct (last_opt_decomp _ _ L) as [a ->]. rewrite lines_bytes_app. cbn [lines_bytes flat_map]. rewrite app_nil_r.
  unfold ends_with_lf, has_nl, line_bytes. destruct (nl l) eqn:E.
  - rewrite app_assoc. replace (nl_bytes m LF) with ((if match m with MCRLF => true | _ => false end then [13%N] else []) ++ [10%N]) by (destruct m; reflexivity).
    rewrite app_assoc, last_opt_snoc. reflexivity.
  - rewrite app_assoc. replace (nl_bytes m CRLF) with ((match m with MCRLF | MKeep => [13%N] | _ => [] end) ++ [10%N]) by (destruct m; reflexivity).
    rewrite app_assoc, last_opt_snoc. reflexivity.
  - destruct (W eq_refl) as [Hne Hlf]. cbn [nl_bytes]. rewrite app_nil_r.
    destruct (last_opt (lines_bytes m a ++ txt l)) as [c|] eqn:Q; [|reflexivity].
    rewrite last_opt_app_ne in Q by exact Hne. destruct (last_opt_decomp _ _ Q) as [b Eb].
    destruct (N.eq_dec c 10) as [->|Hc].
    + exfalso. apply Hlf. rewrite Eb. apply in_or_app. right. left. reflexivity.
    + destruct c as [|p]; [reflexivity|]. do 4 (destruct p as [p|p|]; try reflexivity). exfalso; apply Hc; reflexivity.
Qed.

(* ---------- what apply_patch writes: original lines and added lines, nothing else ---------- *)
Definition added_line (hs : list hunk) (l : line) : Prop :=
  exists h p, In h hs /\ In p (body h) /\ pop p = Add /\ pl p = l.

Lemma write_hunk_lines f : forall b pos l, In l (fst (write_hunk f pos b)) -> In l f \/ exists p, In p b /\ pop p = Add /\ pl p = l.
Proof.
  induction b as [|p r IH]; intros pos l H; cbn [write_hunk] in H; [destruct H|].
  destruct (pop p) eqn:E.
  - destruct (write_hunk f (S pos) r) as [o e] eqn:W. cbn [fst] in H.
    assert (H' : (exists x, nth_opt f pos = Some x /\ x = l) \/ In l o).
    { destruct (nth_opt f pos); [destruct H as [H|H]; [left; eauto|right; auto]|right; auto]. }
    destruct H' as [(x & Hx & ->)|H'].
    + left. rewrite nth_opt_nth_error in Hx. eapply nth_error_In; eauto.
    + specialize (IH (S pos) l). rewrite W in IH. destruct (IH H') as [?|(q & ? & ? & ?)]; [auto|right; exists q; cbn; auto].
  - destruct (write_hunk f pos r) as [o e] eqn:W. cbn [fst] in H. destruct H as [<-|H].
    + right. exists p. cbn; auto.
    + specialize (IH pos l). rewrite W in IH. destruct (IH H) as [?|(q & ? & ? & ?)]; [auto|right; exists q; cbn; auto].
  - destruct (IH (S pos) l H) as [?|(q & ? & ? & ?)]; [auto|right; exists q; cbn; auto].
Qed.

Lemma splice_lines f : forall b pos l, In l (Spec_Apply.splice f pos b) -> In l f \/ exists p, In p b /\ pop p = Add /\ pl p = l.
Proof.
  induction b as [|p r IH]; intros pos l H; cbn [Spec_Apply.splice] in H; [destruct H|].
  destruct (pop p) eqn:E.
  - apply in_app_or in H. destruct H as [H|H].
    + destruct (nth_error f pos) eqn:N; [|destruct H]. destruct H as [<-|[]]. left. eapply nth_error_In; eauto.
    + destruct (IH _ _ H) as [?|(q & ? & ? & ?)]; [auto|right; exists q; cbn; auto].
  - destruct H as [<-|H]; [right; exists p; cbn; auto|].
    destruct (IH _ _ H) as [?|(q & ? & ? & ?)]; [auto|right; exists q; cbn; auto].
  - destruct (IH _ _ H) as [?|(q & ? & ? & ?)]; [auto|right; exists q; cbn; auto].
Qed.

Lemma In_skipn {A} (x : A) n l : In x (skipn n l) -> In x l.
Proof. intros H. rewrite <- (firstn_skipn n l). apply in_or_app. right. exact H. Qed.
Lemma In_firstn {A} (x : A) n l : In x (firstn n l) -> In x l.
Proof. intros H. rewrite <- (firstn_skipn n l). apply in_or_app. left. exact H. Qed.

Lemma replay_lines f : forall hs vs c out l,
  Spec_Apply.replay f c hs vs = Some out -> In l out -> In l f \/ added_line hs l.
Proof.
  induction hs as [|h hs IH]; intros [|v vs] c out l H I; cbn [Spec_Apply.replay] in H; try discriminate.
  - inversion H; subst. left. eapply In_skipn; eauto.
  - destruct v as [pos fz|].
    + destruct (Nat.leb c pos); [|discriminate].
      destruct (Spec_Apply.replay f (pos + length (old_side (body h))) hs vs) as [r0|] eqn:R; [|discriminate].
      inversion H; subst. apply in_app_or in I. destruct I as [I|I]; [left; eapply In_skipn, In_firstn; eauto|].
      apply in_app_or in I. destruct I as [I|I].
      * destruct (splice_lines _ _ _ _ I) as [?|(q & ? & ? & ?)]; [auto|]. right. exists h, q. cbn; auto.
      * destruct (IH _ _ _ _ R I) as [?|(h' & q & ? & ? & ? & ?)]; [auto|]. right. exists h', q. cbn; auto.
    + destruct (IH _ _ _ _ H I) as [?|(h' & q & ? & ? & ? & ?)]; [auto|]. right. exists h', q. cbn; auto.
Qed.

(* Every line of the patched file is, as an object with its terminator class, a line of the original file or an added line of
   one of the hunks: untouched and context lines keep the terminator the FILE had, added lines the one the PATCH gave them. *)
Theorem apply_output_lines o f p r l :
  define_macro o = [] -> apply_patch o f p = Ok r -> In l (r_out r) ->
  In l f \/ added_line (hunks (r_patch r)) l.
Proof.
  intros Hd E I. destruct (Proofs_Apply.apply_patch_replay o f p r Hd E) as (vs & R & _ & _).
  eapply replay_lines; eauto.
Qed.
