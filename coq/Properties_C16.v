(* Properties_C16.v — C16: only the intended paths are touched.  Statements only; proofs in Proofs_Touch.v / Proofs_World.v.
   Stated over the operation trace of the driver model (Driver.v over World.v). *)
From PatchV Require Import Base Lines Hunk Options Parser World Driver Proofs_World Proofs_Touch.

(* what one section may do, given the file it selected (ftp) and the file it writes (outf: the -o file, the new name of a
   rename/copy, else ftp): see [allowed] in Proofs_Touch.v — reads anywhere; write/chmod/symlink/unlink of outf; rename of
   outf to its backup name; writes of its reject and backup file; mkdir of ancestors of outf or of the reject file; unlink
   of ftp (source of a rename); rmdir of ancestors of a removed file. *)
Theorem section_ops_allowed : forall o st should p s w,
  let ftp := if is_nil (file_to_patch o) then guess_filepath (fs w) (map d_dest (deferred_writes st)) p o else file_to_patch o in
  let outf := output_path o p ftp in
  exists ext, trace (snd (process_section o st should p s w)) = trace w ++ ext /\ Forall (allowed o ftp outf) ext.
Proof. exact Proofs_Touch.section_ops_allowed. Qed.
Print Assumptions section_ops_allowed.

(* the deferred writes of a git-style patch act on their own destination, its backup, nothing else *)
Theorem finalize_ops_allowed : forall o ds st,
  TP (fun op => exists d, In d ds /\ allowed o (d_dest d) (d_dest d) op) (finalize_writes o st ds).
Proof. exact Proofs_Touch.finalize_ops_allowed. Qed.
Print Assumptions finalize_ops_allowed.

Theorem finalize_removals_allowed : forall ws rs,
  TP (fun op => exists p, In p rs /\ (op = OUnlink p \/ exists d, op = ORmdir d /\ is_ancestor d p)) (finalize_removals ws rs).
Proof. exact Proofs_Touch.finalize_removals_allowed. Qed.
Print Assumptions finalize_removals_allowed.

(* and an operation changes nothing outside the paths it names (or the target of a link it writes through): every other
   entry of the tree keeps its kind, bytes and mode *)
Theorem exec_op_frame : forall m um op m' q,
  exec_op m um op = inl m' -> ~ In q (op_paths op) ->
  (forall p t, In p (op_paths op) -> lookup m p = Some (Sym t) -> q <> link_target p t) ->
  lookup m' q = lookup m q.
Proof. exact Proofs_World.exec_op_frame. Qed.
Print Assumptions exec_op_frame.

(* ===== merged from Properties_TouchRun.v ===== *)
From PatchV Require Import Base Lines Hunk Options Parser World Driver Proofs_World Proofs_Touch Proofs_Sections
     Proofs_CrashRun Proofs_TouchRun.

(* ---------- (2) the frame ---------- *)
(* over any history (operations with their results, replayed by Steps): every operation spares q in the tree it runs in *)
Theorem steps_frame : forall w log w' q,
  Steps w log w' -> log_spares w log q -> lookup (fs w') q = lookup (fs w) q.
Proof. exact Proofs_TouchRun.steps_frame. Qed.
Print Assumptions steps_frame.

(* only the operations that succeeded matter: a failed operation leaves the tree alone *)
Theorem steps_frame_ok : forall w log w' q,
  Steps w log w' -> log_spares_ok w log q -> lookup (fs w') q = lookup (fs w) q.
Proof. exact Proofs_TouchRun.steps_frame_ok. Qed.
Print Assumptions steps_frame_ok.

(* the run has such a history, it is the extension of the trace, and the frame holds for it *)
Theorem run_frame : forall o t w,
  exists log, Steps w log (snd (process_patch o t w)) /\
    trace (snd (process_patch o t w)) = trace w ++ map fst log /\
    forall q, log_spares_ok w log q -> lookup (fs (snd (process_patch o t w))) q = lookup (fs w) q.
Proof. exact Proofs_TouchRun.run_frame. Qed.
Print Assumptions run_frame.

(* static form: T bounds the link targets of the initial tree and of the symlinks the run creates; q is not named by an
   operation of the trace extension, and is not where a link with a target in T at a named path would lead *)
Theorem steps_frame_static : forall T w log w' q,
  Steps w log w' ->
  targets_in T (fs w) ->
  (forall t p r, In (OSymlink t p, r) log -> T t) ->
  (forall op r, In (op, r) log -> named_spares T op q) ->
  lookup (fs w') q = lookup (fs w) q.
Proof. exact Proofs_TouchRun.steps_frame_static. Qed.
Print Assumptions steps_frame_static.

Theorem run_frame_static : forall T o t w q,
  targets_in T (fs w) ->
  (forall ext, trace (snd (process_patch o t w)) = trace w ++ ext ->
     (forall tg p, In (OSymlink tg p) ext -> T tg) /\ (forall op, In op ext -> named_spares T op q)) ->
  lookup (fs (snd (process_patch o t w))) q = lookup (fs w) q.
Proof. exact Proofs_TouchRun.run_frame_static. Qed.
Print Assumptions run_frame_static.

Theorem run_frame_nolinks : forall o t w q,
  (forall p tg, lookup (fs w) p <> Some (Sym tg)) ->
  (forall ext, trace (snd (process_patch o t w)) = trace w ++ ext ->
     (forall tg p, ~ In (OSymlink tg p) ext) /\ (forall op, In op ext -> ~ In q (op_paths op))) ->
  lookup (fs (snd (process_patch o t w))) q = lookup (fs w) q.
Proof. exact Proofs_TouchRun.run_frame_nolinks. Qed.
Print Assumptions run_frame_nolinks.

(* ---------- (1) the operations of the run ---------- *)
Theorem loop_run_allowed : forall o f a sa wa fuel st s first w,
  sections_done o f a sa wa st s w -> loop_post o f a sa wa w (section_loop fuel o f st s first w).
Proof. exact Proofs_TouchRun.loop_run_allowed. Qed.
Print Assumptions loop_run_allowed.

Theorem run_ops_allowed : forall o f t w,
  format_from_options o = Ok f ->
  exists ext, trace (snd (process_patch o t w)) = trace w ++ ext /\ Forall (run_allowed o f ds0 (stream_of t) w) ext.
Proof. exact Proofs_TouchRun.run_ops_allowed. Qed.
Print Assumptions run_ops_allowed.

(* ---------- the example: two sections (f, g) and the bystander h ---------- *)
Example bystander_unchanged :
  lookup (fs (snd (process_patch ex_o ex_t tr_w))) (bs "h") = Some (Reg (bs "bystander" ++ nlb) 384).
Proof. exact Proofs_TouchRun.bystander_unchanged. Qed.
Print Assumptions bystander_unchanged.
