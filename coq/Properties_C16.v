(* Properties_C16.v — C16: only the intended paths are touched.  Statements only; proofs in Proofs_Touch.v / Proofs_World.v.
   Stated over the operation trace of the driver model (Driver.v over World.v). *)
From PatchV Require Import Base Lines Hunk Options Parser World Driver Proofs_World Proofs_Touch.

(* what one section may do, given the file it selected (ftp) and the file it writes (outf: the -o file, the new name of a
   rename/copy, else ftp): see [allowed] in Proofs_Touch.v — reads anywhere; write/chmod/symlink/unlink of outf; rename of
   outf to its backup name; writes of its reject and backup file; mkdir of ancestors of outf or of the reject file; unlink
   of ftp (source of a rename); rmdir of ancestors of a removed file. *)
Theorem section_ops_allowed : forall o st should p s w,
  let ftp := if is_nil (file_to_patch o) then guess_filepath (fs w) (map d_dest (deferred_writes st)) p o else file_to_patch o in
  let outf := output_path o p ftp in
  exists ext, trace (snd (process_section o st should p s w)) = trace w ++ ext /\ Forall (allowed o ftp outf) ext.
Proof. exact Proofs_Touch.section_ops_allowed. Qed.
Print Assumptions section_ops_allowed.

(* the deferred writes of a git-style patch act on their own destination, its backup, nothing else *)
Theorem finalize_ops_allowed : forall o ds st,
  TP (fun op => exists d, In d ds /\ allowed o (d_dest d) (d_dest d) op) (finalize_writes o st ds).
Proof. exact Proofs_Touch.finalize_ops_allowed. Qed.
Print Assumptions finalize_ops_allowed.

Theorem finalize_removals_allowed : forall ws rs,
  TP (fun op => exists p, In p rs /\ (op = OUnlink p \/ exists d, op = ORmdir d /\ is_ancestor d p)) (finalize_removals ws rs).
Proof. exact Proofs_Touch.finalize_removals_allowed. Qed.
Print Assumptions finalize_removals_allowed.

(* and an operation changes nothing outside the paths it names (or the target of a link it writes through): every other
   entry of the tree keeps its kind, bytes and mode *)
Theorem exec_op_frame : forall m um op m' q,
  exec_op m um op = inl m' -> ~ In q (op_paths op) ->
  (forall p t, In p (op_paths op) -> lookup m p = Some (Sym t) -> q <> link_target p t) ->
  lookup m' q = lookup m q.
Proof. exact Proofs_World.exec_op_frame. Qed.
Print Assumptions exec_op_frame.
